DEFAULT_TRUSTED = [
    "Lean 4.33.0 kernel; axioms propext, Classical.choice, Quot.sound only (audited per theorem with #print axioms)",
    "hand-written Lean model MinterModel (validated against the Go code by the correspondence harness on every run)",
    "Go harness + canonical dump (node's own Export at every commit) and extractor",
    "Go runtime, math/big, IAVL, tm-db/goleveldb, Tendermint ABCI types",
]

def camp(profile, q, t):
    return {'profile': profile, 'n_quick': q, 'n_thorough': t}

PROPS = {}
PROPS['C01'] = {
    'level': 'proof',
    'theorems': [],
    'campaigns': [camp('ledger', 16, 200), camp('orders', 8, 100), camp('staking', 8, 100)],
    'assumptions': ['export at every commit is the abstraction function'],
}
PROPS['C02'] = {
    'level': 'proof',
    'theorems': [],
    'campaigns': [camp('ledger', 16, 200), camp('orders', 8, 100), camp('staking', 8, 100)],
}
PROPS['C07'] = {
    'level': 'proof',
    'theorems': [],
    'panics_count': True,
    'campaigns': [camp('malformed', 16, 200), camp('mixed', 16, 200), camp('staking', 8, 100), camp('orders', 8, 100)],
}
