DEFAULT_TRUSTED = [
    "Lean 4.33.0 kernel; axioms propext, Classical.choice, Quot.sound only (audited per theorem with #print axioms)",
    "hand-written Lean model MinterModel (validated against the Go code by the correspondence harness on every run)",
    "Go harness + canonical dump (node's own Export at every commit) and extractor",
    "Go runtime, math/big, IAVL, tm-db/goleveldb, Tendermint ABCI types",
]

def camp(profile, q, t):
    return {'profile': profile, 'n_quick': q, 'n_thorough': t}

PROPS = {}
LEDGER_THMS = ['Minter.balanced_preserves', 'Minter.planOf_balanced', 'Minter.Move.balanced', 'Minter.checked_holdings', 'Minter.checked_volume', 'Minter.checked_side']
MODEL_NOTE = 'Theorems are about the Lean model (MinterModel); transaction types not yet in the model are listed in DESIGN.md and are covered only by the monitors evaluated on the real node'
PROPS['C01'] = {
    'level': 'proof',
    'theorems': LEDGER_THMS + ['Minter.C01_deliver_conserves', 'Minter.C01_block_body_conserves'],
    'campaigns': [camp('ledger', 16, 200), camp('orders', 8, 100), camp('staking', 8, 100)],
    'mismatch_counts': True,
    'assumptions': ['the node\'s own export at every commit (re-read from disk) is the abstraction function', MODEL_NOTE],
}
PROPS['C02'] = {
    'level': 'proof',
    'theorems': [],
    'campaigns': [camp('ledger', 16, 200), camp('orders', 8, 100), camp('staking', 8, 100)],
}
PROPS['C03'] = {
    'level': 'proof',
    'theorems': ['Minter.C03_reject_fee_only', 'Minter.C04_nonce_effect', 'Minter.prologue_ne_zero'],
    'campaigns': [camp('malformed', 16, 200), camp('ledger', 8, 100)],
    'mismatch_counts': True,
    'assumptions': [MODEL_NOTE],
}
PROPS['C04'] = {
    'level': 'proof',
    'theorems': ['Minter.C04_accept_in_order', 'Minter.C04_nonce_effect', 'Minter.C04_replay_rejected', 'Minter.prologue_none'],
    'campaigns': [camp('malformed', 16, 200), camp('mixed', 8, 100)],
    'mismatch_counts': True,
    'assumptions': [MODEL_NOTE],
}
PROPS['C05'] = {
    'level': 'proof',
    'theorems': ['Minter.C05_balance_only_sender', 'Minter.C05_moves_need_authorization', 'Minter.move_debit_guard', 'Minter.deliver_moves_guarded'],
    'campaigns': [camp('malformed', 16, 200), camp('mixed', 8, 100)],
    'mismatch_counts': True,
    'assumptions': [MODEL_NOTE, 'secp256k1 recovery is an oracle: the theorem speaks about the addresses the real RecoverPlain returned'],
}
PROPS['C07'] = {
    'level': 'proof',
    'theorems': [],
    'panics_count': True,
    'campaigns': [camp('malformed', 16, 200), camp('mixed', 16, 200), camp('staking', 8, 100), camp('orders', 8, 100)],
}

PROPS['C09'] = {'level': 'proof', 'theorems': [], 'campaigns': [camp('mixed', 16, 200), camp('staking', 8, 100), camp('orders', 8, 100)]}
PROPS['C13'] = {'level': 'proof', 'theorems': [], 'campaigns': [camp('orders', 24, 200)]}
PROPS['C14'] = {'level': 'proof', 'theorems': [], 'campaigns': [camp('orders', 24, 200)]}
PROPS['C16'] = {'level': 'proof', 'theorems': [], 'campaigns': [camp('staking', 24, 200), camp('ledger', 8, 100)]}
PROPS['C17'] = {'level': 'proof', 'theorems': [], 'campaigns': [camp('staking', 24, 200)]}
PROPS['C18'] = {'level': 'proof', 'theorems': [], 'campaigns': [camp('staking', 24, 200), camp('ledger', 8, 100)]}
PROPS['C19'] = {'level': 'proof', 'theorems': [], 'campaigns': [camp('staking', 24, 200), camp('ledger', 8, 100)]}
PROPS['C20'] = {'level': 'proof', 'theorems': [], 'campaigns': [camp('governance', 32, 300), camp('staking', 8, 100)]}

for _p in ['C06','C15','C22','C27']:
    PROPS[_p] = {'level': 'proof', 'theorems': [], 'campaigns': [camp('checktx', 12, 100), camp('orders', 12, 100), camp('ledger', 8, 100)]}

PROPS['C08'] = {'level': 'proof', 'theorems': [], 'modes': [{'mode': 'determinism', 'args': ['-profile', 'mixed', '-seed', '{seed}', '-n', '4', '-tier', '{tier}', '-keep', '{keep}']}]}
PROPS['C09']['modes'] = [{'mode': 'restart', 'args': ['-profile', 'mixed', '-seed', '{seed}', '-n', '6', '-tier', '{tier}', '-keep', '{keep}']}]
PROPS['C11'] = {'level': 'proof', 'theorems': [], 'modes': [{'mode': 'export', 'args': ['-profile', 'mixed', '-seed', '{seed}', '-n', '16', '-tier', '{tier}', '-keep', '{keep}']}]}
