DEFAULT_TRUSTED = [
    "Lean 4.33.0 kernel; axioms propext, Classical.choice, Quot.sound only (audited per theorem with #print axioms)",
    "hand-written Lean model MinterModel (validated against the Go code by the correspondence harness on every run)",
    "Go harness + canonical dump (node's own Export at every commit) and extractor",
    "Go runtime, math/big, IAVL, tm-db/goleveldb, Tendermint ABCI types",
]

def camp(profile, q, t, extra=None):
    c = {'profile': profile, 'n_quick': q, 'n_thorough': t}
    if extra:
        c['extra'] = list(extra)   # additional harness flags for this campaign
    return c

PROPS = {}
HOOK_COMMITS = ['bda95c1', '20cf912', '8f0e177']
LEDGER_THMS = ['Minter.balanced_preserves', 'Minter.planOf_balanced', 'Minter.Move.balanced', 'Minter.checked_holdings', 'Minter.checked_volume', 'Minter.checked_side']
MODEL_NOTE = 'Theorems are about the Lean model (MinterModel); transaction types not yet in the model are listed in DESIGN.md and are covered only by the monitors evaluated on the real node'
PROPS['C01'] = {
    'level': 'proof',
    'modules': ['MinterProofs.Props.C01', 'MinterProofs.Props.C01Block'],
    'theorems': LEDGER_THMS + ['Minter.C01_deliver_conserves', 'Minter.C01_block_body_conserves',
                 # block level (block builder): BeginBlock ; transactions ; EndBlock, any run of blocks
                 'Minter.endBlock_conserves', 'Minter.C01_block_books', 'Minter.C01_block', 'Minter.C01_run_books', 'Minter.C01_main',
                 'Minter.deliverTxs_books', 'Minter.valUpdateStep_books', 'Minter.beginBlock_mint', 'Minter.payoutsOf_eq_payoutAll',
                 'Minter.endDefect_zero_overMint', 'Minter.endDefect_zero_lost', 'Minter.endDefect_zero_valUpdate', 'Minter.carry_zero',
                 'Minter.C01_block_example', 'Minter.C01_defect_example'],
    # the 64-block orders campaign reaches order expiry (first possible at block 42 of a history) also in the quick tier
    'campaigns': [camp('ledger', 16, 200), camp('orders', 8, 100), camp('staking', 8, 100), camp('orders', 8, 24, extra=['-histblocks', '64'])],
    'mismatch_counts': True,
    'assumptions': ['the node\'s own export at every commit (re-read from disk) is the abstraction function', MODEL_NOTE],
}
PROPS['C03'] = {
    'level': 'proof',
    # the property defines the effect of a rejected transaction (fee to the payer, capped at the payer's balance, nothing else): the
    # model's failure branch is that definition, so a node/model difference on a delivered transaction is a failing input for C03
    'mismatch_is_failing_input': True,
    'modules': ['MinterProofs.Props.C04'],
    'theorems': ['Minter.C03_reject_fee_only', 'Minter.C04_nonce_effect', 'Minter.prologue_ne_zero'],
    'campaigns': [camp('malformed', 16, 200), camp('ledger', 8, 100), camp('pricecoin', 8, 60)],   # pricecoin: the failed-tx fee is converted from a custom table coin
    'mismatch_counts': True,
    'assumptions': [MODEL_NOTE],
}
PROPS['C04'] = {
    'level': 'proof',
    'modules': ['MinterProofs.Props.C04'],
    'theorems': ['Minter.C04_accept_in_order', 'Minter.C04_nonce_effect', 'Minter.C04_replay_rejected', 'Minter.prologue_none'],
    'campaigns': [camp('malformed', 16, 200), camp('mixed', 8, 100)],
    'mismatch_counts': True,
    'assumptions': [MODEL_NOTE],
}
PROPS['C05'] = {
    'level': 'proof',
    'modules': ['MinterProofs.Props.C05'],
    'theorems': ['Minter.C05_balance_only_sender', 'Minter.C05_holdings_only_sender', 'Minter.C05_moves_need_authorization', 'Minter.move_debit_guard', 'Minter.move_holdings_guard', 'Minter.deliver_moves_guarded', 'Minter.issuer_none_of_not_redeem'],
    'campaigns': [camp('malformed', 16, 200), camp('mixed', 8, 100)],
    'mismatch_counts': True,
    'assumptions': [MODEL_NOTE, 'secp256k1 recovery is an oracle: the theorem speaks about the addresses the real RecoverPlain returned'],
}

PROPS['C09'] = {'level': 'proof', 'theorems': [], 'campaigns': [camp('mixed', 16, 200), camp('staking', 8, 100), camp('orders', 8, 100)]}
PROPS['C13'] = {'level': 'proof', 'modules': ['MinterProofs.Props.C13'], 'theorems': ['Minter.buyForSell_K', 'Minter.sellForBuy_K', 'Minter.checkSwap_sound', 'Minter.burn_le_share', 'Minter.mint_then_burn_le', 'Minter.startingSupply_sq'], 'campaigns': [camp('orders', 16, 200)], 'modes': [{'mode': 'kernels', 'args': ['-seed', '{seed}', '-n', '{n:3000:60000}', '-driver', '{driver}', '-keep', '{keep}']}]}
PROPS['C14'] = {'level': 'proof', 'theorems': [], 'campaigns': [camp('orders', 24, 200)]}
PROPS['C16'] = {'level': 'proof', 'theorems': [], 'campaigns': [camp('staking', 24, 200), camp('ledger', 8, 100)]}
PROPS['C17'] = {'level': 'proof', 'theorems': [], 'campaigns': [camp('staking', 24, 200)]}
PROPS['C18'] = {'level': 'proof', 'theorems': [], 'campaigns': [camp('staking', 24, 200), camp('ledger', 8, 100)]}
PROPS['C19'] = {'level': 'proof', 'theorems': [], 'campaigns': [camp('staking', 24, 200), camp('ledger', 8, 100)]}
PROPS['C20'] = {'level': 'proof', 'theorems': [], 'campaigns': [camp('governance', 32, 300), camp('staking', 8, 100), camp('govrestart', 8, 60)]}

for _p in []:   # C06, C15, C22: tx builder block below; C27: rules builder block below
    PROPS[_p] = {'level': 'proof', 'theorems': [], 'campaigns': [camp('checktx', 12, 100), camp('orders', 12, 100), camp('ledger', 8, 100)]}

PROPS['C08'] = {'level': 'proof', 'modules': ['MinterProofs.Props.C08'], 'theorems': ['Minter.C08_commit_perm_invariant', 'Minter.C08_accumulate_perm_invariant', 'Minter.C08_rank_perm_invariant', 'Minter.C08_range_sites_safe', 'Minter.C08_commit_call_order'], 'modes': [{'mode': 'determinism', 'args': ['-profile', 'mixed', '-seed', '{seed}', '-n', '4', '-tier', '{tier}', '-keep', '{keep}']}]}
PROPS['C09']['modes'] = [{'mode': 'restart', 'args': ['-profile', 'mixed', '-seed', '{seed}', '-n', '6', '-tier', '{tier}', '-keep', '{keep}']}]


# ---------------------------------------------------------------------------------------------------------------
# Integrated builder components: checks run (./check Cxx works), 'registered': False until the claim is reviewed;
# 'claim_draft' is the proposed CLAIMS text.
PROPS['C23'] = {
    'level': 'proof', 'registered': False,
    'modules': ['MinterProofs.Props.C23'],
    'theorems': ['Minter.Rlp.encode_decode', 'Minter.Rlp.decode_inj', 'Minter.Rlp.decode_encode', 'Minter.Rlp.decode_fuel_irrelevant',
                 'Minter.Rlp.decode_prefix_free', 'Minter.Rlp.decode_no_trailing', 'Minter.Rlp.asUint_canonical', 'Minter.Rlp.uint_canonical',
                 'Minter.Rlp.encodeTx_decodeTx', 'Minter.Rlp.decodeTx_encodeTx', 'Minter.Rlp.decodeTx_wf', 'Minter.Rlp.decodeTx_inj',
                 'Minter.Rlp.accepts_reencode', 'Minter.Rlp.acceptsTx_reencode', 'Minter.Rlp.check_reencode',
                 'Minter.Rlp.encodeSig_decodeSig', 'Minter.Rlp.decodeSig_encodeSig', 'Minter.Rlp.decodeSig_inj',
                 'Minter.Rlp.validSig_iff', 'Minter.Rlp.highS_rejected', 'Minter.Rlp.highS_flip_rejected', 'Minter.Rlp.bad_v_rejected',
                 'Minter.Rlp.zero_sig_rejected', 'Minter.Rlp.out_of_range_rejected', 'Minter.Rlp.single_sig_encoding_unique',
                 'Minter.Rlp.multisig_signature_list_not_canonical'],
    'modes': [{'mode': 'rlp', 'args': ['-seed', '{seed}', '-n', '{n:3000:30000}', '-driver', '{driver}', '-keep', '{keep}']}],
    'assumptions': ['ECDSA recovery and Keccak are oracles: Ecrecover returns the key that signed the hash; the only third-party transformation of a signature is (v xor 1, r, N-s); the hash determines the nine signed fields',
                    'equivalence of Go\'s streaming typed decoders with generic decode + schema conformance is established by the differential mode, not by proof',
                    'size limits outside C23 (maxTxLength 16144, payload 10000, service data 128) are not modelled'],
    'claim_draft': "Lean theorems (MinterProofs/Props/C23.lean, core Lean only, for all byte strings / items / naturals): the strict RLP decoder accepts nothing but the encoder's output for the item it returns and no item has two accepted encodings (encode_decode, decode_inj, decode_encode under the uint64 length bound, decode_prefix_free, decode_no_trailing, decode_fuel_irrelevant); integers are accepted only as minimal big-endian bytes within their width (uint_canonical, asUint_canonical); the outer transaction, every one of the 37 data structs GetDataV3 resolves to, Signature/SignatureMulti and check.Check re-encode to exactly the bytes that were accepted (encodeTx_decodeTx, decodeTx_encodeTx, decodeTx_wf, decodeTx_inj, accepts_reencode, acceptsTx_reencode, check_reencode, encodeSig_decodeSig, decodeSig_encodeSig, decodeSig_inj); the signature-value check has the closed form V in {27,28}, 1<=r<N, 1<=s<=N/2 (validSig_iff) so the high-S twin, any other V, zero and out-of-range values are rejected (highS_rejected, highS_flip_rejected, bad_v_rejected, zero_sig_rejected, out_of_range_rejected); hence for single-signature transactions the accepted bytes are a function of (signed content, v, r, s) (single_sig_encoding_unique). Tie: mode rlp runs the real rlp.DecodeBytes/EncodeToBytes, DecodeFromBytes of the executor, tx.Sender(), check decoding and Serialize() against the Lean definitions on generated items, all 37 transaction types (single and multisig), structurally mutated / non-canonically re-encoded / corrupted bytes and signature edge triples (Q functions rlpdec rlpenc beint uintdec uintenc txdec txenc txfull sigdec msigdec sigok chkdec), and checks on the real code that flipping v or s is rejected. Partial: ECDSA/Keccak are oracles; the last clause of C23 fails for SignatureType=2 - the signature list of a multisig transaction is not covered by tx.Hash and is accepted in any order / trimmed / padded (multisig_signature_list_not_canonical states the boundary on real bytes; the mode reproduces it on the node and reports it as the known finding multisig-signature-malleability).",
}

PROPS['C12'] = {
    'level': 'proof', 'registered': False,
    'modules': ['MinterProofs.Props.C12'],
    'theorems': ['Minter.C12_partial',
                 'Minter.saleReturnCert_nonneg', 'Minter.saleReturnCert_le_reserve', 'Minter.saleReturnCert_mono',
                 'Minter.saleReturnCert_all', 'Minter.saleReturnCert_zero',
                 'Minter.purchaseReturnCert_nonneg', 'Minter.purchaseReturnCert_mono',
                 'Minter.purchaseAmountCert_nonneg', 'Minter.purchaseAmountCert_mono',
                 'Minter.saleAmountCert_nonneg', 'Minter.saleAmountCert_le_supply', 'Minter.saleAmountCert_mono',
                 'Minter.roundTrip_purchaseReturn_saleReturn', 'Minter.roundTrip_purchaseAmount_saleReturn',
                 'Minter.saleReturnInt_cert', 'Minter.purchaseReturnInt_cert', 'Minter.purchaseAmountInt_cert', 'Minter.saleAmountInt_cert',
                 'Minter.saleReturnInt_all', 'Minter.saleReturnInt_range', 'Minter.saleReturnInt_mono',
                 'Minter.purchaseReturnInt_mono', 'Minter.purchaseAmountInt_mono', 'Minter.saleAmountInt_mono',
                 'Minter.roundTripInt_purchaseReturn_saleReturn', 'Minter.roundTripInt_purchaseAmount_saleReturn',
                 'Minter.roundTripInt_purchaseReturn_saleAmount'],
    'modes': [{'mode': 'bancor', 'args': ['-seed', '{seed}', '-n', '0', '-tier', '{tier}', '-driver', '{driver}', '-keep', '{keep}']},
              {'mode': 'kernels', 'args': ['-seed', '{seed}', '-n', '300', '-driver', '{driver}', '-keep', '{keep}']}],  # integer branches, exact
    'assumptions': ['the float branch is validated per input (translation validation): every result of the real formula.* on the generated inputs is judged by the exact Lean certificate; accuracy of the Go float pipeline for ALL inputs is not proved',
                    'the four tolerances (Bancor.lean: result/2^k1 + scale/2^k2 + 1 pip) are measured maxima times 1000, fixed in the model, not derived'],
    'claim_draft': "Partial. Lean theorems (MinterProofs/Props/C12.lean; for all supplies v>0, reserves R>0, amounts and CRR): the integer branches of formula.CalculateSaleReturn/PurchaseReturn/PurchaseAmount/SaleAmount (crr=100, amount 0, sell-all) are exact - range, monotonicity, sell-all = reserve, buy-then-sell never returns more than was paid (saleReturnInt_all/_range/_mono, purchaseReturnInt_mono, purchaseAmountInt_mono, saleAmountInt_mono, roundTripInt_*), and each integer result satisfies the exact certificate with tolerance 0 (*Int_cert). For the big.Float branch the theorems are about CERTIFIED results: whenever the decidable exact certificate (natural powers of integers, all bases guarded non-negative) accepts a claimed result r with tolerance d, then -d <= r, a sale returns at most R+d (v+d for saleAmount), results are monotone in the amount up to d+d', selling the whole supply returns the reserve, and buy-then-sell returns at most the payment plus the stated tolerance terms (*Cert_nonneg, *_le_reserve, *_le_supply, *Cert_mono, saleReturnCert_all/_zero, roundTrip_purchaseReturn_saleReturn, roundTrip_purchaseAmount_saleReturn); C12_partial bundles the eleven clauses for results accepted by exactly the predicates the driver evaluates. Tie (translation validation): mode bancor calls the real formula.Calculate* on generated inputs (reachable / wide / degenerate classes, every CRR 10..100, magnitudes up to 10^33 and beyond 2^100) and the Lean certificate, the exact range/monotonicity/sell-all monitors and the round-trip bounds judge every result; integer-branch results must be equal; mode kernels covers the integer kernels. Partial: that the Go float pipeline (big.Float prec 100, exponent passed as float64) satisfies the certificate for ALL inputs is not proved (needs a bit-exact model of math.Exp); tolerances are measured, not derived; no round-trip theorem for saleAmount on float results. Found by this check and repaired in /repo f522538 (F26): for reserves above 2^100 pip CalculateSaleReturn returned more than the reserve (and more than selling the whole supply), by at most 1024 pip; the Lean evaluator still tags that symptom (model=sale-return-exceeds-reserve / non-monotone-at-whole-supply) should it reappear.",
}

PROPS['C24'] = {
    'level': 'proof', 'registered': False,   # partial: the bound (65 534 distinct validator keys) is sharp, see C24Bound
    'modules': ['MinterProofs.Props.C24', 'MinterProofs.Props.C24Bound'],
    'theorems': ['Minter.Ev.C24_load_commit_partial', 'Minter.Ev.C24_load_stable', 'Minter.Ev.C24_load_stable_run',
                 'Minter.Ev.C24_restart_transparent', 'Minter.Ev.C24_tables_injective', 'Minter.Ev.C24_run_faithful',
                 'Minter.Ev.C24_run_total', 'Minter.Ev.C24_restart_breaks_at_65535', 'Minter.Ev.C24_nokey_breaks_at_65536'],
    # the tier flag also switches the four id-width sequences on (thorough only)
    'modes': [{'mode': 'events', 'args': ['-seed', '{seed}', '-n', '{n:300:600}', '-tier', '{tier}', '-driver', '{driver}', '-keep', '{keep}']}],
    'assumptions': ['tmjson Marshal/Unmarshal of a compacted batch is the identity (exercised by the direct monitor of the mode, not modelled)',
                    'event strings are valid UTF-8 (the node only stores decimal numbers and [a-zA-Z0-9_]{1,20} version names)',
                    'tm-db/goleveldb Get after Set returns the value written (exercised, not modelled)'],
    'claim_draft': "Lean theorems about the model of eventsStore (MinterModel/Events.lean: disk tables + in-memory id caches, uint16/uint32 id arithmetic modelled literally), for every sequence of commit/load/restart operations from an empty DB in which at most 65 534 distinct validator public keys and 2^32-1 distinct addresses occur and every event is well formed (known role, amount >= 0, coin/order ids < 2^32): committing a batch and loading its height returns exactly the batch, every field of every event (C24_load_commit_partial); later commits at other heights, loads and restarts never change what a height loads (C24_load_stable, C24_load_stable_run, C24_restart_transparent); the id<->key and id<->address tables stay injective in the cache and on disk (C24_tables_injective); such a run never panics and afterwards every height loads the batch last committed there (C24_run_total, C24_run_faithful). The bound is sharp, proved on concrete witnesses: with 65 535 distinct keys a restart loses the key table (C24_restart_breaks_at_65535), and the 65 536th key gets id 0 so an unbond event without key loads back with a key (C24_nokey_breaks_at_65536) - the property text ('however many ... have appeared') is false beyond the bound. Tie: mode events drives the real events.NewEventsStore on MemDB and on goleveldb (really closed and reopened) with generated commit/load/restart sequences incl. a malformed stream; (1) direct monitor: every loaded batch equals the committed one token by token, (2) the Lean model must predict every load, panics included (Q evstore / evstoreh). Thorough additionally replays the four id-width sequences on the real store and reports the defect (known finding id-width-6553[56]-...). Partial: JSON encoding of a compacted batch and the DB are trusted (exercised only).",
}

# persist builder: C09 (app-DB layer proved; keeps its campaigns and the 'restart' twins mode), C10, C29
PROPS['C09'].update({
    'registered': False,
    'modules': ['MinterProofs.Props.C09'],
    'theorems': ['Minter.Persist.commit_flushes', 'Minter.Persist.restart_bisim', 'Minter.Persist.restart_bisim_initial'],
    'assumptions': ['state-module caches (order-book lists, candidates/stakes, dirty flags in state/*), IAVL node storage, goleveldb and the events DB contents are bound by the harness only (restart twins, crash mode: full exports, responses, hashes, LoadEvents compared)',
                    'OpsOK: no block sets the emission to 0 (SaveEmission writes emission.Bytes(), empty for 0, read back as nil: emission_zero_lost)'],
    'claim_draft': "Lean theorems about the app-DB layer (MinterModel/Persist.lean: the eight persisted records, the Go struct's caches and dirty flags with exactly what each getter caches, the write sequence of Blockchain.Commit with its real guards, NewMinterBlockchain/initState lazy loads): after any block a restart from disk succeeds and every getter (Info height and hash, start height, validators, block-time delta, versions, emission, price) of the new process equals the running one, nothing is pending (commit_flushes); for every history with restarts inserted after any blocks, several in a row included, the list of all getter answers after every block equals that of the never-restarted node and both halt together (restart_bisim; restart_bisim_initial with a restart before the first block). Tie: Q commitorder (crash mode) compares the logged write sequence of every real Commit with the model's; restart twins (mode restart) and the mixed/staking/orders campaigns compare full exports, responses and app hashes of restarted and unrestarted real nodes. Partial: the state-module caches (order books, candidates, stakes), IAVL and goleveldb are outside the Lean model and covered by the twins only. Known finding (genesis boundary): InitChain calls updateValidators after the genesis commit, so a node restarted between InitChain and the first block executes that block on different state (other app hash) - reported by the crash mode with the prefix 'genesis-boundary:' (message contains 'first block after InitChain').",
})
PROPS['C09']['modes'] = PROPS['C09'].get('modes', []) + [
    # first block after InitChain (history 0 of the crash mode): restart between InitChain and the first block
    {'mode': 'crash', 'args': ['-profile', 'mixed', '-seed', '{seed}', '-n', '1', '-tier', '{tier}', '-driver', '{driver}', '-keep', '{keep}']}]
PROPS['C10'] = {
    'level': 'proof', 'registered': False,
    'modules': ['MinterProofs.Props.C10'],
    'theorems': ['Minter.Persist.crash_recoverable_partial', 'Minter.Persist.crash_then_continue', 'Minter.Persist.crash_after_height',
                 'Minter.Persist.recovered_iff_nothing_lost', 'Minter.Persist.crash_recoverable_atomic', 'Minter.Persist.crash_not_recoverable'],
    'modes': [{'mode': 'crash', 'args': ['-profile', 'mixed', '-seed', '{seed}', '-n', '6', '-tier', '{tier}', '-driver', '{driver}', '-keep', '{keep}']},
              {'mode': 'crash', 'args': ['-profile', 'governance', '-seed', '{seed}', '-n', '3', '-tier', '{tier}', '-driver', '{driver}', '-keep', '{keep}']}],
    'assumptions': ['"replaying block h yields the same root hash" is an input of the model (Block.hash); torn writes inside one tm-db batch, fsync ordering between the three DBs on power loss, Tendermint\'s WAL and light-client checks are outside',
                    'IAVL SaveVersion of an existing version with the same hash is accepted without a DB write (read in iavl v0.17.3 mutable_tree.go)',
                    'crash during InitChain itself is not modelled (outside the wording "committing block h")'],
    'claim_draft': "Lean theorems about the commit/crash/recover model (MinterModel/Persist.lean), for every coherent node flushed at h-1 (Boundary), every block and every prefix length k of the write sequence of Commit(h) (events, tree SaveVersion, prune, app-DB records): with the atomic app-DB batch that /repo has since fix-C10 every k recovers - restart succeeds, Info reports a height the handshake can replay from, re-delivering the block is accepted by the tree and the node has the same logical content and tree as the uncrashed one (crash_recoverable_atomic), and all later observations coincide (crash_then_continue); for the original seven separate writes the recoverable prefixes are exactly those up to 'hash' plus the complete commit (crash_recoverable_partial, crash_after_height, recovered_iff_nothing_lost) and a concrete witness refutes the property for that order (crash_not_recoverable) - the defect fix-C10 repaired. Tie: crash mode wraps all three DBs of the real node, logs every atomic write, materialises a fresh goleveldb from every prefix of sampled commits (first block, version-update, price-change, validator-update blocks, random), restarts the real node, applies the handshake rule, re-delivers and compares app hash, Info, full export, app-DB getters, LoadEvents and the next 3 blocks with the never-crashed node; Q commitorder / Q crashinfo: the model (told whether the code batched) must predict the logged write sequence and the Info of every crashed node. Partial: state-module internals, IAVL, goleveldb and fsync ordering are exercised, not modelled. Known finding (genesis boundary, not repaired by fix-C10): crash points of the first Commit after InitChain before 'height' is written do not recover, because InitChain changes state in memory after the genesis commit.",
}
PROPS['C29'] = {
    'level': 'proof', 'registered': False,
    'modules': ['MinterProofs.Props.C29'],
    'theorems': ['Minter.Persist.snapshot_fun_of_disk', 'Minter.Persist.snapshot_same_on_every_node', 'Minter.Persist.restore_info', 'Minter.Persist.restore_bisim'],
    'modes': [{'mode': 'snapshot', 'args': ['-profile', 'mixed', '-seed', '{seed}', '-n', '4', '-tier', '{tier}', '-keep', '{keep}']},
              {'mode': 'snapshot', 'args': ['-profile', 'staking', '-seed', '{seed}', '-n', '3', '-tier', '{tier}', '-keep', '{keep}']}],
    'assumptions': ['cosmos-sdk snapshot chunking / zlib / protobuf, IAVL export/import and Tendermint\'s light-client check of the offered app hash are outside the model (the first three are exercised by the snapshot mode)'],
    'claim_draft': "Lean theorems about the app-DB/tree model (MinterModel/Persist.lean): the snapshot at height h is a function of the flushed disk content (snapshot_fun_of_disk), so every node that committed the same blocks - under any restart pattern - produces the same snapshot or both halt (snapshot_same_on_every_node); a node restored from it starts, reports the producer's height and app hash and has the same logical content, the tree agreeing from h upwards (restore_info); all later observations of the restored node equal those of the node that executed every block although its tree holds only version h (restore_bisim, TreeAgree: pruning decisions may differ below h). Tie: mode snapshot drives the real ListSnapshots/LoadSnapshotChunk/OfferSnapshot/ApplySnapshotChunk between real nodes of generated histories (mixed, staking), compares the chunks of two producers, Info after restore, then responses, app hashes, full exports and app-DB getters of restored vs replaying node for the following blocks. Partial: no Q-level tie for this property (monitor on the real node only); chunk encoding, IAVL import and the light-client check are trusted/exercised.",
}

# begin builder: BeginBlock model (absences, byzantine punishment, frozen-fund maturity) of the fixed code (/repo ecfb9df)
BEGIN_MODE = {'mode': 'beginq', 'args': ['-seed', '{seed}', '-n', '{n:3000:60000}', '-driver', '{driver}', '-keep', '{keep}']}
BEGIN_ASSUMPTIONS = ['Tendermint address = injective function of the public key on the keys present (the model finds the validator by address and the candidate by that validator\'s key)',
                     'State.frozen is sorted by height (true for State.ofDump / Export): the model slashes in list order, Go in height order',
                     'CalculateSaleReturn of custom-coin slashes is an oracle (answered by the real function over the line protocol, recorded in the trace)',
                     'the live projection (read-only getters + the verif hooks VerifUpdates / lock-stake getter) is the abstraction function',
                     MODEL_NOTE]
PROPS['C16'] = {
    'level': 'proof', 'registered': False,
    'modules': ['MinterProofs.Props.C16'],
    'theorems': ['Minter.frozen_released_only_when_due', 'Minter.not_due_survives', 'Minter.no_evidence_funds_untouched',
                 'Minter.balances_only_matured', 'Minter.balance_unchanged_without_due_fund', 'Minter.due_fund_is_paid',
                 'Minter.move_never_to_balance', 'Minter.unbond_to_balance', 'Minter.move_to_missing_target_unbonds', 'Minter.moves_reach_target',
                 'Minter.leave_creates_frozen', 'Minter.removal_funds_due', 'Minter.unbond_due', 'Minter.locked_cannot_unbond',
                 'Minter.move_due_and_target_exists', 'Minter.move_to_unknown_rejected', 'Minter.lock_due'],
    'campaigns': [camp('staking', 16, 200), camp('begin', 8, 60), camp('ledger', 8, 100), camp('prune', 4, 24)],   # prune: 104 candidates, moves in flight towards candidates that get pruned
    'mismatch_counts': True,
    'assumptions': BEGIN_ASSUMPTIONS,
    'claim_draft': "Lean theorems about the BeginBlock model (MinterModel/BeginBlock.lean: absences, byzantine punishment, maturity of frozen funds, in the order of Blockchain.BeginBlock) and the fund-creating side of Unbond/MoveStake/Lock/candidate removal, for all states, requests and oracle answers: after BeginBlock at h the frozen funds are the old ones (every field unchanged except a value cut once per matching punishment) plus remainder funds all due h+unbond, minus exactly the funds stored under h; no fund with another height is released and nothing returns earlier (frozen_released_only_when_due, not_due_survives, no_evidence_funds_untouched, due_fund_is_paid); per (owner, coin) the balance grows by exactly the owner's non-move funds stored under h and is unchanged without one (balances_only_matured, balance_unchanged_without_due_fund, unbond_to_balance); a matured move is appended (bip value 0) to the updates of its target candidate and never credited to a balance; when the target candidate has been removed while the move was in flight (/repo 0ed8cf3; before it BeginBlock dereferenced the missing candidate = F9) the coins are re-frozen as an unbond of the same owner, coin, value and origin due exactly one further unbond period later, so they still never return earlier than scheduled and reach the balance only as an unbond (move_never_to_balance, moves_reach_target, move_to_missing_target_unbonds; the block-level statements hold for the real, positive unbond period: hypothesis 0 < unbond); funds are created due exactly at h+unbond (punishment remainder, candidate removal, Unbond), block+move (MoveStake, target must be an existing candidate, else code 403) and DueBlock (Lock); a locked stake cannot be unbonded (416) (leave_creates_frozen, removal_funds_due, unbond_due, move_due_and_target_exists, move_to_unknown_rejected, lock_due, locked_cannot_unbond). Tie: on every S begin the driver runs beginBlock on the node's live state before the block (votes and evidence as sent, grace recomputed from the start height and the version heights) and compares balances, frozen funds, stakes, pending updates, candidates, validators and pools with the node's live projection after it (MISMATCH C16/C18 begin ...); stakingTxMonitor ties the tx-side functions to every delivered Unbond/MoveStake/Lock/SetCandidateOn (accepted => the predicted fund is new; model rejects => node rejected; same code for 416/417/123/414); campaigns staking, begin (112 warm-up blocks so that the generated blocks straddle the end of the initial grace period, duplicated evidence), ledger and prune (104 candidates with stake moves in flight towards the candidates the first recalculation removes: the re-freeze branch is hit about 15-24 times per campaign). Partial: the tx-side functions model only the C16-relevant validations (stake/waitlist sufficiency and commission belong to the transaction model); reward/price update, max gas and events are not in the BeginBlock model.",
}
PROPS['C18'] = {
    'level': 'proof', 'registered': False,
    'modules': ['MinterProofs.Props.C18'],
    'theorems': ['Minter.absent_threshold', 'Minter.absent_below_threshold', 'Minter.absent_unknown_ignored', 'Minter.absence_moves_no_value',
                 'Minter.jailed_cannot_switch_on', 'Minter.unjailed_owner_can_switch_on', 'Minter.absent_jails_for_period',
                 'Minter.byzantine_cut_is_ceil', 'Minter.byzantine_slash', 'Minter.byzantine_punishment', 'Minter.remainder_fund_exact',
                 'Minter.byzantine_skips', 'Minter.skip_is_stable', 'Minter.punish_once', 'Minter.punished_has_no_stakes',
                 'Minter.begin_conserves', 'Minter.begin_preserves_conserved'],
    'campaigns': [camp('begin', 8, 60), camp('staking', 16, 200), camp('ledger', 8, 100)],
    'modes': [BEGIN_MODE],
    'mismatch_counts': True,
    'assumptions': BEGIN_ASSUMPTIONS,
    'claim_draft': "Lean theorems about the BeginBlock model of the fixed code (punish-once fix ecfb9df), for all states, vote lists, evidence lists and oracle answers: SetValidatorAbsent switches the validator off (fresh bit array, toDrop, candidate offline) exactly when more than 12 of the 24 bits are set and jails the candidate until h+jail iff the block is outside a grace period; below the threshold only the bit changes; unknown addresses are ignored; absences move no value (absent_threshold, absent_below_threshold, absent_unknown_ignored, absence_moves_no_value, absent_jails_for_period); SetCandidateOn is rejected for every block <= jailedUntil whoever sends and accepted for the owner afterwards (jailed_cannot_switch_on, unjailed_owner_can_switch_on); the byzantine cut v - floor(95v/100) is the rounded-up 5% for every integer (byzantine_cut_is_ceil); a punishment cuts every stake and every unbonding fund of that candidate inside the window by exactly that amount, freezes the remainder at h+unbond, zeroes the stakes, drops the validator and credits the slashed pool (base coin) resp. burns the coin and moves CalculateSaleReturn of reserve to the slashed pool (byzantine_slash, byzantine_punishment, remainder_fund_exact, punished_has_no_stakes); evidence against an unknown / offline / already dropped validator is skipped and a validator is punished at most once per block whatever entries follow (byzantine_skips, skip_is_stable, punish_once); the whole BeginBlock conserves volume-holdings of every coin and the base total (begin_conserves, begin_preserves_conserved). Tie: kernel mode beginq (SetAbsent/SetPresent/CountAbsentTimes, Grace.IsGraceBlock, IsCandidateJailed vs the Lean definitions) + the S begin comparison and stakingTxMonitor of C16 on campaigns begin/staking/ledger; the separate monitor VIOL C18 candidate-punished-twice-in-one-block stays armed. Partial: absent_threshold is about one vote step (no theorem composes it over the whole vote list; covered by absence_moves_no_value and the node comparison); events are produced but not compared with the events DB.",
}


# ---------------------------------------------------------------------------------------------------------------
# tx builder (final snapshot): all 37 transaction types are in the Lean model; a swap / commission through a pool that carries
# limit orders is the only case the transaction model leaves to the orders component (driver: INFO unmodelled, state re-synchronised)
TX_MODEL_NOTE = 'Theorems are about the Lean transaction model (MinterModel/Tx*.lean, all 37 types); the driver compares code, tags and every touched dump key with the node on every generated transaction; swaps / commissions through a pool that carries limit orders are outside the transaction model (orders component)'
PROPS['C02'] = {
    'level': 'proof', 'registered': False,   # level as set at registration; the claim text states what is partial
    'modules': ['MinterProofs.Props.C02', 'MinterProofs.Props.C02More'],
    'theorems': ['Minter.C02_partial_1_13_17_28_29', 'Minter.C02_partial_send', 'Minter.C02_partial_multisend', 'Minter.C02_partial_edit_owner',
                 'Minter.C02_partial_mint', 'Minter.C02_partial_burn', 'Minter.C02_prologue_reject', 'Minter.amountsOk_sound',
                 # c02 builder (Props/C02More.lean): every delivery the model answers (all 37 types, all commission routes), BeginBlock
                 'Minter.planSafe_preserves', 'Minter.primSafe_preserves', 'Minter.fee_preserves', 'Minter.fee_base', 'Minter.fee_bancor', 'Minter.fee_pool',
                 'Minter.calcCommission_sound', 'Minter.C02_failure_fee', 'Minter.C02_settings', 'Minter.C02_deliver_preserves_32_types',
                 'Minter.C02_add_liquidity', 'Minter.C02_remove_liquidity', 'Minter.C02_sell_pool', 'Minter.C02_buy_pool', 'Minter.C02_sell_all_pool',
                 'Minter.C02_deliver_preserves_all_modelled', 'Minter.routeSellCheck_ids', 'Minter.routeBuyCheck_ids',
                 'Minter.C02_begin_preserves', 'Minter.C02_begin_preserves_no_evidence',
                 'Minter.c02Oracle_sound', 'Minter.c02State2_wf'],
    'campaigns': [camp('ledger', 16, 200), camp('orders', 8, 100), camp('staking', 8, 100)],
    'mismatch_counts': True,
    'assumptions': [TX_MODEL_NOTE, 'the node\'s own export at every commit (re-read from disk) is the abstraction function for the amountsOk monitor',
                    'hypotheses of the C02More theorems, all explicit in the statements (record DeliverHyps): OracleSound (bancor oracle answers inside their envelope; C12), 0 <= minReserve / minOrderVolume, TxNonneg (decoded amounts >= 0: RLP), StateWf = candidate ids identify candidates (types 8, 27), burnable coins have no reserve (29), price table >= 0 (PricesNonneg; failure fee); PoolsSorted (21-25), CoinIdsWf (22); pool34: floor(sqrt(v0*v1)) <= max supply; supply21: LP volume + minted <= max supply; lock22: sender\'s LP balance < LP volume; BeginBlock with evidence: byzPhaseFits (every slash <= the volume of its coin); preservation of StateWf / PoolsSorted / CoinIdsWf by deliverTx is not proved, hence no block-sequence corollary',
                    'AmountsOk uses the sum semantics of balances (the Boolean monitor is entry-wise; equivalent when balance keys are unique)'],
    'claim_draft': "Partial. Lean theorems about the transaction model and the BeginBlock model (MinterProofs/Props/C02.lean, C02More.lean), for all states, transactions and oracle answers meeting the stated hypotheses (record DeliverHyps): AmountsOk - no negative balance, reserve, volume, stake, pending update, waitlist entry, frozen fund, pool reserve or order volume; volume <= max supply; reserves of an existing pool > 0 (the Prop form of the executable monitor, amountsOk_sound) - is preserved by checked application of every plan whose primitives write in-range values (planSafe_preserves, primSafe_preserves: the core lemma, with decidable guards); by the commission payment on each route - base coin, bancor reserve (calcCommission_sound from OracleSound), pool without orders (fee_preserves, fee_base, fee_bancor, fee_pool); and by EVERY delivery deliverTx answers (C02_deliver_preserves_all_modelled): all 37 transaction types, accepted with the commission paid by any of the three routes - the 32 plain types (C02_deliver_preserves_32_types, C02_settings; the earlier base-coin-only forms C02_partial_* remain), AddLiquidity and RemoveLiquidity also when the commission goes through the pool concerned (C02_add_liquidity, C02_remove_liquidity), and the swap routes SellSwapPool, SellAllSwapPool, BuySwapPool of up to five coins over pools without orders (C02_sell_pool, C02_sell_all_pool, C02_buy_pool; 'no pool crossed twice' is proved from the handler's check 710: routeSellCheck_ids, routeBuyCheck_ids; buy routes execute back to front, the invariant carries the temporary debt) - or rejected, with or without the failure fee, capped or not (C02_failure_fee, C02_prologue_reject); and by BeginBlock - unconditionally without evidence, under byzPhaseFits with evidence (C02_begin_preserves_no_evidence, C02_begin_preserves). Coverage table (commission route base / bancor / pool without orders): all 37 types accepted: yes/yes/yes; all 37 types rejected or paying the failure fee: yes/yes/yes; BeginBlock: yes; EndBlock: NO (C19 covers payouts >= 0; C01's block-level theorems cover value, not signs); anything crossing a pool that carries limit orders: NO (outside the transaction model; C13 has the reserve positivity of order-crossing trades). Also not proved: that deliveries preserve the state hypotheses (StateWf, PoolsSorted, CoinIdsWf), hence no theorem over block sequences; byzPhaseFits from conservation. Where no theorem applies the property is bound by the monitor amountsOk (the same Lean definition) evaluated on the node's export at every commit of every campaign (VIOL C02 negative-or-overflow) and by the model/node correspondence of every transaction. Tie: campaigns ledger, orders, staking. Guards the proofs needed that the handlers do not check (none reachable as far as known, each follows from another invariant): LP supply is never compared with max supply; BurnToken of a bancor-paid gas coin relies on 'burnable coins have no reserve'; RemoveLiquidity keeps reserves positive only through the 1000 locked LP units; the byzantine slash is covered only by conservation; BuySwapPool debits each hop before the hop that funds it, so only the final balances are in range.",
}
PROPS['C06'] = {
    'level': 'proof', 'registered': False,
    'modules': ['MinterProofs.Props.C06'],
    'theorems': ['Minter.C06_check_iff_deliver', 'Minter.C06_check_ok_deliver', 'Minter.C06_deliver_ok_check', 'Minter.check_deliver_cases'],
    'campaigns': [camp('checktx', 12, 100), camp('orders', 12, 100), camp('ledger', 8, 100)],
    'mismatch_counts': True,
    'assumptions': [TX_MODEL_NOTE, 'the gas-price floor and the one-transaction-per-sender mempool rule are excluded (codes 113/114), as in the property'],
    'claim_draft': "Lean theorems about the transaction model, whose handlers are split into a validation half (shared by checkTx and deliverTx) and a deliver half (Ready.exec), for all states, transactions and oracle answers: with the gas-price floor met and the sender not in the mempool, whenever DeliverTx answers, CheckTx and DeliverTx on the same state are both 0 or both non-zero (C06_check_iff_deliver, check_deliver_cases); CheckTx 0 implies DeliverTx 0 or a FAULT of a listed deliver-only site, never a rejection (C06_check_ok_deliver); DeliverTx 0 implies CheckTx 0 (C06_deliver_ok_check). Tie: with CheckTx switched on the harness calls the real CheckTx immediately before every DeliverTx on the same state; the driver compares the node's two codes (VIOL C06 checktx-delivertx-disagree) and the model's checkTx with the node's CheckTx code (MISMATCH checktx) on every transaction; campaigns checktx, orders, ledger. Partial: the deliver-only fault sites (pool kernels' panics, SubStake on a missing stake, PairMint/PairBurn on the real reserves; listed in the header of Props/C06.lean) are excluded by hypothesis and bound by the C07 panic monitor; transactions whose swap or commission crosses a pool with limit orders are compared on the node only (VIOL C06), not by the model.",
}
PROPS['C15'] = {
    'level': 'proof', 'registered': False,
    'modules': ['MinterProofs.Props.C15'],
    'theorems': ['Minter.C15_sell_coin', 'Minter.C15_buy_coin', 'Minter.C15_sell_all_coin', 'Minter.C15_sell_pool', 'Minter.C15_buy_pool', 'Minter.C15_sell_all_pool',
                 'Minter.C15_add_liquidity', 'Minter.C15_remove_liquidity', 'Minter.remove_liquidity_exec_ok', 'Minter.sim_eq_real', 'Minter.sim_vs_real',
                 'Minter.routeSellExec_ge_check', 'Minter.routeBuyExec_le_check', 'Minter.routeSellCheck_min', 'Minter.routeBuyCheck_max',
                 'Minter.buyForSell_mono', 'Minter.sellForBuy_mono', 'Minter.bancor_move_balances'],
    'campaigns': [camp('orders', 12, 100), camp('checktx', 12, 100), camp('ledger', 8, 100)],
    'mismatch_counts': True,
    'assumptions': [TX_MODEL_NOTE, 'the four bancor float functions are oracle answers (the theorems quantify over all oracles; C12 ties them to the formulas)',
                    'PoolsOk: pools sorted, reserves > 0 (hypothesis of the route theorems; checked by the C02 monitor at every commit)'],
    'claim_draft': "Lean theorems about the transaction model, for all states, transactions and oracle answers: an accepted SellCoin sells exactly ValueToSell and returns >= MinimumValueToBuy, BuyCoin buys exactly ValueToBuy for <= MaximumValueToSell, SellAllCoin sells the balance minus the commission taken in the sold coin; the result tags equal the amounts of the move and the balance deltas are exactly those (C15_sell_coin, C15_buy_coin, C15_sell_all_coin, bancor_move_balances). Pool routes of up to five coins (C15_sell_pool, C15_buy_pool, C15_sell_all_pool, under PoolsOk): the amount the last hop really pays out is >= MinimumValueToBuy, resp. the amount really debited is <= MaximumValueToSell, also when the commission swap moves a pool of the route - sim_eq_real/sim_vs_real show that the pool after payCommission is the simulated one (exact since /repo a9a396f), routeSellExec_ge_check/routeBuyExec_le_check/routeSellCheck_min/routeBuyCheck_max and the monotone kernels (buyForSell_mono, sellForBuy_mono) carry the check-time bound to execution. Liquidity: AddLiquidity takes exactly Volume0 and at most MaximumVolume1, RemoveLiquidity pays out >= MinimumVolume0/1, and its deliver-side panic site is dead (C15_add_liquidity, C15_remove_liquidity, remove_liquidity_exec_ok). Tie: per-transaction correspondence (code, tx.return / tx.sell_amount / tx.volume tags, every touched balance and pool) plus the node-level monitors VIOL C15 (slippage limits and tag = balance delta on every accepted conversion); campaigns orders, checktx, ledger. Partial: routes or commissions through pools that carry limit orders are outside these theorems (orders component) and bound by the node-level monitors only.",
}
PROPS['C21'] = {
    'level': 'proof', 'registered': False,
    'modules': ['MinterProofs.Props.C21'],
    'theorems': ['Minter.redeem_conditions', 'Minter.redeem_effect', 'Minter.redeem_marks_used', 'Minter.used_mono', 'Minter.reach_used_mono',
                 'Minter.redeem_rejected_when_used', 'Minter.redeem_once'],
    'campaigns': [camp('mixed', 16, 200), camp('ledger', 8, 100), camp('malformed', 8, 100)],   # RedeemCheck appears in all of them
    'mismatch_counts': True,
    'assumptions': [TX_MODEL_NOTE, 'check signature / lock / proof recovery are oracle facts (k.* fields of the D line: the node\'s own check.Sender(), LockPubKey() and proof recovery)'],
    'claim_draft': "Lean theorems about RedeemCheck in the transaction model, for all states, checks and redeemers: an accepted redemption implies gas price 1, the check's chain id, nonce <= 16 bytes, a recoverable issuer, existing coins, gas coin = the check's gas coin, block <= dueBlock (the due block itself is still valid - the property text says 'before'), an unused check hash, proof key = lock key for the redeemer's own address, and issuer funds (redeem_conditions); its moves are exactly: commission paid by the ISSUER in the check's gas coin, hash marked used, value issuer -> redeemer, nonce (redeem_effect, redeem_marks_used); used hashes are never cleared along any delivery history (used_mono, reach_used_mono), so a redeemed check is rejected for ever after (redeem_rejected_when_used, redeem_once). Tie: every generated RedeemCheck (valid, expired, wrong chain, wrong proof, reused) is compared with the node on code, tags and the live keys b/n/uc (used checks via IsCheckUsed); campaigns mixed, ledger, malformed. Partial: the balance-level corollary (issuer -value -fee, redeemer +value) is stated at move level only; ECDSA recovery is an oracle.",
}
PROPS['C22'] = {
    'level': 'proof', 'registered': False,
    'modules': ['MinterProofs.Props.C22'],
    'theorems': ['Minter.C22_fresh_id', 'Minter.C22_dense_preserved', 'Minter.C22_ids_never_reused', 'Minter.reach_ncoins_mono',
                 'Minter.create_coin_spec', 'Minter.create_token_spec', 'Minter.recreate_coin_spec', 'Minter.recreate_token_spec',
                 'Minter.edit_owner_spec', 'Minter.mint_spec', 'Minter.create_pool_spec', 'Minter.ownerless_not_mintable', 'Minter.ownerless_stays_ownerless',
                 'Minter.uniqueV0_create', 'Minter.uniqueV0_recreate', 'Minter.create_keeps_unique', 'Minter.recreate_keeps_unique'],
    'campaigns': [camp('ledger', 16, 200), camp('mixed', 8, 100)],
    'mismatch_counts': True,
    'assumptions': [TX_MODEL_NOTE],
    'claim_draft': "Lean theorems about the coin registry in the transaction model, for all states and transactions: a delivery creates at most one coin and its id is ncoins+1; dense ids 1..ncoins stay dense; ids are never reused along any delivery history (C22_fresh_id, C22_dense_preserved, C22_ids_never_reused, reach_ncoins_mono - by the freshIdsOk guard of successOutcome, evaluated on every run); handler specifications: CreateCoin/CreateToken, RecreateCoin/RecreateToken (owner only, old coin kept under version max+1, new coin with a fresh id), EditCoinOwner and MintToken (owner only, within max supply), CreateSwapPool (LP token ownerless) (create_coin_spec, create_token_spec, recreate_coin_spec, recreate_token_spec, edit_owner_spec, mint_spec, create_pool_spec); an ownerless coin (pool token) can neither be minted nor recreated nor get an owner (ownerless_not_mintable, ownerless_stays_ownerless); version-0 tickers stay unique across the registry steps (uniqueV0_create, uniqueV0_recreate, create_keeps_unique, recreate_keeps_unique). Tie: correspondence of every coin-creating / editing transaction (code, tx.coin_id / tx.pool_token_id tags, c keys, app ncoins); campaigns ledger, mixed. Partial: UniqueV0 is shown for the registry steps, not yet lifted to whole deliveries (needs 'no other move bumps versions'); uniqueness of LP tickers relies on pool ids (not proved).",
}
PROPS['C26'] = {
    'level': 'proof', 'registered': False,
    'modules': ['MinterProofs.Props.C26'],
    'theorems': ['Minter.C26_after_success_free', 'Minter.C26_prologue_reject_free', 'Minter.C26_accepted_at_most_once', 'Minter.C26_failed_tx_charged_again'],
    'campaigns': [camp('malformed', 16, 200), camp('mixed', 8, 100)],
    'mismatch_counts': True,
    'assumptions': [TX_MODEL_NOTE],
    'claim_draft': "Lean theorems about the transaction model, for all states, transactions and delivery histories (Reach: any further deliveries at any heights under any oracle answers): once a transaction was accepted, delivering the same transaction again in any later state is rejected by the prologue with no moves at all - no fee (C26_after_success_free, C26_accepted_at_most_once; nonces only grow); a delivery rejected in the prologue makes no move, so repeating it is free (C26_prologue_reject_free). The remaining clause of the property is FALSE in the code and proved false on a concrete witness (C26_failed_tx_charged_again, known finding F4): a transaction that fails inside its handler pays the failure fee and keeps its nonce, so the same bytes pass the prologue again and pay again. Tie: the malformed stream re-delivers earlier transaction bytes (any recent one, and specifically ones that failed inside Run); the driver remembers every delivered byte string with its code and whether it changed the ledger and reports VIOL C26 charged-after-success (must never fire) and VIOL C26 failed-tx-charged-again (the known finding) on the real node; per-transaction correspondence as for C03/C04; campaigns malformed, mixed.",
}


# ---------------------------------------------------------------------------------------------------------------
# rules builder: rule kernels for C20 (governance threshold), C27 (fee formula), C28 (block reward rule); mode `rules`
_rules = lambda p: {'mode': 'rules', 'args': ['-profile', p, '-seed', '{seed}', '-n', '0', '-tier', '{tier}', '-driver', '{driver}', '-keep', '{keep}']}
PROPS['C20'].update({
    'registered': False,
    'modules': ['MinterProofs.Props.C20'],
    'theorems': ['Minter.Rules.passesCode_iff', 'Minter.Rules.passesCode_eq_passes', 'Minter.Rules.calcPowers_spec',
                 'Minter.Rules.tally_largest_wins', 'Minter.Rules.at_most_one_passes', 'Minter.Rules.effective_iff', 'Minter.Rules.effective_iff_commission',
                 'Minter.Rules.halt_iff', 'Minter.Rules.tallyVersion_none_iff', 'Minter.Rules.vote_past_rejected', 'Minter.Rules.vote_duplicate_rejected',
                 'Minter.Rules.vote_accepted_iff', 'Minter.Rules.vote_store_nodup'],
    'modes': [_rules('c20')],
    'assumptions': ['the big.Float comparisons of the tallies (maxVotingResult.Cmp) are modelled as comparisons of the integer powers (same denominator, precision >= bitlen(total)); differentially tested with neighbouring powers at 10^27 scale, not proved',
                    'hooks VerifCalculatePowers / VerifTallies run the real methods on a throw-away Blockchain value'],
    'claim_draft': "Lean theorems about the governance kernels (MinterModel/Rules.lean, mirrored from calculatePowers, isApplicationHalted, isUpdateNetworkBlockV2, isUpdateCommissionsBlockV2 and the vote transactions' basicCheck), for all power tables and vote stores: the code's comparison Mul(voted,3).Cmp(Mul(total,2)) == 1 holds iff 3*voted > 2*total - strictly more than two thirds (passesCode_iff, passesCode_eq_passes = the monitor's predicate); only present, not-dropped validators have power, powers are >= 0, their sum is <= the total and the total is > 0 (calcPowers_spec); the tally's winner bounds every proposal's power and is a stored proposal (tally_largest_wins); two different proposals with disjoint voters cannot both pass (at_most_one_passes); under VotesWF (distinct texts, duplicate-free disjoint voter lists - what the vote transactions guarantee: vote_store_nodup) the code's decision is 'some name' iff a stored proposal with that text holds 3*voted > 2*total, for version votes, commission votes and halts (effective_iff, effective_iff_commission, halt_iff, tallyVersion_none_iff); a vote for a past height is rejected (120), a duplicate vote is rejected (118/121), anything else passes that check (vote_past_rejected, vote_duplicate_rejected, vote_accepted_iff). Tie: mode rules -profile c20 runs the real isMoreThanTwoThirds, calculatePowers, the three tallies and the vote checks against the Lean definitions (Q two3code calcpowers tallyhalt tallycom tallyver votecheck) on generated tables incl. malformed ones; node level ('takes effect at the voted height', halt) by the governance/staking campaigns with the driver monitors VIOL C20. Partial: float tally comparison is modelled on integers (see assumptions); applying the winning proposal (SetNewCommissions / AddVersion / stop) is bound by the campaign monitors, not by a theorem.",
})
PROPS['C27'] = {
    'level': 'proof', 'registered': False,
    'modules': ['MinterProofs.Props.C27'],
    'theorems': ['Minter.Rules.commission_formula', 'Minter.Rules.priceOfType_isSome_iff', 'Minter.Rules.multisend_price',
                 'Minter.Rules.pool_route_price', 'Minter.Rules.create_price', 'Minter.Rules.txPrice_mono_payload', 'Minter.Rules.txPrice_gas_linear',
                 'Minter.Rules.tickerPrice_agrees', 'Minter.Rules.typePrice_agrees', 'Minter.Rules.txPrice_agrees', 'Minter.Rules.commissionInBase_base', 'Minter.Rules.commissionInBase_custom',
                 'Minter.Rules.tickerBurn_base', 'Minter.Rules.tickerBurn_zero_skips', 'Minter.Rules.tickerBurn_pos', 'Minter.Rules.route_reject_iff', 'Minter.Rules.cheaper_route_min',
                 'Minter.Rules.route_tie_pool', 'Minter.Rules.calcCommissionQ_spec', 'Minter.Rules.moves_rewards', 'Minter.Rules.fee_to_pool',
                 'Minter.Rules.ticker_fee_burned', 'Minter.Rules.fee_not_to_zero', 'Minter.Rules.payCommission_rewards', 'Minter.Rules.success_rewards',
                 'Minter.Rules.tickerBurn_rewards', 'Minter.Rules.ticker_burn_amount'],
    'campaigns': [camp('checktx', 12, 100), camp('orders', 12, 100), camp('ledger', 8, 100), camp('pricecoin', 8, 60)],   # pricecoin: table in a custom coin, gas prices up to 50
    'modes': [_rules('c27')],
    'mismatch_counts': True,
    'assumptions': [TX_MODEL_NOTE, 'the failed-tx fee has no Go function of its own (inline in RunTx): Lean definition only, covered by the tx.fail_fee tags in the campaigns',
                    'commissionInBase / tickerBurnInBase with a custom-coin price table are tested at the quote level only (no node run with a custom-coin table)'],
    'claim_draft': "Lean theorems about the fee kernels (MinterModel/Rules.lean) and their agreement with the transaction model, for all price tables and transactions: the commission is gasPrice * (typePrice + (payload+service bytes) * byte price) (commission_formula), defined exactly for the 37 decodable types (priceOfType_isSome_iff), with the Multisend, pool-route and coin-creation formulas (multisend_price, pool_route_price, create_price), monotone in the payload and linear in the gas price (txPrice_mono_payload, txPrice_gas_linear); the transaction model's tickerPrice / typePrice / txPrice / tickerBurn equal these definitions on the state's table for every type (tickerPrice_agrees, typePrice_agrees, txPrice_agrees, ticker_burn_amount); conversion to the base coin (commissionInBase_base, commissionInBase_custom); CalculateCommission rejects iff no route answers and otherwise charges the minimum of the available quotes, the pool winning ties (route_reject_iff, cheaper_route_min, route_tie_pool, calcCommissionQ_spec); every fee move credits the reward pool with exactly the base value it reports and never the zero address, the ticker fee leaves the pool and reaches the zero address, and the pool effect of a successful transaction is the handler's plus the burn's (moves_rewards, fee_to_pool, fee_not_to_zero, ticker_fee_burned, payCommission_rewards, success_rewards, tickerBurn_rewards); the ticker burn is a positive amount or is skipped - a zero ticker price or gas price skips it and no longer rejects an executed transaction (tickerBurn_base, tickerBurn_pos, tickerBurn_zero_skips; the old behaviour, code 119 after the state change, was finding R1 of this component, repaired in /repo f0b1597). Tie: mode rules -profile c27 runs the real CommissionData of all types, the price conversion, CalculateCommission on real pools/reserves and real CreateCoin/CreateToken deliveries against the Lean definitions (Q typeprice txprice failprice symprice tickerburn route commission tobase); node level: VIOL C27 commission-price / fee-pool-delta / ticker-fee-not-burned on every delivered transaction of campaigns checktx, orders, ledger. Partial: see assumptions (failed-tx fee, custom-coin table); route ties are proved but not hit by the real-state test.",
}
PROPS['C28'] = {
    'level': 'proof', 'registered': False,
    'modules': ['MinterProofs.Props.C28'],
    'theorems': ['Minter.Rules.updatePrice_some', 'Minter.Rules.updatePrice_stamp', 'Minter.Rules.first_update', 'Minter.Rules.floorDiv_le_iff',
                 'Minter.Rules.drop_threshold', 'Minter.Rules.pctChange_floor', 'Minter.Rules.drop_rule', 'Minter.Rules.recovery', 'Minter.Rules.full_reward',
                 'Minter.Rules.reward_le_safeReward', 'Minter.Rules.reward_nonneg', 'Minter.Rules.off_means_below', 'Minter.Rules.inWindow_iff',
                 'Minter.Rules.hourOf_spec', 'Minter.Rules.update_only_in_window', 'Minter.Rules.no_update_keeps_reward', 'Minter.Rules.window_sets_reward',
                 'Minter.Rules.withheld_burned', 'Minter.Rules.emission_tracks_minted', 'Minter.Rules.cap_stops', 'Minter.Rules.cap_resets_reward',
                 'Minter.Rules.emission_overshoot', 'Minter.Rules.priceCountCert_sound', 'Minter.Rules.priceCountCert_exact'],
    'campaigns': [camp('rewardtime', 8, 100)],
    'modes': [_rules('c28')],
    'assumptions': ['priceCount (big.Float fourth root) is an oracle value; every evaluation is judged by the decidable certificate priceCountCert (tolerance v/2^50 + 2)',
                    'the Go replication of the priceCount expression in mode_rules.go is trusted (the node\'s returned safeReward is compared with it)',
                    'EndBlock\'s extra minting for locked stakes in payout blocks (C19) is outside blockEmission'],
    'claim_draft': "Lean theorems about the reward kernels (MinterModel/Rules.lean: UpdatePriceFix branch by branch, the BeginBlock window test, App.SetReward, EndBlock's emission), with the price level pc = priceCount as a parameter, for all stored reward states, reserves and times: for a BeginBlock that does not panic the stored reward state changes iff emission < cap, the block is in the update window (h % period == 1, 12 <= hour <= 14, more than 3 h since the last update) and the pool exists (update_only_in_window, inWindow_iff, hourOf_spec, no_update_keeps_reward, window_sets_reward); a price change of -10% or worse after rounding down - i.e. any change below -9% (drop_threshold, pctChange_floor, floorDiv_le_iff) - sets the reward to 0 and marks it off (drop_rule); afterwards it recovers by 10 BIP per update, never above the level, 'off' cleared exactly when the level is reached (recovery, off_means_below); otherwise the full level is paid (full_reward, first_update); reward is between 0 and the safe reward (reward_nonneg, reward_le_safeReward) and every update stores time, reserves and the returned reward (updatePrice_some, updatePrice_stamp); emission: below the cap validators get the reward, the counter grows by the safe reward and the withheld difference goes to the zero address; at the cap nothing is minted and the reward is reset; the counter passes the cap by less than one safe reward (withheld_burned, emission_tracks_minted, cap_stops, cap_resets_reward, emission_overshoot); the certificate for priceCount is sound and accepts the exact root (priceCountCert_sound, priceCountCert_exact). Tie: mode rules -profile c28 runs the real UpdatePriceFix, the window test, SetReward and EndBlock emission on real nodes against the Lean definitions (Q updprice pricecert pct window hour beginreward emit emitcap) incl. the panic cases; campaign rewardtime (clock jumps that hit the 12-15 h window) with the accrual/emission monitors - the live projection now carries the block reward, which BeginBlock changes in memory. Partial: priceCount itself is an oracle judged by the certificate; locked-stake extra minting belongs to C19.",
}


# ---------------------------------------------------------------------------------------------------------------
# orders builder: pool trades with limit orders (C13 order part, C14); modes `orders`, `orders-replay`
import os as _os, glob as _glob
_ORD_CORPUS = sorted(_glob.glob(_os.path.join(_os.path.dirname(_os.path.dirname(_os.path.abspath(__file__))), 'corpus', 'orders', '*.history')))
# the minimal inputs of the repaired findings F-ORD-1 / F-ORD-2 (/repo fa48978) are replayed first: each must pass on the fixed tree
ORD_REPLAYS = [{'mode': 'orders-replay', 'args': ['-trace', _f, '-driver', '{driver}', '-keep', '{keep}']} for _f in _ORD_CORPUS]
ORD_MODE = {'mode': 'orders', 'args': ['-seed', '{seed}', '-n', '{n:2500:40000}', '-tier', '{tier}', '-driver', '{driver}', '-keep', '{keep}']}
PROPS['C13']['modules'] = PROPS['C13']['modules'] + ['MinterProofs.Props.C13Orders']
PROPS['C13']['theorems'] = PROPS['C13']['theorems'] + ['Minter.Lob.orderStep_K', 'Minter.Lob.curveStep_K', 'Minter.Lob.sellLoop_K', 'Minter.Lob.buyLoop_K',
                                                       'Minter.Lob.sellWithOrders_K', 'Minter.Lob.buyWithOrders_K', 'Minter.Lob.settle_ok']
PROPS['C13']['modes'] = PROPS['C13'].get('modes', []) + [ORD_MODE]
PROPS['C14'] = {
    'level': 'proof', 'registered': False,
    'modules': ['MinterProofs.Props.C14', 'MinterModel.Monitors'],
    'theorems': ['Minter.Lob.ratInt_eq_ediv', 'Minter.Lob.partialSellAmount_eq', 'Minter.Lob.partialBuyAmounts_eq',
                 'Minter.Lob.sell_fills', 'Minter.Lob.buy_fills', 'Minter.Lob.fill_at_own_price', 'Minter.Lob.partial_keeps_price',
                 'Minter.Lob.sortBook_sorted', 'Minter.Lob.sortBook_perm', 'Minter.Lob.priority_sell', 'Minter.Lob.priority_buy',
                 'Minter.Lob.Consumed.forall₂', 'Minter.Lob.Consumed.not_last_full', 'Minter.Lob.credits_exact',
                 'Minter.Lob.dust_closed_refund', 'Minter.Lob.partial_stays', 'Minter.Lob.cancel_exact', 'Minter.Lob.cancel_owner_only',
                 'Minter.Lob.cancel_once', 'Minter.Lob.cancel_returns_unfilled', 'Minter.Lob.expire_exact', 'Minter.Lob.expire_once',
                 'Minter.orderPriorityMonitor_silent'],
    'campaigns': [camp('orders', 24, 200), camp('orders', 8, 24, extra=['-histblocks', '64'])],   # 64 blocks: order expiry is reached on the node
    'modes': ORD_REPLAYS + [ORD_MODE],
    'assumptions': ['RN53 (the correctly rounded big.Float quotient behind the sort key) is differential-tested against the real CalcPriceSell and big.Rat.Float64, not proved against a real-number specification',
                    'CalculateAddAmountsForPrice (amount0 of a curve step towards an order price) is an oracle: the theorems hold for every answer; the harness passes the real function\'s answers',
                    'the RemoveLimitOrder handler\'s owner check is modelled by reading; the swap-level PairRemoveLimitOrder is tied; an order added in the current block cannot be cancelled before Commit (not in the model)',
                    'reserves <= 0 and negative volumes are outside the model\'s domain (hypotheses of the theorems)'],
    'claim_draft': "Lean theorems about the order-book model (MinterModel/Orders.lean, namespace Lob: abstract book = list of orders, none of the Go caches; sell/buy walk by structural recursion over the best-first list; every Go panic site a Fault value), for all books with positive volumes, reserves, amounts and oracle answers: the big.Float detour of a partial fill is exact, SetRat(n/d).Int() = floor(n/d), so all clamp branches and both 'negative' panics of the partial fill are dead code (ratInt_eq_ediv, partialSellAmount_eq, partialBuyAmounts_eq); every fill of a successful trade is a fill of a prefix of the best-first list, position by position, every fill but the last is complete (sell_fills, buy_fills, Consumed.forall₂, Consumed.not_last_full), the list is the whole book ordered by float53 price key then id (sortBook_perm, sortBook_sorted, priority_sell, priority_buy); an owner never pays more than his price up to < 1 unit of the coin he buys, and a partial fill keeps the remaining price within one unit (fill_at_own_price, partial_keeps_price); each owner is credited exactly the sum of his fills (credits_exact); a remainder below 10^10 on either side closes the order and refunds exactly the remainder, otherwise it stays with the reduced volumes (dust_closed_refund, partial_stays); cancel refunds exactly the current volume to the owner only, once, and after a partial fill returns the unfilled part; expiry removes exactly the orders that are old enough, once (cancel_exact, cancel_owner_only, cancel_once, cancel_returns_unfilled, expire_exact, expire_once). Tie: mode orders drives the real SwapV2 (PairSellWithOrders / PairBuyWithOrders / PairAddOrder / PairRemoveLimitOrder / ExpireOrders, commits and fresh instances in between, both sides of a pool, books of up to 12 000 orders in thorough) against the Lean walk (Q sellwo buywo cancelwo expirewo sortbook rn53 ratint) plus Go-side monitors (priority, conservation, dust, refunds, on-disk price key order); the minimal inputs of the repaired findings F-ORD-1 (cold order list: orders invisible after a cancel in the same block, duplicate ids, endless loop) and F-ORD-2 (partial-fill re-sort against a partly loaded list), /repo fa48978, are replayed first on every run (corpus/orders/*.history); node level: campaign orders with the priority monitor of the driver (orderPriorityMonitor, sound by orderPriorityMonitor_silent: after every delivered transaction of the real node, fee exchange included, no order that was left untouched asks a better price, by more than the 2^-40 the 53-bit sort key can blur, than an order of the same side of the same pool that was filled). Partial: see assumptions (RN53 tested not proved; curve-step oracle; handler owner check by reading).",
}


# ---------------------------------------------------------------------------------------------------------------
# valid builder: validator set and rewards (C17, C19); mode `valid`; the S end monitors of the driver are the model itself
_VALID_MODE = {'mode': 'valid', 'args': ['-seed', '{seed}', '-n', '{n:200:1500}', '-tier', '{tier}', '-driver', '{driver}', '-keep', '{keep}']}
PROPS['C17'] = {
    'level': 'proof', 'registered': False,
    'modules': ['MinterProofs.Props.C17'],
    'theorems': ['Minter.select_qualified', 'Minter.select_front', 'Minter.select_length', 'Minter.select_le_limit', 'Minter.select_sorted',
                 'Minter.select_top', 'Minter.select_all_when_room', 'Minter.select_powers', 'Minter.powerOf_eq_max', 'Minter.powerOf_le_1e8',
                 'Minter.validatorPowers_sum', 'Minter.validatorUpdates_spec',
                 'Minter.pruned_not_validator', 'Minter.pruned_iff', 'Minter.pruned_worse', 'Minter.pruned_nil_of_le',
                 'Minter.pruneBeyond_keeps', 'Minter.pruneBeyond_validator_stays', 'Minter.unbondAll_value', 'Minter.unbondAll_spec',
                 'Minter.slotReplace_full', 'Minter.slotReplace_full_evicts', 'Minter.slotReplace_full_rejects', 'Minter.slotReplace_free',
                 'Minter.slotReplace_conserves', 'Minter.applyUpdates_conserves', 'Minter.slotReplace_kicked_mem'],
    'modes': [_VALID_MODE],
    'campaigns': [camp('staking', 24, 200)],
    'assumptions': ['recalcCandidate as a whole (merging updates into existing stakes, filteredUpdates, the sort by stale bip values) has no theorem: only the replacement step and its fold are proved; tied by Q slot (base coin only); calculateBipValue for custom coins is a parameter',
                    'the composition recalculation -> pruning -> selection -> SetNewValidators is not one theorem: the campaign monitor validatorSetModel checks the end result on the node after every validator-set update',
                    'candidate ids are unique (Go map key); at least one stake slot'],
    'claim_draft': "Lean theorems about the validator-set model (MinterModel/Validators.lean: stable sort with the node's two comparators, GetNewCandidates, updateValidators' powers, RecalculateStakesV2's pruning, DeleteCandidate, the slot replacement of recalculateStakes), for all candidate lists and integers: the selected validators are candidates that are online with stake >= the minimum, nobody is invented or duplicated, their number is min(limit, #qualified), they are sorted by (stake desc, id desc) and every qualified candidate left out ranks below every selected one (select_qualified, select_front, select_length, select_le_limit, select_sorted, select_top, select_all_when_room); powers are max(1, floor(stake*10^8/total)), each >= 1 and <= 10^8, their sum <= 10^8 + n (select_powers, powerOf_eq_max, powerOf_le_1e8, validatorPowers_sum, validatorUpdates_spec); candidates removed by pruning are exactly the non-validators at positions >= limit of the (stake desc, id asc) order - a current validator is never removed - and the frozen funds of a removed candidate carry, coin by coin, all its stakes and updates with full values (pruned_not_validator, pruned_iff, pruned_worse, pruned_nil_of_le, pruneBeyond_keeps, pruneBeyond_validator_stays, unbondAll_value, unbondAll_spec); with all slots full an incoming update replaces the first stake of smallest bip value iff it is not smaller, the loser goes to the waitlist with its full coin value, a free slot kicks nobody, and per coin slots + waitlist after = slots + updates before (slotReplace_full, slotReplace_full_evicts, slotReplace_full_rejects, slotReplace_free, slotReplace_conserves, applyUpdates_conserves, slotReplace_kicked_mem). Tie: mode valid builds generated genesis states (1-137 candidates, 998-1003-stake candidates with updates around the smallest stake, ties, stale bip values), runs the real InitChain and three blocks and compares ResponseInitChain.Validators, ValidatorUpdates, StakeKick/RemoveCandidate events and the next export with the Lean functions (Q select powers updates prune slot unbond setnew); node level: after every validator-set update of the staking campaign the validators must be exactly selectValidators of the candidates and carry their total stake (VIOL C17 selected-candidate-not-validator / validator-not-selected / validator-stake-differs-from-candidate). Partial: see assumptions (recalcCandidate as a whole, custom-coin bip values, composition not one theorem).",
}
PROPS['C19'] = {
    'level': 'proof', 'registered': False,
    'modules': ['MinterProofs.Props.C19'],
    'theorems': ['Minter.accrue_get', 'Minter.accrue_absent', 'Minter.accrue_conserves', 'Minter.accrue_remainder_nonneg', 'Minter.gainOf_bounds',
                 'Minter.returnDropped_get', 'Minter.returnDropped_conserves', 'Minter.endBlockAccrue_conserves', 'Minter.endBlockAccrue_remainder_nonneg',
                 'Minter.payout_balance', 'Minter.payout_remainder', 'Minter.payout_remainder_nonneg', 'Minter.payout_main', 'Minter.payout_shares',
                 'Minter.payout_plain', 'Minter.stakeStep_plain_pays', 'Minter.foldl_pays', 'Minter.payoutAll_balance'],
    'modes': [_VALID_MODE],
    'campaigns': [camp('staking', 24, 200), camp('ledger', 8, 100)],
    'assumptions': ['hypothesis of payout_remainder_nonneg / payout_main: sum of the stakes\' bip values <= the validator\'s recorded total stake; reachability is argued (bip values change only in recalculateStakes, followed by SetNewValidators) and checked by the monitor validatorSetModel after every update, not proved; at the excluded point the real node panics "Negative remainder" and the model agrees (run by the mode on every run)',
                    'hypothesis PayOK.calc3: calcReward <= 3*safeReward (UpdatePriceFix returns reward <= safeReward, C28); at the excluded point the node\'s own invariant checker panics at Commit with exactly the amount the model calls lost',
                    'pot0 = reward + fees is an input of endBlockAccrue; that the fee pool holds exactly the commissions is C27'],
    'claim_draft': "Lean theorems about the reward model (MinterModel/Validators.lean: the first two loops of EndBlock, calculatePowers, PayRewardsV5Fix with both x3 branches verbatim), for all validator lists, stakes and integers: in the accrual a validator changes iff it is present and not dropped, and then only by floor(pot*stake/totalPower); the gains plus the remainder equal the pot, the remainder is >= 0; rewards of dropped validators return to the pot and they end with 0 (accrue_get, accrue_absent, accrue_conserves, accrue_remainder_nonneg, gainOf_bounds, returnDropped_get, returnDropped_conserves, endBlockAccrue_conserves, endBlockAccrue_remainder_nonneg); at a payout: paid + remainder + lost = accrued + moreRewards unconditionally (payout_balance, payoutAll_balance), DAO and developers get floor(10%) each, the validator exactly floor(commission% of the rest), each plain delegator floor(rest*bip/stake) (payout_shares, payout_plain, stakeStep_plain_pays, foldl_pays, payout_remainder), and under the stated hypotheses nothing is lost, no payment is negative, the remainder is >= 0 and the total paid never exceeds accrued + moreRewards, where moreRewards is exactly the increased reward of locked stakes (payout_remainder_nonneg, payout_main). Tie: mode valid compares accumulators, RewardEvents, slashed delta and the emission counter of the real EndBlock (accrual blocks, payout blocks, dropped validators, locked delegators, reward pairs up to 3x) with the Lean functions (Q accrue setaccrue payout payblock) and runs the two excluded points on the real node; node level: on every block of the staking and ledger campaigns endBlockAccrue on the live projection before EndBlock must give the accumulators and the slashed delta the node shows after, on payout blocks payoutAll must give the slashed delta and lose nothing (VIOL C19 wrong-accrual / accrued-while-not-present / accrual-remainder / payout-remainder / payout-loses-rewards / accum-not-reset-by-payout / model-predicts-negative-remainder-panic). Partial: the two hypotheses above are argued and monitored, not proved reachable-state invariants.",
}


# ---------------------------------------------------------------------------------------------------------------
# C25 (concurrent queries) and C07 (no input crashes the node)
PROPS['C25'] = {
    'level': 'proof', 'registered': False,
    'modules': ['MinterProofs.Props.C25'],
    'theorems': ['Minter.C25_interleave_invariant', 'Minter.C25_same_modulo_queries'],
    'race_build': True,   # core.build_all also builds bin/harness-race (go build -race) for this property only
    # three runs: the mixed profile, the orders profile (limit orders in the books), and the orders profile with a market maker in it
    # ("+mm", harness/mode_concurrent.go: orders kept next to the pool price, partial fills left in the book, fees paid across them)
    'modes': [{'mode': 'concurrent', 'args': ['-profile', 'mixed', '-seed', '{seed}', '-n', '{n:2:8}', '-tier', '{tier}', '-keep', '{keep}', '-readers', '6', '-racebin', '/verif/bin/harness-race']},
              {'mode': 'concurrent', 'args': ['-profile', 'orders', '-seed', '{seed}', '-n', '{n:1:6}', '-tier', '{tier}', '-keep', '{keep}', '-readers', '6', '-racebin', '/verif/bin/harness-race']},
              {'mode': 'concurrent', 'args': ['-profile', 'orders+mm', '-seed', '{seed}', '-n', '{n:2:8}', '-tier', '{tier}', '-keep', '{keep}', '-readers', '6', '-racebin', '/verif/bin/harness-race']}],
    'assumptions': ['the op-level model cannot exhibit sub-operation interleavings of the Go runtime (unsynchronised map access, lock ordering, lazy cache fills from reader goroutines): those are explored by the concurrent mode (race-detector build), not proved',
                    'a panic inside a read-only handler is recovered by the API server; the mode counts reader panics in its notes (reader_panics) and does not treat them as violations'],
    'claim_draft': "Partial. Lean theorems (op level): for every state machine whose query operations are read-only (return the state they were given), inserting any number of queries anywhere into a history changes neither the final state nor any response of the non-query operations, and two histories that differ only in their queries end in the same state with the same responses (C25_interleave_invariant, C25_same_modulo_queries; for all machines, states and histories). This is interleaving at ABCI-operation granularity only. The Go-runtime part of the property is EXPLORATION, not proof: mode concurrent runs every generated history twice in child processes - query-free, and with 6 API clients (goroutines) that call the real gRPC handlers of api/v2/service on the node while blocks execute (Address/Addresses with delegated stakes, Candidate(s) with stakes, CoinInfo(ById), EstimateCoinSell/Buy/SellAll with every swap_from, with the fee coin = base coin and = custom coins so that the fee conversion through a pool with limit orders is simulated, with routes, EstimateTxCommission on serialized transactions, SwapPool(s), SwapPoolProvider, LimitOrder(s)(OfPool), BestTrade of both types, Frozen(All), WaitList, Halts, MaxGasPrice, PriceCommission, votes, MissedBlocks, VersionNetwork, Events, export of a committed height; arguments from the running world: its addresses, public keys, coin counter, the pools and order ids SwapPools lists, order-book sides whose best order is fillable at the pool price; handlers that need the Tendermint client are not called), in a race-detector build, over the profiles mixed, orders and orders+mm (a market maker keeps orders next to the pool price, takers leave them partially filled, fees are paid across them) - and requires identical traces (every response, tag, state delta and app hash; the harness' own cache-vs-disk observation lines are excluded and counted as stale_cache_entries); the loaded process must neither die nor hang (a watchdog inside the child reports block execution that reaches no new height for 45 s with every goroutine's stack; backstop: 40x the query-free time, at least 2 and at most 10 minutes, goroutine dump by SIGQUIT). Race reports are summarised in the notes by first node frame; recovered reader panics are counted (reader_panics), not violations.",
}
PROPS['C07'] = {
    'level': 'proof', 'registered': False,
    'modules': ['MinterProofs.Props.C07', 'MinterProofs.Props.C07Tx', 'MinterProofs.Props.C14', 'MinterProofs.Props.C15', 'MinterProofs.Props.C19', 'MinterProofs.Props.C23', 'MinterProofs.Props.C24'],
    'theorems': ['Minter.C07_bfs_no_panic', 'Minter.C07_sfb_no_panic', 'Minter.C07_quote_no_panic',
                 'Minter.Lob.ratInt_eq_ediv', 'Minter.Lob.partialSellAmount_eq', 'Minter.Lob.partialBuyAmounts_eq',
                 'Minter.remove_liquidity_exec_ok', 'Minter.payout_remainder_nonneg',
                 'Minter.Rlp.decode_fuel_irrelevant', 'Minter.Ev.C24_run_total',
                 # transaction layer (c07 builder): every Stop.panic / Quote.panic site of the transaction model
                 'Minter.C07_deliver_no_panic_all_types_pools_without_orders', 'Minter.C07_check_no_panic_all_types_pools_without_orders',
                 'Minter.C07_prologue_total', 'Minter.C07_commission_payment_total', 'Minter.C07_failure_fee_no_panic',
                 'Minter.C07_quote_panics_on_negative_amount', 'Minter.txInv_iff', 'Minter.payCommission_total', 'Minter.quote_round_trip',
                 'Minter.unbondMoves_noPanic'],
    'panics_count': True,
    'campaigns': [camp('malformed', 16, 200), camp('mixed', 16, 200), camp('staking', 8, 100), camp('orders', 8, 100), camp('begin', 8, 60)],
    'assumptions': ['only the panic sites the Lean models represent are covered by theorems; nil dereferences / index errors in glue code, resource exhaustion and third-party library panics are only searched for',
                    'payout_remainder_nonneg needs sum(bip) <= the validator\'s recorded stake (see C19); C24_run_total needs the events-store bound (see C24)',
                    'C07_deliver_no_panic… / C07_check_no_panic…: states satisfying txInvB (monitored on every commit: VIOL C07 tx-invariant-broken), non-negative decoded integers (RLP has none), BuySwapPool with ValueToBuy <= 10^33; pools with limit orders and the four formula functions are outside the transaction model; the eight model self-check guards (modelGuards) are not Go panics and are excluded from the statement'],
    'claim_draft': "Partial. Lean theorems, one per panic site the models represent, each for all inputs of its domain: the swap check after a pool quote can never fail, so the panic(err) sites inside calculateBuyForSellWithOrders / calculateSellForBuyWithOrders are dead for pools without orders, also through the public quotes with the 0.1% burn (C07_bfs_no_panic, C07_sfb_no_panic, C07_quote_no_panic; positive reserves, non-negative amount); the big.Float detour of a limit-order partial fill is exact, so both 'negative amount' panics and all clamp branches are dead (Lob.ratInt_eq_ediv, Lob.partialSellAmount_eq, Lob.partialBuyAmounts_eq); the deliver-side panic site of RemoveLiquidity is unreachable after its validation (remove_liquidity_exec_ok); the 'Negative remainder' panic of the reward payout cannot fire while the stakes' bip values sum to at most the validator's recorded stake (payout_remainder_nonneg); RLP decoding is a total function whose fuel never causes a rejection (Rlp.decode_fuel_irrelevant); the events store never panics on bounded well-formed runs (Ev.C24_run_total). Transaction layer (MinterProofs/Props/C07Tx.lean; inventory of every Stop.panic / Quote.panic site of the transaction model against its Go site in the file header): for all parameters, oracle answers, blocks and transactions of all 37 types, in every state with the decidable invariant txInvB (amountsOk, pools stored sorted with reserves <= max supply, no negative price-table entry, the price-table coin has its pool, every pool has its LP token with positive supply; txInv_iff) and non-negative decoded integers, neither DeliverTx nor CheckTx of the model can end in a fault other than one of the model's own eight consistency guards, which stand for no Go panic (C07_deliver_no_panic_all_types_pools_without_orders, C07_check_no_panic_all_types_pools_without_orders; BuySwapPool under ValueToBuy <= 10^33); a prologue rejection is an answer, never a fault (C07_prologue_total); the commission payment of a validated transaction always succeeds - selling back what CalculateSellForBuyWithOrders quoted yields at least the base-coin price (C07_commission_payment_total, payCommission_total, quote_round_trip); the failure fee, also capped at the payer's balance, cannot fault (C07_failure_fee_no_panic); SubStake on a missing stake is unreachable after the validation (unbondMoves_noPanic; it WAS reachable on the node with Value = 0: F32, repaired in /repo abd6676); a negative amount does make the pool quote panic (C07_quote_panics_on_negative_amount), which is why the price computed from raw data is rejected with 119 before the pool arithmetic (F33, /repo 19af872, mirrored by the guard in basePrice). The hypothesis txInvB is evaluated on every committed state of every campaign (VIOL C07 tx-invariant-broken). Not covered by these theorems: swaps, commissions or price conversions crossing a pool with limit orders, faults inside formula.Calculate* (C12), glue code the model does not represent. Everything else is SEARCH, not proof: every ABCI call of every campaign (malformed bytes, mixed, staking, orders, begin: evidence / absences / maturing funds) runs under recover(); any panic of InitChain, BeginBlock, CheckTx, DeliverTx, EndBlock or Commit is reported with the trace (PANIC ...). The panics found so far (F1, F2, F8, F9, F12, F13, F28, F29, F32, F33 ...) are repaired in /repo and recorded in known_findings.json.",
}


# ---------------------------------------------------------------------------------------------------------------
# export builder: C11 (exported state round-trips through genesis); mode `export2` (the older, cheap mode `export` is kept)
PROPS['C11'] = {
    'level': 'proof', 'registered': False,
    'modules': ['MinterProofs.Props.C11'],
    'theorems': ['Minter.Genesis.verifyState_ok_iff', 'Minter.Genesis.verifyState_error',
                 'Minter.Genesis.export_verifies_volumes', 'Minter.Genesis.export_verifies_volumes_of_monitor',
                 'Minter.Genesis.verified_volumes', 'Minter.Genesis.export_verifies', 'Minter.Genesis.export_verifies_core',
                 'Minter.Genesis.wellFormed_inv', 'Minter.Genesis.wellFormed_verifies', 'Minter.Genesis.wellFormed_importFixed',
                 'Minter.Genesis.reach_export_inv', 'Minter.Genesis.reach_verifies_volumes',
                 'Minter.Genesis.import_id', 'Minter.Genesis.import_export_id', 'Minter.Genesis.import_nextOrder',
                 'Minter.Genesis.import_ncoins', 'Minter.Genesis.pending_updates_not_roundtrip',
                 'Minter.Genesis.exportState_idem', 'Minter.Genesis.C11_partial', 'Minter.Genesis.C11_partial_monitor'],
    'modes': [{'mode': 'export2', 'args': ['-profile', 'rotate', '-seed', '{seed}', '-n', '{n:14:80}', '-tier', '{tier}', '-driver', '{driver}', '-keep', '{keep}']},
              {'mode': 'export', 'args': ['-profile', 'mixed', '-seed', '{seed}', '-n', '16', '-tier', '{tier}', '-keep', '{keep}']}],
    'assumptions': ['behavioural equivalence of the chain started from the export is bounded evidence only (twin continuation in modes export2 / export)',
                    'Settled (the stake recalculation of Import/InitChain finds nothing to recompute) is a hypothesis; where it fails is known finding F15',
                    'ExportInv / ImportFixed outside Conserved, distinct non-zero coin ids and the coin counter are hypotheses, evaluated on every real export by Q wellformed / Q verify',
                    'the token parser Genesis.ofToken / genesisToken and the Go-side classification of Verify() error texts are trusted'],
    'claim_draft': "Lean theorems (MinterProofs/Props/C11.lean, core Lean, for all states): verifyState - the list of checks of AppState.Verify() in the order of the Go code - accepts exactly when every check holds (verifyState_ok_iff, verifyState_error); a state with the C01 invariant (volume = holdings for every custom coin), distinct non-zero coin ids and no staked token passes every volume comparison (export_verifies_volumes, export_verifies_volumes_of_monitor, verified_volumes; reach_verifies_volumes, reach_export_inv: so does every state the transaction model reaches, using C01_deliver_conserves and C22_dense_preserved), and every other check follows from a named structural invariant, so an export with ExportInv, Conserved and amountsOk - or one that passes the decidable monitor wellFormed - is accepted (export_verifies, export_verifies_core, wellFormed_inv, wellFormed_verifies, wellFormed_importFixed); State.Import+InitChain as seen by the next export (importState: coin counter := number of coins, NextOrderID kept above 1, reward := reward of the price record, safe reward carried by the genesis since /repo 9bb5ac3, stakes/validators through an abstract recalculation) is the identity on every data component and on the whole canonical state when the recalculation has nothing to recompute (import_ncoins, import_nextOrder, import_id, import_export_id, exportState_idem), and cannot be when stake updates are pending (pending_updates_not_roundtrip = known finding F15); collected in C11_partial / C11_partial_monitor. Tie: mode export2 runs histories of seven profiles on the real node, exports twice per history and checks on each export: the real Verify() accepts and verifyState gives the same verdict (Q verify), the 33 invariants incl. all theorem hypotheses hold (Q wellformed), 54 kinds of single mutations get the same verdict and failing-check class from the real Verify() and from verifyState (Q verifyagree, about 10^4 per quick run), the export imports into a fresh node whose re-export equals it up to recomputed stake values (F15) and equals what importState predicts (Q importagrees), and both chains answer the same to the same following blocks up to the next payout; it counts that exports with pending updates, locked tokens, orders, unused multisig accounts, used checks, pending halt/commission/update votes and deleted candidates were all reached; a directed probe exports while the price record is 'off' (reward 0, safe reward > 0) and follows both chains over the next payout (safe-reward-lost-on-import: the defect this check found - the genesis carried one reward, so the imported chain minted and burned differently - repaired in /repo 9bb5ac3; the probe stays armed). Partial: behavioural equivalence of the new chain is bounded evidence, not a theorem; the stake recalculation is abstract (F15); structural invariants beyond C01/C22 are hypotheses checked on real exports.",
}


# ---------------------------------------------------------------------------------------------------------------
# What is claimed (MANIFEST.json is generated from this by tools/gen_manifest.py)
CLAIMS = {
 'C01': "Lean theorems: every plan the model's DeliverTx can produce is built from value moves that are balanced by construction (Move.balanced, planOf_balanced), and checked application of a balanced plan preserves volume=holdings for every custom coin and the base-coin total up to recorded emission (balanced_preserves, C01_deliver_conserves, C01_block_body_conserves); for all states, transactions and oracle answers. Tie: model executed next to the real node on generated histories; monitors volumesOk/baseDeltaOk (the same Lean definitions) evaluated on the node's export at every commit. Block level (MinterModel/Block.lean: endBlock follows Blockchain.EndBlock line by line - return of dropped validators' rewards, accrual, order expiry, PayRewardsV5Fix, the emission step, updateValidators with recalculation / kicks / pruning / validator-set replacement; blockRun = beginBlock ; transactions ; endBlock; runBlocks = any list of blocks): for every state, every bip-value oracle and tally result, with no other hypothesis, EndBlock changes volume - holdings of every custom coin only by the explicitly named dropped updates and the base total by exactly the emission delta plus five named defect terms (endBlock_conserves); the terms are the five places where the code of EndBlock can mint or burn outside the emission counter, each the amount the code really creates or destroys: overMint (reward > safeReward below the cap: the pot gets the reward, the counter only the safe reward), lost (an x3 payment below 1 is subtracted from the remainder and skipped), dropped (a pending update with a non-positive value that finds no stake to merge into is filtered out), goneNonPos (SetNewValidators moves only positive accumulated rewards of leaving validators to the slashed total) and carry (old validators and selected candidates are matched by key); each is zero under an invariant proved elsewhere - reward <= safeReward (C28) or cap reached, PayOK of every payout input (C19), no negative pending update / accumulated reward, pairwise different public keys (endDefect_zero_overMint, endDefect_zero_lost, endDefect_zero_valUpdate, carry_zero); any transactions under any oracle leave the books and the emission unchanged (deliverTxs_books), BeginBlock leaves the emission counter alone (beginBlock_mint), so across a whole block and across ANY run of blocks from a state with the invariant, if no EndBlock of the run reports a defect, volume = holdings for every custom coin and base total - emission are preserved (C01_block_books, C01_block, C01_run_books, C01_main; kernel-evaluated examples C01_block_example: a payout block with zero defect, C01_defect_example: overMint = 30). Block-level tie: on every EndBlock of every campaign the driver runs endBlock on the node's live state before the block and compares balances, orders, frozen funds, stakes / updates / status of candidates, validators, coins, slashed total, fee pool and waitlist with the live state after it and the emission counter with the next commit (MISMATCH C01 end ...), and reports VIOL C01 end-defect when the model's run of that EndBlock creates or destroys value; payoutsOf_eq_payoutAll shows the payouts used are the function the valid mode ties to the node; a 64-block orders campaign reaches order expiry in the quick tier. Partial: 'no defect reported' is a hypothesis on the run (the invariants that imply it are not all proved preserved by every transaction type: C02 is partial); bip values of the recalculation are abstract (C17); pre-v3.3.0 payout versions are not modelled.",
 'C03': "Lean theorems C03_reject_fee_only and C04_nonce_effect: a rejected DeliverTx makes fee moves only and leaves every nonce unchanged; an accepted one bumps exactly the sender's nonce by one. Monitors on the node: after every rejected DeliverTx the live projection may only change in the fee coin for the payer/burn address/pool/reserve.",
 'C04': "Lean theorems C04_accept_in_order, C04_nonce_effect, C04_replay_rejected: accepted => nonce = stored+1 and chain id matches; any transaction whose nonce is not above the stored one is rejected by the prologue with no moves (state unchanged). Monitors on the node check the same on every delivered transaction incl. replays of earlier bytes.",
 'C05': "Lean theorems C05_balance_only_sender / C05_moves_need_authorization / move_debit_guard: no DeliverTx outcome lowers the balance of an account other than its sender, and moves happen only after the signature policy (single signature or distinct multisig owners reaching the threshold) passed. Monitors on the node: every balance/stake/waitlist decrease during a DeliverTx must belong to the sender (or the check issuer for RedeemCheck).",
 'C08': "Lean theorems: the tree-write sequence of a module commit, commutative accumulations and the candidate ranking are invariant under any permutation of the map iteration (C08_commit_perm_invariant, C08_accumulate_perm_invariant, C08_rank_perm_invariant, for all inputs); regenerated obligation C08_range_sites_safe: every range-over-map loop found in the CURRENT source of the state-mutating packages (go/types extractor, rerun whenever the tree changes) matches an order-insensitive pattern or a reviewed site; C08_commit_call_order pins the persistence call order of Blockchain.Commit. Tie/search: the same generated history executed by three separate processes (GOMAXPROCS 1/4/16, GOGC 10/100/off; Go reseeds map iteration per process), all responses, tags and app hashes compared line by line. Partial: goroutine scheduling and IAVL/goleveldb internals are exercised, not modelled.",
 'C13': "Lean theorems about the pool kernels (the definitions the driver executes against the real PairV2 functions): buyForSell_K / sellForBuy_K (every quoted trade leaves the fee-adjusted and the plain reserve product no smaller, output strictly inside the reserve), checkSwap_sound, burn_le_share, mint_then_burn_le, startingSupply_sq; for all reserves and amounts. Trades that cross limit orders (order-book model MinterModel/Orders.lean): consuming an order adds its two commissions to the reserves, a curve step accepted by checkSwap keeps the output inside the reserve and the product no smaller, what SellWithOrders / BuyWithOrders write is the closed form r0' = r0 + input - sum(fills.buy), r1' = r1 - output + sum(fills.sell), and every successful trade - any book with positive volumes, any number of full and partial fills, any oracle answers - leaves 0 < r0', 0 < r1', r0*r1 <= r0'*r1' and a positive amount (orderStep_K, curveStep_K, settle_ok, sellLoop_K, buyLoop_K, sellWithOrders_K, buyWithOrders_K). Tie: kernel correspondence (real CalculateBuyForSell/SellForBuy/CheckSwap/CalculateAddLiquidity/Amounts/startingSupply/commission roundings vs the Lean definitions on generated inputs incl. boundary shapes) + mode orders (the real PairSellWithOrders / PairBuyWithOrders on generated books vs the Lean walk, with the monitors 'product of reserves decreased' / 'pool paid out more than it holds') + node-level orders campaign with the conservation monitors.",
}
NOTES = {
 'C08': 'Partial by nature: scheduling and storage-library internals are outside the model; the syntactic loop classifier and the reviewed-site list are trusted.',
 'C13': 'The price-level oracle of a curve step towards an order (CalculateAddAmountsForPrice) is not modelled: the order theorems hold for every answer; the float sort key is differential-tested.',
}
for _p, _t in CLAIMS.items():
    PROPS[_p]['claim'] = _t
    PROPS[_p]['registered'] = True
    if _p in NOTES: PROPS[_p]['note'] = NOTES[_p]

# Components whose claim text was drafted at integration and reviewed: the draft becomes the claim.
REVIEWED = ['C02', 'C06', 'C07', 'C09', 'C10', 'C11', 'C12', 'C14', 'C15', 'C16', 'C17', 'C18', 'C19', 'C20', 'C21', 'C22', 'C23', 'C24', 'C25', 'C26', 'C27', 'C28', 'C29']
for _p in REVIEWED:
    if 'claim_draft' in PROPS.get(_p, {}):
        PROPS[_p]['claim'] = PROPS[_p]['claim_draft']
        PROPS[_p]['registered'] = True

# ---------------------------------------------------------------------------------------------------------------
# Boundary scenarios added after the first seeded-change sweep (three changes were missed by the quick tier):
#  * profile `prune` (104 candidates): six candidates of exactly equal total stake straddle rank 100 of the pruning order and six more
#    the validator cut (harness/world_ties.go); inside every period newcomers declare with stakes far above / a few pip above /
#    equal to / a few pip below the total at rank 100, delegations lift candidates over the boundary and unbonds sink others
#    (harness/txgen_extra.go rankDance); the driver's S end monitor pruneMonitor (MinterModel/ValidMonitor.lean) judges who was
#    removed by the totals of THIS recalculation (VIOL C17 removed-candidate-outranks-survivor / pruned-set-differs / ...).
#  * profile `restarting`: mixed traffic plus ticker hand-overs followed by actions of the new and of the former owner, on a disk node
#    that is stopped and reopened after about a quarter of the commits, WITH the driver attached: every key that differs between the
#    stopped and the restarted process (export and in-memory view) is VIOL C09 restart-changed-state, for authorization data also
#    VIOL C05 authorization-data-changed-by-restart, for coin registry fields VIOL C22 coin-registry-changed-by-restart; an accepted
#    recreate / owner change / mint signed by somebody who is not the owner according to the accepted transactions so far is
#    VIOL C05 / C22 owner-gated-tx-accepted-from-non-owner (MinterModel/RestartMonitor.lean).
PROPS['C08']['theorems'] += ['Minter.C08_prune_rank_perm_invariant', 'Minter.C08_pruned_tail_perm_invariant', 'Minter.C08_stake_only_order_depends_on_iteration']
PROPS['C08']['modes'] += [{'mode': 'determinism', 'args': ['-profile', 'prune', '-seed', '{seed}', '-n', '2', '-tier', '{tier}', '-keep', '{keep}']}]
PROPS['C08']['claim'] += (" Added: the pruning order (stake desc, id ASC - getOrderedCandidatesLessID) and the removed tail behind rank 100 are invariant under the iteration order for any stakes,"
                          " equal ones included (C08_prune_rank_perm_invariant, C08_pruned_tail_perm_invariant), and the id tie-break is necessary: a stable sort by stake alone returns different"
                          " orders for two iteration orders of two equal-stake candidates (C08_stake_only_order_depends_on_iteration). The three-process run is repeated on profile prune:"
                          " 104 candidates with groups of exactly equal total stake across rank 100 and across the validator cut, so that the tie-breaks decide who is removed and who validates.")
for _p in ('C17', 'C19'):
    PROPS[_p]['campaigns'] = PROPS[_p]['campaigns'] + [camp('prune', 4, 24)]
PROPS['C17']['claim'] += (" Added: campaign prune (104 candidates, the rank-100 boundary moving inside every period) with the S end monitor pruneMonitor: nobody removed outranks - by the totals of this"
                          " recalculation, (stake desc, id asc) - a candidate that stays, the removed set equals prunedCandidates of the recalculated totals whenever those are exact (base-coin stakes),"
                          " nobody is removed while there is room and no non-validator stays beyond rank 100 (VIOL C17 removed-candidate-outranks-survivor / pruned-set-differs /"
                          " candidate-removed-within-limit / candidate-beyond-limit-not-removed).")
for _p in ('C05', 'C22', 'C09'):
    PROPS[_p]['campaigns'] = PROPS[_p]['campaigns'] + [camp('restarting', 6, 40)]
_RESTARTING = (" Added: campaign restarting (disk node stopped and reopened after about a quarter of the commits, driver attached, ticker hand-overs followed by actions of the new and the former owner):"
               " what the stopped process held - export and in-memory view - must equal what the restarted one holds (VIOL C09 restart-changed-state; authorization data: VIOL C05"
               " authorization-data-changed-by-restart; coin registry fields: VIOL C22 coin-registry-changed-by-restart), and every accepted recreate / owner change / mint must be signed by the owner"
               " that follows from the accepted transactions so far (VIOL C05 / C22 owner-gated-tx-accepted-from-non-owner).")
for _p in ('C05', 'C22', 'C09'):
    PROPS[_p]['claim'] += _RESTARTING

# ---------------------------------------------------------------------------------------------------------------
# After the second seeded-change sweep: a node campaign registered for a property decides something for it. The model's own
# answer for every delivered transaction and every BeginBlock / EndBlock (status code, changed keys) is part of the tie of every
# property whose behaviour lives in those steps, so a disagreement in one of its campaigns breaks that property's correspondence
# (reported with the trace; no-failing-input-found unless one of the property's monitors fires in the continued history).
for _p in ('C13', 'C14', 'C17', 'C19', 'C20', 'C28'):
    PROPS[_p]['mismatch_counts'] = True
