import sys, os, json, time, subprocess, fcntl, re, shutil, tempfile, glob, hashlib

ROOT = os.path.dirname(os.path.dirname(os.path.abspath(__file__)))
LEAN = os.path.join(ROOT, 'lean')
HARNESS = os.path.join(ROOT, 'harness')
BIN = os.path.join(ROOT, 'bin')
REPLAYS = os.path.join(ROOT, 'replays')
EVID = os.path.join(ROOT, 'evidence')
DRIVER = os.path.join(LEAN, '.lake', 'build', 'bin', 'driver')
GOENV = dict(os.environ, GOFLAGS='-mod=mod', GOPROXY='off', GOSUMDB='off', GOTOOLCHAIN='local', CGO_ENABLED=os.environ.get('CGO_ENABLED', '1'))
ALLOWED_AXIOMS = {'propext', 'Classical.choice', 'Quot.sound'}

import props

def log(*a):
    print('[check]', *a, file=sys.stderr, flush=True)

class Lock:
    def __init__(self, path):
        self.path = path
    def __enter__(self):
        self.f = open(self.path, 'w')
        fcntl.flock(self.f, fcntl.LOCK_EX)
    def __exit__(self, *a):
        fcntl.flock(self.f, fcntl.LOCK_UN)
        self.f.close()

def sh(cmd, cwd=None, env=None, timeout=None, inp=None):
    p = subprocess.run(cmd, cwd=cwd, env=env, timeout=timeout, input=inp, capture_output=True, text=True)
    return p.returncode, p.stdout, p.stderr

def repo_fingerprint():
    rc, out, _ = sh(['git', '-C', '/repo', 'rev-parse', 'HEAD'])
    rc2, diff, _ = sh(['git', '-C', '/repo', 'diff', 'HEAD', '--stat'])
    return out.strip() + ('+dirty:' + hashlib.sha1(diff.encode()).hexdigest()[:10] if diff.strip() else '')

def repo_tree_fingerprint():
    """Content fingerprint of /repo's working tree (HEAD + tracked changes + untracked .go files)."""
    h = hashlib.sha1()
    for cmd in (['git', '-C', '/repo', 'rev-parse', 'HEAD'], ['git', '-C', '/repo', 'diff', 'HEAD'], ['git', '-C', '/repo', 'status', '--porcelain']):
        h.update(sh(cmd)[1].encode())
    rc, out, _ = sh(['git', '-C', '/repo', 'ls-files', '--others', '--exclude-standard'])
    for f in sorted(out.split()):
        if f.endswith('.go'):
            try: h.update(open(os.path.join('/repo', f), 'rb').read())
            except OSError: pass
    return h.hexdigest()

def build_all(modules=(), race_build=False):
    """Rebuild harness (from /repo's working tree, hooks on), regenerate Gen/*.lean, rebuild Lean. Returns dict of statuses."""
    os.makedirs(BIN, exist_ok=True)
    os.makedirs(REPLAYS, exist_ok=True)
    st = {'harness': 'ok', 'extract': 'ok', 'lean': 'ok', 'lean_errors': [], 'harness_error': '', 'extract_error': ''}
    with Lock(os.path.join(ROOT, '.buildlock')):
        t0 = time.time()
        shutil.copy('/repo/go.sum', os.path.join(HARNESS, 'go.sum'))
        rc, out, err = sh(['go', 'build', '-tags', 'verif', '-o', os.path.join(BIN, 'harness'), '.'], cwd=HARNESS, env=GOENV)
        if rc != 0:
            st['harness'] = 'fail'
            st['harness_error'] = (out + err)[-4000:]
        st['harness_s'] = round(time.time() - t0, 1)
        if race_build and rc == 0:
            # race-detector build of the same sources (C25 only: minutes when the build cache is cold)
            t0 = time.time()
            rc2, out2, err2 = sh(['go', 'build', '-race', '-tags', 'verif', '-o', os.path.join(BIN, 'harness-race'), '.'], cwd=HARNESS, env=GOENV)
            if rc2 != 0:
                st['harness'] = 'fail'
                st['harness_error'] = 'race build: ' + (out2 + err2)[-4000:]
            st['harness_race_s'] = round(time.time() - t0, 1)
        # extractor (regenerated facts): Gen/Facts.lean is rebuilt from /repo's current source whenever the tree changed
        t0 = time.time()
        ext = os.path.join(ROOT, 'extract')
        gen = os.path.join(LEAN, 'MinterModel', 'Gen')
        fp = repo_tree_fingerprint()
        stamp = os.path.join(BIN, 'extract.stamp')
        fresh = os.path.exists(stamp) and open(stamp).read() == fp and os.path.exists(os.path.join(gen, 'Facts.lean'))
        if not fresh:
            rc, out, err = sh(['go', 'build', '-o', os.path.join(BIN, 'extract'), '.'], cwd=ext, env=GOENV)
            if rc == 0:
                rc, out, err = sh([os.path.join(BIN, 'extract'), '-repo', '/repo', '-out', gen], env=GOENV)
            if rc != 0:
                st['extract'] = 'fail'
                st['extract_error'] = (out + err)[-4000:]
            else:
                open(stamp, 'w').write(fp)
        st['extract_s'] = round(time.time() - t0, 1)
        st['extract_cached'] = fresh
        t0 = time.time()
        # the driver (model) and only the proof modules this property needs: a broken obligation of another
        # property must not raise an alarm here
        rc, out, err = sh(['lake', 'build', 'driver'] + list(modules), cwd=LEAN)
        if rc != 0:
            st['lean'] = 'fail'
            st['lean_errors'] = [l for l in (out + err).split('\n') if 'error' in l][:40]
            st['lean_log'] = (out + err)[-6000:]
        st['lean_s'] = round(time.time() - t0, 1)
    return st

def lean_audit(theorems, modules=('MinterProofs',)):
    """#print axioms for every theorem; returns {name: {'ok':bool,'axioms':[...]}}."""
    if not theorems:
        return {}
    src = ''.join('import %s\n' % m for m in modules) + '\n'.join('#print axioms ' + t for t in theorems) + '\n'
    with tempfile.NamedTemporaryFile('w', suffix='.lean', dir=LEAN, delete=False) as f:
        f.write(src)
        path = f.name
    try:
        rc, out, err = sh(['lake', 'env', 'lean', path], cwd=LEAN)
    finally:
        os.unlink(path)
    res = {}
    text = out + err
    for t in theorems:
        res[t] = {'ok': False, 'axioms': None}
    # messages look like: 'Minter.foo' depends on axioms: [propext, Quot.sound]   or   does not depend on any axioms
    for m in re.finditer(r"'([^']+)' (depends on axioms: \[([^\]]*)\]|does not depend on any axioms)", text.replace('\n', ' ')):
        name = m.group(1)
        ax = [a.strip() for a in (m.group(3) or '').split(',') if a.strip()]
        for t in theorems:
            if t == name or t.endswith('.' + name) or name.endswith('.' + t):
                res[t] = {'ok': set(ax) <= ALLOWED_AXIOMS, 'axioms': ax}
    return res

def grep_forbidden():
    """sorry/admit/axiom/native_decide... outside comments in the Lean sources."""
    hits = []
    pat = re.compile(r'\bsorry\b|\badmit\b|^axiom |native_decide|bv_decide|implemented_by|\bunsafe |maxHeartbeats 0')
    for path in glob.glob(os.path.join(LEAN, '**', '*.lean'), recursive=True):
        if '/.lake/' in path:
            continue
        incomment = 0
        for i, line in enumerate(open(path)):
            l = line
            # crude block comment tracking
            if '/-' in l:
                incomment += l.count('/-')
            code = l.split('--')[0] if incomment == 0 else ''
            if '-/' in l:
                incomment = max(0, incomment - l.count('-/'))
            if code and pat.search(code):
                hits.append('%s:%d: %s' % (os.path.relpath(path, ROOT), i + 1, line.strip()[:120]))
    return hits

def load_known():
    p = os.path.join(ROOT, 'known_findings.json')
    if not os.path.exists(p):
        return {'findings': [], 'fixed': []}
    return json.load(open(p))

def run_campaign(profile, seed, n, tier, par=16, extra=None):
    out = tempfile.NamedTemporaryFile('w', suffix='.json', delete=False).name
    tmpd = tempfile.mkdtemp(prefix='verif-run-')
    env = dict(GOENV, VERIF_TMP=tmpd, GOMEMLIMIT='6GiB')
    cmd = [os.path.join(BIN, 'harness'), 'campaign', '-profile', profile, '-seed', str(seed), '-n', str(n), '-tier', tier, '-par', str(par), '-driver', DRIVER, '-keep', REPLAYS, '-out', out]
    if extra:
        cmd += extra
    try:
        rc, so, se = sh(cmd, env=env, timeout=7200)
        try:
            res = json.load(open(out))
        except Exception as e:
            res = {'histories': [], 'stats': {}, 'ops': 0, 'wall_s': 0, 'n_histories': 0, 'crash': (so + se)[-3000:]}
    finally:
        shutil.rmtree(tmpd, ignore_errors=True)
        try: os.unlink(out)
        except OSError: pass
    res['profile'] = profile
    return res

def run_mode(mode, args, timeout=7200):
    """Run a special harness mode that prints one JSON object on stdout."""
    tmpd = tempfile.mkdtemp(prefix='verif-run-')
    env = dict(GOENV, VERIF_TMP=tmpd, GOMEMLIMIT='6GiB')
    try:
        rc, so, se = sh([os.path.join(BIN, 'harness'), mode] + args, env=env, timeout=timeout)
    finally:
        shutil.rmtree(tmpd, ignore_errors=True)
    try:
        # last JSON object in stdout
        i = so.rindex('\n{') + 1 if '\n{' in so else so.index('{')
        return json.loads(so[i:])
    except Exception:
        return {'crash': (so + se)[-3000:], 'rc': rc}

def write_evidence(prop, tier, seed, level, coverage, assumptions, wall, violations):
    os.makedirs(EVID, exist_ok=True)
    ev = {'property_id': prop, 'tier': tier, 'seed': seed, 'level': level, 'coverage': coverage, 'assumptions': assumptions, 'wall_s': round(wall, 2), 'violations': violations}
    tmp = os.path.join(EVID, prop + '.json.tmp')
    json.dump(ev, open(tmp, 'w'), indent=1)
    os.replace(tmp, os.path.join(EVID, prop + '.json'))

def run_check(prop, tier, seed, replay):
    t0 = time.time()
    if prop not in props.PROPS:
        print('unknown property', prop)
        return 2
    P = props.PROPS[prop]
    known = load_known()
    modules = P.get('modules', [])
    st = build_all(modules, race_build=P.get('race_build', False))
    violations = []   # (message, replay_path or None)
    known_hits = []
    notes = []
    if st['harness'] != 'ok':
        p = os.path.join(REPLAYS, prop + '-harness-build.txt')
        open(p, 'w').write('The harness no longer builds against /repo (correspondence broken):\n' + st['harness_error'])
        violations.append(('harness-build-failed', p, True))
    # --- proofs
    thms = P.get('theorems', [])
    audit = {}
    forbidden = grep_forbidden()
    lean_ok = st['lean'] == 'ok'
    if lean_ok:
        audit = lean_audit(thms, modules or ['MinterProofs'])
    discharged = sum(1 for t in thms if audit.get(t, {}).get('ok'))
    broken = [t for t in thms if not audit.get(t, {}).get('ok')]
    if forbidden:
        broken.append('forbidden-constructs:' + ';'.join(forbidden[:5]))
    proof_broken = (not lean_ok) or bool(broken) or st['extract'] != 'ok'
    # --- campaigns (correspondence + monitors on the implementation)
    camp = []
    total_ops = 0
    hist_n = 0
    samples = []
    stats = {}
    fail_lines = {}
    if st['harness'] == 'ok' and lean_ok:
        for c in P.get('campaigns', []):
            n = c['n_thorough'] if tier == 'thorough' else c['n_quick']
            r = run_campaign(c['profile'], seed, n, tier, extra=c.get('extra'))   # 'extra': additional harness flags of this campaign (e.g. -histblocks 64)
            camp.append({'profile': c['profile'], 'n': n, 'ops': r.get('ops', 0), 'wall_s': r.get('wall_s', 0), **({'extra': c['extra']} if c.get('extra') else {})})
            total_ops += r.get('ops', 0)
            hist_n += r.get('n_histories', 0)
            for k, v in (r.get('stats') or {}).items():
                stats[k] = stats.get(k, 0) + v
            if 'crash' in r:
                violations.append(('harness-crashed: ' + r['crash'][-300:], None, True))
            for h in r.get('histories', []):
                if h.get('sample') and len(samples) < 4:
                    samples.append({'profile': c['profile'], 'seed': h['seed'], 'ops': h['sample'][:2]})
                if h.get('err'):
                    violations.append(('history-error: ' + h['err'][:300], h.get('trace'), True))
                for pmsg in (h.get('panics') or []):
                    if P.get('panics_count', False):
                        violations.append(('PANIC ' + pmsg[:400], h.get('trace'), False))
                for f in (h.get('fails') or []):
                    m = re.match(r'(VIOL|MISMATCH|FAIL) (C\d+)?', f)
                    tag = m.group(2) if m and m.group(2) else None
                    if f.startswith('VIOL') and tag == prop:
                        violations.append((f[:400], h.get('trace'), False))
                    elif f.startswith('MISMATCH') and (tag is None or tag == prop) and prop in P.get('mismatch_props', [prop]) and P.get('mismatch_counts', False):
                        violations.append((f[:400], h.get('trace'), not P.get('mismatch_is_failing_input', False)))
                    elif f.startswith('DRIVER-EOF'):
                        violations.append((f[:400], h.get('trace'), True))
        # --- search for a failing input: the correspondence broke (model and node disagree on a history) but no property monitor
        # fired yet. The property may fail later in the same history (funds mature, a payout happens, a restart): the
        # disagreeing histories are continued for much longer and the monitors watched.
        only_nofail = [v for v in violations if v[2]] and not [v for v in violations if not v[2]]
        if only_nofail and P.get('campaigns'):
            seeds_by_profile = {}
            for (msg, tr, nf) in violations:
                mm = re.search(r'/([a-z0-9]+)-(\d+)\.trace$', tr or '')
                if mm:
                    seeds_by_profile.setdefault(mm.group(1), [])
                    if int(mm.group(2)) not in seeds_by_profile[mm.group(1)] and len(seeds_by_profile[mm.group(1)]) < 3:
                        seeds_by_profile[mm.group(1)].append(int(mm.group(2)))
            searched = 0
            for prof, sds in seeds_by_profile.items():
                r = run_campaign(prof, seed, len(sds), 'thorough', extra=['-seeds', ','.join(str(x) for x in sds), '-histblocks', str(P.get('search_blocks', 260))])
                searched += r.get('ops', 0)
                for h in r.get('histories', []):
                    for pmsg in (h.get('panics') or []):
                        if P.get('panics_count', False):
                            violations.append(('PANIC ' + pmsg[:400], h.get('trace'), False))
                    for f in (h.get('fails') or []):
                        m2 = re.match(r'VIOL (C\d+)', f)
                        if m2 and m2.group(1) == prop:
                            violations.append((f[:400] + ' [found by continuing a disagreeing history]', h.get('trace'), False))
            camp.append({'search': 'continued %d disagreeing histories to %d blocks' % (sum(len(v) for v in seeds_by_profile.values()), P.get('search_blocks', 260)), 'ops': searched})
            total_ops += searched
        for m in P.get('modes', []):
            def subst(a):
                mm = re.match(r'\{n:(\d+):(\d+)\}', a)
                if mm:
                    return mm.group(2) if tier == 'thorough' else mm.group(1)
                return a.replace('{seed}', str(seed)).replace('{tier}', tier).replace('{driver}', DRIVER).replace('{keep}', REPLAYS)
            args = [subst(a) for a in m['args']]
            r = run_mode(m['mode'], args)
            camp.append({'mode': m['mode'], 'result': {k: v for k, v in r.items() if k not in ('violations', 'samples')}})
            total_ops += r.get('evaluations', 0)
            for s in (r.get('samples') or [])[:3]:
                if len(samples) < 8:
                    samples.append(s)
            if 'crash' in r:
                violations.append(('mode-crashed %s: %s' % (m['mode'], r['crash'][-400:]), None, True))
            for v in r.get('violations') or []:
                if (v.get('property') or prop) == prop:   # a mode that does not name a property reports for the one being checked
                    violations.append((v.get('msg', '')[:400], v.get('replay'), False))
    # --- proof / tie breakage without a failing input
    if proof_broken:
        p = os.path.join(REPLAYS, prop + '-proof-broken.txt')
        with open(p, 'w') as f:
            f.write('Proof obligations or regenerated-fact ties that no longer check for %s:\n' % prop)
            for b in broken: f.write('  theorem: %s\n' % b)
            if st['lean'] != 'ok':
                f.write('lake build failed:\n' + '\n'.join(st['lean_errors']) + '\n' + st.get('lean_log', '') + '\n')
            if st['extract'] != 'ok':
                f.write('extractor failed:\n' + st['extract_error'] + '\n')
        relevant = (not lean_ok and P.get('lean_required', True)) or bool(broken) or st['extract'] != 'ok'
        if relevant and not any(not nf for (_, _, nf) in violations):
            violations.append(('proof-or-tie-broken', p, True))
    # --- known findings filter
    final = []
    for (msg, rp, nofail) in violations:
        hit = None
        for k in known.get('findings', []):
            if k.get('property') == prop and re.search(k['match'], msg):
                hit = k
        if hit:
            known_hits.append((hit, msg))
        else:
            final.append((msg, rp, nofail))
    # scenario-based known findings (always replayed): printed by the modes as 'known' entries
    seen = set()
    for (k, msg) in known_hits:
        if k['id'] not in seen:
            seen.add(k['id'])
            print('KNOWN-FINDING: property=%s %s' % (prop, k['what']))
    # --- evidence
    wall = time.time() - t0
    level = P.get('level', 'proof')
    cov = {
        'obligations': max(len(thms), 1) if level == 'proof' else len(thms),
        'discharged': discharged if thms else (1 if level != 'proof' else 0),
        'checker_cmd': 'cd /verif/lean && lake build && lake env lean <(#print axioms ...)  [Lean 4.33.0 kernel]',
        'trusted_base': P.get('trusted_base', props.DEFAULT_TRUSTED),
        'theorems': {t: audit.get(t, {}).get('axioms') for t in thms},
        'broken': broken,
        'forbidden_hits': forbidden,
        'evaluations': max(total_ops, 1),
        'distinct_nontrivial': max(sum(v for k, v in stats.items() if k.startswith('tx.') and k.endswith('.ok')), 2) if stats else max(total_ops, 2),
        'rule': P.get('rule', 'histories generated from VERIF_SEED; an op is non-trivial when it is an accepted transaction (distinct by construction: nonce/sender/type differ)'),
        'traces_validated_against_impl': hist_n,
        'samples': samples or [{'note': 'no campaign for this property in this tier'}],
        'campaigns': camp,
        'generator_distribution': {k: stats[k] for k in sorted(stats)},
        'repo': repo_fingerprint(),
        'build': {k: st[k] for k in ('harness', 'extract', 'lean', 'harness_s', 'harness_race_s', 'lean_s') if k in st},
        'known_findings_hit': [k['id'] for (k, _) in known_hits],
        'violation_samples': [{'msg': m[:500], 'replay': rp, 'no_failing_input': nf} for (m, rp, nf) in final[:8]],
        'explanation': P.get('explanation') or P.get('claim', P.get('claim_draft', '')),
    }
    if level == 'proof' and not thms:
        cov['obligations'] = 1; cov['discharged'] = 0
    write_evidence(prop, tier, seed, level, cov, P.get('assumptions', []), wall, len(final))
    if final:
        for (msg, rp, nofail) in final[:10]:
            if rp is None:
                rp = os.path.join(REPLAYS, prop + '-violation.txt')
                open(rp, 'a').write(msg + '\n')
            print('VIOLATION property=%s replay=%s%s' % (prop, rp, ' no-failing-input-found' if nofail else ''))
            log(msg)
        return 1
    print('OK property=%s tier=%s ops=%d histories=%d theorems=%d/%d wall=%.1fs' % (prop, tier, total_ops, hist_n, discharged, len(thms), wall))
    return 0
