import MinterModel.Bag
import MinterModel.State
import MinterModel.Parse
import MinterModel.Ledger
import MinterModel.Kernels
import MinterModel.Tx
import MinterModel.Moves
import MinterModel.Monitors
