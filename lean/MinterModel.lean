import MinterModel.Bag
import MinterModel.State
import MinterModel.Parse
import MinterModel.Ledger
