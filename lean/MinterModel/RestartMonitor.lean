import MinterModel.Parse
/-
  Monitors on the node's own observations around a restart and along the accepted coin-registry transactions
  (campaign profile `restarting`: a disk node stopped and reopened after commits, with the driver attached).

  * `restartViolations`: a dump key whose value differs between the process that stopped and the process that was
    started from its disk. Any difference is a C09 violation; when the key carries authorization data - the owner of a
    ticker, the owner / reward / control address of a candidate, the owners, weights and threshold of a multisig account, the
    owner of a limit order - it is a C05 violation as well (who may act changed without any transaction), and for the
    registry fields of a coin (symbol, version, owner, mintable, burnable) a C22 violation.
  * `ownerGate`: the ticker owners as they follow from the ACCEPTED transactions alone (create: the sender; edit owner: the new
    owner; recreate: unchanged). An accepted recreate / owner change / mint signed by anybody else is an authorization
    failure, whatever the node's own state says at that moment (after a restart it may say something else than before).
-/
namespace Minter

/-- Field names of the dump values that carry authorization data. -/
def fieldNames (kind : String) : List String :=
  match kind with
  | "c" => ["symbol", "version", "volume", "reserve", "crr", "maxSupply", "owner", "mintable", "burnable"]
  | "cand" => ["pubkey", "owner", "reward", "control", "commission", "status", "jailedUntil", "lastEditCommission", "totalBip"]
  | "ms" => ["threshold", "owners"]
  | "o" => ["coin0", "coin1", "isSale", "volume0", "volume1", "owner", "height"]
  | _ => []

/-- Fields whose change alters who is allowed to act (C05). -/
def authFields (kind : String) : List String :=
  match kind with
  | "c" => ["owner"]
  | "cand" => ["owner", "reward", "control"]
  | "ms" => ["threshold", "owners"]
  | "o" => ["owner"]
  | _ => []

/-- Registry fields of a coin (C22). -/
def registryFields (kind : String) : List String :=
  match kind with
  | "c" => ["symbol", "version", "owner", "mintable", "burnable"]
  | _ => []

/-- The fields (by name) in which two values of the same kind differ; a missing value differs in every field. -/
def changedFields (kind : String) (old new : Option String) : List (String × String × String) :=
  let names := fieldNames kind
  let o := (old.map words).getD []
  let n := (new.map words).getD []
  (List.range names.length).filterMap (fun i =>
    let a := o.getD i "absent"
    let b := n.getD i "absent"
    if a == b then none else some (names.getD i "", a, b))

/-- Violations for one key that a restart changed. `src` says which observation differs (`export` = the state re-read from
    disk, `live` = what the process holds in memory and answers from). -/
def restartViolations (src key : String) (old new : Option String) : List String :=
  if old == new then [] else
  let kind := (words key).headD ""
  let ch := changedFields kind old new
  let keyU := key.replace " " "_"
  let short := fun (s : Option String) => ((s.getD "absent").replace " " "_").take 90
  [s!"VIOL C09 restart-changed-state {keyU} ({src}) {short old}->{short new}"]
  ++ (ch.filter (fun c => (authFields kind).contains c.1)).map (fun c =>
        s!"VIOL C05 authorization-data-changed-by-restart {keyU} ({src}) {c.1}:{c.2.1}->{c.2.2}")
  ++ (ch.filter (fun c => (registryFields kind).contains c.1)).map (fun c =>
        s!"VIOL C22 coin-registry-changed-by-restart {keyU} ({src}) {c.1}:{c.2.1}->{c.2.2}")

/-- Ticker ↦ owner (hex, `-` = none) of the active coins of a dump. -/
def tickersOfDump (d : Dump) : List (String × String) :=
  d.toList.filterMap (fun (k, v) =>
    match words k, words v with
    | ["c", _], sym :: ver :: _ :: _ :: _ :: _ :: owner :: _ => if ver == "0" then some (sym, owner) else none
    | _, _ => none)

def setTicker (l : List (String × String)) (sym owner : String) : List (String × String) :=
  (sym, owner) :: l.filter (fun e => e.1 != sym)

/-- One accepted transaction against the owners that follow from the accepted transactions so far.
    `typ`: 5 CreateCoin, 30 CreateToken, 16 RecreateCoin, 31 RecreateToken, 17 EditCoinOwner, 28 MintToken.
    `sym` is the ticker the transaction names (for a mint: the ticker of the coin id, `ver` its version). Returns the
    violations and the owners afterwards. -/
def ownerGate (owners : List (String × String)) (typ : Nat) (sender sym ver newOwner : String) : List String × List (String × String) :=
  if sym == "" then ([], owners) else
  if typ == 5 || typ == 30 then ([], setTicker owners sym sender)
  else if typ == 16 || typ == 31 || typ == 17 || typ == 28 then
    let viol := match owners.lookup sym with
      | some o =>
        if o != sender then
          [s!"VIOL C05 owner-gated-tx-accepted-from-non-owner type={typ} ticker={sym} sender={sender} owner-by-accepted-txs={o}",
           s!"VIOL C22 owner-gated-tx-accepted-from-non-owner type={typ} ticker={sym} sender={sender} owner-by-accepted-txs={o}"]
        else if typ == 28 && ver != "0" then [s!"VIOL C22 archived-coin-minted ticker={sym} version={ver}"]
        else []
      | none => []
    (viol, if typ == 17 then setTicker owners sym newOwner else owners)
  else ([], owners)

end Minter
