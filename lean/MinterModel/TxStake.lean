import MinterModel.TxBase
/-
  L2, part 4: staking — DeclareCandidacy (6), Delegate (7), Unbond (8), MoveStake (27), LockStake (37), Lock (38).
-/
namespace Minter

def candByKey (s : State) (pk : PubKey) : Option Candidate := findFirst (·.pubkey == pk) s.candidates

/-- `Candidates.Exists`: the key belongs to a current candidate. -/
def candExists (s : State) (pk : PubKey) : Bool := s.candidates.any (·.pubkey == pk)

/-- `Candidates.ID(pubkey)`: the candidate's id, else the id a deleted candidate had, else 0. -/
def candIdOf (s : State) (pk : PubKey) : Nat :=
  match candByKey s pk with
  | some cd => cd.id
  | none => match findFirst (fun d => d.2 == pk) s.deleted with
    | some d => d.1
    | none => 0

/-- `WaitList.Get(address, pubkey, coin)`. -/
def waitGet (s : State) (a : Addr) (pk : PubKey) (coin : Coin) : Option WaitEntry :=
  let id := candIdOf s pk
  if id == 0 then none else findFirst (fun w => w.cand == id && w.owner == a && w.coin == coin) s.waitlist

/-- Σ of everything delegated in `coin` (stakes and pending updates of every candidate). -/
def totalDelegated (s : State) (coin : Coin) : Int := sumBy (candHoldings coin) s.candidates

/-- `calculateBipValue(coin, amount, includeSelf, includeUpdates)`. -/
def bipValue (o : Oracle) (s : State) (coin : Coin) (amount : Int) : M Int :=
  if coin == 0 then pure amount
  else if amount == 0 then pure 0
  else
    match getCoin s coin with
    | none => throw (.panic "calculateBipValue: missing coin")
    | some ci =>
      let total := amount + totalDelegated s coin
      match ask o (.saleReturn ci.volume ci.reserve ci.crr (ci.volume - total)) with
      | .error e => throw e
      | .ok r =>
        if total == 0 then throw (.panic "calculateBipValue: division by zero")
        else pure ((ci.reserve - r) * amount / total)

/-- `IsDelegatorStakeAllowed`: `(low, tooBig)`. -/
def stakeAllowed (P : Params) (o : Oracle) (s : State) (a : Addr) (cd : Candidate) (coin : Coin) (amount : Int) : M (Bool × Bool) :=
  match bipValue o s coin amount with
  | .error e => throw e
  | .ok sv =>
    let slot : Option Int :=
      if cd.stakes.length < P.maxDelegators then some 0
      else match findFirst (fun st => decide (sv > st.bip) || (st.owner == a && st.coin == coin)) cd.stakes with
        | some st => some st.bip
        | none => none
    match slot with
    | none => pure (true, false)
    | some old =>
      let diff := sv - old
      let newTotal := cd.totalBip + diff
      if s.validators.length < 4 then pure (false, false)
      else if newTotal == 0 then pure (false, false)
      else if (s.totalStakes + diff) / newTotal < 5 then pure (false, true)
      else pure (false, false)

/-- Delegate (7). -/
def runDelegate (P : Params) (o : Oracle) (s : State) (t : TxIn) (price : Int) : Handler :=
  let pk := t.hex "d.PubKey"; let coin := t.nat "d.Coin"; let value := t.int "d.Value"
  if !coinExists s coin then reject 102 else
  if !baseOrReserve s coin then reject 103 else
  let wl := waitGet s t.sender pk coin
  let total := value + (match wl with | some w => w.value | none => 0)
  if total < 1 then reject 408 else
  match candByKey s pk with
  | none => reject 403
  | some cd =>
    match stakeAllowed P o s t.sender cd coin total with
    | .error e => throw e
    | .ok (low, big) =>
      if low then reject 409 else
      if big then reject 415 else
      withCom P o s t.gasCoin price fun com =>
        if balanceOf s t.sender t.gasCoin < com.commission then reject 107 else
        if balanceOf s t.sender coin < value then reject 107 else
        if coin == t.gasCoin && balanceOf s t.sender t.gasCoin < value + com.commission then reject 107 else
        ready t com [.delegate t.sender cd.id coin value wl]

/-- The stake / waitlist check shared by Unbond and MoveStake: `none` = passes. -/
def unbondCheck (s : State) (a : Addr) (pk : PubKey) (coin : Coin) (value : Int) : Option Nat :=
  let wl := waitGet s a pk coin
  let early : Bool := match wl with | some w => decide (value ≤ w.value) | none => false
  if early then none else
  let wlStake : Int := match wl with | some w => w.value | none => 0
  match candByKey s pk with
  | none => some 403
  | some cd =>
    let stake : Option Int := match findFirst (stakeKey a coin) cd.stakes with | some st => some st.value | none => none
    let positive : Bool := match stake with | some v => decide (0 < v) | none => false
    if positive then
      (if wlStake + stake.getD 0 < value then some 405 else none)
    else if wlStake < value || wlStake ≤ 0 then   -- /repo abd6676: without a positive stake a missing waitlist entry rejects a zero value too
      (if wlStake ≤ 0 then some 404 else some 412)
    else none

/-- The moves of an unbond / move-stake: waitlist first, then the stake; the amount goes to a frozen fund due at `height`. -/
def unbondMoves (s : State) (a : Addr) (pk : PubKey) (coin : Coin) (value : Int) (height : Nat) (moveTo : Nat) : M (List Move) :=
  let wl := waitGet s a pk coin
  let f : Frozen := { height := height, addr := a, candKey := some pk, candId := candIdOf s pk, coin := coin, value := value, moveTo := moveTo }
  let needStake : Bool := match wl with | some w => decide (w.value < value) | none => true
  match candByKey s pk with
  | some cd =>
    if needStake && !(cd.stakes.any (stakeKey a coin)) then throw (.panic "SubStake on a missing stake")
    else pure [.unbond a cd.id coin value wl f]
  | none =>
    if needStake then throw (.panic "SubStake on a missing candidate") else pure [.unbond a 0 coin value wl f]

/-- Unbond (8). -/
def runUnbond (P : Params) (o : Oracle) (s : State) (block : Nat) (t : TxIn) (price : Int) : Handler :=
  let pk := t.hex "d.PubKey"; let coin := t.nat "d.Coin"; let value := t.int "d.Value"
  if (s.lockStake.lookup t.sender).getD 0 > block then reject 416 else
  if !coinExists s coin then reject 102 else
  match unbondCheck s t.sender pk coin value with
  | some c => reject c
  | none =>
    withCom P o s t.gasCoin price fun com =>
      if balanceOf s t.sender t.gasCoin < com.commission then reject 107 else
      pure (.ok { payer := t.sender, coin := t.gasCoin, com := com,
                  exec := fun _ =>
                    match unbondMoves s t.sender pk coin value (block + P.unbond) 0 with
                    | .error e => throw e
                    | .ok ms => pure (ms, [("tx.unlock_block_id", toString (block + P.unbond))]) })

/-- MoveStake (27). -/
def runMoveStake (P : Params) (o : Oracle) (s : State) (block : Nat) (t : TxIn) (price : Int) : Handler :=
  let fromPk := t.hex "d.FromPubKey"; let toPk := t.hex "d.ToPubKey"; let coin := t.nat "d.Coin"; let value := t.int "d.Value"
  if fromPk == toPk then reject 417 else
  if !candExists s toPk then reject 403 else
  if !coinExists s coin then reject 102 else
  match unbondCheck s t.sender fromPk coin value with
  | some c => reject c
  | none =>
    withCom P o s t.gasCoin price fun com =>
      if balanceOf s t.sender t.gasCoin < com.commission then reject 107 else
      pure (.ok { payer := t.sender, coin := t.gasCoin, com := com,
                  exec := fun _ =>
                    match unbondMoves s t.sender fromPk coin value (block + P.move) (candIdOf s toPk) with
                    | .error e => throw e
                    | .ok ms => pure (ms, [("tx.unlock_block_id", toString (block + P.move))]) })

/-- Lock (38). -/
def runLock (P : Params) (o : Oracle) (s : State) (block : Nat) (t : TxIn) (price : Int) : Handler :=
  let due := t.nat "d.DueBlock"; let coin := t.nat "d.Coin"; let value := t.int "d.Value"
  if due ≤ block then reject 123 else
  if !coinExists s coin then reject 102 else
  withCom P o s t.gasCoin price fun com =>
    if t.gasCoin != coin && balanceOf s t.sender coin < value then reject 107 else
    if balanceOf s t.sender t.gasCoin < t.addIfGas coin com.commission value then reject 107 else
    ready t com [.lock t.sender { height := due, addr := t.sender, candKey := none, candId := 0, coin := coin, value := value, moveTo := 0 }]

/-- LockStake (37). -/
def runLockStake (P : Params) (o : Oracle) (s : State) (block : Nat) (t : TxIn) (price : Int) : Handler :=
  withCom P o s t.gasCoin price fun com =>
    if balanceOf s t.sender t.gasCoin < com.commission then reject 107 else
    ready t com [.admin (.setLockStake t.sender (block + P.lockStakePeriod))]

/-- `IsNewCandidateStakeSufficient(coin, stake, limit)`: some candidate among the `limit` biggest has a smaller total. -/
def newCandidateStakeOk (o : Oracle) (s : State) (coin : Coin) (stake : Int) (limit : Nat) : M Bool :=
  match bipValue o s coin stake with
  | .error e => throw e
  | .ok bv =>
    let totals := sortBy (fun a b : Int => decide (a > b)) (s.candidates.map (·.totalBip))
    pure ((totals.take limit).any (fun x => decide (x < bv)))

def maxCandId (s : State) : Nat :=
  (s.candidates.map (·.id) ++ s.deleted.map (·.1)).foldl max 0

/-- DeclareCandidacy (6). -/
def runDeclare (P : Params) (o : Oracle) (s : State) (block : Nat) (t : TxIn) (price : Int) : Handler :=
  let addr := t.hex "d.Address"; let pk := t.hex "d.PubKey"; let commission := t.nat "d.Commission"
  let coin := t.nat "d.Coin"; let stake := t.int "d.Stake"
  if !coinExists s coin then reject 102 else
  if !baseOrReserve s coin then reject 200 else
  if candExists s pk then reject 401 else
  if s.blocklist.contains pk then reject 410 else
  if commission > 100 then reject 402 else
  let full : M Bool :=
    if s.candidates.length ≥ P.maxCandidates then
      (match newCandidateStakeOk o s coin stake P.maxCandidates with
       | .error e => throw e
       | .ok ok => pure (!ok))
    else pure false
  match full with
  | .error e => throw e
  | .ok true => reject 409
  | .ok false =>
    withCom P o s t.gasCoin price fun com =>
      if balanceOf s t.sender coin < stake then reject 107 else
      if balanceOf s t.sender t.gasCoin < com.commission then reject 107 else
      if coin == t.gasCoin && balanceOf s t.sender t.gasCoin < stake + com.commission then reject 107 else
      let id := (match findFirst (fun d => d.2 == pk) s.deleted with | some d => d.1 | none => maxCandId s + 1)
      let cd : Candidate := { id := id, pubkey := pk, owner := addr, reward := t.sender, control := t.sender, commission := commission,
                              status := 1, jailedUntil := 0, lastEditCommission := block, totalBip := 0, stakes := [], updates := [] }
      ready t com [.declare t.sender cd coin stake]

end Minter
