import MinterModel.State
import MinterModel.Parse
/-
  C11 — export / genesis validation / import, on the ledger state *as exported* (`State`).

  Go sources modelled here (read line by line):
    coreV2/types/appstate.go      `AppState.Verify()`                       → `allChecks`, `verifyState`
    coreV2/state/state.go         `State.Import`                            → `importState`
    coreV2/minter/blockchain.go   `InitChain` (app-DB part, updateValidators) → `importState`
    coreV2/state/*/…              `Export` of every module (orderings)       → `exportState`

  ## `AppState.Verify()` — every check it makes, in its order, and where it is in the model

    Go check (error text)                                              model check name         modelled
    ------------------------------------------------------------------------------------------------------------------
    IsValidBigInt(TotalSlashed)            "total slashed is not valid"  slashed                  yes (0 ≤ slashed; "does not parse" is
                                                                                                  decided by the token parser, see below)
    len(Validators) < 1                    "at least one validator"      no-validators            yes
    per validator, in list order:
      duplicate pubkey                     "duplicated validator"        dup-validator            yes
      a candidate with that pubkey exists  "candidate for validator"     validator-not-candidate  yes
      IsValidBigInt(TotalBipStake)         "total bip stake of …"        validator-total          yes
      IsValidBigInt(AccumReward)           "accum reward of …"           validator-accum          yes
      AbsentTimes == nil                   "absent times of …"           (parser: `unparsable`)   the Lean `Validator.absent` is a list and
                                                                                                  cannot be nil; the token parser rejects `nil`
    per account, in list order:
      duplicate address                    "duplicated account"          dup-account              yes (one entry of `nonces` per account)
      per balance: IsValidBigInt(Value)    "not valid balance"           balance                  yes
                   coin is base or listed  "coin … not found"            balance-coin             yes
        (the model runs all duplicate-address checks before all balance checks: `State` keeps balances in one flat bag.
         The first failing check can differ from Go's only when a genesis has a duplicated account *and* an invalid balance.)
    per candidate, per stake (NOT per update):
      duplicate (owner, coin)              "duplicated stake"            dup-stake                yes
      coin is base or listed               "coin … not found"            stake-coin               yes
    per coin, in list order:
      symbol is the base symbol            "base coin should not be …"   base-declared            yes (`base` parameter: BIP / MNT)
      duplicate id                         "duplicated coin"             dup-coin                 yes
      crr = 0:  volume = Σ balances + pool reserves + order escrows + frozen funds (fix 1e438f8)
                                           "wrong token … volume"        token-volume             yes (`goVolume`)
      crr ≠ 0:  the same + stakes + updates + waitlist
                                           "wrong coin … volume"         coin-volume              yes (`goVolume`)
    per waitlist entry: IsValidBigInt      "wrong waitlist value"        waitlist-value           yes
                        coin base/listed   "coin … not found"            waitlist-coin            yes
    per frozen fund:    IsValidBigInt      "wrong frozen fund value"     frozen-value             yes
                        coin base/listed   "coin … not found"            frozen-coin              yes
    per used check:     hex decodes        (hex error)                   check-hex                yes
                        32 bytes           "wrong used check size"       check-size               yes

  What `Verify()` does NOT check (and the model therefore does not either — `verifyState` mirrors the code that exists):
  nothing about the base coin (coin 0 has no registry entry: no volume to compare), volume ≤ max supply, reserves of bancor
  coins, sign of stake / update / order / pool-reserve / coin-volume amounts (they are only summed with `StringToBigInt`, which
  *panics* on a string that does not parse), pool reserves positive, pool coins exist or differ, order ids below
  `NextOrderID`, duplicate pools / orders / candidates / symbols, coins of *updates*, waitlist / frozen-fund candidate ids,
  halt blocks, commission and update votes, the commission table, multisig data, the block list, deleted candidates.
  Those are stated separately as `exportInvariants` (what every real export satisfies; evaluated on the node's exports by the
  harness mode `export2`, and the hypotheses of the theorems in `MinterProofs/Props/C11.lean`).
-/
namespace Minter
namespace Genesis

abbrev Check := String × Bool

/-- `!coinID.IsBaseCoin() ⇒ some coin of the registry has that id`. -/
def coinExists (s : State) (c : Coin) : Bool := c == 0 || s.coins.any (fun ci => ci.id == c)

/-- The sum `Verify()` builds for a registry entry: balances, pool reserves and order escrows, frozen funds; for coins with a
    reserve also stakes, pending stake updates and the waitlist. -/
def goVolume (s : State) (ci : CoinInfo) : Int :=
  Bag.sumIf (fun k => decide (k.2 = ci.id)) s.balances
  + sumBy (poolHoldings ci.id) s.pools
  + sumBy (orderEscrow ci.id) s.orders
  + sumBy (fun f => if f.coin = ci.id then f.value else 0) s.frozen
  + (if ci.crr = 0 then 0
     else sumBy (candHoldings ci.id) s.candidates + sumBy (fun w => if w.coin = ci.id then w.value else 0) s.waitlist)

def valChecks (s : State) : List PubKey → List Validator → List Check
  | _, [] => []
  | seen, v :: t =>
    ("dup-validator", !seen.contains v.pubkey)
    :: ("validator-not-candidate", s.candidates.any (fun c => c.pubkey == v.pubkey))
    :: ("validator-total", decide (0 ≤ v.totalBip))
    :: ("validator-accum", decide (0 ≤ v.accum))
    :: valChecks s (v.pubkey :: seen) t

def accountChecks : List Addr → List (Addr × Nat) → List Check
  | _, [] => []
  | seen, a :: t => ("dup-account", !seen.contains a.1) :: accountChecks (a.1 :: seen) t

def balanceChecks (s : State) (b : (Addr × Coin) × Int) : List Check :=
  [("balance", decide (0 ≤ b.2)), ("balance-coin", coinExists s b.1.2)]

def stakeChecks (s : State) : List (Addr × Coin) → List Stake → List Check
  | _, [] => []
  | seen, st :: t =>
    ("dup-stake", !seen.contains (st.owner, st.coin))
    :: ("stake-coin", coinExists s st.coin)
    :: stakeChecks s ((st.owner, st.coin) :: seen) t

def volumeName (ci : CoinInfo) : String := if ci.crr = 0 then "token-volume" else "coin-volume"

def coinChecks (base : String) (s : State) : List Coin → List CoinInfo → List Check
  | _, [] => []
  | seen, ci :: t =>
    ("base-declared", ci.symbol != base)
    :: ("dup-coin", !seen.contains ci.id)
    :: (volumeName ci, decide (goVolume s ci = ci.volume))
    :: coinChecks base s (ci.id :: seen) t

def waitChecks (s : State) (w : WaitEntry) : List Check :=
  [("waitlist-value", decide (0 ≤ w.value)), ("waitlist-coin", coinExists s w.coin)]

def frozenChecks (s : State) (f : Frozen) : List Check :=
  [("frozen-value", decide (0 ≤ f.value)), ("frozen-coin", coinExists s f.coin)]

def isHexChar (c : Char) : Bool := ('0' ≤ c && c ≤ '9') || ('a' ≤ c && c ≤ 'f') || ('A' ≤ c && c ≤ 'F')

/-- `hex.DecodeString` succeeds: even length, hex digits only. -/
def hexDecodes (h : String) : Bool := h.toList.length % 2 == 0 && h.toList.all isHexChar

def usedCheckChecks (h : String) : List Check :=
  [("check-hex", hexDecodes h), ("check-size", h.toList.length == 64)]

/-- Every check of `AppState.Verify()` in the order the Go code makes them. -/
def allChecks (base : String) (s : State) : List Check :=
  [("slashed", decide (0 ≤ s.slashed)), ("no-validators", !s.validators.isEmpty)]
  ++ valChecks s [] s.validators
  ++ accountChecks [] s.nonces
  ++ s.balances.flatMap (balanceChecks s)
  ++ s.candidates.flatMap (fun cd => stakeChecks s [] cd.stakes)
  ++ coinChecks base s [] s.coins
  ++ s.waitlist.flatMap (waitChecks s)
  ++ s.frozen.flatMap (frozenChecks s)
  ++ s.usedChecks.flatMap usedCheckChecks

def firstFail : List Check → Option String
  | [] => none
  | (n, ok) :: t => if ok then firstFail t else some n

/-- `AppState.Verify()`: `ok` or the name of the first failing check. -/
def verifyState (base : String) (s : State) : Except String Unit :=
  match firstFail (allChecks base s) with
  | none => .ok ()
  | some n => .error n

/-- The volume part of the validation alone (what C01 speaks about). -/
def volumeChecksPass (s : State) : Bool := s.coins.all (fun ci => decide (goVolume s ci = ci.volume))

/-! ### What every export of a reachable state satisfies beyond `Verify()` -/

def stakeCoins (cd : Candidate) : List Coin := cd.stakes.map (·.coin) ++ cd.updates.map (·.coin)

/-- No stake, pending update or waitlist entry is held in a coin without reserve (Delegate / DeclareCandidacy demand
    `BaseOrHasReserve`): this is why `Verify()` may leave them out of a token's volume. -/
def tokensUnstaked (s : State) : Bool :=
  s.coins.all (fun ci => ci.crr != 0 ||
    (s.candidates.all (fun cd => (stakeCoins cd).all (· != ci.id)) && s.waitlist.all (fun w => w.coin != ci.id)))

/-- The reward the price record of the app DB carries (`db price` = `time r0 r1 last off`): `InitChain` hands
    `PrevReward.Reward` to `App.SetReward` as *both* the reward and the safe reward. -/
def priceLast (s : State) : Int :=
  match words s.price with
  | [_, _, _, l, _] => intD l
  | _ => 0

def nodupB {α : Type} [BEq α] : List α → Bool
  | [] => true
  | x :: t => !t.contains x && nodupB t

def candExists (s : State) (id : Nat) : Bool := s.candidates.any (·.id == id) || s.deleted.any (·.1 == id)

/-- Structural invariants of exported states (named; each is a hypothesis of some C11 theorem or a condition under which
    `State.Import` does not panic).  `Verify()` checks none of them. -/
def exportInvariants (s : State) : List Check :=
  [ -- the hypotheses of `export_verifies` (`ExportInv`, MinterProofs/Props/C11.lean), in decidable form
    ("has-validator", !s.validators.isEmpty),
    ("val-keys-unique", nodupB (s.validators.map (·.pubkey))),
    ("vals-are-cands", s.validators.all (fun v => s.candidates.any (fun c => c.pubkey == v.pubkey))),
    ("val-totals", s.validators.all (fun v => decide (0 ≤ v.totalBip))),
    ("accounts-unique", nodupB (s.nonces.map (·.1))),
    ("balance-coins", s.balances.all (fun b => coinExists s b.1.2)),
    ("stake-coins", s.candidates.all (fun cd => cd.stakes.all (fun st => coinExists s st.coin))),
    ("wait-coins", s.waitlist.all (fun w => coinExists s w.coin)),
    ("frozen-coins", s.frozen.all (fun f => coinExists s f.coin)),
    ("stake-keys-unique", s.candidates.all (fun cd => nodupB (cd.stakes.map (fun st => (st.owner, st.coin))))),
    ("ids-unique", nodupB (s.coins.map (·.id))),
    ("checks-well-formed", s.usedChecks.all (fun h => hexDecodes h && h.toList.length == 64)),
    ("volumes-ok", volumesOk s),
    ("no-fee-pool", s.rewardsPool == 0),
    -- further invariants of exported states
    ("ids-positive", s.coins.all (fun ci => decide (0 < ci.id))),
    ("count-exact", s.ncoins == s.coins.length),
    ("tokens-unstaked", tokensUnstaked s),
    ("amounts-ok", amountsOk s),
    ("update-coins", s.candidates.all (fun cd => cd.updates.all (fun st => coinExists s st.coin))),
    ("stake-limit", s.candidates.all (fun cd => decide (cd.stakes.length ≤ 1000))),
    ("cand-ids-unique", nodupB (s.candidates.map (·.id))),
    ("cand-keys-unique", nodupB (s.candidates.map (·.pubkey))),
    ("cand-ids-positive", s.candidates.all (fun cd => decide (0 < cd.id))),
    ("wait-cands", s.waitlist.all (fun w => candExists s w.cand)),
    ("symbols-unique", nodupB (s.coins.map (fun ci => (ci.symbol, ci.version)))),
    ("pool-coins", s.pools.all (fun p => p.c0 != p.c1 && coinExists s p.c0 && coinExists s p.c1)),
    ("pool-keys-unique", nodupB (s.pools.map (fun p => (p.c0, p.c1)))),
    ("pool-ids-unique", nodupB (s.pools.map (·.id))),
    ("order-ids-unique", nodupB (s.orders.map (·.id))),
    ("order-pools", s.orders.all (fun o => s.pools.any (fun p => p.c0 == o.c0 && p.c1 == o.c1))),
    ("order-amounts", s.orders.all (fun o => decide (0 < o.v0) && decide (0 < o.v1))),
    ("next-order", s.orders.all (fun o => decide (o.id < s.nextOrder)) && (s.nextOrder == 0) == s.pools.isEmpty),
    ("reward-settled", s.reward == priceLast s) ]

def wellFormed (s : State) : Except String Unit :=
  match firstFail (exportInvariants s) with
  | none => .ok ()
  | some n => .error n

/-! ### Import (`State.Import` + `InitChain`) and export (canonical order) -/

/-- What `RecalculateStakesV2` + `updateValidators` (called by `Import` and again by `InitChain`) make of the imported
    candidates, validators and the stake total, as seen by the next export.  Kept abstract: the bip value of a custom-coin
    stake is a floating-point bonding-curve value.  `settled` says "nothing to recompute". -/
structure Recalc where
  cands : List Candidate → List Candidate
  vals : List Candidate → List Validator → List Validator
  total : List Candidate → Int

/-- `State.Import` followed by `InitChain`'s commit, as seen by the next `Export`:
    * accounts (balances, nonces, multisig data, lock-stake heights), coins, waitlist, frozen funds, pools, orders, used checks,
      halt / commission / update votes, block list, deleted candidates, commission table, total slashed, max gas, emission,
      price record, version history: stored as given;
    * `SetCoinsCount(len(state.Coins))`;
    * `NextOrderID` is stored only when it is above 1 (otherwise the default 1 is read back; exported only if a pool exists);
    * `App.SetReward(PrevReward.Reward, PrevReward.SafeReward)` (the safe reward travels in the genesis);
    * candidates, validators and the stake total go through the recalculation;
    * the fee pool of the running block is not part of a genesis. -/
def importState (R : Recalc) (s : State) : State :=
  { s with
    candidates := R.cands s.candidates
    validators := R.vals s.candidates s.validators
    totalStakes := R.total s.candidates
    ncoins := s.coins.length
    nextOrder := if s.nextOrder > 1 then s.nextOrder else if s.pools.isEmpty then 0 else 1
    reward := priceLast s
    rewardsPool := 0 }

/-- Canonical order of the exported lists (what `State.ofDump` builds): coins, candidates, pools, orders by id, validators by key. -/
def exportState (s : State) : State :=
  { s with
    coins := sortBy (fun a b => a.id < b.id) s.coins
    candidates := sortBy (fun a b => a.id < b.id) s.candidates
    pools := sortBy (fun a b => a.id < b.id) s.pools
    orders := sortBy (fun a b => a.id < b.id) s.orders
    validators := sortBy (fun a b => a.pubkey < b.pubkey) s.validators }

/-! ### Compact single-token form of an exported genesis (harness/mode_export2.go `genesisToken`)

  Records separated by `;`, `tag:field,field,…`; amounts are the raw decimal strings of the genesis.
    H:slashed,nextOrder,maxGas,ncoins,reward,safeReward,emission,price(t/r0/r1/last/off),totalStakes
    V:pubkey,totalBip,accum,absent(`nil` | `b` bits)
    A:addr,nonce,lockStakeUntil,multisig(`-` | threshold/addr=w/addr=w…)      B:addr,coin,value   (balances of the last A)
    C:id,symbol,version,volume,reserve,crr,maxSupply,owner|-,mintable,burnable
    K:id,pubkey,owner,reward,control,commission,status,jailedUntil,lastEdit,totalBip
        S:owner,coin,value,bip   U:owner,coin,value,bip                      (stakes / updates of the last K)
    W:cand,owner,coin,value      F:height,addr,candKey|-,candId,coin,value,moveTo
    P:c0,c1,id,r0,r1             O:id,isSale,v0,v1,owner,height               (orders of the last P)
    X:hash   L:height,pubkey   CV:height,pubkey,digest   UV:height,pubkey,version   BL:pubkey   D:id,pubkey   CM:field,value
-/

/-- `big.Int.SetString(s, 10)`: optional sign, at least one digit, digits only. -/
def decInt? (t : String) : Option Int :=
  let cs := t.toList
  let (neg, ds) : Bool × List Char := match cs with
    | '-' :: r => (true, r)
    | '+' :: r => (false, r)
    | r => (false, r)
  if ds.isEmpty || !ds.all Char.isDigit then none
  else
    let n : Nat := ds.foldl (fun a c => a * 10 + (c.toNat - 48)) 0
    some (if neg then -(n : Int) else (n : Int))

def amt (what : String) (t : String) : Except String Int :=
  match decInt? t with
  | some v => .ok v
  | none => .error s!"unparsable:{what}"

def parseMultisig (t : String) : Option Multisig :=
  if t == "-" then none else
  match t.splitOn "/" with
  | th :: ows => some { threshold := natD th, owners := ows.filterMap (fun p => match p.splitOn "=" with
      | [a, w] => some (hexNat a, natD w)
      | _ => none) }
  | [] => none

def parseRecord (s : State) (rec : String) : Except String State := do
  if rec.isEmpty then return s
  match rec.splitOn ":" with
  | [tag, body] =>
    let f := body.splitOn ","
    match tag, f with
    | "H", [sl, no, mg, nc, rw, srw, em, pr, ts] =>
      let sl ← amt "slashed" sl
      return { s with slashed := sl, nextOrder := natD no, maxGas := natD mg, ncoins := natD nc, reward := intD rw, safeReward := intD srw,
                      emission := intD em, price := pr.replace "/" " ", totalStakes := intD ts }
    | "V", [pk, tb, acc, ab] =>
      let tb ← amt "validator-total" tb
      let acc ← amt "validator-accum" acc
      if ab == "nil" then throw "unparsable:absent-nil"
      return { s with validators := { pubkey := hexNat pk, totalBip := tb, accum := acc, absent := (ab.toList.drop 1).map (· == '1') } :: s.validators }
    | "A", [a, n, ls, ms] =>
      let s1 := { s with nonces := (hexNat a, natD n) :: s.nonces }
      let s2 := if natD ls == 0 then s1 else { s1 with lockStake := (hexNat a, natD ls) :: s1.lockStake }
      match parseMultisig ms with
      | some m => return { s2 with multisigs := (hexNat a, m) :: s2.multisigs }
      | none => return s2
    | "B", [a, c, v] =>
      let v ← amt "balance" v
      return { s with balances := ((hexNat a, natD c), v) :: s.balances }
    | "C", [id, sym, ver, vol, res, crr, mx, own, mi, bu] =>
      let vol ← amt "coin-volume" vol
      let mx ← amt "max-supply" mx
      let res ← if natD crr == 0 then pure (intD res) else amt "reserve" res
      return { s with coins := { id := natD id, symbol := sym, version := natD ver, volume := vol, reserve := res, crr := natD crr, maxSupply := mx,
                                 owner := optAddr own, mintable := boolD mi, burnable := boolD bu } :: s.coins }
    | "K", [id, pk, ow, rw, ct, com, stt, jail, le, tb] =>
      let tb ← amt "candidate-total" tb
      return { s with candidates := { id := natD id, pubkey := hexNat pk, owner := hexNat ow, reward := hexNat rw, control := hexNat ct, commission := natD com,
                                      status := natD stt, jailedUntil := natD jail, lastEditCommission := natD le, totalBip := tb, stakes := [], updates := [] } :: s.candidates }
    | "S", [ow, c, v, bip] =>
      let v ← amt "stake-value" v
      let bip ← amt "stake-bip" bip
      match s.candidates with
      | cd :: t => return { s with candidates := { cd with stakes := { owner := hexNat ow, coin := natD c, value := v, bip := bip } :: cd.stakes } :: t }
      | [] => throw "unparsable:stake-without-candidate"
    | "U", [ow, c, v, bip] =>
      let v ← amt "update-value" v
      let bip ← amt "update-bip" bip
      match s.candidates with
      | cd :: t => return { s with candidates := { cd with updates := { owner := hexNat ow, coin := natD c, value := v, bip := bip } :: cd.updates } :: t }
      | [] => throw "unparsable:update-without-candidate"
    | "W", [cid, ow, c, v] =>
      let v ← amt "waitlist-value" v
      return { s with waitlist := { cand := natD cid, owner := hexNat ow, coin := natD c, value := v } :: s.waitlist }
    | "F", [h, a, ck, cid, c, v, mv] =>
      let v ← amt "frozen-value" v
      return { s with frozen := { height := natD h, addr := hexNat a, candKey := optAddr ck, candId := natD cid, coin := natD c, value := v, moveTo := natD mv } :: s.frozen }
    | "P", [c0, c1, id, r0, r1] =>
      let r0 ← amt "pool-reserve" r0
      let r1 ← amt "pool-reserve" r1
      return { s with pools := { c0 := natD c0, c1 := natD c1, id := natD id, r0 := r0, r1 := r1 } :: s.pools }
    | "O", [id, sale, v0, v1, ow, h] =>
      let v0 ← amt "order-volume" v0
      let v1 ← amt "order-volume" v1
      match s.pools with
      | p :: _ => return { s with orders := { id := natD id, c0 := p.c0, c1 := p.c1, isSale := boolD sale, v0 := v0, v1 := v1, owner := hexNat ow, height := natD h } :: s.orders }
      | [] => throw "unparsable:order-without-pool"
    | "X", [h] => return { s with usedChecks := h :: s.usedChecks }
    | "L", [h, pk] => return { s with halts := (natD h, hexNat pk) :: s.halts }
    | "CV", [h, pk, d] => return { s with cvotes := ((natD h, hexNat pk), d) :: s.cvotes }
    | "UV", [h, pk, v] => return { s with uvotes := ((natD h, hexNat pk), v) :: s.uvotes }
    | "BL", [pk] => return { s with blocklist := hexNat pk :: s.blocklist }
    | "D", [id, pk] => return { s with deleted := (natD id, hexNat pk) :: s.deleted }
    | "CM", [k, v] => return { s with commission := (k, intD v) :: s.commission }
    | _, _ => throw s!"unparsable:record-{tag}"
  | _ => throw "unparsable:record"

/-- Lists were built back to front. -/
def finish (s : State) : State :=
  { s with
    balances := s.balances.reverse, nonces := s.nonces.reverse, multisigs := s.multisigs.reverse, lockStake := s.lockStake.reverse,
    coins := s.coins.reverse,
    candidates := (s.candidates.map (fun cd => { cd with stakes := cd.stakes.reverse, updates := cd.updates.reverse })).reverse,
    waitlist := s.waitlist.reverse, frozen := s.frozen.reverse, pools := s.pools.reverse, orders := s.orders.reverse,
    validators := s.validators.reverse, usedChecks := s.usedChecks.reverse, halts := s.halts.reverse, cvotes := s.cvotes.reverse,
    uvotes := s.uvotes.reverse, blocklist := s.blocklist.reverse, deleted := s.deleted.reverse, commission := s.commission.reverse }

def ofToken (tok : String) : Except String State := do
  let s ← (tok.splitOn ";").foldlM parseRecord ({} : State)
  return finish s

def verdict (r : Except String Unit) : String :=
  match r with
  | .ok _ => "ok"
  | .error e => e

/-- Verdict of the model on a genesis token: `ok`, the name of the first failing check, or `unparsable:<field>` when an amount the
    Go code would hand to `IsValidBigInt` / `StringToBigInt` is not a decimal integer (Go: rejection or panic, depending on the field). -/
def verifyToken (base tok : String) : String :=
  match ofToken tok with
  | .error e => e
  | .ok s => verdict (verifyState base s)

/-- Agreement of the node's verdict with the model's: the same verdict (the four "coin … not found" checks share one Go error
    text and are one class); a Go panic (an unparsable amount reaching
    `StringToBigInt`, …) counts as a rejection of unspecified class, as does an `unparsable` answer of the model. -/
def coarse (n : String) : String :=
  if n == "balance-coin" || n == "stake-coin" || n == "waitlist-coin" || n == "frozen-coin" then "coin-not-found" else n

def verdictAgree (go lean : String) : Bool :=
  go == coarse lean || (go == "panic" && lean != "ok") || (lean.startsWith "unparsable" && go != "ok")

/-! Field-by-field comparison of two exported states in canonical order (used to tie `importState` to the node). -/

def sortedNat (l : List Nat) : List Nat := sortBy (fun a b => a < b) l

def canonStr (l : List String) : List String := sortBy (fun a b => a < b) l

/-- Equal as multisets. -/
def perm {α : Type} [BEq α] (x y : List α) : Bool := x.length == y.length && x.all (fun e => x.count e == y.count e)

def diffFields (a b : State) : List String :=
  let ea := exportState a
  let eb := exportState b
  (if perm ea.balances eb.balances then [] else ["balances"])
  ++ (if perm ea.nonces eb.nonces then [] else ["nonces"])
  ++ (if perm ea.multisigs eb.multisigs then [] else ["multisigs"])
  ++ (if perm ea.lockStake eb.lockStake then [] else ["lockStake"])
  ++ (if ea.coins == eb.coins then [] else ["coins"])
  ++ (if ea.candidates == eb.candidates then [] else ["candidates"])
  ++ (if perm ea.waitlist eb.waitlist then [] else ["waitlist"])
  ++ (if ea.frozen == eb.frozen then [] else ["frozen"])
  ++ (if ea.pools == eb.pools then [] else ["pools"])
  ++ (if ea.orders == eb.orders then [] else ["orders"])
  ++ (if ea.validators == eb.validators then [] else ["validators"])
  ++ (if perm ea.usedChecks eb.usedChecks then [] else ["usedChecks"])
  ++ (if perm ea.halts eb.halts then [] else ["halts"])
  ++ (if perm ea.cvotes eb.cvotes then [] else ["cvotes"])
  ++ (if perm ea.uvotes eb.uvotes then [] else ["uvotes"])
  ++ (if perm ea.blocklist eb.blocklist then [] else ["blocklist"])
  ++ (if perm ea.deleted eb.deleted then [] else ["deleted"])
  ++ (if perm ea.commission eb.commission then [] else ["commission"])
  ++ (if ea.slashed == eb.slashed then [] else ["slashed"])
  ++ (if ea.maxGas == eb.maxGas then [] else ["maxGas"])
  ++ (if ea.nextOrder == eb.nextOrder then [] else [s!"nextOrder:{ea.nextOrder}/{eb.nextOrder}"])
  ++ (if ea.ncoins == eb.ncoins then [] else [s!"ncoins:{ea.ncoins}/{eb.ncoins}"])
  ++ (if ea.emission == eb.emission then [] else ["emission"])
  ++ (if ea.price == eb.price then [] else ["price"])
  ++ (if ea.reward == eb.reward then [] else [s!"reward:{ea.reward}/{eb.reward}"])
  ++ (if ea.safeReward == eb.safeReward then [] else [s!"safeReward:{ea.safeReward}/{eb.safeReward}"])
  ++ (if ea.totalStakes == eb.totalStakes then [] else ["totalStakes"])

/-- The recalculation read off the re-export (an oracle for the parts `importState` keeps abstract). -/
def recalcFrom (after : State) : Recalc :=
  { cands := fun _ => after.candidates, vals := fun _ _ => after.validators, total := fun _ => after.totalStakes }

/-- `importState` applied to the export of the original chain against the export of the chain started from it. -/
def importAgrees (tokBefore tokAfter : String) : String :=
  match ofToken tokBefore, ofToken tokAfter with
  | .ok a, .ok b =>
    match diffFields (importState (recalcFrom b) a) b with
    | [] => "ok"
    | l => ",".intercalate l
  | .error e, _ => e
  | _, .error e => e

/-- `Q` evaluator of the export component:
      Q verify <base> <token> = ok | <first failing check>            (exact verdict of `verifyState`)
      Q verifyagree <go-verdict> <base> <token> = ok                  (mutated exports: verdicts agree, see `verdictAgree`)
      Q wellformed <token> = ok | <first failing invariant>           (`exportInvariants` on the node's real exports)
      Q importagrees <token-before> <token-after> = ok | <fields>     (`importState` against the node's re-export) -/
def exportEvalQ (fn : String) (args : List String) : Option String :=
  match fn, args with
  | "verify", [base, tok] => some (verifyToken base tok)
  | "verifyagree", [go, base, tok] =>
    let l := verifyToken base tok
    some (if verdictAgree go l then "ok" else s!"disagree:{l}")
  | "wellformed", [tok] =>
    match ofToken tok with
    | .error e => some e
    | .ok s => some (verdict (wellFormed s))
  | "importagrees", [a, b] => some (importAgrees a b)
  | _, _ => none

end Genesis

export Genesis (exportEvalQ)

end Minter
