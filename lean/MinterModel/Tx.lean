import MinterModel.TxBase
import MinterModel.TxLedger
import MinterModel.TxBancor
import MinterModel.TxStake
import MinterModel.TxCand
import MinterModel.TxPool
/-
  L2: transaction execution (`ExecutorV3.RunTx`): the prologue, the price conversion, the dispatch to the data handlers
  (TxLedger / TxBancor / TxStake / TxCand / TxPool), the deliver-side execution of a validated transaction, the failure fee,
  and CheckTx.  A handler computes a response code or a plan; the state changes only by applying the plan.
-/
namespace Minter

/-- Dispatch on the transaction type: the validation half of `Data.Run`. -/
def runData (P : Params) (o : Oracle) (s : State) (block : Nat) (t : TxIn) (price : Int) : Handler :=
  match t.typ with
  | 1 => runSend P o s t price
  | 2 => runSellCoin P o s t price
  | 3 => runSellAllCoin P o s t price
  | 4 => runBuyCoin P o s t price
  | 5 => runCreateCoin P o s t price
  | 6 => runDeclare P o s block t price
  | 7 => runDelegate P o s t price
  | 8 => runUnbond P o s block t price
  | 9 => runRedeemCheck P o s block t price
  | 10 => runSetOn P o s block t price
  | 11 => runSetOff P o s t price
  | 12 => runCreateMultisig P o s t price
  | 13 => runMultisend P o s t price
  | 14 => runEditCandidate P o s t price
  | 15 => runSetHalt P o s block t price
  | 16 => runRecreateCoin P o s t price
  | 17 => runEditCoinOwner P o s t price
  | 18 => runEditMultisig P o s t price
  | 20 => runEditPubKey P o s t price
  | 21 => runAddLiquidity P o s t price
  | 22 => runRemoveLiquidity P o s t price
  | 23 => runSellPool P o s t price
  | 24 => runBuyPool P o s t price
  | 25 => runSellAllPool P o s t price
  | 26 => runEditCommission P o s block t price
  | 27 => runMoveStake P o s block t price
  | 28 => runMintToken P o s t price
  | 29 => runBurnToken P o s t price
  | 30 => runCreateToken P o s t price
  | 31 => runRecreateToken P o s t price
  | 32 => runVoteCommission P o s block t price
  | 33 => runVoteUpdate P o s block t price
  | 34 => runCreatePool P o s t price
  | 35 => runAddOrder P o s block t price
  | 36 => runRemoveOrder P o s block t price
  | 37 => runLockStake P o s block t price
  | 38 => runLock P o s block t price
  | n => throw (.unmodelled s!"tx type {n}")

/-- Every transaction type the decoder knows (1–18, 20–38). Swap routes and commissions through pools that carry limit
    orders still stop with `Stop.unmodelled "orders on …"` (order matching is a separate component). -/
def modelledTypes : List Nat :=
  [1, 2, 3, 4, 5, 6, 7, 8, 9, 10, 11, 12, 13, 14, 15, 16, 17, 18, 20, 21, 22, 23, 24, 25, 26, 27, 28, 29, 30, 31, 32, 33, 34, 35, 36, 37, 38]

/-- Does executing this transaction read state outside the live projection?  Since the projection carries candidates, stakes,
    updates, waitlist, frozen funds, multisigs, stake locks, used checks, votes and orders: no modelled type does. -/
def readsOther (t : TxIn) : Bool := !(modelledTypes.contains t.typ)

/-! ### ExecutorV3.RunTx -/

def isMultisig (s : State) (a : Addr) : Option Multisig :=
  match s.multisigs.lookup a with
  | some ms => if ms.owners.isEmpty then none else some ms
  | none => none

def multisigCheck (s : State) (t : TxIn) : Option Nat :=
  match isMultisig s t.sender with
  | none => some 603
  | some ms =>
    if t.signers.length > 32 || ms.owners.length < t.signers.length then some 604
    else
      let rec go (rest : List (Option Addr)) (used : List Addr) (w : Nat) : Option Nat :=
        match rest with
        | [] => if w < ms.threshold then some 609 else none
        | none :: _ => some 604
        | some a :: r => if used.contains a then some 606 else go r (a :: used) (w + ((ms.owners.lookup a).getD 0))
      go t.signers [] 0

/-- The checks of RunTx that precede the handler and are common to CheckTx and DeliverTx: first failing response code,
    `none` when all pass.  `floor` is the CheckTx-only gas-price floor (0 in DeliverTx). -/
def prologueF (P : Params) (s : State) (block : Nat) (t : TxIn) (floor : Nat) : Option Nat :=
  if t.tooLarge || t.rawLen > P.maxTxLen then some 105
  else if !t.dec then some 106
  else if t.typ == 37 && block ≤ P.lockStakeGate then some 124
  else if t.chain != P.chain then some 115
  else if !coinExists s t.comCoin then some 102
  else if t.gasPrice < floor then some 114
  else if t.payLen > P.maxPayload then some 109
  else if t.svcLen > P.maxService then some 110
  else if !t.sigOk then some 106
  else
    match (if t.sigType == 2 then multisigCheck s t else none) with
    | some c => some c
    | none => if nonceOf s t.sender + 1 != t.nonce then some 101 else none

def prologue (P : Params) (s : State) (block : Nat) (t : TxIn) : Option Nat := prologueF P s block t 0

/-- The price of the transaction in base-coin terms (after the conversion from the table coin), or the response code. -/
def basePrice (s : State) (t : TxIn) : M (Except Nat Int) :=
  let price := txPrice s t
  -- the price comes from the RAW data (before validation): an empty multisend list / a short route under a table whose delta exceeds
  -- its base gives a negative amount, which must not reach the pool arithmetic (/repo 19af872; before it CheckSwap panicked)
  if price < 0 then pure (.error 119) else
  if price == 0 then pure (.ok 0) else
  match toBase s price with
  | .error e => throw e
  | .ok (.error c) => pure (.error c)
  | .ok (.ok p) => if p ≤ 0 then pure (.error 119) else pure (.ok p)

/-- The failure-fee branch of RunTx (deliver only). -/
def failFee (P : Params) (o : Oracle) (s : State) (t : TxIn) (code : Nat) : M Outcome :=
  let inTable := (t.gasPrice : Int) * (priceOf s "failed_tx" + ((t.payLen + t.svcLen : Nat) : Int) * priceOf s "payload_byte")
  let conv : M (Except Nat Int) :=
    if priceCoin s == 0 then pure (.ok inTable) else
    match toBase s inTable with
    | .error e => throw e
    | .ok (.error c) => pure (.error c)
    | .ok (.ok p) => if p ≤ 0 then pure (.error 119) else pure (.ok p)
  match conv with
  | .error e => throw e
  | .ok (.error c) => pure { code := c }
  | .ok (.ok inBase0) =>
    match calcCommission P o s t.comCoin inBase0 with
    | .error e => throw e
    | .ok (.error c) => pure { code := c }
    | .ok (.ok com) =>
      -- the payer: the sender, for a check redemption the issuer of the check (decoded again; undecodable → DecodeError, no fee)
      let payer? : Option Addr := if t.typ == 9 then t.issuer else some t.sender
      match payer? with
      | none => pure { code := 106 }
      | some payer =>
        let bal := balanceOf s payer t.comCoin
        if bal ≤ 0 then pure { code := code } else
        let capped : M (Except Nat Com) :=
          if bal < com.commission then
            if com.fromPool then
              match poolRes s t.comCoin 0 with
              | none => throw (.panic "missing commission pool")
              | some (r0, r1) =>
                match checkSwapQuote r0 r1 bal 0 false with
                | .error e => throw e
                | .ok (.error c) => pure (.error c)
                | .ok (.ok x) => if x ≤ 0 then pure (.error 119) else pure (.ok ⟨bal, x, true⟩)
            else if t.comCoin != 0 then
              match getCoin s t.comCoin with
              | none => throw (.panic "missing gas coin")
              | some ci =>
                if hasReserve ci then
                  if ci.volume < bal then pure (.error 103) else
                  match ask o (.saleReturn ci.volume ci.reserve ci.crr bal) with
                  | .error e => throw e
                  | .ok r => if ci.reserve - r < P.minReserve then pure (.error 116) else pure (.ok ⟨bal, r, false⟩)
                else pure (.ok ⟨bal, bal, false⟩)
            else pure (.ok ⟨bal, bal, false⟩)
          else pure (.ok com)
        match capped with
        | .error e => throw e
        | .ok (.error c) => pure { code := c }
        | .ok (.ok cm) =>
          match payCommission s payer t.comCoin cm with
          | .error e => throw e
          | .ok paid => pure { code := code, moves := paid.moves, tags := [("tx.fail_fee", toString paid.amount)] }

/-- The ticker price burnt after a successful CreateCoin / CreateToken (converted like the price).  The transaction has already
    been executed at this point, so nothing here rejects it: without a positive ticker fee (zero ticker price, zero gas price, or a
    conversion from the table coin that is not possible) the burn is skipped. -/
def tickerBurn (s : State) (t : TxIn) : M (List Move × List (String × String)) :=
  if t.typ == 5 || t.typ == 30 then
    let amount := (t.gasPrice : Int) * tickerPrice s (t.str "d.Symbol")
    if amount ≤ 0 then pure ([], []) else
    match toBase s amount with
    | .error e => throw e
    | .ok (.error _) => pure ([], [])
    | .ok (.ok v) =>
      if v ≤ 0 then pure ([], [])
      else pure ([.burnTicker v], [("tx.burned_for_symbol", toString v)])
  else pure ([], [])

/-- Deliver-side execution of a validated transaction: pay the commission, run the type-specific part. -/
def execReady (s : State) (rd : Ready) : M Outcome :=
  match payCommission s rd.payer rd.coin rd.com rd.minOut with
  | .error e => throw e
  | .ok paid =>
    match rd.exec paid.adj with
    | .error e => throw e
    | .ok (body, tags) =>
      pure { code := 0, moves := paid.moves ++ body,
             tags := [("tx.commission_amount", toString paid.amount), ("tx.commission_in_base_coin", toString paid.inBase)] ++ tags }

def successMoves (t : TxIn) (r : Outcome) (burn : List Move) : List Move :=
  r.moves ++ burn ++ [.admin (.setNonce t.sender t.nonce)]

/-- Success path: the handler's moves, the ticker burn for new coins/tokens, and the nonce bump. -/
def successOutcome (s : State) (t : TxIn) (r : Outcome) : M Outcome :=
  match tickerBurn s t with
  | .error e => throw e
  | .ok (burn, btags) =>
    if burn.any Move.isSetNonce then throw (.panic "model: ticker burn touched a nonce")
    else if !((successMoves t r burn).all (Move.debitOk t.sender t.issuer)) then throw (.panic "model: unauthorised debit in a handler")
    else if r.moves.any Move.isSetNonce then throw (.panic "model: handler touched a nonce")
    else if !(freshIdsOk s (successMoves t r burn)) then throw (.panic "model: new coin without the next coin id")
    else pure { code := 0, moves := successMoves t r burn, tags := r.tags ++ btags }

/-- Failure path: the failure fee (or nothing), never a success code. -/
def failureOutcome (P : Params) (o : Oracle) (s : State) (t : TxIn) (code : Nat) : M Outcome :=
  match failFee P o s t code with
  | .ok f =>
    if f.code == 0 then throw (.panic "model: failure path returned OK")
    else if !(f.moves.all Move.isFee) then throw (.panic "model: failure path made a non-fee move")
    else if !(f.moves.all (Move.debitOk t.sender t.issuer)) then throw (.panic "model: failure fee charged to a third party")
    else pure f
  | .error e => throw e

/-- Everything after the prologue. -/
def deliverBody (P : Params) (o : Oracle) (s : State) (block : Nat) (t : TxIn) : M Outcome :=
  match basePrice s t with
  | .error e => throw e
  | .ok (.error c) => pure { code := c }
  | .ok (.ok price) =>
    match runData P o s block t price with
    | .error e => throw e
    | .ok (.error c) => if c == 0 then throw (.panic "model: handler rejected with code 0") else failureOutcome P o s t c
    | .ok (.ok rd) =>
      match execReady s rd with
      | .error e => throw e
      | .ok r => successOutcome s t r

/-- DeliverTx. -/
def deliverTx (P : Params) (o : Oracle) (s : State) (block : Nat) (t : TxIn) : M Outcome :=
  match prologue P s block t with
  | some c => pure { code := c }
  | none => deliverBody P o s block t

/-- CheckTx: the same prologue with the gas-price floor, the same validation, then the one-transaction-per-sender rule
    of the mempool; nothing is executed, so the state is not touched.  Answers the response code. -/
def checkTx (P : Params) (o : Oracle) (s : State) (block : Nat) (t : TxIn) (floor : Nat) (inMempool : Bool) : M Nat :=
  match prologueF P s block t floor with
  | some c => pure c
  | none =>
    match basePrice s t with
    | .error e => throw e
    | .ok (.error c) => pure c
    | .ok (.ok price) =>
      match runData P o s block t price with
      | .error e => throw e
      | .ok (.error c) => if c == 0 then throw (.panic "model: handler rejected with code 0") else pure c
      | .ok (.ok _) => if inMempool then pure 113 else pure 0

end Minter
