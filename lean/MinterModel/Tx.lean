import MinterModel.Ledger
import MinterModel.Kernels
import MinterModel.Parse
import MinterModel.Moves
/-
  L2: transaction execution (ExecutorV3.RunTx + the data handlers), written with L0 kernels and L1 primitives.
  A handler computes a response code and a *plan* (list of primitives); the state changes only by applying the plan.
-/
namespace Minter

structure Params where
  chain : Nat := 2
  period : Nat := 12
  expire : Nat := 30
  unbond : Nat := 531
  move : Nat := 177
  jail : Nat := 354
  initial : Nat := 10200001
  lockStakeGate : Nat := 10197360
  maxTxLen : Nat := 16144
  maxPayload : Nat := 10000
  maxService : Nat := 128
  minReserve : Int := 10000000000000000000000      -- 10 000 BIP
  maxSupply : Int := 1000000000000000000000000000000000
  deriving Repr

/-- Float / crypto functions answered by the real code. -/
inductive OQ where
  | saleAmount (volume reserve : Int) (crr : Nat) (wantReceive : Int)
  | saleReturn (volume reserve : Int) (crr : Nat) (sell : Int)
  | purchaseReturn (volume reserve : Int) (crr : Nat) (deposit : Int)
  | purchaseAmount (volume reserve : Int) (crr : Nat) (wantReceive : Int)
  deriving Repr, DecidableEq

abbrev Oracle := OQ → Option Int

inductive Stop where
  | need (q : OQ)
  | unmodelled (why : String)
  | panic (site : String)
  deriving Repr

abbrev M := Except Stop

def ask (o : Oracle) (q : OQ) : M Int :=
  match o q with
  | some v => pure v
  | none => throw (.need q)

/-- Decoded transaction as the real decoder sees it (header + recovered signers + data fields). -/
structure TxIn where
  dec : Bool := false
  tooLarge : Bool := false
  rawLen : Nat := 0
  typ : Nat := 0
  nonce : Nat := 0
  chain : Nat := 0
  gasPrice : Nat := 0
  gasCoin : Coin := 0
  payLen : Nat := 0
  svcLen : Nat := 0
  sigType : Nat := 0
  sigOk : Bool := false
  sender : Addr := 0
  signers : List (Option Addr) := []
  f : List (String × String) := []
  deriving Repr

/-- `tx.CommissionCoin()`: the coin being sold for the two sell-all types, the gas coin otherwise. -/
def TxIn.comCoin (t : TxIn) : Coin :=
  let g := fun k => (t.f.lookup k).getD "0"
  if t.typ == 3 then natD (g "d.CoinToSell")
  else if t.typ == 25 then natD (((g "d.Coins").splitOn ",").headD "0")
  else t.gasCoin

def TxIn.nat (t : TxIn) (k : String) : Nat := natD ((t.f.lookup k).getD "0")
def TxIn.int (t : TxIn) (k : String) : Int := intD ((t.f.lookup k).getD "0")
def TxIn.hex (t : TxIn) (k : String) : Nat := hexNat ((t.f.lookup k).getD "0")
def TxIn.str (t : TxIn) (k : String) : String := (t.f.lookup k).getD ""
def TxIn.bool (t : TxIn) (k : String) : Bool := (t.f.lookup k).getD "" == "true"

def TxIn.ofKV (l : List (String × String)) : TxIn :=
  let g := fun k => (l.lookup k).getD ""
  { dec := g "dec" == "1", tooLarge := g "dec" == "toolarge", rawLen := natD (g "rawlen"), typ := natD (g "typ"), nonce := natD (g "nonce"),
    chain := natD (g "chain"), gasPrice := natD (g "gasprice"), gasCoin := natD (g "gascoin"), payLen := natD (g "paylen"),
    svcLen := natD (g "svclen"), sigType := natD (g "sigtype"), sigOk := g "sigok" == "1", sender := hexNat (g "from"),
    signers := if g "signers" == "" then [] else (g "signers").splitOn "," |>.map (fun x => if x == "bad" then none else some (hexNat x)),
    f := l.filter (fun e => e.1.startsWith "d.") }

structure Outcome where
  code : Nat
  moves : List Move := []
  tags : List (String × String) := []
  deriving Repr

/-- The primitives an outcome applies to the state. -/
def Outcome.plan (o : Outcome) : List Prim := planOf o.moves

def priceOf (s : State) (k : String) : Int := (s.commission.lookup k).getD 0
def priceCoin (s : State) : Coin := (priceOf s "coin").toNat

/-! ### Pools (both orientations) -/

def poolRes (s : State) (a b : Coin) : Option (Int × Int) :=
  match getPool s a b with
  | some p => some (p.r0, p.r1)
  | none => match getPool s b a with
    | some p => some (p.r1, p.r0)
    | none => none

def poolDelta (s : State) (a b : Coin) (da db : Int) : Prim :=
  if (getPool s a b).isSome then .addPool a b da db else .addPool b a db da

def pairHasOrders (s : State) (a b : Coin) : Bool :=
  s.orders.any (fun o => (o.c0 == a && o.c1 == b) || (o.c0 == b && o.c1 == a))

def burnAddress : Addr := hexNat "00cedde786b34d733d1dc96559253081572df2c6"

/-- `CheckSwap(pool, …, valueIn, valueOut, isBuy)` for a pair without orders: error code or the computed amount. -/
def checkSwapQuote (r0 r1 valueIn valueOut : Int) (isBuy : Bool) : M (Except Nat Int) :=
  if isBuy then
    match quoteSellForBuy r0 r1 valueOut with
    | .panic w => throw (.panic w)
    | .nil => pure (.error 703)
    | .val x => if x > valueIn then pure (.error 302) else pure (.ok x)
  else
    match quoteBuyForSell r0 r1 valueIn with
    | .panic w => throw (.panic w)
    | .nil => pure (.error 703)
    | .val x =>
      let vo := if valueOut = 0 then 1 else valueOut
      if x < vo then pure (.error 303) else pure (.ok x)

/-- `PairSellWithOrders(a, b, amountIn, 0)` on a pair without orders, paid by `payer`; the proceeds go to the
    fee pool (`toRewards`) or to `dest`. Returns the move and the amount received. -/
def pairSellMove (s : State) (payer : Addr) (a b : Coin) (amountIn : Int) (toRewards : Bool) (dest : Addr) : M (Move × Int) :=
  match poolRes s a b with
  | none => throw (.panic "PairSellWithOrders on a missing pool")
  | some (r0, r1) =>
    if pairHasOrders s a b then throw (.unmodelled "orders on the pool") else
    if amountIn ≤ 0 then throw (.panic "INSUFFICIENT_INPUT_AMOUNT") else
    let net := amountIn - com1000 amountIn
    if net ≤ 0 then throw (.panic "INSUFFICIENT_INPUT_AMOUNT") else
    match bfsNoOrders r0 r1 net with
    | .panic w => throw (.panic w)
    | .nil => throw (.panic "INSUFFICIENT_OUTPUT_AMOUNT")
    | .val out =>
      if out ≤ 0 then throw (.panic "INSUFFICIENT_OUTPUT_AMOUNT") else
      if (getPool s a b).isSome then pure (.poolSell payer a b true net out (com1000 amountIn) toRewards dest, out)
      else pure (.poolSell payer b a false net out (com1000 amountIn) toRewards dest, out)

/-! ### Commission -/

structure Com where
  commission : Int
  inBase : Int
  fromPool : Bool
  deriving Repr

def hasReserve (ci : CoinInfo) : Bool := ci.crr != 0

/-- `CalculateCommission(gasCoin, commissionInBaseCoin)`. -/
def calcCommission (P : Params) (o : Oracle) (s : State) (gas : Coin) (inBase : Int) : M (Except Nat Com) := do
  if gas == 0 then return .ok ⟨inBase, inBase, false⟩
  if inBase == 0 then return .ok ⟨0, inBase, false⟩
  -- pool route
  let fromPool : Except Nat Int ←
    match poolRes s gas 0 with
    | none => pure (.error 701)
    | some (r0, r1) =>
      if pairHasOrders s gas 0 then throw (.unmodelled "orders on the commission pool") else do
      match ← checkSwapQuote r0 r1 P.maxSupply inBase true with
      | .error c => pure (.error c)
      | .ok x => if x ≤ 0 then pure (.error 703) else pure (.ok x)
  -- reserve route
  let fromReserve : Except Nat Int ←
    match getCoin s gas with
    | none => pure (.error 200)
    | some ci =>
      if !hasReserve ci then pure (.error 200)
      else if ci.reserve - inBase < P.minReserve then pure (.error 116)
      else do
        let v ← ask o (.saleAmount ci.volume ci.reserve ci.crr inBase)
        pure (.ok v)
  match fromPool, fromReserve with
  | .error _, .error _ => return .error 119
  | .ok p, .ok r => if r < p then return .ok ⟨r, inBase, false⟩ else return .ok ⟨p, inBase, true⟩
  | .ok p, .error _ => return .ok ⟨p, inBase, true⟩
  | .error _, .ok r => return .ok ⟨r, inBase, false⟩

/-- The deliver-side payment of a commission by `payer`: plan and the base-coin value that reached the rewards pool. -/
def payCommission (s : State) (payer : Addr) (gas : Coin) (c : Com) : M (List Move × Int × Int) := do
  if c.fromPool then
    let (mv, out) ← pairSellMove s payer gas 0 c.commission true 0
    return ([mv], c.commission, out)
  else if gas != 0 then
    return ([.feeBancor payer gas c.commission c.inBase], c.commission, c.inBase)
  else
    -- base coin: the Go code debits `commission` and credits `inBase` to the fee pool; they coincide (ComWF)
    if c.commission != c.inBase then throw (.panic "model invariant: base-coin commission differs from its base value")
    return ([.feeBase payer c.commission], c.commission, c.inBase)

def typePriceName : Nat → Option String
  | 1 => some "send" | 2 => some "sell_bancor" | 3 => some "sell_all_bancor" | 4 => some "buy_bancor"
  | 6 => some "declare_candidacy" | 7 => some "delegate" | 8 => some "unbond" | 9 => some "redeem_check"
  | 10 => some "set_candidate_on" | 11 => some "set_candidate_off" | 12 => some "create_multisig"
  | 14 => some "edit_candidate" | 15 => some "set_halt_block" | 16 => some "recreate_coin" | 17 => some "edit_ticker_owner"
  | 18 => some "edit_multisig" | 20 => some "edit_candidate_public_key" | 21 => some "add_liquidity" | 22 => some "remove_liquidity"
  | 26 => some "edit_candidate_commission" | 27 => some "move_stake" | 28 => some "mint_token" | 29 => some "burn_token"
  | 31 => some "recreate_token" | 32 => some "vote_commission" | 33 => some "vote_update" | 34 => some "create_swap_pool"
  | 35 => some "add_limit_order" | 36 => some "remove_limit_order" | 37 => some "lock_stake" | 38 => some "lock"
  | _ => none

def listLen (v : String) : Nat := if v == "-" || v == "" then 0 else (v.splitOn ",").length

def tickerPrice (s : State) (sym : String) : Int :=
  match sym.length with
  | 3 => priceOf s "create_ticker3" | 4 => priceOf s "create_ticker4" | 5 => priceOf s "create_ticker5"
  | 6 => priceOf s "create_ticker6" | _ => priceOf s "create_ticker7_10"

/-- `Data.CommissionData(price)` per transaction type. -/
def typePrice (s : State) (t : TxIn) : Int :=
  match t.typ with
  | 13 => priceOf s "multisend_base" + ((listLen (t.str "d.List") : Int) - 1) * priceOf s "multisend_delta"
  | 23 => priceOf s "sell_pool_base" + priceOf s "sell_pool_delta" * ((listLen (t.str "d.Coins") : Int) - 2)
  | 24 => priceOf s "buy_pool_base" + priceOf s "buy_pool_delta" * ((listLen (t.str "d.Coins") : Int) - 2)
  | 25 => priceOf s "sell_all_pool_base" + priceOf s "sell_all_pool_delta" * ((listLen (t.str "d.Coins") : Int) - 2)
  | 5 => tickerPrice s (t.str "d.Symbol") + priceOf s "create_coin"
  | 30 => tickerPrice s (t.str "d.Symbol") + priceOf s "create_coin"
  | n => match typePriceName n with
    | some k => priceOf s k
    | none => 0

/-- `tx.MulGasPrice(tx.Price(commissions))`. -/
def txPrice (s : State) (t : TxIn) : Int :=
  (t.gasPrice : Int) * (typePrice s t + ((t.payLen + t.svcLen : Nat) : Int) * priceOf s "payload_byte")

def fail (c : Nat) : M Outcome := pure { code := c }

/-! ### Handlers -/

def parseMultisend (v : String) : List (Coin × Addr × Int) :=
  if v == "-" || v == "" then [] else
  (v.splitOn ",").filterMap (fun it => match it.splitOn ":" with
    | [c, a, x] => some (natD c, hexNat a, intD x)
    | _ => none)

/-- Send. -/
def runSend (P : Params) (o : Oracle) (s : State) (t : TxIn) (price : Int) : M Outcome := do
  let coin := t.nat "d.Coin"; let to := t.hex "d.To"; let value := t.int "d.Value"
  if !coinExists s coin then return ← fail 102
  match ← calcCommission P o s t.gasCoin price with
  | .error c => fail c
  | .ok com =>
    let need := if t.gasCoin == coin then value + com.commission else com.commission
    if t.gasCoin != coin && balanceOf s t.sender coin < value then return ← fail 107
    if balanceOf s t.sender t.gasCoin < need then return ← fail 107
    let (pc, cAmt, cBase) ← payCommission s t.sender t.gasCoin com
    return { code := 0, moves := pc ++ [.transfer t.sender to coin value],
             tags := [("tx.commission_amount", toString cAmt), ("tx.commission_in_base_coin", toString cBase)] }

def sumFor (items : List (Coin × Addr × Int)) (c : Coin) : Int :=
  sumBy (fun it => if it.1 == c then it.2.2 else 0) items

/-- Multisend. -/
def runMultisend (P : Params) (o : Oracle) (s : State) (t : TxIn) (price : Int) : M Outcome := do
  let items := parseMultisend (t.str "d.List")
  if items.length < 1 || items.length > 100 then return ← fail 111
  if items.any (fun it => !coinExists s it.1) then return ← fail 102
  match ← calcCommission P o s t.gasCoin price with
  | .error c => fail c
  | .ok com =>
    -- checkBalances: totals per coin (gas coin includes the commission)
    let coins := (t.gasCoin :: items.map (·.1)).eraseDups
    let short := coins.any (fun c => balanceOf s t.sender c < sumFor items c + (if c == t.gasCoin then com.commission else 0))
    if short then return ← fail 107
    let (pc, cAmt, cBase) ← payCommission s t.sender t.gasCoin com
    let moves := items.map (fun it => Move.transfer t.sender it.2.1 it.1 it.2.2)
    return { code := 0, moves := pc ++ moves,
             tags := [("tx.commission_amount", toString cAmt), ("tx.commission_in_base_coin", toString cBase)] }

/-! Shared shape of most handlers: compute the commission, run type specific checks, then pay the commission,
    apply the type specific primitives and bump the nonce. -/

def withCom (P : Params) (o : Oracle) (s : State) (t : TxIn) (price : Int) (k : Com → M Outcome) : M Outcome := do
  match ← calcCommission P o s t.gasCoin price with
  | .error c => fail c
  | .ok com => k com

def finish (s : State) (t : TxIn) (com : Com) (body : List Move) (tags : List (String × String) := []) : M Outcome := do
  let (pc, cAmt, cBase) ← payCommission s t.sender t.gasCoin com
  return { code := 0, moves := pc ++ body,
           tags := [("tx.commission_amount", toString cAmt), ("tx.commission_in_base_coin", toString cBase)] ++ tags }

def oneBip : Int := 1000000000000000000

def isUpperOrDigit (c : Char) : Bool := ('A' ≤ c && c ≤ 'Z') || ('0' ≤ c && c ≤ '9')
/-- `checkAllowSymbol`: `^[A-Z0-9]{3,10}$` and not a decimal number. -/
def allowSymbol (sym : String) : Bool :=
  3 ≤ sym.length && sym.length ≤ 10 && sym.toList.all isUpperOrDigit && !(sym.toList.all Char.isDigit)

def baseSymbol (P : Params) : String := if P.chain == 1 then "BIP" else "MNT"
def symbolExists (P : Params) (s : State) (sym : String) : Bool := sym == baseSymbol P || s.coins.any (·.symbol == sym)
def coinBySymbolV0 (s : State) (sym : String) : Option CoinInfo := findFirst (fun ci => ci.symbol == sym && ci.version == 0) s.coins
def symbolOwner (s : State) (sym : String) : Option Addr :=
  match findFirst (fun ci => ci.symbol == sym && ci.owner.isSome) s.coins with
  | some ci => ci.owner
  | none => none
def maxVersion (s : State) (sym : String) : Nat := (s.coins.filter (·.symbol == sym)).foldl (fun m ci => max m ci.version) 0
def nextCoinId (s : State) : Coin := s.ncoins + 1


/-- CreateCoin (5). -/
def runCreateCoin (P : Params) (o : Oracle) (s : State) (t : TxIn) (price : Int) : M Outcome := do
  let sym := t.str "d.Symbol"
  let amount := t.int "d.InitialAmount"; let reserve := t.int "d.InitialReserve"; let crr := t.nat "d.ConstantReserveRatio"; let maxS := t.int "d.MaxSupply"
  if (t.str "d.Name").length / 2 > 64 then return ← fail 204
  if !allowSymbol sym then return ← fail 203
  if symbolExists P s sym then return ← fail 201
  if maxS > P.maxSupply then return ← fail 205
  if amount < oneBip || amount > maxS then return ← fail 205
  if reserve < P.minReserve then return ← fail 205
  if crr < 10 || crr > 100 then return ← fail 202
  withCom P o s t price fun com => do
    if balanceOf s t.sender t.gasCoin < com.commission then return ← fail 107
    let total := if t.gasCoin == 0 then reserve + com.inBase else reserve
    if balanceOf s t.sender 0 < total then return ← fail 107
    let id := nextCoinId s
    let ci : CoinInfo := { id := id, symbol := sym, version := 0, volume := amount, reserve := reserve, crr := crr, maxSupply := maxS, owner := some t.sender, mintable := false, burnable := false }
    finish s t com [.createCoin t.sender ci] [("tx.coin_id", toString id)]

/-- CreateToken (30). -/
def runCreateToken (P : Params) (o : Oracle) (s : State) (t : TxIn) (price : Int) : M Outcome := do
  let sym := t.str "d.Symbol"
  let amount := t.int "d.InitialAmount"; let maxS := t.int "d.MaxSupply"
  let mintable := t.bool "d.Mintable"; let burnable := t.bool "d.Burnable"
  if (t.str "d.Name").length / 2 > 64 then return ← fail 204
  if !allowSymbol sym then return ← fail 203
  if symbolExists P s sym then return ← fail 201
  if !mintable && amount != maxS then return ← fail 205
  if amount < 1 || amount > maxS then return ← fail 205
  if maxS > P.maxSupply then return ← fail 205
  withCom P o s t price fun com => do
    if balanceOf s t.sender t.gasCoin < com.commission then return ← fail 107
    let id := nextCoinId s
    let ci : CoinInfo := { id := id, symbol := sym, version := 0, volume := amount, reserve := 0, crr := 0, maxSupply := maxS, owner := some t.sender, mintable := mintable, burnable := burnable }
    finish s t com [.createCoin t.sender ci] [("tx.coin_id", toString id)]

/-- RecreateCoin (16). -/
def runRecreateCoin (P : Params) (o : Oracle) (s : State) (t : TxIn) (price : Int) : M Outcome := do
  let sym := t.str "d.Symbol"
  let amount := t.int "d.InitialAmount"; let reserve := t.int "d.InitialReserve"; let crr := t.nat "d.ConstantReserveRatio"; let maxS := t.int "d.MaxSupply"
  if (t.str "d.Name").length / 2 > 64 then return ← fail 204
  if amount < oneBip || amount > maxS then return ← fail 205
  if maxS > P.maxSupply then return ← fail 205
  if reserve < P.minReserve then return ← fail 205
  if crr < 10 || crr > 100 then return ← fail 202
  if sym == baseSymbol P then return ← fail 206
  match coinBySymbolV0 s sym with
  | none => fail 102
  | some old =>
    if symbolOwner s sym != some t.sender then return ← fail 206
    withCom P o s t price fun com => do
      if balanceOf s t.sender t.gasCoin < com.commission then return ← fail 107
      if balanceOf s t.sender 0 < reserve then return ← fail 107
      if t.gasCoin == 0 && balanceOf s t.sender 0 < reserve + com.commission then return ← fail 107
      let id := nextCoinId s
      let ci : CoinInfo := { id := id, symbol := sym, version := 0, volume := amount, reserve := reserve, crr := crr, maxSupply := maxS, owner := some t.sender, mintable := false, burnable := false }
      finish s t com [.admin (.bumpVersion old.id (maxVersion s sym + 1)), .createCoin t.sender ci] [("tx.coin_id", toString id)]

/-- RecreateToken (31). -/
def runRecreateToken (P : Params) (o : Oracle) (s : State) (t : TxIn) (price : Int) : M Outcome := do
  let sym := t.str "d.Symbol"
  let amount := t.int "d.InitialAmount"; let maxS := t.int "d.MaxSupply"
  let mintable := t.bool "d.Mintable"; let burnable := t.bool "d.Burnable"
  if (t.str "d.Name").length / 2 > 64 then return ← fail 204
  if !mintable && amount != maxS then return ← fail 205
  if amount < 1 || amount > maxS then return ← fail 205
  if maxS > P.maxSupply then return ← fail 205
  if sym == baseSymbol P then return ← fail 206
  match coinBySymbolV0 s sym with
  | none => fail 102
  | some old =>
    if symbolOwner s sym != some t.sender then return ← fail 206
    withCom P o s t price fun com => do
      if balanceOf s t.sender t.gasCoin < com.commission then return ← fail 107
      let id := nextCoinId s
      let ci : CoinInfo := { id := id, symbol := sym, version := 0, volume := amount, reserve := 0, crr := 0, maxSupply := maxS, owner := some t.sender, mintable := mintable, burnable := burnable }
      finish s t com [.admin (.bumpVersion old.id (maxVersion s sym + 1)), .createCoin t.sender ci] [("tx.coin_id", toString id)]

/-- EditCoinOwner (17). -/
def runEditCoinOwner (P : Params) (o : Oracle) (s : State) (t : TxIn) (price : Int) : M Outcome := do
  let sym := t.str "d.Symbol"
  if !symbolExists P s sym then return ← fail 102
  if symbolOwner s sym != some t.sender then return ← fail 206
  withCom P o s t price fun com => do
    if balanceOf s t.sender t.gasCoin < com.commission then return ← fail 107
    finish s t com [.admin (.setCoinOwner sym (t.hex "d.NewOwner"))]

/-- MintToken (28). -/
def runMintToken (P : Params) (o : Oracle) (s : State) (t : TxIn) (price : Int) : M Outcome := do
  let coin := t.nat "d.Coin"; let value := t.int "d.Value"
  if coin == 0 then return ← fail 801        -- the base coin is not mintable
  match getCoin s coin with
  | none => fail 102
  | some ci =>
    if !ci.mintable then return ← fail 801
    if ci.volume + value > ci.maxSupply then return ← fail 206
    if ci.version != 0 || symbolOwner s ci.symbol != some t.sender then return ← fail 206
    withCom P o s t price fun com => do
      if balanceOf s t.sender t.gasCoin < com.commission then return ← fail 107
      finish s t com [.mint t.sender coin value]

/-- BurnToken (29). -/
def runBurnToken (P : Params) (o : Oracle) (s : State) (t : TxIn) (price : Int) : M Outcome := do
  let coin := t.nat "d.Coin"; let value := t.int "d.Value"
  if coin == 0 then return ← fail 802
  match getCoin s coin with
  | none => fail 102
  | some ci =>
    if !ci.burnable then return ← fail 802
    if ci.volume - value < 1 then return ← fail 206
    withCom P o s t price fun com => do
      if balanceOf s t.sender t.gasCoin < com.commission then return ← fail 107
      let need := if t.gasCoin == coin then value + com.commission else value
      if balanceOf s t.sender coin < need then return ← fail 107
      finish s t com [.mint t.sender coin (-value)]

/-- Dispatch on the transaction type. Types without a model raise `Stop.unmodelled`. -/
def runData (P : Params) (o : Oracle) (s : State) (_block : Nat) (t : TxIn) (price : Int) : M Outcome :=
  match t.typ with
  | 1 => runSend P o s t price
  | 13 => runMultisend P o s t price
  | 5 => runCreateCoin P o s t price
  | 30 => runCreateToken P o s t price
  | 16 => runRecreateCoin P o s t price
  | 31 => runRecreateToken P o s t price
  | 17 => runEditCoinOwner P o s t price
  | 28 => runMintToken P o s t price
  | 29 => runBurnToken P o s t price
  | n => throw (.unmodelled s!"tx type {n}")

def modelledTypes : List Nat := [1, 13, 5, 30, 16, 31, 17, 28, 29]

/-- Does executing this transaction read state outside the live projection (orders, stakes, …)? -/
def readsOther (t : TxIn) : Bool := t.gasCoin != 0 || t.sigType == 2 || !([1, 13, 5, 30, 16, 31, 17, 28, 29].contains t.typ)

/-! ### ExecutorV3.RunTx (deliver) -/

def multisigCheck (s : State) (t : TxIn) : Option Nat :=
  match s.multisigs.lookup t.sender with
  | none => some 603
  | some ms =>
    if t.signers.length > 32 || ms.owners.length < t.signers.length then some 604
    else
      let rec go (rest : List (Option Addr)) (used : List Addr) (w : Nat) : Option Nat :=
        match rest with
        | [] => if w < ms.threshold then some 609 else none
        | none :: _ => some 604
        | some a :: r => if used.contains a then some 606 else go r (a :: used) (w + ((ms.owners.lookup a).getD 0))
      go t.signers [] 0

/-- The failure-fee branch of RunTx (deliver only). -/
def failFee (P : Params) (o : Oracle) (s : State) (t : TxIn) (code : Nat) : M Outcome := do
  let inBase0 := (t.gasPrice : Int) * (priceOf s "failed_tx" + ((t.payLen + t.svcLen : Nat) : Int) * priceOf s "payload_byte")
  if priceCoin s != 0 then throw (.unmodelled "price table in a custom coin")
  match ← calcCommission P o s t.comCoin inBase0 with
  | .error c => fail c
  | .ok com =>
    if t.typ == 9 then throw (.unmodelled "failed RedeemCheck: issuer pays")
    let payer := t.sender
    let bal := balanceOf s payer t.comCoin
    if bal ≤ 0 then return { code := code }
    let com' : Except Nat Com ←
      if bal < com.commission then
        if com.fromPool then
          match poolRes s t.comCoin 0 with
          | none => throw (.panic "missing commission pool")
          | some (r0, r1) =>
            match ← checkSwapQuote r0 r1 bal 0 false with
            | .error c => pure (.error c)
            | .ok x => if x ≤ 0 then pure (.error 119) else pure (.ok ⟨bal, x, true⟩)
        else if t.comCoin != 0 then
          match getCoin s t.comCoin with
          | none => throw (.panic "missing gas coin")
          | some ci =>
            if hasReserve ci then
              if ci.volume < bal then pure (.error 103) else do
              let r ← ask o (.saleReturn ci.volume ci.reserve ci.crr bal)
              if ci.reserve - r < P.minReserve then pure (.error 116) else pure (.ok ⟨bal, r, false⟩)
            else pure (.ok ⟨bal, bal, false⟩)
        else pure (.ok ⟨bal, bal, false⟩)
      else pure (.ok com)
    match com' with
    | .error c => fail c
    | .ok cm =>
      let (pc, cAmt, _) ← payCommission s payer t.comCoin cm
      return { code := code, moves := pc, tags := [("tx.fail_fee", toString cAmt)] }

/-- The checks of RunTx that precede the handler: first failing response code, `none` when all pass. -/
def prologue (P : Params) (s : State) (block : Nat) (t : TxIn) : Option Nat :=
  if t.tooLarge || t.rawLen > P.maxTxLen then some 105
  else if !t.dec then some 106
  else if t.typ == 37 && block ≤ P.lockStakeGate then some 124
  else if t.chain != P.chain then some 115
  else if !coinExists s t.comCoin then some 102
  else if t.payLen > P.maxPayload then some 109
  else if t.svcLen > P.maxService then some 110
  else if !t.sigOk then some 106
  else
    match (if t.sigType == 2 then multisigCheck s t else none) with
    | some c => some c
    | none => if nonceOf s t.sender + 1 != t.nonce then some 101 else none

/-- Who may be debited by a transaction's own moves: its sender (for a check redemption also the check issuer,
    carried in `issuer`). Pool moves pay out to anyone; the burn address and the zero address only receive. -/
def Move.debitOk (sender : Addr) (issuer : Option Addr) : Move → Bool
  | .transfer a _ _ v => decide (0 ≤ v) && (a == sender || issuer == some a)
  | .mint a _ v => decide (0 ≤ v) || a == sender
  | .feeBase payer v => decide (0 ≤ v) && (payer == sender || issuer == some payer)
  | .feeBancor payer _ commission _ => decide (0 ≤ commission) && (payer == sender || issuer == some payer)
  | .poolSell payer _ _ _ net out burn _ _ => decide (0 ≤ net) && decide (0 ≤ out) && decide (0 ≤ burn) && (payer == sender || issuer == some payer)
  | .createCoin owner _ => owner == sender
  | .burnTicker v => decide (0 ≤ v)
  | .admin _ => true

def Move.isSetNonce : Move → Bool
  | .admin (.setNonce _ _) => true
  | _ => false

/-- Fee moves: the only moves a rejected transaction may make. -/
def Move.isFee : Move → Bool
  | .feeBase _ _ => true
  | .feeBancor _ _ _ _ => true
  | .poolSell _ _ _ _ _ _ _ toRewards _ => toRewards
  | _ => false

/-- Success path: the handler's moves, the ticker burn for new coins/tokens, and the nonce bump. -/
def tickerBurn (s : State) (t : TxIn) : List Move :=
  if t.typ == 5 || t.typ == 30 then [.burnTicker ((t.gasPrice : Int) * tickerPrice s (t.str "d.Symbol"))] else []

def successMoves (s : State) (t : TxIn) (r : Outcome) : List Move :=
  r.moves ++ tickerBurn s t ++ [.admin (.setNonce t.sender t.nonce)]

def successOutcome (s : State) (t : TxIn) (r : Outcome) : M Outcome :=
  if !((successMoves s t r).all (Move.debitOk t.sender none)) then throw (.panic "model: unauthorised debit in a handler")
  else if r.moves.any Move.isSetNonce then throw (.panic "model: handler touched a nonce")
  else pure { code := 0, moves := successMoves s t r, tags := r.tags }

/-- Failure path: the failure fee (or nothing), never a success code. -/
def failureOutcome (P : Params) (o : Oracle) (s : State) (t : TxIn) (code : Nat) : M Outcome :=
  match failFee P o s t code with
  | .ok f =>
    if f.code == 0 then throw (.panic "model: failure path returned OK")
    else if !(f.moves.all Move.isFee) then throw (.panic "model: failure path made a non-fee move")
    else if !(f.moves.all (Move.debitOk t.sender none)) then throw (.panic "model: failure fee charged to a third party")
    else pure f
  | .error e => throw e

/-- Everything after the prologue. -/
def deliverBody (P : Params) (o : Oracle) (s : State) (block : Nat) (t : TxIn) : M Outcome :=
  let price := txPrice s t
  if price != 0 && priceCoin s != 0 then throw (.unmodelled "price table in a custom coin")
  else if price != 0 && price ≤ 0 then pure { code := 119 }
  else
    match runData P o s block t price with
    | .error e => throw e
    | .ok r => if r.code != 0 then failureOutcome P o s t r.code else successOutcome s t r

/-- DeliverTx. -/
def deliverTx (P : Params) (o : Oracle) (s : State) (block : Nat) (t : TxIn) : M Outcome :=
  match prologue P s block t with
  | some c => pure { code := c }
  | none => deliverBody P o s block t

end Minter
