/-
  RLP as implemented by /repo/rlp (a copy of go-ethereum's rlp) and the typed layer the transaction decoder puts on top
  (property C23).  Core Lean only.

  What is modelled, with the Go code it mirrors
  * `Item`, `encode`            – rlp/encode.go: `encodeString`, `encodeStringHeader`, `puthead`, `putint`, list headers.
  * `readHead`, `decItem`,
    `decList`, `decode`         – rlp/decode.go: `Stream.readKind`, `readUint`, `Kind` (size checks against the enclosing
                                  list / the input limit), `Bytes` (single byte < 0x80 must be its own encoding),
                                  `decodeInterface`/`decodeListSlice`, and `DecodeBytes` (no trailing bytes).
  * `asUint`, `asBig`, `asBytes`,
    `asFixed`, `asBool`         – `Stream.uint(bits)`, `decodeBigInt`, `decodeByteSlice`, `decodeByteArray`, `Stream.Bool`.
  * `decodeTx`/`encodeTx`       – `rlp.DecodeBytes(buf, &Transaction)` / `Transaction.Serialize` on the outer 10 fields.
  * `Schema`, `conforms`        – the reflective struct/slice decoders (`makeStructDecoder`, `decodeListSlice`,
                                  `decodeListArray`, `rlp:"tail"`), used for the per-type `Data` and for `Check`.
  * `decodeSig`, `decodeMultiSig`, `validSig`
                                – `DecodeSig`, `RecoverPlain` (value part) and `crypto.ValidateSignatureValues(v,r,s,true)`.

  The typed layer is expressed on `Item`s: the Go decoders work on the byte stream directly, but every check they make is
  a function of the generic item (the typed decoders never skip validation of nested content: there is no `rlp.RawValue`
  field in any transaction/check type).  The harness mode `rlp` compares accept/reject and content with the real code.

  Fuel: `decItem`/`decList` recurse on a fuel argument (no well-founded recursion, so that the kernel can evaluate the
  decoder in `decide` examples).  `decode` supplies `2·|b|+2`, which is always enough (`MinterProofs/Rlp.lean`:
  `decItem_fuel_mono`, `decode_encode`; a `none` caused by lack of fuel cannot occur for that amount: `decItem_fuel_enough`).
-/
namespace Minter
namespace Rlp

abbrev Bytes := List UInt8

/-- A generic RLP value: what `rlp.DecodeBytes(b, &interface{})` produces (`[]byte` / `[]interface{}`). -/
inductive Item where
  | str (b : Bytes)
  | list (l : List Item)
deriving Repr, Inhabited

/-! ### decidable equality (the deriving handler does not support nested inductives) -/
mutual
def Item.decEq : (a b : Item) → Decidable (a = b)
  | .str x, .str y => if h : x = y then isTrue (by rw [h]) else isFalse (by intro e; cases e; exact h rfl)
  | .list x, .list y =>
    match Item.decEqList x y with
    | isTrue h => isTrue (by rw [h])
    | isFalse h => isFalse (by intro e; cases e; exact h rfl)
  | .str _, .list _ => isFalse (by intro e; cases e)
  | .list _, .str _ => isFalse (by intro e; cases e)
def Item.decEqList : (a b : List Item) → Decidable (a = b)
  | [], [] => isTrue rfl
  | [], _ :: _ => isFalse (by intro e; cases e)
  | _ :: _, [] => isFalse (by intro e; cases e)
  | x :: xs, y :: ys =>
    match Item.decEq x y, Item.decEqList xs ys with
    | isTrue h1, isTrue h2 => isTrue (by rw [h1, h2])
    | isFalse h1, _ => isFalse (by intro e; cases e; exact h1 rfl)
    | _, isFalse h2 => isFalse (by intro e; cases e; exact h2 rfl)
end
instance : DecidableEq Item := Item.decEq

/-! ### big-endian naturals

`leNat`/`natLE` are the little-endian workhorses (easy induction); the wire format is big-endian = reversed. -/

def leNat : Bytes → Nat
  | [] => 0
  | b :: r => b.toNat + 256 * leNat r

/-- minimal little-endian digits of `n` (`0 ↦ []`); first argument is fuel, `n` itself is always enough. -/
def natLE : Nat → Nat → Bytes
  | 0, _ => []
  | f + 1, n => if n = 0 then [] else UInt8.ofNat (n % 256) :: natLE f (n / 256)

/-- big-endian value of a byte string (`big.Int.SetBytes`, `binary.BigEndian.Uint64` after left padding). -/
def beNat (b : Bytes) : Nat := leNat b.reverse

/-- minimal big-endian bytes of `n`, no leading zero, `0 ↦ []` (`putint` for n>0, `big.Int.Bytes`). -/
def natBE (n : Nat) : Bytes := (natLE n n).reverse

/-- "no leading zero byte": the canonical-integer condition of `decodeBigInt` / `readUint`. -/
def noLeadZero (b : Bytes) : Bool := b.head? != some 0

/-! ### encoder -/

/-- `puthead` / `encodeStringHeader`: `base` is 0x80 (string) or 0xc0 (list); long form tag is `base+55+|len bytes|`. -/
def encHead (base : Nat) (n : Nat) : Bytes :=
  if n < 56 then [UInt8.ofNat (base + n)]
  else UInt8.ofNat (base + 55 + (natBE n).length) :: natBE n

/-- `encodeString`. -/
def encStr (s : Bytes) : Bytes :=
  match s with
  | [b] => if b.toNat < 128 then [b] else encHead 0x80 1 ++ [b]
  | _ => encHead 0x80 s.length ++ s

mutual
def encode : Item → Bytes
  | .str s => encStr s
  | .list l => encHead 0xc0 (encodeList l).length ++ encodeList l
def encodeList : List Item → Bytes
  | [] => []
  | x :: xs => encode x ++ encodeList xs
end

/- The encoder has only 8 length bytes (uint64 sizes, tags 0xb8..0xbf / 0xf8..0xff): items whose strings or list payloads
are ≥ 2^64 bytes have no encoding (and do not exist in Go).  `decode_encode` needs this. -/
mutual
def Item.sizeOk : Item → Bool
  | .str s => s.length < 2 ^ 64
  | .list l => Item.sizeOkList l && (encodeList l).length < 2 ^ 64
def Item.sizeOkList : List Item → Bool
  | [] => true
  | x :: xs => Item.sizeOk x && Item.sizeOkList xs
end

/-! ### strict decoder -/

inductive Head where
  | byte (b : UInt8)      -- Kind Byte: a single byte < 0x80 that is its own encoding
  | str (n : Nat)         -- Kind String with payload size n
  | list (n : Nat)        -- Kind List with payload size n
deriving Repr, DecidableEq

/-- `readUint(ll)` for a size, followed by the `size < 56 → ErrCanonSize` test of `readKind`.
`ll ∈ 1..8`.  Go tests the leading zero only for `ll ≥ 2`; for `ll = 1` a zero byte is size 0 < 56, rejected just the same. -/
def readLen (ll : Nat) (bs : Bytes) : Option (Nat × Bytes) :=
  if bs.length < ll then none
  else
    let lb := bs.take ll
    if !noLeadZero lb then none
    else
      let n := beNat lb
      if n < 56 then none else some (n, bs.drop ll)

/-- `Stream.readKind`. -/
def readHead : Bytes → Option (Head × Bytes)
  | [] => none
  | b :: rest =>
    let t := b.toNat
    if t < 0x80 then some (.byte b, rest)
    else if t < 0xb8 then some (.str (t - 0x80), rest)
    else if t < 0xc0 then
      match readLen (t - 0xb7) rest with
      | none => none
      | some (n, r) => some (.str n, r)
    else if t < 0xf8 then some (.list (t - 0xc0), rest)
    else
      match readLen (t - 0xf7) rest with
      | none => none
      | some (n, r) => some (.list n, r)

mutual
/-- one value from the front of the input; returns the value and the remaining input. -/
def decItem : Nat → Bytes → Option (Item × Bytes)
  | 0, _ => none
  | f + 1, bs =>
    match readHead bs with
    | none => none
    | some (.byte b, rest) => some (.str [b], rest)
    | some (.str n, rest) =>
      if rest.length < n then none                              -- ErrValueTooLarge / ErrElemTooLarge
      else if n = 1 ∧ (rest.headD 0).toNat < 128 then none       -- ErrCanonSize: should have been a single byte
      else some (.str (rest.take n), rest.drop n)
    | some (.list n, rest) =>
      if rest.length < n then none
      else
        match decList f (rest.take n) with
        | none => none
        | some l => some (.list l, rest.drop n)
/-- all values of a list payload (must be consumed exactly: `ListEnd` requires pos = size). -/
def decList : Nat → Bytes → Option (List Item)
  | 0, _ => none
  | _ + 1, [] => some []
  | f + 1, b :: bs =>
    match decItem f (b :: bs) with
    | none => none
    | some (x, rest) =>
      match decList f rest with
      | none => none
      | some xs => some (x :: xs)
end

/-- `rlp.DecodeBytes(b, &interface{})`: exactly one value, no trailing bytes (`ErrMoreThanOneValue`). -/
def decode (b : Bytes) : Option Item :=
  match decItem (2 * b.length + 2) b with
  | some (x, []) => some x
  | _ => none

/-! ### typed readers on items -/

/-- `Stream.uint(bits)`: at most bits/8 bytes, canonical (no leading zero; the single byte 0x00 is non-canonical, 0 is the empty string). -/
def asUint (bits : Nat) : Item → Option Nat
  | .str b => if b.length > bits / 8 then none else if !noLeadZero b then none else some (beNat b)
  | .list _ => none

/-- `decodeBigInt`: any length, no leading zero. -/
def asBig : Item → Option Nat
  | .str b => if !noLeadZero b then none else some (beNat b)
  | .list _ => none

/-- `decodeByteSlice`. -/
def asBytes : Item → Option Bytes
  | .str b => some b
  | .list _ => none

/-- `decodeByteArray` for `[n]byte` (addresses, public keys, hashes, coin symbols): exactly n bytes. -/
def asFixed (n : Nat) : Item → Option Bytes
  | .str b => if b.length = n then some b else none
  | .list _ => none

/-- `Stream.Bool`: `uint(8)` that must be 0 or 1. -/
def asBool (x : Item) : Option Bool :=
  match asUint 8 x with
  | some 0 => some false
  | some 1 => some true
  | _ => none

/-- canonical item of a natural (`encodeUint`, `writeBigInt`). -/
def uintItem (n : Nat) : Item := .str (natBE n)

/-! ### the outer transaction (`transaction.Transaction`, 10 exported fields) -/

structure TxFields where
  nonce : Nat              -- uint64
  chainId : Nat            -- types.ChainID = byte
  gasPrice : Nat           -- uint32
  gasCoin : Nat            -- types.CoinID = uint32
  typ : Nat                -- TxType = byte
  data : Bytes             -- RawData = []byte
  payload : Bytes
  serviceData : Bytes
  sigType : Nat            -- SigType = byte
  sigData : Bytes
deriving Repr, DecidableEq, Inhabited

/-- field widths of the Go struct. -/
def TxFields.wf (t : TxFields) : Bool :=
  t.nonce < 2 ^ 64 && t.chainId < 2 ^ 8 && t.gasPrice < 2 ^ 32 && t.gasCoin < 2 ^ 32 && t.typ < 2 ^ 8 && t.sigType < 2 ^ 8

def txOfItem : Item → Option TxFields
  | .list [a, b, c, d, e, f, g, h, i, j] =>
    match asUint 64 a, asUint 8 b, asUint 32 c, asUint 32 d, asUint 8 e, asBytes f, asBytes g, asBytes h, asUint 8 i, asBytes j with
    | some a, some b, some c, some d, some e, some f, some g, some h, some i, some j =>
      some ⟨a, b, c, d, e, f, g, h, i, j⟩
    | _, _, _, _, _, _, _, _, _, _ => none
  | _ => none

def itemOfTx (t : TxFields) : Item :=
  .list [uintItem t.nonce, uintItem t.chainId, uintItem t.gasPrice, uintItem t.gasCoin, uintItem t.typ,
         .str t.data, .str t.payload, .str t.serviceData, uintItem t.sigType, .str t.sigData]

/-- `rlp.DecodeBytes(buf, &tx)` on the outer struct. -/
def decodeTx (b : Bytes) : Option TxFields :=
  match decode b with
  | none => none
  | some x => txOfItem x

/-- `tx.Serialize()`. -/
def encodeTx (t : TxFields) : Bytes := encode (itemOfTx t)

/-! ### schemas: the reflective struct / slice decoders -/

inductive Schema where
  | uint (bits : Nat)
  | big
  | bytes
  | fixed (n : Nat)
  | bool
  | listOf (s : Schema)                        -- slice of s
  | struct (fs : List Schema)                  -- struct: list with exactly these fields
  | structTail (fs : List Schema) (t : Schema) -- struct whose last field is a `rlp:"tail"` slice of t
deriving Repr, Inhabited

mutual
/-- the typed decoder for a Go type of shape `s` accepts the value whose generic form is `x`. -/
def conforms : Schema → Item → Bool
  | .uint bits, x => (asUint bits x).isSome
  | .big, x => (asBig x).isSome
  | .bytes, x => (asBytes x).isSome
  | .fixed n, x => (asFixed n x).isSome
  | .bool, x => (asBool x).isSome
  | .listOf s, .list l => conformsAll s l
  | .listOf _, .str _ => false
  | .struct fs, .list l => conformsFields fs l
  | .struct _, .str _ => false
  | .structTail fs t, .list l => conformsTail fs t l
  | .structTail _ _, .str _ => false
termination_by structural _ x => x
def conformsAll : Schema → List Item → Bool
  | _, [] => true
  | s, x :: xs => conforms s x && conformsAll s xs
termination_by structural _ l => l
def conformsFields : List Schema → List Item → Bool
  | [], [] => true
  | s :: ss, x :: xs => conforms s x && conformsFields ss xs
  | [], _ :: _ => false      -- "input list has too many elements"
  | _ :: _, [] => false      -- "too few elements"
termination_by structural _ l => l
def conformsTail : List Schema → Schema → List Item → Bool
  | [], _, [] => true
  | [], t, x :: xs => conforms t x && conformsTail [] t xs      -- the `tail` slice swallows the remaining elements
  | s :: ss, t, x :: xs => conforms s x && conformsTail ss t xs
  | _ :: _, _, [] => false
termination_by structural _ _ l => l
end

/-- accepted by `rlp.DecodeBytes(b, &v)` for `v` of shape `s`. -/
def accepts (s : Schema) (b : Bytes) : Bool :=
  match decode b with
  | some x => conforms s x
  | none => false

/-! ### signatures -/

def sigSchema : Schema := .struct [.big, .big, .big]
def multiSigSchema : Schema := .struct [.fixed 20, .listOf sigSchema]

def sigOfItem : Item → Option (Nat × Nat × Nat)
  | .list [v, r, s] =>
    match asBig v, asBig r, asBig s with
    | some v, some r, some s => some (v, r, s)
    | _, _, _ => none
  | _ => none

/-- `rlp.DecodeBytes(tx.SignatureData, &Signature{})` : (V, R, S). -/
def decodeSig (b : Bytes) : Option (Nat × Nat × Nat) :=
  match decode b with
  | some x => sigOfItem x
  | none => none

def encodeSig (v r s : Nat) : Bytes := encode (.list [uintItem v, uintItem r, uintItem s])

def sigsOfItems : List Item → Option (List (Nat × Nat × Nat))
  | [] => some []
  | x :: xs =>
    match sigOfItem x, sigsOfItems xs with
    | some s, some ss => some (s :: ss)
    | _, _ => none

/-- `rlp.DecodeBytes(tx.SignatureData, &SignatureMulti{})` : (multisig address, signatures). -/
def decodeMultiSig (b : Bytes) : Option (Bytes × List (Nat × Nat × Nat)) :=
  match decode b with
  | some (.list [a, .list sigs]) =>
    match asFixed 20 a, sigsOfItems sigs with
    | some a, some ss => some (a, ss)
    | _, _ => none
  | _ => none

/-- order of the secp256k1 group (crypto/crypto.go `secp256k1N`). -/
def secpN : Nat := 0xfffffffffffffffffffffffffffffffebaaedce6af48a03bbfd25e8cd0364141
/-- `secp256k1halfN = N / 2`. -/
def secpHalfN : Nat := secpN / 2

/-- `crypto.ValidateSignatureValues(v, r, s, homestead = true)` with `v` the recovery id byte. -/
def validateSignatureValues (v r s : Nat) : Bool :=
  if r < 1 || s < 1 then false
  else if s > secpHalfN then false
  else r < secpN && s < secpN && (v == 0 || v == 1)

/-- value part of `RecoverPlain(hash, R, S, Vb)`: `Vb.BitLen() ≤ 8`, `V := byte(Vb.Uint64() - 27)` (wraps), then the
check above.  `vb` is the V on the wire (27/28). -/
def validSig (vb r s : Nat) : Bool :=
  if vb ≥ 2 ^ 8 then false
  else validateSignatureValues ((vb + 2 ^ 64 - 27) % 2 ^ 64 % 256) r s

/-! ### per-type data schemas (coreV2/transaction/*.go, the structs `GetDataV3` resolves to) and the check -/

def addr : Schema := .fixed 20
def pubkey : Schema := .fixed 32
def coin : Schema := .uint 32
def symbol : Schema := .fixed 10
def coinSchema : Schema := .struct [.bytes, symbol, .big, .big, .uint 32, .big]      -- Create/RecreateCoinData
def tokenSchema : Schema := .struct [.bytes, symbol, .big, .big, .bool, .bool]       -- Create/RecreateTokenData
def msigSchema : Schema := .struct [.uint 32, .listOf (.uint 32), .listOf addr]      -- Create/EditMultisigData

/-- `GetDataV3(txType)`: the struct the `Data` bytes are decoded into; `none` = "tx type is not registered". -/
def dataTable : List (Nat × Schema) := [
  (0x01, (.struct [coin, addr, .big])),                                          -- SendData
  (0x02, (.struct [coin, .big, coin, .big])),                                    -- SellCoinData
  (0x03, (.struct [coin, coin, .big])),                                          -- SellAllCoinData
  (0x04, (.struct [coin, .big, coin, .big])),                                    -- BuyCoinData
  (0x05, coinSchema),                                                            -- CreateCoinData
  (0x06, (.struct [addr, pubkey, .uint 32, coin, .big])),                        -- DeclareCandidacyData
  (0x07, (.struct [pubkey, coin, .big])),                                        -- DelegateDataV260
  (0x08, (.struct [pubkey, coin, .big])),                                        -- UnbondDataV3
  (0x09, (.struct [.bytes, .fixed 65])),                                         -- RedeemCheckData
  (0x0a, (.struct [pubkey])),                                                    -- SetCandidateOnData
  (0x0b, (.struct [pubkey])),                                                    -- SetCandidateOffData
  (0x0c, msigSchema),                                                            -- CreateMultisigData
  (0x0d, (.struct [.listOf (.struct [coin, addr, .big])])),                      -- MultisendData
  (0x0e, (.struct [pubkey, addr, addr, addr])),                                  -- EditCandidateData
  (0x0f, (.struct [pubkey, .uint 64])),                                          -- SetHaltBlockData
  (0x10, coinSchema),                                                            -- RecreateCoinData
  (0x11, (.struct [symbol, addr])),                                              -- EditCoinOwnerData
  (0x12, msigSchema),                                                            -- EditMultisigData
  (0x14, (.struct [pubkey, pubkey])),                                            -- EditCandidatePublicKeyData
  (0x15, (.struct [coin, coin, .big, .big])),                                    -- AddLiquidityDataV260
  (0x16, (.struct [coin, coin, .big, .big, .big])),                              -- RemoveLiquidityV240
  (0x17, (.struct [.listOf coin, .big, .big])),                                  -- SellSwapPoolDataV260
  (0x18, (.struct [.listOf coin, .big, .big])),                                  -- BuySwapPoolDataV260
  (0x19, (.struct [.listOf coin, .big])),                                        -- SellAllSwapPoolDataV260
  (0x1a, (.struct [pubkey, .uint 32])),                                          -- EditCandidateCommission
  (0x1b, (.struct [pubkey, pubkey, coin, .big])),                                -- MoveStakeData
  (0x1c, (.struct [coin, .big])),                                                -- MintTokenData
  (0x1d, (.struct [coin, .big])),                                                -- BurnTokenDataV260
  (0x1e, tokenSchema),                                                           -- CreateTokenData
  (0x1f, tokenSchema),                                                           -- RecreateTokenData
  (0x20, (.structTail ([pubkey, .uint 64, coin] ++ List.replicate 48 .big) .big)), -- VoteCommissionDataV3 (+ `More` tail)
  (0x21, (.struct [.bytes, pubkey, .uint 64])),                                  -- VoteUpdateDataV230
  (0x22, (.struct [coin, coin, .big, .big])),                                    -- CreateSwapPoolData
  (0x23, (.struct [coin, .big, coin, .big])),                                    -- AddLimitOrderData
  (0x24, (.struct [.uint 32])),                                                  -- RemoveLimitOrderData
  (0x25, (.struct [])),                                                          -- LockStakeData
  (0x26, (.struct [.uint 32, coin, .big]))                                       -- LockData
  ]

def dataSchema (typ : Nat) : Option Schema := dataTable.lookup typ

/-- `check.Check`. -/
def checkSchema : Schema :=
  .struct [.bytes, .uint 8, .uint 64, coin, .big, coin, .big, .big, .big, .big]

/-- `Executor.DecodeFromBytes`: outer struct, data by type, signature by signature type. -/
def acceptsTx (b : Bytes) : Bool :=
  match decodeTx b with
  | none => false
  | some t =>
    (match dataSchema t.typ with
     | none => false
     | some s => accepts s t.data) &&
    (if t.sigType = 1 then accepts sigSchema t.sigData
     else if t.sigType = 2 then accepts multiSigSchema t.sigData
     else false)

end Rlp
end Minter
