import MinterModel.Ledger
import MinterModel.Kernels
/-
  Value moves: the only way the model's handlers touch the books.  Every move expands to primitives whose
  declared effects cancel (MinterProofs/Moves.lean: `Move.balanced`), so any plan a handler can produce is
  balanced *by construction*; what remains to be validated against the node is that the node performs
  exactly these moves (the correspondence check).
-/
namespace Minter

inductive Move where
  /-- `v` of coin `c` from `a` to `b`. -/
  | transfer (a b : Addr) (c : Coin) (v : Int)
  /-- mint `v` of coin `c` to `a` (volume and balance grow together). -/
  | mint (a : Addr) (c : Coin) (v : Int)
  /-- commission paid in the base coin. -/
  | feeBase (payer : Addr) (v : Int)
  /-- commission paid in a bancor coin: `commission` coins leave circulation, `inBase` leaves the reserve for the fee pool. -/
  | feeBancor (payer : Addr) (c : Coin) (commission inBase : Int)
  /-- commission (or any sale) through pool (a,b) stored as (c0,c1): `net` enters, `out` leaves to `dest`, `burn` goes to the burn address. -/
  | poolSell (payer : Addr) (c0 c1 : Coin) (sellsC0 : Bool) (net out burn : Int) (toRewards : Bool) (dest : Addr)
  /-- new bancor coin / token: reserve locked from the creator, initial amount credited. -/
  | createCoin (owner : Addr) (ci : CoinInfo)
  /-- ticker price moved from the fee pool to the zero address. -/
  | burnTicker (v : Int)
  /-- bookkeeping without value. -/
  | admin (p : Prim)
  /-- bancor conversion: `sellAmt` of `sell` leaves circulation (its reserve pays `bip`), `buyAmt` of `buy` is minted against `bip`.
      For the base coin on either side the amount moved *is* `bip`. -/
  | bancor (a : Addr) (sell : Coin) (sellAmt : Int) (buy : Coin) (buyAmt : Int) (bip : Int)
  /-- delegation: `value` leaves the balance, a waitlist entry of the same (candidate, coin) is folded in, the sum becomes a pending update. -/
  | delegate (a : Addr) (cand : Nat) (coin : Coin) (value : Int) (wl : Option WaitEntry)
  /-- unbond / move: `value` is taken from the waitlist entry first (the rest of it stays on the waitlist), then from the stake, and frozen. -/
  | unbond (a : Addr) (stakeCand : Nat) (coin : Coin) (value : Int) (wl : Option WaitEntry) (f : Frozen)
  /-- lock: balance into a frozen fund without a candidate. -/
  | lock (a : Addr) (f : Frozen)
  /-- new candidate with its first stake as a pending update. -/
  | declare (a : Addr) (cd : Candidate) (coin : Coin) (stake : Int)
  /-- new pool: both volumes enter the pool, the LP token is created, 1000 of it go to address 0 and the rest to the creator. -/
  | poolCreate (a : Addr) (p : Pool) (lp : CoinInfo)
  /-- add liquidity: `(a0, a1)` enter the pool stored as `(c0, c1)`, `liq` LP tokens are minted to the provider. -/
  | poolMint (a : Addr) (c0 c1 : Coin) (a0 a1 : Int) (lp : Coin) (liq : Int)
  /-- remove liquidity. -/
  | poolBurn (a : Addr) (c0 c1 : Coin) (a0 a1 : Int) (lp : Coin) (liq : Int)
  /-- limit order: the volume offered leaves the balance into the order's escrow. -/
  | orderAdd (a : Addr) (o : Order)
  /-- cancel: the escrow returns to the owner. -/
  | orderRemove (a : Addr) (o : Order)
  deriving Repr

/-- Primitives without any value effect that `Move.admin` may carry. -/
def Prim.isAdmin : Prim → Bool
  | .setNonce _ _ | .setCoinOwner _ _ | .bumpVersion _ _ | .note _ | .useCheck _ => true
  | .setLockStake _ _ | .setMultisig _ _ | .setCandStatus _ _ | .setToDrop _ | .editCandidate _ _ _ _
  | .setCandPubKey _ _ _ | .setCandCommission _ _ _ | .addHalt _ _ | .addCVote _ _ _ | .addUVote _ _ _ | .setNextOrder _ => true
  | _ => false

def Order.escrowCoin (o : Order) : Coin := if o.isSale then o.c1 else o.c0
def Order.escrowValue (o : Order) : Int := if o.isSale then o.v1 else o.v0

def Move.prims : Move → List Prim
  | .transfer a b c v => [.addBal a c (-v), .addBal b c v]
  | .mint a c v => if c = 0 then [] else [.addVolume c v, .addBal a c v]
  | .feeBase payer v => [.addBal payer 0 (-v), .addRewards v]
  | .feeBancor payer c commission inBase =>
      if c = 0 then [] else [.addVolume c (-commission), .addReserve c (-inBase), .addBal payer c (-commission), .addRewards inBase]
  | .poolSell payer c0 c1 sellsC0 net out burn toRewards dest =>
      let a := if sellsC0 then c0 else c1
      let b := if sellsC0 then c1 else c0
      let pool := if sellsC0 then Prim.addPool c0 c1 net (-out) else Prim.addPool c0 c1 (-out) net
      if toRewards then
        if b = 0 then [pool, .addBal burnAddressM a burn, .addBal payer a (-(net + burn)), .addRewards out] else []
      else [pool, .addBal burnAddressM a burn, .addBal payer a (-(net + burn)), .addBal dest b out]
  | .createCoin owner ci =>
      if ci.id = 0 then [] else [.addBal owner 0 (-ci.reserve), .createCoin ci, .addBal owner ci.id ci.volume]
  | .burnTicker v => [.addRewards (-v), .addBal 0 0 v]
  | .admin p => if p.isAdmin then [p] else []
  | .bancor a sell sellAmt buy buyAmt bip =>
      (if sell = 0 then [.addBal a 0 (-bip)] else [.addBal a sell (-sellAmt), .addVolume sell (-sellAmt), .addReserve sell (-bip)])
      ++ (if buy = 0 then [.addBal a 0 bip] else [.addBal a buy buyAmt, .addVolume buy buyAmt, .addReserve buy bip])
  | .delegate a cand coin value wl =>
      match wl with
      | some w => [.addBal a coin (-value), .delWait { w with owner := a, coin := coin },
                   .pushUpdate cand { owner := a, coin := coin, value := value + w.value, bip := 0 }]
      | none => [.addBal a coin (-value), .pushUpdate cand { owner := a, coin := coin, value := value, bip := 0 }]
  | .unbond a stakeCand coin value wl f =>
      let fz : Frozen := { f with addr := a, coin := coin, value := value }
      match wl with
      | some w =>
        let w' : WaitEntry := { w with owner := a, coin := coin }
        let diff := value - w.value
        if diff < 0 then [.delWait w', .addWait { w' with value := -diff }, .addFrozen fz]
        else if 0 < diff then [.delWait w', .addStake stakeCand a coin (-diff), .addFrozen fz]
        else [.delWait w', .addFrozen fz]
      | none => [.addStake stakeCand a coin (-value), .addFrozen fz]
  | .lock a f => [.addBal a f.coin (-f.value), .addFrozen { f with addr := a }]
  | .declare a cd coin stake =>
      [.addBal a coin (-stake), .addCandidate cd, .pushUpdate cd.id { owner := a, coin := coin, value := stake, bip := 0 }]
  | .poolCreate a p lp =>
      if lp.id = 0 ∨ lp.reserve ≠ 0 then []
      else [.createPool p, .addBal a p.c0 (-p.r0), .addBal a p.c1 (-p.r1), .createCoin lp,
            .addBal a lp.id (lp.volume - minLiquidity), .addBal 0 lp.id minLiquidity]
  | .poolMint a c0 c1 a0 a1 lp liq =>
      if lp = 0 then [] else [.addPool c0 c1 a0 a1, .addBal a c0 (-a0), .addBal a c1 (-a1), .addVolume lp liq, .addBal a lp liq]
  | .poolBurn a c0 c1 a0 a1 lp liq =>
      if lp = 0 then [] else [.addPool c0 c1 (-a0) (-a1), .addBal a c0 a0, .addBal a c1 a1, .addVolume lp (-liq), .addBal a lp (-liq)]
  | .orderAdd a o => [.addBal a o.escrowCoin (-o.escrowValue), .addOrder o]
  | .orderRemove a o => [.delOrder o, .addBal a o.escrowCoin o.escrowValue]
where burnAddressM : Addr := 4613284110362529566999548832207186500636242630   -- Mx00cedde786b34d733d1dc96559253081572df2c6

def planOf (ms : List Move) : List Prim := ms.flatMap Move.prims

end Minter
