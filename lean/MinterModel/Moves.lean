import MinterModel.Ledger
import MinterModel.Kernels
/-
  Value moves: the only way the model's handlers touch the books.  Every move expands to primitives whose
  declared effects cancel (MinterProofs/Moves.lean: `Move.balanced`), so any plan a handler can produce is
  balanced *by construction*; what remains to be validated against the node is that the node performs
  exactly these moves (the correspondence check).
-/
namespace Minter

inductive Move where
  /-- `v` of coin `c` from `a` to `b`. -/
  | transfer (a b : Addr) (c : Coin) (v : Int)
  /-- mint `v` of coin `c` to `a` (volume and balance grow together). -/
  | mint (a : Addr) (c : Coin) (v : Int)
  /-- commission paid in the base coin. -/
  | feeBase (payer : Addr) (v : Int)
  /-- commission paid in a bancor coin: `commission` coins leave circulation, `inBase` leaves the reserve for the fee pool. -/
  | feeBancor (payer : Addr) (c : Coin) (commission inBase : Int)
  /-- commission (or any sale) through pool (a,b) stored as (c0,c1): `net` enters, `out` leaves to `dest`, `burn` goes to the burn address. -/
  | poolSell (payer : Addr) (c0 c1 : Coin) (sellsC0 : Bool) (net out burn : Int) (toRewards : Bool) (dest : Addr)
  /-- new bancor coin / token: reserve locked from the creator, initial amount credited. -/
  | createCoin (owner : Addr) (ci : CoinInfo)
  /-- ticker price moved from the fee pool to the zero address. -/
  | burnTicker (v : Int)
  /-- bookkeeping without value. -/
  | admin (p : Prim)
  deriving Repr

/-- Primitives without any value effect that `Move.admin` may carry. -/
def Prim.isAdmin : Prim → Bool
  | .setNonce _ _ | .setCoinOwner _ _ | .bumpVersion _ _ | .note _ | .useCheck _ => true
  | _ => false

def Move.prims : Move → List Prim
  | .transfer a b c v => [.addBal a c (-v), .addBal b c v]
  | .mint a c v => if c = 0 then [] else [.addVolume c v, .addBal a c v]
  | .feeBase payer v => [.addBal payer 0 (-v), .addRewards v]
  | .feeBancor payer c commission inBase =>
      if c = 0 then [] else [.addVolume c (-commission), .addReserve c (-inBase), .addBal payer c (-commission), .addRewards inBase]
  | .poolSell payer c0 c1 sellsC0 net out burn toRewards dest =>
      let a := if sellsC0 then c0 else c1
      let b := if sellsC0 then c1 else c0
      let pool := if sellsC0 then Prim.addPool c0 c1 net (-out) else Prim.addPool c0 c1 (-out) net
      if toRewards then
        if b = 0 then [pool, .addBal burnAddressM a burn, .addBal payer a (-(net + burn)), .addRewards out] else []
      else [pool, .addBal burnAddressM a burn, .addBal payer a (-(net + burn)), .addBal dest b out]
  | .createCoin owner ci =>
      if ci.id = 0 then [] else [.addBal owner 0 (-ci.reserve), .createCoin ci, .addBal owner ci.id ci.volume]
  | .burnTicker v => [.addRewards (-v), .addBal 0 0 v]
  | .admin p => if p.isAdmin then [p] else []
where burnAddressM : Addr := 4613284110362529566999548832207186500636242630   -- Mx00cedde786b34d733d1dc96559253081572df2c6

def planOf (ms : List Move) : List Prim := ms.flatMap Move.prims

end Minter
