import MinterModel.State
/-
  Validator set and rewards (properties C17 and C19) — the LIVE path only:

  * `coreV2/state/candidates/candidates.go`  `getOrderedCandidates`, `getOrderedCandidatesLessID`, `GetNewCandidates`,
    `recalculateStakes` (slot replacement, `stakeKick`), `RecalculateStakesV2` (pruning beyond 100, `DeleteCandidate`)
  * `coreV2/minter/minter.go`                `updateValidators`, `calculatePowers`
  * `coreV2/minter/blockchain.go`            `EndBlock` (return of dropped validators' rewards, accrual loop, remainder)
  * `coreV2/state/validators/validators.go`  `PayRewardsV5Fix`, `SetNewValidators`

  Go `big.Int.Div` is Euclidean division = Lean `/` on `Int`.  Every division below has the guard of the code stated
  next to it (`x / 0 = 0` is never relied upon).
-/
namespace Minter

/-! ## `sort.SliceStable` with a strict `less` -/

/-- Insert `x` (which stood *before* every element of the list) keeping stability: after exactly the elements strictly before it. -/
def insertStable {α : Type} (less : α → α → Bool) (x : α) : List α → List α
  | [] => [x]
  | y :: t => if less y x then y :: insertStable less x t else x :: y :: t

/-- Stable sort by a strict order `less` (the result of Go's `sort.SliceStable(l, less)`). -/
def sortStable {α : Type} (less : α → α → Bool) : List α → List α
  | [] => []
  | x :: t => insertStable less x (sortStable less t)

/-! ## Selection of the validators (`GetNewCandidates`) -/

/-- `getOrderedCandidates`: larger total stake first, equal stakes: **larger id first**. -/
def candLess (a b : Candidate) : Bool :=
  decide (a.totalBip > b.totalBip) || (decide (a.totalBip = b.totalBip) && decide (a.id > b.id))

/-- `getOrderedCandidatesLessID`: larger total stake first, equal stakes: **smaller id first** (used for pruning). -/
def candLessID (a b : Candidate) : Bool :=
  decide (a.totalBip > b.totalBip) || (decide (a.totalBip = b.totalBip) && decide (a.id < b.id))

/-- `candidate.Status == CandidateStatusOnline` (2) and `totalBipStake.Cmp(minValidatorBipStake) != -1`. -/
def qualifies (minStake : Int) (c : Candidate) : Bool := c.status == 2 && decide (minStake ≤ c.totalBip)

/-- `minValidatorBipStake` = 1000 BIP in pip. -/
def minValidatorBipStake : Int := 1000 * 1000000000000000000
/-- `GetValidatorsCountForBlock` (constant). -/
def validatorsLimit : Nat := 64
/-- The literal `100` of `RecalculateStakesV2`. -/
def candidatesLimit : Nat := 100
/-- `MaxDelegatorsPerCandidate`. -/
def maxDelegators : Nat := 1000

/-- `GetNewCandidates(limit)`: the ordered candidates, offline and under-staked ones skipped, cut at `limit`. -/
def selectValidators (limit : Nat) (minStake : Int) (cands : List Candidate) : List Candidate :=
  ((sortStable candLess cands).filter (qualifies minStake)).take limit

/-- Tendermint power in `updateValidators`: `stake·10⁸ Div total`, `0 ↦ 1`.  Guard: `total` is the sum of the selected stakes,
    each at least `minValidatorBipStake`, so `total > 0` whenever a power is computed. -/
def powerOf (stake total : Int) : Int :=
  let p := stake * 100000000 / total
  if p = 0 then 1 else p

def totalStakeOf (sel : List Candidate) : Int := sumBy (fun c => c.totalBip) sel

/-- The `(pubkey, power)` list of `updateValidators`. -/
def validatorPowers (sel : List Candidate) : List (PubKey × Int) :=
  sel.map (fun c => (c.pubkey, powerOf c.totalBip (totalStakeOf sel)))

/-- `ValidatorUpdates` answered to Tendermint: the new set, then power 0 for every active validator that is not in it. -/
def validatorUpdates (active : List PubKey) (new : List (PubKey × Int)) : List (PubKey × Int) :=
  new ++ (active.filter (fun k => !(new.any (fun p => p.1 == k)))).map (fun k => (k, 0))

/-- `SetNewValidators`: accumulated reward and absence bits are carried over by tendermint address (= public key);
    positive rewards of validators that leave go to the slashed total (second component). -/
def setNewValidators (old : List Validator) (sel : List Candidate) : List Validator × Int :=
  let new := sel.map (fun c =>
    match (old.filter (fun v => v.pubkey == c.pubkey)).getLast? with
    | some v => ({ pubkey := c.pubkey, totalBip := c.totalBip, accum := v.accum, absent := v.absent, tmAddr := v.tmAddr } : Validator)
    | none => ({ pubkey := c.pubkey, totalBip := c.totalBip, accum := 0, absent := List.replicate 24 false } : Validator))
  let gone := old.filter (fun v => !(sel.any (fun c => c.pubkey == v.pubkey)))
  (new, sumBy (fun v => if v.accum > 0 then v.accum else 0) gone)

/-! ## Pruning (`RecalculateStakesV2` after the recalculation) -/

/-- Candidates deleted by `RecalculateStakesV2`: ranked beyond `limit` in the `LessID` order and not a current validator
    (`DeleteCandidate` returns early for validators). -/
def prunedCandidates (limit : Nat) (isValidator : PubKey → Bool) (cands : List Candidate) : List Candidate :=
  let sorted := sortStable candLessID cands
  if sorted.length < limit then [] else (sorted.drop limit).filter (fun c => !isValidator c.pubkey)

/-- The candidates that stay. -/
def pruneBeyond (limit : Nat) (isValidator : PubKey → Bool) (cands : List Candidate) : List Candidate :=
  cands.filter (fun c => !((prunedCandidates limit isValidator cands).any (fun d => d.id == c.id)))

/-- Frozen funds created by `DeleteCandidate` for one candidate: every stake and every pending update with its full coin value. -/
def unbondAll (due : Height) (c : Candidate) : List Frozen :=
  (c.stakes ++ c.updates).map (fun s =>
    ({ height := due, addr := s.owner, candKey := some c.pubkey, candId := c.id, coin := s.coin, value := s.value, moveTo := 0 } : Frozen))

/-! ## The 1000 delegation slots (`recalculateStakes`, one candidate) -/

abbrev Slots := List (Option Stake)

/-- The scan of `recalculateStakes` for one update: `(index, smallestStake)`.
    The first empty slot wins with `smallestStake = 0`; otherwise the first slot with the minimal bip value. -/
def findSlotAux : Slots → Nat → Option (Nat × Int) → Option (Nat × Int)
  | [], _, best => best
  | none :: _, i, _ => some (i, 0)
  | some s :: t, i, none => findSlotAux t (i + 1) (some (i, s.bip))
  | some s :: t, i, some (j, m) =>
    if m > s.bip then findSlotAux t (i + 1) (some (i, s.bip)) else findSlotAux t (i + 1) (some (j, m))

def findSlot (slots : Slots) : Option (Nat × Int) := findSlotAux slots 0 none

structure SlotResult where
  slots : Slots
  kicked : Option Stake      -- goes to the waitlist with `value` (the coin value, not the bip value)
  deriving Repr, BEq, DecidableEq

/-- One incoming update against the slots: `smallestStake.Cmp(update.BipValue) == 1` ⇒ the update itself is kicked;
    otherwise the occupant of the slot (if any) is kicked and the update takes the slot. -/
def slotReplace (slots : Slots) (u : Stake) : SlotResult :=
  match findSlot slots with
  | none => { slots := slots, kicked := none }      -- only for zero slots (the code has exactly 1000)
  | some (i, m) =>
    if m > u.bip then { slots := slots, kicked := some u }
    else { slots := slots.set i (some u), kicked := (slots.getD i none) }

/-- All updates in order; kicked stakes in the order of the `StakeKickEvent`s. -/
def applyUpdates : Slots → List Stake → Slots × List Stake
  | slots, [] => (slots, [])
  | slots, u :: us =>
    let r := slotReplace slots u
    let rest := applyUpdates r.slots us
    (rest.1, (match r.kicked with | some k => [k] | none => []) ++ rest.2)

/-- `GetStakeOfAddress` + `addValue` + `setBipValue`: merge an update into the first slot of the same owner and coin. -/
def mergeIntoSlots (bipOf : Coin → Int → Int) : Slots → Stake → Option Slots
  | [], _ => none
  | none :: t, u => (mergeIntoSlots bipOf t u).map (fun t' => none :: t')
  | some s :: t, u =>
    if s.owner = u.owner ∧ s.coin = u.coin then
      some (some { s with value := s.value + u.value, bip := bipOf s.coin (s.value + u.value) } :: t)
    else (mergeIntoSlots bipOf t u).map (fun t' => some s :: t')

/-- "apply updates for existing stakes": returns the slots and the updates that found no stake (merged ones are zeroed and filtered later). -/
def mergeExisting (bipOf : Coin → Int → Int) : Slots → List Stake → Slots × List Stake
  | slots, [] => (slots, [])
  | slots, u :: us =>
    match mergeIntoSlots bipOf slots u with
    | some slots' => mergeExisting bipOf slots' us
    | none =>
      let r := mergeExisting bipOf slots us
      (r.1, u :: r.2)

/-- `getFilteredUpdates`: drop values ≤ 0, add the value of a later update with the same owner and coin to the first one
    (its bip value is *not* touched here). `acc` is in order. -/
def mergeUpdate : List Stake → Stake → List Stake
  | [], u => [u]
  | a :: t, u => if a.coin = u.coin ∧ a.owner = u.owner then { a with value := a.value + u.value } :: t else a :: mergeUpdate t u

def filteredUpdates (us : List Stake) : List Stake :=
  us.foldl (fun acc u => if u.value > 0 then mergeUpdate acc u else acc) []

/-- `recalculateStakes` for one candidate. `bipOf coin value` = `calculateBipValue` (identity for the base coin).
    Returns the new slots, the kicked stakes (waitlist) and the new total bip stake. -/
def recalcCandidate (bipOf : Coin → Int → Int) (slots : Slots) (updates : List Stake) : Slots × List Stake × Int :=
  let slots1 := slots.map (fun o => o.map (fun s => { s with bip := bipOf s.coin s.value }))
  let (slots2, rest) := mergeExisting bipOf slots1 updates
  let sorted := sortStable (fun a b => decide (a.bip > b.bip)) (filteredUpdates rest)
  let fresh := sorted.map (fun u => { u with bip := bipOf u.coin u.value })
  let (slots3, kicked) := applyUpdates slots2 fresh
  (slots3, kicked, sumBy (fun o => match o with | some s => s.bip | none => 0) slots3)

/-! ## Accrual (`EndBlock`) -/

/-- `!val.IsToDrop() && GetValidatorStatus(val.GetAddress()) == ValidatorPresent`. -/
def isPresent (present : PubKey → Bool) (v : Validator) : Bool := !v.toDrop && present v.pubkey

/-- `calculatePowers`: sum of the stakes of the present validators, `0 ↦ 1`. -/
def totalPower (vals : List Validator) (present : PubKey → Bool) : Int :=
  let t := sumBy (fun v => if isPresent present v then v.totalBip else 0) vals
  if t = 0 then 1 else t

/-- The share of one validator: `pot · stake Div totalPower` (guard: `totalPower ≠ 0` by `calculatePowers`). -/
def gainOf (pot : Int) (tp : Int) (v : Validator) : Int := pot * v.totalBip / tp

/-- The accrual loop of `EndBlock`: the new validators and the remainder that goes to the slashed total. -/
def accrue (pot : Int) (vals : List Validator) (present : PubKey → Bool) : List Validator × Int :=
  let tp := totalPower vals present
  (vals.map (fun v => if isPresent present v then { v with accum := v.accum + gainOf pot tp v } else v),
   pot - sumBy (fun v => if isPresent present v then gainOf pot tp v else 0) vals)

/-- First loop of `EndBlock`: dropped validators hand their accumulated reward back to the block's pot. -/
def returnDropped (vals : List Validator) : List Validator × Int :=
  (vals.map (fun v => if v.toDrop then { v with accum := 0 } else v),
   sumBy (fun v => if v.toDrop then v.accum else 0) vals)

/-- Both loops: `pot0` = block reward + fees of the block. -/
def endBlockAccrue (pot0 : Int) (vals : List Validator) (present : PubKey → Bool) : List Validator × Int :=
  let r := returnDropped vals
  accrue (pot0 + r.2) r.1 present

/-! ## Payout (`PayRewardsV5Fix`) -/

inductive Role where
  | validator | delegator | dao | developers
  deriving Repr, BEq, DecidableEq

def Role.name : Role → String
  | .validator => "Validator" | .delegator => "Delegator" | .dao => "DAO" | .developers => "Developers"

structure Payment where
  role : Role
  addr : Addr
  amount : Int
  forCoin : Coin
  deriving Repr, BEq, DecidableEq

/-- One stake as `PayRewardsV5Fix` sees it; `lockUntil` = `GetLockStakeUntilBlock(owner)`. -/
structure PStake where
  owner : Addr
  coin : Coin
  bip : Int
  lockUntil : Nat
  deriving Repr, BEq, DecidableEq

/-- Everything the payout of one validator reads. -/
structure PayIn where
  accum : Int            -- validator.GetAccumReward()
  valStake : Int         -- validator.GetTotalBipStake()
  commission : Int       -- candidate.Commission
  rewardAddr : Addr
  daoAddr : Addr
  devAddr : Addr
  height : Nat           -- the `height` argument (MaxUint64 once the emission is over)
  calcReward : Int       -- App.Reward() first
  safeReward : Int       -- App.Reward() second
  period : Int
  totalAccum : Int       -- Σ accumulated rewards of all validators
  totalStakes : Int      -- Σ validator stakes, computed only when totalAccum ≤ 0 (else 0)
  stakes : List PStake
  deriving Repr

def daoCommission : Int := 10
def devCommission : Int := 10

/-- Running values of the stake loop. -/
structure PayAcc where
  dao : Int
  dev : Int
  more : Int
  rem : Int
  lost : Int := 0            -- model-only ledger: amounts taken off `rem` that nobody received (see `payout_balance`)
  pays : List Payment := []  -- delegator payments, newest first
  deriving Repr

/-- `IsX3Mining(owner, height)`. -/
def isX3 (p : PayIn) (s : PStake) : Bool := decide (p.height < s.lockUntil)

/-- `safeRewards` of the first x3 branch after both taxes and the commission. -/
def x3Safe (p : PayIn) (s : PStake) : Int × Int :=
  let x := p.safeReward * p.period * s.bip * 3 * p.accum / p.valStake / p.totalAccum
  let taxDAOx3 := x * devCommission / 100
  let taxDEVx3 := x * daoCommission / 100
  let x1 := x - taxDAOx3 - taxDEVx3
  (x1 - x1 * p.commission / 100, taxDAOx3)

/-- `calcRewards` of the first x3 branch: `(after all deductions, taxDAO, taxDEV)`. -/
def x3Calc (p : PayIn) (s : PStake) : Int × Int × Int :=
  let y := p.calcReward * p.period * s.bip * p.accum / p.valStake / p.totalAccum
  let taxDAO := y * devCommission / 100
  let taxDEV := y * daoCommission / 100
  let y1 := y - taxDAO - taxDEV
  let y2 := y1 - y1 * (devCommission + daoCommission) / 100
  (y2 - y2 * p.commission / 100, taxDAO, taxDEV)

/-- Body of the loop over the stakes. `totalReward` = what is left for the delegators. -/
def stakeStep (p : PayIn) (totalReward : Int) (a : PayAcc) (s : PStake) : PayAcc :=
  if s.bip = 0 then a
  else if p.valStake = 0 then a
  else
    let reward := totalReward * s.bip / p.valStake
    let a := { a with rem := a.rem - reward }
    if isX3 p s then
      if p.totalAccum > 0 ∧ p.accum > 0 then
        let safeRewards := (x3Safe p s).1
        let taxDAOx3 := (x3Safe p s).2
        let calcRewards := (x3Calc p s).1
        let taxDAO := (x3Calc p s).2.1
        let taxDEV := (x3Calc p s).2.2
        let diffDAO := taxDAOx3 - taxDAO
        let diffDEV := taxDAOx3 - taxDEV
        let a := { a with dao := a.dao + diffDAO, dev := a.dev + diffDEV, more := a.more + diffDAO + diffDEV }
        let v := safeRewards + (reward - calcRewards)
        if v < 1 then { a with lost := a.lost + reward }
        else { a with more := a.more + (v - reward), pays := ⟨.delegator, s.owner, v, s.coin⟩ :: a.pays }
      else if p.totalAccum ≤ 0 ∧ p.accum ≤ 0 then
        -- guard of the division: valStake ≠ 0 is a summand of totalStakes
        let x := p.safeReward * p.period * s.bip * 3 / p.totalStakes
        let taxDAO := x * devCommission / 100
        let taxDEV := x * daoCommission / 100
        let a := { a with dao := a.dao + taxDAO, dev := a.dev + taxDEV, more := a.more + taxDAO + taxDEV }
        let x1 := x - taxDAO - taxDEV
        let v := x1 - x1 * p.commission / 100
        if v < 1 then { a with lost := a.lost + reward }
        else { a with more := a.more + (v - reward), pays := ⟨.delegator, s.owner, v, s.coin⟩ :: a.pays }
      else
        if reward < 1 then { a with lost := a.lost + reward }
        else { a with more := a.more + (reward - reward), pays := ⟨.delegator, s.owner, reward, s.coin⟩ :: a.pays }
    else
      if reward < 1 then { a with lost := a.lost + reward }
      else { a with pays := ⟨.delegator, s.owner, reward, s.coin⟩ :: a.pays }

structure PayOut where
  payments : List Payment   -- in the order of the `RewardEvent`s
  remainder : Int           -- added to the slashed total; the code panics when negative
  more : Int                -- `moreRewards` contribution
  lost : Int                -- model-only (see `PayAcc.lost`)
  deriving Repr

def dao0 (accum : Int) : Int := accum * daoCommission / 100
def dev0 (accum : Int) : Int := accum * devCommission / 100
def validatorCut (p : PayIn) : Int := (p.accum - dev0 p.accum - dao0 p.accum) * p.commission / 100
def delegatorsPart (p : PayIn) : Int := p.accum - dev0 p.accum - dao0 p.accum - validatorCut p

/-- `PayRewardsV5Fix` for one validator. -/
def payout (p : PayIn) : PayOut :=
  let a0 : PayAcc := { dao := dao0 p.accum, dev := dev0 p.accum, more := 0,
                       rem := p.accum - dao0 p.accum - dev0 p.accum - validatorCut p }
  let a := p.stakes.foldl (stakeStep p (delegatorsPart p)) a0
  { payments := ⟨.validator, p.rewardAddr, validatorCut p, 0⟩ :: a.pays.reverse
                  ++ [⟨.dao, p.daoAddr, a.dao, 0⟩, ⟨.developers, p.devAddr, a.dev, 0⟩],
    remainder := a.rem, more := a.more, lost := a.lost }

def paidTotal (l : List Payment) : Int := sumBy (fun x => x.amount) l

/-- A validator together with what the payout needs from its candidate. -/
structure PayVal where
  id : Nat
  accum : Int
  valStake : Int
  commission : Int
  rewardAddr : Addr
  stakes : List PStake
  hasCandidate : Bool := true     -- `GetCandidate(pubkey) == nil` ⇒ skipped
  deriving Repr

/-- `PayRewardsV5Fix` over all validators. -/
def payoutAll (height : Nat) (calcR safeR period : Int) (daoAddr devAddr : Addr) (vals : List PayVal) : List (Nat × PayOut) :=
  let totalAccum := sumBy (fun v => v.accum) vals
  let totalStakes := if totalAccum > 0 then 0 else sumBy (fun v => v.valStake) vals
  (vals.filter (·.hasCandidate)).map (fun v =>
    (v.id, payout { accum := v.accum, valStake := v.valStake, commission := v.commission, rewardAddr := v.rewardAddr,
                    daoAddr := daoAddr, devAddr := devAddr, height := height, calcReward := calcR, safeReward := safeR,
                    period := period, totalAccum := totalAccum, totalStakes := totalStakes, stakes := v.stakes }))

end Minter
