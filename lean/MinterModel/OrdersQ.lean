import MinterModel.Orders
import MinterModel.Parse
/-
  `Q` evaluators for the limit-order model (see `harness/mode_orders.go`):
    Q rn53 <num> <den>                                   = <float64 bits, hex> | range
    Q ratint <num> <den>                                 = <int>
    Q sortbook <sorted 0/1> <book>                        = <ids best first>
    Q sellwo <sorted> <r0> <r1> <book> <amountIn> <table> = <out;r0';r1';fills;credits;closed> | panic:<class>
    Q buywo  <sorted> <r0> <r1> <book> <amountOut> <table> = <in;r0';r1';fills;credits;closed> | panic:<class>
    Q cancelwo <book> <id>                               = <owner>:<refund> | none
    Q expirewo <orders in id order> <height>             = <id:owner:refund,…>
  book  = `id:buy:sell:owner:height` joined by `,` (`-` = empty);
  table = recorded answers of the real `CalculateAddAmountsForPrice`: `r0:r1:buy:sell:amount0` joined by `,`.
-/
namespace Minter
open Lob

def listTok (s : String) : List String := if s == "-" || s == "" then [] else s.splitOn ","

def parseOrder (s : String) : Lob.Order :=
  match s.splitOn ":" with
  | [i, b, sl, o, h] => ⟨natD i, intD b, intD sl, natD o, natD h⟩
  | _ => ⟨0, 0, 0, 0, 0⟩

def parseBook (s : String) : List Lob.Order := (listTok s).map parseOrder

def parseTable (s : String) : List ((Int × Int × Int × Int) × Int) :=
  (listTok s).filterMap fun e =>
    match e.splitOn ":" with
    | [a, b, c, d, v] => some ((intD a, intD b, intD c, intD d), intD v)
    | _ => none

def tableOracle (t : List ((Int × Int × Int × Int) × Int)) : Lob.Oracle := fun r0 r1 b s =>
  match t.find? (fun e => e.1 == (r0, r1, b, s)) with
  | some e => some e.2
  | none => none

def hexOfNatL (n : Nat) : String :=
  if n = 0 then "0" else String.ofList ((Nat.toDigits 16 n))

def joinOrL (l : List String) : String := if l.isEmpty then "-" else ",".intercalate l

def faultS : Fault → String
  | .input => "panic:input"
  | .output => "panic:output"
  | .swap .k => "panic:k"
  | .swap .insufficientLiquidity => "panic:liquidity"
  | .swap .insufficientOutput => "panic:output"
  | .swap .insufficientInput => "panic:input"
  | .negBFS => "panic:negBFS"
  | .negSFB => "panic:negSFB"
  | .oneZero => "panic:onezero"
  | .oracle => "oracle-table-misses-an-entry"

def tradeS : Trade → String
  | .fault f => faultS f
  | .ok r =>
    let fills := joinOrL (r.fills.map fun f => s!"{f.id}:{f.buy}:{f.sell}")
    let cs := r.credits.foldl (fun acc c => insertSorted (fun a b => a.1 < b.1) c acc) []
    let credits := joinOrL (cs.map fun c => s!"{c.1}:{c.2}")
    let closed := joinOrL (r.closed.map fun c => s!"{c.id}:{c.owner}:{c.refund}")
    s!"{r.amount};{r.r0};{r.r1};{fills};{credits};{closed}"

def ordersEvalQ (fn : String) (args : List String) : Option String :=
  match fn, args with
  | "rn53", [n, d] =>
    some (match f64bits (rn53 (intD n) (intD d)) with
      | some b => hexOfNatL b
      | none => "range")
  | "ratint", [n, d] => some (toString (ratInt (intD n) (intD d)))
  | "sortbook", [s, b] => some (joinOrL ((sortBook (s == "1") (parseBook b)).map fun o => toString o.id))
  | "sellwo", [s, r0, r1, b, a, t] =>
    some (tradeS (sellWithOrders (tableOracle (parseTable t)) (s == "1") (intD r0) (intD r1) (parseBook b) (intD a)))
  | "buywo", [s, r0, r1, b, a, t] =>
    some (tradeS (buyWithOrders (tableOracle (parseTable t)) (s == "1") (intD r0) (intD r1) (parseBook b) (intD a)))
  | "cancelwo", [b, i] =>
    some (match cancelOrder (parseBook b) (natD i) with
      | some (o, _) => s!"{o.owner}:{o.wantSell}"
      | none => "none")
  | "expirewo", [b, h] =>
    some (joinOrL (((expireOrders (parseBook b) (natD h)).1).map fun o => s!"{o.id}:{o.owner}:{o.wantSell}"))
  | _, _ => none

end Minter
