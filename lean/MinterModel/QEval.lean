import MinterModel.Kernels
import MinterModel.Bancor
import MinterModel.Parse
import MinterModel.Monitors
/-
  Kernel correspondence: the harness evaluates the *real* Go function on generated inputs and writes
      Q <fn> <args…> = <result>
  the driver evaluates the Lean definition with the same name (the one the theorems are about) on the same
  arguments and reports any difference.  `evalQ` returns `none` for a function it does not know (reported, never skipped).
-/
namespace Minter

def optS (o : Option Int) : String := match o with | some v => toString v | none => "nil"

def quoteS : Quote → String
  | .nil => "nil"
  | .val v => toString v
  | .panic _ => "panic"

def swapErrS : Option SwapErr → String
  | none => "ok"
  | some .insufficientLiquidity => "liquidity"
  | some .insufficientOutput => "output"
  | some .insufficientInput => "input"
  | some .k => "k"

def evalKernels (fn : String) (a : List Int) : Option String :=
  match fn, a with
  | "bfs", [r0, r1, x] => some (optS (buyForSell r0 r1 x))
  | "sfb", [r0, r1, x] => some (optS (sellForBuy r0 r1 x))
  | "chk", [r0, r1, x, y] => some (swapErrS (checkSwap r0 r1 x y))
  | "qbfs", [r0, r1, x] => some (quoteS (quoteBuyForSell r0 r1 x))
  | "qsfb", [r0, r1, x] => some (quoteS (quoteSellForBuy r0 r1 x))
  | "addliq", [r0, r1, s, x] => let p := addLiquidity r0 r1 s x; some s!"{p.1},{p.2}"
  | "amounts", [r0, r1, s, x] => let p := burnAmounts r0 r1 s x; some s!"{p.1},{p.2}"
  | "start", [x, y] => some (toString (startingSupply x y))
  | "com1000", [x] => some (toString (com1000 x))
  | "com1001", [x] => some (toString (com1001 x))
  | "com0999", [x] => some (toString (com0999 x))
  | "two3", [v, t] => some (toString (passes v t))
  | "saleReturn100", [s, r, x] => some (optS (saleReturnInt s r 100 x))
  | "purchaseReturn100", [s, r, x] => some (optS (purchaseReturnInt s r 100 x))
  | "purchaseAmount100", [s, r, x] => some (optS (purchaseAmountInt s r 100 x))
  | "saleAmount100", [s, r, x] => some (optS (saleAmountInt s r 100 x))
  | "saleReturnAll", [s, r, c] => some (optS (saleReturnInt s r c.toNat s))
  | "saleReturnZero", [s, r, c] => some (optS (saleReturnInt s r c.toNat 0))
  | "slashKeep", [v] => some (toString (slashKeep v))
  | "power", [st, tot] => some (toString (expectedPower st tot))
  | _, _ => none

end Minter
