/-
  Persistence layer of the node (properties C09, C10, C29): `coreV2/appdb/appdb.go`, `Blockchain.Commit`
  (`coreV2/minter/blockchain.go`), `appdb/snapshot.go`, and Tendermint's handshake rule.

  What is modelled line by line: the `AppDB` struct (caches, dirty flags), every `Get*` (lazy load and what it caches),
  every `Set*/Add*` (memory only), every `Save*/Flush*` (guard, value written, flag reset) and the order of the writes inside
  `Blockchain.Commit`.  What is abstract: the state tree is a map  version ↦ root hash  with IAVL's `SaveVersion` rule
  (iavl v0.17.3 `MutableTree.SaveVersion`: an existing version with the same hash is accepted *without any DB write*,
  with a different hash it is an error); a record's serialisation (tmjson / rlp / big-endian) is taken to be lossless,
  except for the one place where it is not: `emission.Bytes()` of 0 is the empty string, which `Emission()` reads as "absent".
  The events DB is write-only for the application (nothing in a block reads it back), it only contributes crash points.
  The caches of the twelve state modules are NOT in this model (they are bound by the restart-twin correspondence only).
  Core Lean only.
-/
namespace Minter
namespace Persist

abbrev Hash := Nat

structure Version where
  name : Nat
  height : Nat
deriving DecidableEq, Repr

/-- `appdb.TimePrice`. -/
structure Price where
  t : Nat
  r0 : Nat
  r1 : Nat
  last : Nat
  off : Bool
deriving DecidableEq, Repr

/-- one `abci.ValidatorUpdate`: (public key tag, power). -/
abbrev Val := Nat × Nat

/-- The eight records of the application DB (`none` = key absent / empty value). -/
structure AppDisk where
  hash : Option Hash := none
  height : Option Nat := none
  startHeight : Option Nat := none
  validators : Option (List Val) := none
  blockTimes : Option (List Nat) := none
  versions : Option (List Version) := none
  emission : Option Nat := none
  price : Option Price := none
deriving DecidableEq, Repr

/-- The fields of the Go struct `AppDB` (without the handles and locks). `0` in the two heights means "not loaded",
    an empty list in `lastTimeBlocks`/`versions` means "not loaded", `none` = Go `nil`. -/
structure AppMem where
  startHeight : Nat := 0
  lastHeight : Nat := 0
  lastTimeBlocks : List Nat := []
  validators : Option (List Val) := none
  isDirtyVersions : Bool := false
  versions : List Version := []
  isDirtyEmission : Bool := false
  emission : Option Nat := none
  isDirtyPrice : Bool := false
  price : Option Price := none
deriving DecidableEq, Repr

/-- key and value of one application-DB write. -/
inductive Rec
  | hash (h : Hash)
  | height (n : Nat)
  | startHeight (n : Nat)
  | validators (l : List Val)
  | blockTimes (l : List Nat)
  | versions (l : List Version)
  | emission (n : Nat)
  | price (p : Price)
deriving DecidableEq, Repr

def Rec.key : Rec → String
  | .hash _ => "hash"
  | .height _ => "height"
  | .startHeight _ => "startHeight"
  | .validators _ => "validators"
  | .blockTimes _ => "blockDelta"
  | .versions _ => "versions"
  | .emission _ => "emission"
  | .price _ => "price"

/-- One database write = one crash point.  `events h i` is the i-th `Set` of `CommitEvents(h)` (new address / public-key table
    entries, then the block's event blob), `treeVersion` the single batch of `SaveVersion`, `treePrune` the single batch of
    `DeleteVersion`, `app` one `Set` on the app DB, `appBatch` one atomic tm-db batch (only used by the repaired order). -/
inductive Write
  | events (h : Nat) (i : Nat)
  | treeVersion (h : Nat) (hash : Hash)
  | treePrune (v : Nat)
  | app (r : Rec)
  | appBatch (rs : List Rec)
deriving DecidableEq, Repr

def Write.tag : Write → String
  | .events _ _ => "events"
  | .treeVersion _ _ => "tree"
  | .treePrune _ => "prune"
  | .app r => r.key
  | .appBatch rs => "batch[" ++ "+".intercalate (rs.map Rec.key) ++ "]"

/-- saved versions of the state tree, newest insertion first. -/
abbrev Tree := List (Nat × Hash)

structure Disk where
  app : AppDisk := {}
  tree : Tree := []
  events : List (Nat × Nat) := []
deriving DecidableEq, Repr

structure Node where
  mem : AppMem := {}
  disk : Disk := {}
deriving DecidableEq, Repr

/-- `cfg.KeepLastStates`. (`State.InitialVersion` is the `startHeight` record.) -/
structure Cfg where
  keep : Nat := 120
deriving DecidableEq, Repr

/-! ## Disk writes -/

def setRec (a : AppDisk) : Rec → AppDisk
  | .hash h => { a with hash := some h }
  | .height n => { a with height := some n }
  | .startHeight n => { a with startHeight := some n }
  | .validators l => { a with validators := some l }
  | .blockTimes l => { a with blockTimes := some l }
  | .versions l => { a with versions := some l }
  | .emission n => { a with emission := some n }
  | .price p => { a with price := some p }

def setRecs (a : AppDisk) : List Rec → AppDisk
  | [] => a
  | r :: rs => setRecs (setRec a r) rs

def treeErase (v : Nat) : Tree → Tree
  | [] => []
  | (w, h) :: t => if w = v then treeErase v t else (w, h) :: treeErase v t

def applyWrite (d : Disk) : Write → Disk
  | .events h i => { d with events := (h, i) :: d.events }
  | .treeVersion h hash => { d with tree := (h, hash) :: d.tree }
  | .treePrune v => { d with tree := treeErase v d.tree }
  | .app r => { d with app := setRec d.app r }
  | .appBatch rs => { d with app := setRecs d.app rs }

def applyWrites (d : Disk) : List Write → Disk
  | [] => d
  | w :: ws => applyWrites (applyWrite d w) ws

/-! ## Getters (value, node with what the getter cached) -/

/-- `getLastHeight`: cached value unless 0; a loaded value is stored. -/
def getLastHeight (n : Node) : Nat × Node :=
  if n.mem.lastHeight ≠ 0 then (n.mem.lastHeight, n)
  else match n.disk.app.height with
    | some v => (v, { n with mem := { n.mem with lastHeight := v } })
    | none => (0, n)

def getStartHeight (n : Node) : Nat × Node :=
  if n.mem.startHeight ≠ 0 then (n.mem.startHeight, n)
  else match n.disk.app.startHeight with
    | some v => (v, { n with mem := { n.mem with startHeight := v } })
    | none => (0, n)

/-- `GetLastBlockHash`: always read from disk. -/
def getLastBlockHash (n : Node) : Option Hash := n.disk.app.hash

/-- `GetValidators`: pending list if any, else the record; the loaded value is NOT cached. -/
def getValidators (n : Node) : List Val :=
  match n.mem.validators with
  | some vs => vs
  | none => n.disk.app.validators.getD []

/-- the lazy load shared by `GetLastBlockTimeDelta` and `AddBlocksTime`. -/
def loadTimes (n : Node) : Node :=
  if n.mem.lastTimeBlocks.isEmpty then
    match n.disk.app.blockTimes with
    | some l => { n with mem := { n.mem with lastTimeBlocks := l } }
    | none => n
  else n

def sumDiffs : List Nat → Int
  | a :: b :: t => ((b : Int) - (a : Int)) + sumDiffs (b :: t)
  | _ => 0

/-- `calcBlockDelta`. -/
def calcBlockDelta (times : List Nat) : Int × Int :=
  if times.length < 2 then (0, (times.length : Int) - 1) else (sumDiffs times, (times.length : Int) - 1)

/-- `GetLastBlockTimeDelta`: `(0,0)` when nothing is cached and the record is absent. -/
def getLastBlockTimeDelta (n : Node) : (Int × Int) × Node :=
  if n.mem.lastTimeBlocks.isEmpty then
    match n.disk.app.blockTimes with
    | some l => (calcBlockDelta l, { n with mem := { n.mem with lastTimeBlocks := l } })
    | none => ((0, 0), n)
  else (calcBlockDelta n.mem.lastTimeBlocks, n)

/-- `GetVersions`: loads when the cached list is empty. -/
def getVersions (n : Node) : List Version × Node :=
  if n.mem.versions.isEmpty then
    match n.disk.app.versions with
    | some l => (l, { n with mem := { n.mem with versions := l } })
    | none => ([], n)
  else (n.mem.versions, n)

/-- what `Emission()` decodes from the record: the empty byte string (= value 0) reads as absent. -/
def readEmission : Option Nat → Option Nat
  | some 0 => none
  | o => o

/-- `Emission()`. -/
def getEmission (n : Node) : Option Nat × Node :=
  match n.mem.emission with
  | some e => (some e, n)
  | none =>
    match readEmission n.disk.app.emission with
    | some e => (some e, { n with mem := { n.mem with emission := some e } })
    | none => (none, n)

/-- `GetPrice()` (`none` = the zero time and nil reserves). -/
def getPrice (n : Node) : Option Price × Node :=
  match n.mem.price with
  | some p => (some p, n)
  | none =>
    match n.disk.app.price with
    | some p => (some p, { n with mem := { n.mem with price := some p } })
    | none => (none, n)

/-- `Info`: (LastBlockHeight, LastBlockAppHash). -/
def info (n : Node) : Nat × Option Hash := ((getLastHeight n).1, getLastBlockHash n)

/-- Everything the application DB can be asked. -/
structure Obs where
  infoHeight : Nat
  infoHash : Option Hash
  startHeight : Nat
  validators : List Val
  delta : Int × Int
  versions : List Version
  emission : Option Nat
  price : Option Price
deriving DecidableEq, Repr

def observe (n : Node) : Obs :=
  { infoHeight := (getLastHeight n).1, infoHash := getLastBlockHash n, startHeight := (getStartHeight n).1,
    validators := getValidators n, delta := (getLastBlockTimeDelta n).1, versions := (getVersions n).1,
    emission := (getEmission n).1, price := (getPrice n).1 }

/-! ## Memory operations of a block (BeginBlock / EndBlock); none of them writes to disk -/

/-- Operations on the app DB between two commits.  State-dependent ones carry the function that the block applies to the
    value it reads (e.g. `SetEmission(Emission() + reward)`), so that a run depends on the node only through its getters. -/
inductive MemOp
  | qHeight | qStart | qDelta | qVersions | qEmission | qPrice     -- queries (lazy loads)
  | addBlockTime (t : Nat)                                        -- `AddBlocksTime`
  | setValidators (f : List Val → List Val)                       -- `updateValidators`: `GetValidators` then `SetValidators`
  | addVersion (name : Nat) (height : Nat)                        -- `AddVersion`
  | setEmission (f : Option Nat → Nat)                            -- `SetEmission(f(Emission()))`
  | setPrice (f : Option Price → Price)                           -- `UpdatePrice*`: `GetPrice` then `SetPrice`

def takeLast (k : Nat) (l : List Nat) : List Nat := l.drop (l.length - k)

def memOp (n : Node) : MemOp → Node
  | .qHeight => (getLastHeight n).2
  | .qStart => (getStartHeight n).2
  | .qDelta => (getLastBlockTimeDelta n).2
  | .qVersions => (getVersions n).2
  | .qEmission => (getEmission n).2
  | .qPrice => (getPrice n).2
  | .addBlockTime t =>
    let n1 := loadTimes n
    { n1 with mem := { n1.mem with lastTimeBlocks := takeLast 4 (n1.mem.lastTimeBlocks ++ [t]) } }
  | .setValidators f => { n with mem := { n.mem with validators := some (f (getValidators n)) } }
  | .addVersion name h =>
    let n1 := (getVersions n).2
    { n1 with mem := { n1.mem with versions := n1.mem.versions ++ [⟨name, h⟩], isDirtyVersions := true } }
  | .setEmission f =>
    let r := getEmission n
    { r.2 with mem := { r.2.mem with emission := some (f r.1), isDirtyEmission := true } }
  | .setPrice f =>
    let r := getPrice n
    { r.2 with mem := { r.2.mem with price := some (f r.1), isDirtyPrice := true } }

def runOps (n : Node) : List MemOp → Node
  | [] => n
  | o :: os => runOps (memOp n o) os

/-! ## `Blockchain.Commit` -/

def treeLookup (v : Nat) : Tree → Option Hash
  | [] => none
  | (w, h) :: t => if w = v then some h else treeLookup v t

/-- The app-DB records written by `Commit` for block `h`, in the real order with the real guards:
    `SetLastBlockHash`, `SetLastHeight`, `FlushValidators` (only when a list is pending), `SaveBlocksTime` (always),
    `SaveVersions` (dirty), `SaveEmission` (dirty), `SavePrice` (dirty; the flag is never reset). -/
def appRecs (m : AppMem) (h : Nat) (hash : Hash) : List Rec :=
  [Rec.hash hash, Rec.height h]
  ++ (match m.validators with | some vs => [Rec.validators vs] | none => [])
  ++ [Rec.blockTimes m.lastTimeBlocks]
  ++ (if m.isDirtyVersions then [Rec.versions m.versions] else [])
  ++ (if m.isDirtyEmission then [Rec.emission (m.emission.getD 0)] else [])
  ++ (if m.isDirtyPrice then (match m.price with | some p => [Rec.price p] | none => []) else [])

def eventWrites (h : Nat) : Nat → List Write
  | 0 => []
  | i + 1 => eventWrites h i ++ [Write.events h i]

/-- `SaveVersion` as a list of writes: `none` = "version was already saved to different hash" (Commit panics). -/
def treeWrites (t : Tree) (h : Nat) (hash : Hash) : Option (List Write) :=
  match treeLookup h t with
  | none => some [Write.treeVersion h hash]
  | some old => if old = hash then some [] else none

/-- `State.Commit`'s pruning: `versionToDelete := version - keepLastStates - 1`, skipped below the initial version and
    when the version does not exist. -/
def pruneWrites (cfg : Cfg) (start : Nat) (t : Tree) (h : Nat) : List Write :=
  if start + cfg.keep + 1 ≤ h ∧ (treeLookup (h - cfg.keep - 1) t).isSome then [Write.treePrune (h - cfg.keep - 1)] else []

/-- writes before the application DB is touched. -/
def preWrites (cfg : Cfg) (n : Node) (h : Nat) (hash : Hash) (nEv : Nat) : Option (List Write) :=
  match treeWrites n.disk.tree h hash with
  | none => none
  | some tw => some (eventWrites h nEv ++ (tw ++ pruneWrites cfg (getStartHeight n).1 n.disk.tree h))

/-- **The write sequence of `Blockchain.Commit`** for block `h` whose state root is `hash` and whose `CommitEvents` performs
    `nEv` writes. -/
def commitWrites (cfg : Cfg) (n : Node) (h : Nat) (hash : Hash) (nEv : Nat) : Option (List Write) :=
  match preWrites cfg n h hash nEv with
  | none => none
  | some pre => some (pre ++ (appRecs n.mem h hash).map Write.app)

/-- the repaired order (fix-C10): the same records in one atomic batch. -/
def commitWritesAtomic (cfg : Cfg) (n : Node) (h : Nat) (hash : Hash) (nEv : Nat) : Option (List Write) :=
  match preWrites cfg n h hash nEv with
  | none => none
  | some pre => some (pre ++ [Write.appBatch (appRecs n.mem h hash)])

/-- memory after `Commit`: height cached, pending validators dropped, versions/emission flags reset (price flag stays). -/
def memAfterCommit (m : AppMem) (h : Nat) : AppMem :=
  { m with lastHeight := h, validators := none, isDirtyVersions := false, isDirtyEmission := false }

def commit (cfg : Cfg) (n : Node) (h : Nat) (hash : Hash) (nEv : Nat) : Option Node :=
  match commitWrites cfg n h hash nEv with
  | none => none
  | some ws => some { mem := memAfterCommit n.mem h, disk := applyWrites n.disk ws }

def commitAtomic (cfg : Cfg) (n : Node) (h : Nat) (hash : Hash) (nEv : Nat) : Option Node :=
  match commitWritesAtomic cfg n h hash nEv with
  | none => none
  | some ws => some { mem := memAfterCommit n.mem h, disk := applyWrites n.disk ws }

/-! ## Restart, crash, handshake -/

/-- `NewMinterBlockchain` over existing data: fresh memory; `GetStartHeight`; when it is non-zero `initState` runs
    `GetStartHeight`, `GetLastHeight`, loads the tree at that height (`none` when the version is missing; a height below the
    start height loads nothing) and `UpdateVersions` → `GetVersions`. -/
def restart (d : Disk) : Option Node :=
  let n0 : Node := { mem := {}, disk := d }
  let r1 := getStartHeight n0
  if r1.1 = 0 then some r1.2
  else
    let r2 := getLastHeight r1.2
    if r2.1 < r1.1 ∨ (treeLookup r2.1 d.tree).isSome then some (getVersions r2.2).2 else none

/-- the process dies after the first `k` writes: memory is gone, the disk has the prefix. -/
def crashDisk (d : Disk) (ws : List Write) (k : Nat) : Disk := applyWrites d (ws.take k)

/-- Tendermint's handshake for a block store at `store` whose recorded app hash for `store` is `recorded`:
    `none` = the node cannot start; `some l` = the heights re-delivered to the application. -/
def replayFrom (d : Disk) (store : Nat) (recorded : Hash) : Option (List Nat) :=
  match restart d with
  | none => none
  | some n =>
    let i := info n
    if store < i.1 then none
    else if i.1 = store then (if i.2 = some recorded then some [] else none)
    else some ((List.range (store - i.1)).map (fun j => i.1 + 1 + j))

/-- one block as the application DB sees it. -/
structure Block where
  time : Nat
  ops : List MemOp
  hash : Hash
  nEv : Nat

/-- the app-DB operations of a block: `BeginBlock` always records the block time first. -/
def blockOps (b : Block) : List MemOp := MemOp.addBlockTime b.time :: b.ops

def runBlock (cfg : Cfg) (n : Node) (h : Nat) (b : Block) : Option Node :=
  commit cfg (runOps n (blockOps b)) h b.hash b.nEv

def runBlockAtomic (cfg : Cfg) (n : Node) (h : Nat) (b : Block) : Option Node :=
  commitAtomic cfg (runOps n (blockOps b)) h b.hash b.nEv

/-- restart after a crash in the commit of block `h` (whose writes are `ws`) at write `k`, then the handshake with the block
    store at `h`: nothing to replay, or block `h` is delivered again. -/
def recover (cfg : Cfg) (d : Disk) (ws : List Write) (k : Nat) (h : Nat) (b : Block) : Option Node :=
  let dk := crashDisk d ws k
  match replayFrom dk h b.hash, restart dk with
  | some [], some n => some n
  | some [h'], some n => if h' = h then runBlock cfg n h b else none
  | _, _ => none

def recoverAtomic (cfg : Cfg) (d : Disk) (ws : List Write) (k : Nat) (h : Nat) (b : Block) : Option Node :=
  let dk := crashDisk d ws k
  match replayFrom dk h b.hash, restart dk with
  | some [], some n => some n
  | some [h'], some n => if h' = h then runBlockAtomic cfg n h b else none
  | _, _ => none

/-! ## Logical content: what a node holds once memory and disk are read together -/

/-- The record values every getter answers from (pending memory value, else cached value, else disk). -/
structure Logical where
  hash : Option Hash
  height : Option Nat
  startHeight : Option Nat
  validators : Option (List Val)
  times : Option (List Nat)
  versions : Option (List Version)
  emission : Option Nat
  price : Option Price
deriving DecidableEq, Repr

def logical (n : Node) : Logical :=
  { hash := n.disk.app.hash
    height := n.disk.app.height
    startHeight := n.disk.app.startHeight
    validators := match n.mem.validators with | some vs => some vs | none => n.disk.app.validators
    times := if n.mem.lastTimeBlocks.isEmpty then n.disk.app.blockTimes else some n.mem.lastTimeBlocks
    versions := if n.mem.versions.isEmpty then n.disk.app.versions else some n.mem.versions
    emission := match n.mem.emission with | some e => some e | none => readEmission n.disk.app.emission
    price := match n.mem.price with | some p => some p | none => n.disk.app.price }

def logicalOfDisk (d : Disk) : Logical := logical { mem := {}, disk := d }

/-- the getters as functions of the logical content. -/
def obsL (l : Logical) : Obs :=
  { infoHeight := l.height.getD 0, infoHash := l.hash, startHeight := l.startHeight.getD 0,
    validators := l.validators.getD [],
    delta := match l.times with | some t => calcBlockDelta t | none => (0, 0),
    versions := l.versions.getD [], emission := l.emission, price := l.price }

/-- Cache coherence: a cached, non-pending value is the disk value; a dirty flag has its value; the emission counter is
    not 0 (0 is the one value that does not survive `SaveEmission`/`Emission()`). -/
structure Coherent (n : Node) : Prop where
  height : n.mem.lastHeight ≠ 0 → n.disk.app.height = some n.mem.lastHeight
  start : n.mem.startHeight ≠ 0 → n.disk.app.startHeight = some n.mem.startHeight
  versions : n.mem.isDirtyVersions = false → n.mem.versions ≠ [] → n.disk.app.versions = some n.mem.versions
  versionsD : n.mem.isDirtyVersions = true → n.mem.versions ≠ []
  emission : n.mem.isDirtyEmission = false → ∀ e, n.mem.emission = some e → readEmission n.disk.app.emission = some e
  emissionD : n.mem.isDirtyEmission = true → n.mem.emission ≠ none
  emissionNZ : n.mem.emission ≠ some 0
  price : n.mem.isDirtyPrice = false → ∀ p, n.mem.price = some p → n.disk.app.price = some p
  priceD : n.mem.isDirtyPrice = true → n.mem.price ≠ none

/-- Nothing is pending: memory could be dropped without losing information. -/
def Flushed (n : Node) : Prop := logicalOfDisk n.disk = logical n

/-- the operations of a block never set the emission counter to 0. -/
def OpOK : MemOp → Prop
  | .setEmission f => ∀ x, f x ≠ 0
  | _ => True

/-! ## State-sync snapshot (`appdb/snapshot.go`) -/

/-- The items of a snapshot at height `h`: the present records in the fixed order
    validators, height, hash, versions, blockDelta, startHeight, emission, price, then the exported tree version. -/
structure Snapshot where
  recs : List Rec
  height : Nat
  root : Hash
deriving DecidableEq, Repr

def snapRecs (a : AppDisk) : List Rec :=
  (match a.validators with | some v => [Rec.validators v] | none => [])
  ++ (match a.height with | some v => [Rec.height v] | none => [])
  ++ (match a.hash with | some v => [Rec.hash v] | none => [])
  ++ (match a.versions with | some v => [Rec.versions v] | none => [])
  ++ (match a.blockTimes with | some v => [Rec.blockTimes v] | none => [])
  ++ (match a.startHeight with | some v => [Rec.startHeight v] | none => [])
  ++ (match a.emission with | some 0 => [] | some v => [Rec.emission v] | none => [])
  ++ (match a.price with | some v => [Rec.price v] | none => [])

/-- `AppDB.Snapshot(height)`: refuses a height other than the last one, and height 0; needs the tree version. -/
def snapshot (n : Node) (h : Nat) : Option Snapshot :=
  if h ≠ (getLastHeight n).1 ∨ h = 0 then none
  else match treeLookup h n.disk.tree with
    | none => none
    | some root => some { recs := snapRecs n.disk.app, height := h, root := root }

/-- `AppDB.Restore` into an empty node: the records are `Set` one by one, the tree is imported at `height`. -/
def restore (s : Snapshot) : Disk :=
  { app := setRecs {} s.recs, tree := [(s.height, s.root)], events := [] }

/-! ## Correspondence evaluator -/

def natD (s : String) : Nat := s.toNat?.getD 0

def flag (s : String) : Bool := s == "1"

/-- a memory with the given pending state (values are irrelevant for the order). -/
def memOfFlags (vals dv de dp : Bool) : AppMem :=
  { validators := if vals then some [] else none, isDirtyVersions := dv, versions := if dv then [⟨0, 0⟩] else [],
    isDirtyEmission := de, emission := some 1, isDirtyPrice := dp, price := some ⟨0, 0, 0, 0, false⟩, lastTimeBlocks := [1] }

/-- pre-state for `crashinfo`: a node at height `h-1` (hash tag `h-1`) with every record present. -/
def nodeAt (h : Nat) (m : AppMem) (prune : Bool) (keep : Nat) : Node :=
  { mem := { m with lastHeight := h - 1, startHeight := 1 },
    disk := { app := { hash := some (h - 1), height := some (h - 1), startHeight := some 1, validators := some [],
                       blockTimes := some [1], versions := some [⟨0, 0⟩], emission := some 1, price := some ⟨0, 0, 0, 0, false⟩ },
              tree := if prune then [(h - 1, h - 1), (h - keep - 1, h - keep - 1)] else [(h - 1, h - 1)] } }

/--
  * `commitorder <atomic> <nEv> <prune> <vals> <dirtyVersions> <dirtyEmission> <dirtyPrice>` = comma list of write tags;
  * `crashinfo <atomic> <k> <nEv> <prune> <vals> <dv> <de> <dp>` = `<info height − (h−1)>,<hash tag − (h−1)>,<replay count>`
    after a crash at write `k` of the commit of block `h = 1000` (hash tag of block `j` is `j`), `dead` if the node cannot start.
-/
def persistEvalQ (fn : String) (args : List String) : Option String :=
  match fn, args with
  | "commitorder", [atm, nEv, pr, v, dv, de, dp] =>
    let keep := 2
    let h := 1000
    let n := nodeAt h (memOfFlags (flag v) (flag dv) (flag de) (flag dp)) (flag pr) keep
    let ws := if flag atm then commitWritesAtomic ⟨keep⟩ n h h (natD nEv) else commitWrites ⟨keep⟩ n h h (natD nEv)
    match ws with
    | none => some "panic"
    | some ws => some (if ws.isEmpty then "-" else ",".intercalate (ws.map Write.tag))
  | "crashinfo", [atm, k, nEv, pr, v, dv, de, dp] =>
    let keep := 2
    let h := 1000
    let n := nodeAt h (memOfFlags (flag v) (flag dv) (flag de) (flag dp)) (flag pr) keep
    let ws := if flag atm then commitWritesAtomic ⟨keep⟩ n h h (natD nEv) else commitWrites ⟨keep⟩ n h h (natD nEv)
    match ws with
    | none => some "panic"
    | some ws =>
      let dk := crashDisk n.disk ws (natD k)
      match restart dk, replayFrom dk h h with
      | some r, some l => some s!"{(info r).1 - (h - 1)},{((info r).2.getD 0) - (h - 1)},{l.length}"
      | _, _ => some "dead"
  | _, _ => none

end Persist
end Minter
