/-
  L0: pure integer kernels mirroring the `big.Int` arithmetic of the node.
  Go `Quo`/`Rem` are truncated (`Int.tdiv`/`Int.tmod`); Go `Div` is Euclidean (`Int.ediv` = `/`).
-/
namespace Minter

/-- `calcCommission1000`: 0.1 % rounded up. -/
def com1000 (a : Int) : Int := Int.tdiv a 1000 + (if Int.tmod a 1000 > 0 then 1 else 0)
/-- `calcCommission1001`. -/
def com1001 (a : Int) : Int := Int.tdiv a 1001 + (if Int.tmod a 1001 > 0 then 1 else 0)
/-- `calcCommission0999`. -/
def com0999 (a : Int) : Int := Int.tdiv a 999 + (if Int.tmod a 999 > 0 then 1 else 0)

/-- `PairV2.CalculateBuyForSell`: output for input `a` on reserves `(r0, r1)`; `none` = Go `nil`. -/
def buyForSell (r0 r1 a : Int) : Option Int :=
  let kAdj := r0 * r1 * 1000000
  let b0 := (a + r0) * 1000 - a * 2
  let out := r1 - Int.tdiv kAdj (b0 * 1000) - 1
  if out ≤ 0 then none else some out

/-- `PairV2.CalculateSellForBuy`. -/
def sellForBuy (r0 r1 out : Int) : Option Int :=
  if out ≥ r1 then none
  else
    let kAdj := r0 * r1 * 1000000
    let b1 := (r1 - out) * 1000
    some (Int.tdiv (Int.tdiv kAdj b1 - r0 * 1000) 998 + 1)

inductive SwapErr where
  | insufficientLiquidity | insufficientOutput | insufficientInput | k
  deriving Repr, DecidableEq

/-- `PairV2.checkSwap amount0In 0 0 amount1Out`. -/
def checkSwap (r0 r1 in0 out1 : Int) : Option SwapErr :=
  if 0 > r0 ∨ out1 > r1 then some .insufficientLiquidity
  else if out1 ≤ 0 then some .insufficientOutput       -- amount0Out = 0 is never positive
  else
    let a0 := in0
    let a1 := 0 - out1
    if a0 ≤ 0 ∧ a1 ≤ 0 then some .insufficientInput
    else
      let b0 := (a0 + r0) * 1000 - in0 * 2
      let b1 := (a1 + r1) * 1000
      if b0 * b1 < r0 * r1 * 1000000 then some .k else none

/-- `startingSupply`: ⌊√(a0·a1)⌋. -/
def startingSupply (a0 a1 : Int) : Int := Int.ofNat (Nat.sqrt (a0 * a1).toNat)

/-- `CalculateAddLiquidity`: (liquidity, amount1). Go `Div` = Euclidean. -/
def addLiquidity (r0 r1 supply a0 : Int) : Int × Int := (supply * a0 / r0, a0 * r1 / r0)

/-- `Amounts`. -/
def burnAmounts (r0 r1 supply liq : Int) : Int × Int := (liq * r0 / supply, liq * r1 / supply)

def minLiquidity : Int := 1000

/-! Pool quotes with an empty order book on the pair (the `…WithOrders` functions degenerate to these). -/

inductive Quote where
  | nil                 -- Go nil
  | val (v : Int)
  | panic (why : String)
  deriving Repr, DecidableEq

/-- `calculateBuyForSellWithOrders` with no orders; input already net of the 0.1 % burn. -/
def bfsNoOrders (r0 r1 a : Int) : Quote :=
  if a = 0 then .val 0
  else match buyForSell r0 r1 a with
    | none => .val 0
    | some d => match checkSwap r0 r1 a d with
      | none => .val d
      | some _ => .panic "checkSwap in calculateBuyForSellWithOrders"

/-- `CalculateBuyForSellWithOrders` (public: applies the 0.1 % burn first). -/
def quoteBuyForSell (r0 r1 a : Int) : Quote :=
  let a' := if a > 0 then a - com1000 a else a
  bfsNoOrders r0 r1 a'

/-- `calculateSellForBuyWithOrders` with no orders. -/
def sfbNoOrders (r0 r1 out : Int) : Quote :=
  if out = 0 then .val 0
  else match sellForBuy r0 r1 out with
    | none => if r0 < 1 ∨ r1 - out < 1 then .nil else .val 0
    | some d => match checkSwap r0 r1 d out with
      | none => .val d
      | some _ => .panic "checkSwap in calculateSellForBuyWithOrders"

/-- `CalculateSellForBuyWithOrders` (public: adds the 0.1 % burn on top). -/
def quoteSellForBuy (r0 r1 out : Int) : Quote :=
  match sfbNoOrders r0 r1 out with
  | .val x => if x > 0 then .val (x + com0999 x) else .val x
  | q => q

end Minter
