/-
  Bag: association list from keys to integer amounts, with additive semantics.
  `get` is the *sum* of all entries for a key, so no NoDup invariant is needed for the
  accounting lemmas; `add` keeps the list duplicate-free when it started so.
-/
namespace Minter

abbrev Bag (κ : Type) := List (κ × Int)

namespace Bag
variable {κ : Type} [DecidableEq κ]

/-- Sum of the amounts whose key satisfies `p`. -/
def sumIf (p : κ → Bool) : Bag κ → Int
  | [] => 0
  | (k, v) :: t => (if p k then v else 0) + sumIf p t

/-- Amount held under key `k` (sum semantics). -/
def get (m : Bag κ) (k : κ) : Int := sumIf (fun k' => decide (k' = k)) m

/-- Sum of all amounts. -/
def total (m : Bag κ) : Int := sumIf (fun _ => true) m

/-- Add `v` (possibly negative) under key `k`, updating in place when the key exists. -/
def add : Bag κ → κ → Int → Bag κ
  | [], k, v => [(k, v)]
  | (k', v') :: t, k, v => if k' = k then (k', v' + v) :: t else (k', v') :: add t k v

/-- Set key `k` to `v`. -/
def set (m : Bag κ) (k : κ) (v : Int) : Bag κ := add m k (v - get m k)

/-- Every entry is non-negative. -/
def nonneg : Bag κ → Bool
  | [] => true
  | (_, v) :: t => decide (0 ≤ v) && nonneg t

def keys (m : Bag κ) : List κ := m.map (·.1)

end Bag
end Minter
