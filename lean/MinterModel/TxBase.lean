import MinterModel.Ledger
import MinterModel.Kernels
import MinterModel.Parse
import MinterModel.Moves
/-
  L2, part 1: what every transaction handler shares — parameters, the oracle monad, the decoded transaction,
  pool quotes, `CalculateCommission`, the deliver-side commission payment and the price table.

  A handler (`Handler`) is the *validation* half of the Go `Run` method: it answers either a response code or a
  `Ready` record (who pays which commission + the deliver-side execution `exec`).  CheckTx stops there; DeliverTx
  goes on to pay the commission and run `exec` (TxExec in `Tx.lean`).  This mirrors the `if deliverState, ok := …`
  split of every `Run` method.
-/
namespace Minter

structure Params where
  chain : Nat := 2
  period : Nat := 12
  expire : Nat := 30
  unbond : Nat := 531
  move : Nat := 177
  jail : Nat := 354
  initial : Nat := 10200001
  lockStakeGate : Nat := 10197360
  lockStakePeriod : Nat := 34560            -- GetIncreasedRewardsPeriod (testnet: 2 days)
  maxTxLen : Nat := 16144
  maxPayload : Nat := 10000
  maxService : Nat := 128
  minReserve : Int := 10000000000000000000000      -- 10 000 BIP
  maxSupply : Int := 1000000000000000000000000000000000
  maxCandidates : Nat := 192
  maxDelegators : Nat := 1000
  minOrderVolume : Int := 10000000000
  deriving Repr

/-- Float / crypto functions answered by the real code. -/
inductive OQ where
  | saleAmount (volume reserve : Int) (crr : Nat) (wantReceive : Int)
  | saleReturn (volume reserve : Int) (crr : Nat) (sell : Int)
  | purchaseReturn (volume reserve : Int) (crr : Nat) (deposit : Int)
  | purchaseAmount (volume reserve : Int) (crr : Nat) (wantReceive : Int)
  deriving Repr, DecidableEq

abbrev Oracle := OQ → Option Int

inductive Stop where
  | need (q : OQ)
  | unmodelled (why : String)
  | panic (site : String)
  deriving Repr

abbrev M := Except Stop

def ask (o : Oracle) (q : OQ) : M Int :=
  match o q with
  | some v => pure v
  | none => throw (.need q)

/-- Decoded transaction as the real decoder sees it (header + recovered signers + data fields `d.*` + oracle facts `k.*`). -/
structure TxIn where
  dec : Bool := false
  tooLarge : Bool := false
  rawLen : Nat := 0
  typ : Nat := 0
  nonce : Nat := 0
  chain : Nat := 0
  gasPrice : Nat := 0
  gasCoin : Coin := 0
  payLen : Nat := 0
  svcLen : Nat := 0
  sigType : Nat := 0
  sigOk : Bool := false
  sender : Addr := 0
  signers : List (Option Addr) := []
  f : List (String × String) := []
  deriving Repr

/-- `tx.CommissionCoin()`: the coin being sold for the two sell-all types, the gas coin otherwise. -/
def TxIn.comCoin (t : TxIn) : Coin :=
  let g := fun k => (t.f.lookup k).getD "0"
  if t.typ == 3 then natD (g "d.CoinToSell")
  else if t.typ == 25 then natD (((g "d.Coins").splitOn ",").headD "0")
  else t.gasCoin

def TxIn.nat (t : TxIn) (k : String) : Nat := natD ((t.f.lookup k).getD "0")
def TxIn.int (t : TxIn) (k : String) : Int := intD ((t.f.lookup k).getD "0")
def TxIn.hex (t : TxIn) (k : String) : Nat := hexNat ((t.f.lookup k).getD "0")
def TxIn.str (t : TxIn) (k : String) : String := (t.f.lookup k).getD ""
def TxIn.bool (t : TxIn) (k : String) : Bool := (t.f.lookup k).getD "" == "true"

/-- The issuer of the check carried by a RedeemCheck transaction (`check.Sender()`), when the check decodes and its
    signature recovers. -/
def TxIn.issuer (t : TxIn) : Option Addr :=
  if t.typ == 9 && t.str "k.dec" == "1" && t.str "k.from" != "bad" && t.str "k.from" != "" then some (t.hex "k.from") else none

def TxIn.ofKV (l : List (String × String)) : TxIn :=
  let g := fun k => (l.lookup k).getD ""
  { dec := g "dec" == "1", tooLarge := g "dec" == "toolarge", rawLen := natD (g "rawlen"), typ := natD (g "typ"), nonce := natD (g "nonce"),
    chain := natD (g "chain"), gasPrice := natD (g "gasprice"), gasCoin := natD (g "gascoin"), payLen := natD (g "paylen"),
    svcLen := natD (g "svclen"), sigType := natD (g "sigtype"), sigOk := g "sigok" == "1", sender := hexNat (g "from"),
    signers := if g "signers" == "" then [] else (g "signers").splitOn "," |>.map (fun x => if x == "bad" then none else some (hexNat x)),
    f := l.filter (fun e => e.1.startsWith "d." || e.1.startsWith "k.") }

structure Outcome where
  code : Nat
  moves : List Move := []
  tags : List (String × String) := []
  deriving Repr

/-- The primitives an outcome applies to the state. -/
def Outcome.plan (o : Outcome) : List Prim := planOf o.moves

def priceOf (s : State) (k : String) : Int := (s.commission.lookup k).getD 0
def priceCoin (s : State) : Coin := (priceOf s "coin").toNat

/-! ### Pools (both orientations) -/

def poolRes (s : State) (a b : Coin) : Option (Int × Int) :=
  match getPool s a b with
  | some p => some (p.r0, p.r1)
  | none => match getPool s b a with
    | some p => some (p.r1, p.r0)
    | none => none

def poolId (s : State) (a b : Coin) : Nat :=
  match getPool s a b with
  | some p => p.id
  | none => match getPool s b a with
    | some p => p.id
    | none => 0

def poolExists (s : State) (a b : Coin) : Bool := (poolRes s a b).isSome

def pairHasOrders (s : State) (a b : Coin) : Bool :=
  s.orders.any (fun o => (o.c0 == a && o.c1 == b) || (o.c0 == b && o.c1 == a))

def burnAddress : Addr := hexNat "00cedde786b34d733d1dc96559253081572df2c6"

/-- Reserve change of pool `{a, b}` made earlier in the same transaction (the commission swap). -/
structure PoolAdj where
  a : Coin
  b : Coin
  da : Int
  db : Int
  deriving Repr

/-- Reserves of pool `{x, y}` oriented `x → y`, after an earlier change `adj`. -/
def poolResAdj (s : State) (adj : Option PoolAdj) (x y : Coin) : Option (Int × Int) :=
  match poolRes s x y with
  | none => none
  | some (rx, ry) =>
    match adj with
    | some j =>
      if j.a == x && j.b == y then some (rx + j.da, ry + j.db)
      else if j.a == y && j.b == x then some (rx + j.db, ry + j.da)
      else some (rx, ry)
    | none => some (rx, ry)

/-- `CheckSwap(pool, …, valueIn, valueOut, isBuy)` for a pair without orders: error code or the computed amount. -/
def checkSwapQuote (r0 r1 valueIn valueOut : Int) (isBuy : Bool) : M (Except Nat Int) :=
  if isBuy then
    match quoteSellForBuy r0 r1 valueOut with
    | .panic w => throw (.panic w)
    | .nil => pure (.error 703)
    | .val x => if x > valueIn then pure (.error 302) else pure (.ok x)
  else
    match quoteBuyForSell r0 r1 valueIn with
    | .panic w => throw (.panic w)
    | .nil => pure (.error 703)
    | .val x =>
      let vo := if valueOut = 0 then 1 else valueOut
      if x < vo then pure (.error 303) else pure (.ok x)

/-- `PairSellWithOrders(a, b, amountIn, minOut)` on a pair without orders (reserves after `adj`), paid by `payer`; the
    proceeds go to the fee pool (`toRewards`) or to `dest`. Returns the move, the amount received and the reserve change. -/
def pairSellMove (s : State) (adj : Option PoolAdj) (payer : Addr) (a b : Coin) (amountIn minOut : Int) (toRewards : Bool) (dest : Addr) :
    M (Move × Int × PoolAdj) :=
  match poolResAdj s adj a b with
  | none => throw (.panic "PairSellWithOrders on a missing pool")
  | some (r0, r1) =>
    if pairHasOrders s a b then throw (.unmodelled "orders on the pool") else
    if amountIn ≤ 0 then throw (.panic "INSUFFICIENT_INPUT_AMOUNT") else
    let net := amountIn - com1000 amountIn
    if net ≤ 0 then throw (.panic "INSUFFICIENT_INPUT_AMOUNT") else
    match bfsNoOrders r0 r1 net with
    | .panic w => throw (.panic w)
    | .nil => throw (.panic "INSUFFICIENT_OUTPUT_AMOUNT")
    | .val out =>
      if out ≤ 0 then throw (.panic "INSUFFICIENT_OUTPUT_AMOUNT") else
      if out < minOut then throw (.panic "calculatedAmount1Out less minAmount1Out") else
      if (getPool s a b).isSome then pure (.poolSell payer a b true net out (com1000 amountIn) toRewards dest, out, ⟨a, b, net, -out⟩)
      else pure (.poolSell payer b a false net out (com1000 amountIn) toRewards dest, out, ⟨a, b, net, -out⟩)

/-- `PairBuyWithOrders(a, b, maxIn, amountOut)` on a pair without orders: the buyer receives exactly `amountOut` of `b`
    and pays the returned amount of `a` (pool input + 0.1 % burn). -/
def pairBuyMove (P : Params) (s : State) (adj : Option PoolAdj) (payer : Addr) (a b : Coin) (amountOut : Int) (dest : Addr) :
    M (Move × Int × PoolAdj) :=
  match poolResAdj s adj a b with
  | none => throw (.panic "PairBuyWithOrders on a missing pool")
  | some (r0, r1) =>
    if pairHasOrders s a b then throw (.unmodelled "orders on the pool") else
    if amountOut ≤ 0 then throw (.panic "INSUFFICIENT_INPUT_AMOUNT") else
    match sfbNoOrders r0 r1 amountOut with
    | .panic w => throw (.panic w)
    | .nil => throw (.panic "INSUFFICIENT_OUTPUT_AMOUNT")
    | .val net =>
      if net ≤ 0 then throw (.panic "INSUFFICIENT_OUTPUT_AMOUNT") else
      if amountOut > P.maxSupply then throw (.panic "calculatedAmount1Out less minAmount1Out") else
      let gross := net + com0999 net
      let burn := com1000 gross
      if net + burn ≠ gross then throw (.panic "model: burn of a pool purchase differs from its 0.1 % surcharge") else
      if (getPool s a b).isSome then pure (.poolSell payer a b true net amountOut burn false dest, gross, ⟨a, b, net, -amountOut⟩)
      else pure (.poolSell payer b a false net amountOut burn false dest, gross, ⟨a, b, net, -amountOut⟩)

/-! ### Commission -/

structure Com where
  commission : Int
  inBase : Int
  fromPool : Bool
  deriving Repr

def hasReserve (ci : CoinInfo) : Bool := ci.crr != 0

/-- `coin.BaseOrHasReserve()` for an existing coin id. -/
def baseOrReserve (s : State) (c : Coin) : Bool :=
  c == 0 || (match getCoin s c with | some ci => hasReserve ci | none => false)

/-- `commissionFromPool`. -/
def comFromPool (P : Params) (s : State) (gas : Coin) (inBase : Int) : M (Except Nat Int) :=
  match poolRes s gas 0 with
  | none => pure (.error 701)
  | some (r0, r1) =>
    if pairHasOrders s gas 0 then throw (.unmodelled "orders on the commission pool") else
    match checkSwapQuote r0 r1 P.maxSupply inBase true with
    | .error e => throw e
    | .ok (.error c) => pure (.error c)
    | .ok (.ok x) => if x ≤ 0 then pure (.error 703) else pure (.ok x)

/-- `commissionFromReserve`. -/
def comFromReserve (P : Params) (o : Oracle) (s : State) (gas : Coin) (inBase : Int) : M (Except Nat Int) :=
  match getCoin s gas with
  | none => pure (.error 200)
  | some ci =>
    if !hasReserve ci then pure (.error 200)
    else if ci.reserve - inBase < P.minReserve then pure (.error 116)
    else
      match ask o (.saleAmount ci.volume ci.reserve ci.crr inBase) with
      | .error e => throw e
      | .ok v => pure (.ok v)

/-- `CalculateCommission(gasCoin, commissionInBaseCoin)`. -/
def calcCommission (P : Params) (o : Oracle) (s : State) (gas : Coin) (inBase : Int) : M (Except Nat Com) :=
  if gas == 0 then pure (.ok ⟨inBase, inBase, false⟩)
  else if inBase == 0 then pure (.ok ⟨0, inBase, false⟩)
  else
    match comFromPool P s gas inBase with
    | .error e => throw e
    | .ok fp =>
      match comFromReserve P o s gas inBase with
      | .error e => throw e
      | .ok fr =>
        match fp, fr with
        | .error _, .error _ => pure (.error 119)
        | .ok p, .ok r => if r < p then pure (.ok ⟨r, inBase, false⟩) else pure (.ok ⟨p, inBase, true⟩)
        | .ok p, .error _ => pure (.ok ⟨p, inBase, true⟩)
        | .error _, .ok r => pure (.ok ⟨r, inBase, false⟩)

/-- What paying a commission produced: moves, the amount debited, the base-coin value that reached the fee pool, and the
    reserve change of the commission pool (if the commission went through it). -/
structure Paid where
  moves : List Move
  amount : Int
  inBase : Int
  adj : Option PoolAdj

/-- The deliver-side payment of a commission by `payer`. -/
def payCommission (s : State) (payer : Addr) (gas : Coin) (c : Com) (minOut : Int := 0) : M Paid :=
  if c.fromPool then
    match pairSellMove s none payer gas 0 c.commission minOut true 0 with
    | .error e => throw e
    | .ok (mv, out, adj) => pure ⟨[mv], c.commission, out, some adj⟩
  else if gas != 0 then
    pure ⟨[.feeBancor payer gas c.commission c.inBase], c.commission, c.inBase, none⟩
  else
    -- base coin: the Go code debits `commission` and credits `inBase` to the fee pool; they coincide
    if c.commission != c.inBase then throw (.panic "model invariant: base-coin commission differs from its base value")
    else pure ⟨[.feeBase payer c.commission], c.commission, c.inBase, none⟩

/-! ### Price table -/

def typePriceName : Nat → Option String
  | 1 => some "send" | 2 => some "sell_bancor" | 3 => some "sell_all_bancor" | 4 => some "buy_bancor"
  | 6 => some "declare_candidacy" | 7 => some "delegate" | 8 => some "unbond" | 9 => some "redeem_check"
  | 10 => some "set_candidate_on" | 11 => some "set_candidate_off" | 12 => some "create_multisig"
  | 14 => some "edit_candidate" | 15 => some "set_halt_block" | 16 => some "recreate_coin" | 17 => some "edit_ticker_owner"
  | 18 => some "edit_multisig" | 20 => some "edit_candidate_public_key" | 21 => some "add_liquidity" | 22 => some "remove_liquidity"
  | 26 => some "edit_candidate_commission" | 27 => some "move_stake" | 28 => some "mint_token" | 29 => some "burn_token"
  | 31 => some "recreate_token" | 32 => some "vote_commission" | 33 => some "vote_update" | 34 => some "create_swap_pool"
  | 35 => some "add_limit_order" | 36 => some "remove_limit_order" | 37 => some "lock_stake" | 38 => some "lock"
  | _ => none

def listLen (v : String) : Nat := if v == "-" || v == "" then 0 else (v.splitOn ",").length

/-- `PayForSymbol`: by the number of BYTES of the ticker (`len(symbol)`; tickers that pass `allowSymbol` are ASCII, but the price
    is computed before that check). -/
def tickerPrice (s : State) (sym : String) : Int :=
  match sym.utf8ByteSize with
  | 3 => priceOf s "create_ticker3" | 4 => priceOf s "create_ticker4" | 5 => priceOf s "create_ticker5"
  | 6 => priceOf s "create_ticker6" | _ => priceOf s "create_ticker7_10"

/-- `Data.CommissionData(price)` per transaction type. -/
def typePrice (s : State) (t : TxIn) : Int :=
  match t.typ with
  | 13 => priceOf s "multisend_base" + ((listLen (t.str "d.List") : Int) - 1) * priceOf s "multisend_delta"
  | 23 => priceOf s "sell_pool_base" + priceOf s "sell_pool_delta" * ((listLen (t.str "d.Coins") : Int) - 2)
  | 24 => priceOf s "buy_pool_base" + priceOf s "buy_pool_delta" * ((listLen (t.str "d.Coins") : Int) - 2)
  | 25 => priceOf s "sell_all_pool_base" + priceOf s "sell_all_pool_delta" * ((listLen (t.str "d.Coins") : Int) - 2)
  | 5 => tickerPrice s (t.str "d.Symbol") + priceOf s "create_coin"
  | 30 => tickerPrice s (t.str "d.Symbol") + priceOf s "create_coin"
  | n => match typePriceName n with
    | some k => priceOf s k
    | none => 0

/-- `tx.MulGasPrice(tx.Price(commissions))`. -/
def txPrice (s : State) (t : TxIn) : Int :=
  (t.gasPrice : Int) * (typePrice s t + ((t.payLen + t.svcLen : Nat) : Int) * priceOf s "payload_byte")

/-- Conversion of a price-table amount into the base coin when the table is denominated in another coin:
    `CheckSwap(pool(tableCoin, BIP), …, amount, 0, sell)`; `.error c` = the response code returned instead. -/
def toBase (s : State) (amount : Int) : M (Except Nat Int) :=
  if priceCoin s == 0 then pure (.ok amount)
  else
    match poolRes s (priceCoin s) 0 with
    | none => throw (.panic "price-table coin without a pool")
    | some (r0, r1) =>
      if pairHasOrders s (priceCoin s) 0 then throw (.unmodelled "orders on the price-table pool") else
      checkSwapQuote r0 r1 amount 0 false

/-! ### Handlers: validation result -/

/-- A validated transaction, ready for the deliver-side execution. -/
structure Ready where
  payer : Addr                 -- who pays the commission (the sender; for a check redemption the issuer)
  coin : Coin                  -- commission coin
  com : Com
  minOut : Int := 0            -- minimum output asked from the commission swap (SellAllCoin passes the base value)
  exec : Option PoolAdj → M (List Move × List (String × String))

abbrev Handler := M (Except Nat Ready)

def reject (c : Nat) : Handler := pure (.error c)

def withCom (P : Params) (o : Oracle) (s : State) (gas : Coin) (price : Int) (k : Com → Handler) : Handler :=
  match calcCommission P o s gas price with
  | .error e => throw e
  | .ok (.error c) => reject c
  | .ok (.ok com) => k com

/-- Most types: the sender pays in the gas coin and the execution is a fixed list of moves. -/
def ready (t : TxIn) (com : Com) (body : List Move) (tags : List (String × String) := []) : Handler :=
  pure (.ok { payer := t.sender, coin := t.gasCoin, com := com, exec := fun _ => pure (body, tags) })

def oneBip : Int := 1000000000000000000

/-- `x`, plus `extra` when the gas coin is `coin` (the usual "total spent in the gas coin" of the balance checks). -/
def TxIn.addIfGas (t : TxIn) (coin : Coin) (x extra : Int) : Int := if t.gasCoin == coin then x + extra else x

/-! ### Guards on moves (who may be debited, which moves a rejected transaction may make) -/

/-- Who may be debited by a transaction's own moves: its sender (for a check redemption also the check issuer,
    carried in `issuer`). Pool moves pay out to anyone; the burn address and the zero address only receive.
    Stakes, waitlist entries, frozen funds and order escrows are touched only for the sender. -/
def Move.debitOk (sender : Addr) (issuer : Option Addr) : Move → Bool
  | .transfer a _ _ v => decide (0 ≤ v) && (a == sender || issuer == some a)
  | .mint a _ v => decide (0 ≤ v) || a == sender
  | .feeBase payer v => decide (0 ≤ v) && (payer == sender || issuer == some payer)
  | .feeBancor payer _ commission _ => decide (0 ≤ commission) && (payer == sender || issuer == some payer)
  | .poolSell payer _ _ _ net out burn _ _ => decide (0 ≤ net) && decide (0 ≤ out) && decide (0 ≤ burn) && (payer == sender || issuer == some payer)
  | .createCoin owner _ => owner == sender
  | .burnTicker v => decide (0 ≤ v)
  | .admin _ => true
  | .bancor a _ _ _ _ _ => a == sender
  | .delegate a _ _ _ _ => a == sender
  | .unbond a _ _ _ _ _ => a == sender
  | .lock a f => a == sender && decide (0 ≤ f.value)
  | .declare a _ _ _ => a == sender
  | .poolCreate a _ lp => a == sender && decide (minLiquidity ≤ lp.volume)
  | .poolMint a _ _ _ _ _ _ => a == sender
  | .poolBurn a _ _ _ _ _ _ => a == sender
  | .orderAdd a o => a == sender && o.owner == sender
  | .orderRemove a o => a == sender && o.owner == sender

/-- The coin a move registers (mirrors the `createCoin` primitive in `Move.prims`). -/
def Move.newCoin : Move → Option CoinInfo
  | .createCoin _ ci => if ci.id = 0 then none else some ci
  | .poolCreate _ _ lp => if lp.id = 0 ∨ lp.reserve ≠ 0 then none else some lp
  | _ => none

def newCoins (ms : List Move) : List CoinInfo := ms.filterMap Move.newCoin

/-- Coin-registry guard on a transaction's moves: at most one new coin, and it takes the next id (`GetNextCoinID`). -/
def freshIdsOk (s : State) (ms : List Move) : Bool :=
  match newCoins ms with
  | [] => true
  | [ci] => ci.id == s.ncoins + 1
  | _ => false

def Move.isSetNonce : Move → Bool
  | .admin (.setNonce _ _) => true
  | _ => false

/-- Fee moves: the only moves a rejected transaction may make. -/
def Move.isFee : Move → Bool
  | .feeBase _ _ => true
  | .feeBancor _ _ _ _ => true
  | .poolSell _ _ _ _ _ _ _ toRewards _ => toRewards
  | _ => false

end Minter
