import MinterModel.Tx
/-
  Block-level monitors evaluated on the node's own observations (live projection before/after BeginBlock and EndBlock).
  They are the decidable forms of C16/C18 (frozen funds and byzantine punishment) and C19 (reward accrual).
-/
namespace Minter

/-- `v − ⌊95·v/100⌋`: what a byzantine slash takes. -/
def slashKeep (v : Int) : Int := v * 95 / 100

structure BeginInfo where
  height : Nat
  byz : List Nat            -- tendermint addresses with evidence
  signed : List Nat         -- tendermint addresses that signed the last block
  unsigned : List Nat := [] -- listed in the commit but did not sign
  deriving Repr

/-- Candidate ids punished by the evidence of this block (validator exists, candidate exists and is online). -/
def setBit (l : List Bool) (i : Nat) : List Bool := l.zipIdx.map (fun (b, j) => if j == i then true else b)

/-- Validators switched off by this block's absence accounting (more than 12 of the last 24 blocks missed);
    BeginBlock processes absences before evidence, and an offline candidate is not punished again. -/
def offByAbsence (old : State) (bi : BeginInfo) : List Nat :=
  bi.unsigned.filter (fun a =>
    match findFirst (fun v => v.tmAddr == a) old.validators with
    | none => false
    | some v => ((setBit v.absent (bi.height % 24)).filter id).length > 12)

def punishedIds (old : State) (bi : BeginInfo) : List Nat :=
  (bi.byz.filter (fun a => !(offByAbsence old bi).contains a)).filterMap (fun a =>
    match findFirst (fun v => v.tmAddr == a) old.validators with
    | none => none
    | some v =>
      if v.toDrop then none else
      match findFirst (fun c => c.pubkey == v.pubkey) old.candidates with
      | some c => if c.status == 2 then some c.id else none
      | none => none)

def isPunished (z : List Nat) (f : Frozen) (h unbond : Nat) : Bool :=
  f.candId != 0 && z.contains f.candId && h ≤ f.height && f.height ≤ h + unbond

/-- Expected balance credits of BeginBlock: funds maturing now (after an eventual slash) that are not moves. -/
def expectedCredits (old : State) (bi : BeginInfo) (unbond : Nat) : List ((Addr × Coin) × Int) :=
  let z := punishedIds old bi
  (old.frozen.filter (fun f => f.height == bi.height && f.moveTo == 0)).foldl
    (fun acc f => Bag.add acc (f.addr, f.coin) (if isPunished z f bi.height unbond then slashKeep f.value else f.value)) []

/-- Monitor for BeginBlock. Returns violation messages. -/
def beginMonitor (unbond : Nat) (old new : State) (bi : BeginInfo) (balDeltas : List ((Addr × Coin) × Int)) : List String := Id.run do
  let mut out : List String := []
  let z := punishedIds old bi
  let tagp := if z.isEmpty then "C16" else "C18"
  let exp := expectedCredits old bi unbond
  -- 1. balance changes at BeginBlock are exactly the matured funds
  for (k, d) in balDeltas do
    let e := Bag.get exp k
    if d != e then out := s!"VIOL {tagp} begin-balance-change addr={k.1} coin={k.2} got={d} expected={e}" :: out
  for (k, e) in exp do
    if e != 0 && !(balDeltas.any (fun x => x.1 == k)) then out := s!"VIOL {tagp} matured-fund-not-paid addr={k.1} coin={k.2} expected={e}" :: out
  -- 2. every fund due now is gone; funds due later are untouched except for the slash
  if new.frozen.any (fun f => f.height == bi.height) then out := s!"VIOL C16 matured-funds-not-deleted height={bi.height}" :: out
  for f in old.frozen do
    if f.height > bi.height then
      let want : Frozen := if isPunished z f bi.height unbond then { f with value := slashKeep f.value } else f
      if !(new.frozen.any (fun g => g == want)) then
        let same := new.frozen.filter (fun g => g.height == f.height && g.addr == f.addr && g.coin == f.coin && g.candId == f.candId)
        let tg := if isPunished z f bi.height unbond then (if same.any (fun g => g.value == want.value) then "C16" else "C18") else "C16"
        out := s!"VIOL {tg} pending-fund-changed height={f.height} addr={f.addr} cand={f.candId} value={f.value} moveTo={f.moveTo} expected-value={want.value}" :: out
  -- 3. stakes of punished candidates become frozen funds of 95% due after the unbond period
  for cid in z do
    match findFirst (fun c => c.id == cid) old.candidates with
    | none => pure ()
    | some c =>
      for st in c.stakes do
        let keep := slashKeep st.value
        if !(new.frozen.any (fun g => g.height == bi.height + unbond && g.addr == st.owner && g.coin == st.coin && g.candId == cid && g.value == keep && g.moveTo == 0)) then
          out := s!"VIOL C18 punished-stake-not-frozen cand={cid} owner={st.owner} coin={st.coin} value={st.value} expected-frozen={keep} due={bi.height + unbond}" :: out
      match findFirst (fun c' => c'.id == cid) new.candidates with
      | some c' => if !c'.stakes.isEmpty && c'.stakes.any (fun s => s.value != 0) then out := s!"VIOL C18 punished-candidate-keeps-stakes cand={cid}" :: out
      | none => pure ()
  return out

/-- C16, purely observational: BeginBlock may change nothing but the *value* of a frozen fund that is not due yet — its height,
    owner, coin, source candidate and move target stay what they were when the fund was created. -/
def pendingIdentityMonitor (h : Nat) (old new : State) : List String :=
  old.frozen.filterMap (fun f =>
    if f.height > h && !(new.frozen.any (fun g => g.height == f.height && g.addr == f.addr && g.coin == f.coin && g.candId == f.candId && g.moveTo == f.moveTo && g.candKey == f.candKey))
    then some s!"VIOL C16 pending-fund-identity-changed height={f.height} addr={f.addr} coin={f.coin} cand={f.candId} moveTo={f.moveTo} value={f.value}"
    else none)

/-- Monitor for the accrual part of EndBlock (C19): who accrues and how much. `paid` = a payout block (accumulators are reset). -/
def endMonitor (old new : State) (signed : List Nat) (capReached : Bool) (payout : Bool) : List String := Id.run do
  let mut out : List String := []
  let present := old.validators.filter (fun v => !v.toDrop && signed.contains v.tmAddr)
  let totalPower0 := sumBy (fun v => v.totalBip) present
  let totalPower := if totalPower0 == 0 then 1 else totalPower0
  let dropped := sumBy (fun v => if v.toDrop then v.accum else 0) old.validators
  let reward := if capReached then 0 else old.reward
  let pot := reward + old.rewardsPool + dropped
  for v in old.validators do
    match findFirst (fun w => w.pubkey == v.pubkey) new.validators with
    | none => pure ()
    | some w =>
      let isPresent := !v.toDrop && signed.contains v.tmAddr
      let expect := if isPresent then pot * v.totalBip / totalPower else 0
      if !payout then
        let base := if v.toDrop then 0 else v.accum
        if w.accum != base + expect then
          let tag := if !isPresent && w.accum > base then "accrued-while-not-present" else "wrong-accrual"
          out := s!"VIOL C19 {tag} validator={v.pubkey} accum:{v.accum}->{w.accum} expected={base + expect} pot={pot} stake={v.totalBip} totalPower={totalPower}" :: out
  return out
end Minter

namespace Minter

/-! ### Governance (C20) -/

/-- Voting power of the validators present in the block (not dropped). -/
def votingPowers (s : State) (signed : List Nat) : List (PubKey × Int) :=
  (s.validators.filter (fun v => !v.toDrop && signed.contains v.tmAddr)).map (fun v => (v.pubkey, v.totalBip))

def totalPowerOf (ps : List (PubKey × Int)) : Int :=
  let t := sumBy (fun p => p.2) ps
  if t == 0 then 1 else t

/-- Strictly more than two thirds. -/
def passes (voted total : Int) : Bool := decide (3 * voted > 2 * total)

/-- Tally of proposals `(proposal, voter)`: the best supported proposal and its power (first maximum wins, like the node). -/
def tally (ps : List (PubKey × Int)) (votes : List (String × PubKey)) : Option (String × Int) :=
  let props := (votes.map (·.1)).eraseDups
  props.foldl (fun best p =>
    let w := sumBy (fun v => if v.1 == p then (ps.lookup v.2).getD 0 else 0) votes
    match best with
    | none => if w > 0 then some (p, w) else none
    | some (_, bw) => if w > bw then some (p, w) else best) none

def haltExpected (s : State) (signed : List Nat) (h : Nat) : Bool :=
  let ps := votingPowers s signed
  let voted := sumBy (fun hv => if hv.1 == h then (ps.lookup hv.2).getD 0 else 0) s.halts
  passes voted (totalPowerOf ps)

/-- Expected winner among the commission (or version) votes for height `h`, if it passes. -/
def winnerAt (s : State) (signed : List Nat) (h : Nat) (votes : List ((Height × PubKey) × String)) : Option String :=
  let ps := votingPowers s signed
  let vs := (votes.filter (fun v => v.1.1 == h)).map (fun v => (v.2, v.1.2))
  match tally ps vs with
  | some (p, w) => if passes w (totalPowerOf ps) then some p else none
  | none => none

/-! ### Validator set (C17) -/

def minValidatorStake : Int := 1000 * 1000000000000000000

/-- Candidates that qualify as validators, best stake first. -/
def qualified (s : State) : List Candidate :=
  sortBy (fun a b => a.totalBip > b.totalBip) (s.candidates.filter (fun c => c.status == 2 && c.totalBip ≥ minValidatorStake))

def expectedPower (stake total : Int) : Int :=
  let p := stake * 100000000 / total
  if p == 0 then 1 else p

/-- Check the validator set after an update: `vals` = validators in the state after EndBlock. -/
def validatorSetMonitor (s : State) (limit : Nat := 64) : List String := Id.run do
  let q := qualified s
  let top := q.take limit
  let mut out : List String := []
  -- no ambiguity at the cut: either everyone fits or the boundary stakes differ
  let clear := q.length ≤ limit || (match q[limit - 1]?, q[limit]? with
    | some a, some b => a.totalBip != b.totalBip
    | _, _ => true)
  if clear then
    for c in top do
      if !(s.validators.any (fun v => v.pubkey == c.pubkey)) then
        out := s!"VIOL C17 qualified-candidate-not-validator cand={c.id} stake={c.totalBip}" :: out
    for v in s.validators do
      if !(top.any (fun c => c.pubkey == v.pubkey)) then
        out := s!"VIOL C17 validator-not-in-top cand-pubkey={v.pubkey} stake={v.totalBip}" :: out
  if s.validators.length > limit then out := s!"VIOL C17 too-many-validators {s.validators.length}" :: out
  return out

/-! ### C14 at the node level: best price first, read off what a delivered transaction did to the order book

  A book entry of the projection is `c0 c1 side wantBuy wantSell owner height` in sorted-pair orientation; `side = true` is an
  order that gives coin1 and wants `wantBuy` of coin0 for `wantSell` of coin1 (a taker prefers a smaller `wantBuy / wantSell`),
  `side = false` gives coin0 and wants `wantSell` of coin1 for `wantBuy` of coin0 (smaller `wantSell / wantBuy`). -/

structure BookEntry where
  key : String        -- `o <id>`
  pair : String       -- `c0 c1 side`
  side : Bool
  wantBuy : Int
  wantSell : Int
  deriving Repr

def BookEntry.parse (key v : String) : Option BookEntry :=
  match words v with
  | [c0, c1, side, wb, ws, _, _] => some { key, pair := s!"{c0} {c1} {side}", side := side == "true", wantBuy := intD wb, wantSell := intD ws }
  | _ => none

/-- `u` asks a strictly better price than `f` on the same side, by more than the 2⁻⁴⁰ the node's 53-bit sort key can blur. -/
def BookEntry.betterThan (u f : BookEntry) : Bool :=
  let un := if u.side then u.wantBuy else u.wantSell
  let ud := if u.side then u.wantSell else u.wantBuy
  let fn := if f.side then f.wantBuy else f.wantSell
  let fd := if f.side then f.wantSell else f.wantBuy
  u.pair == f.pair && decide (0 < ud) && decide (0 < fd) && decide (un * fd * (2 ^ 40 + 1) < fn * ud * 2 ^ 40)

/-- Every order a delivered transaction filled (wholly or partly), against every order of the same side it left untouched:
    an untouched order with a strictly better price is a priority violation. -/
def orderPriorityMonitor (filled untouched : List BookEntry) : List String :=
  filled.flatMap (fun f => untouched.filterMap (fun u =>
    if u.betterThan f then
      some s!"VIOL C14 priority: {f.key} ({f.wantBuy}/{f.wantSell}) was filled while {u.key} ({u.wantBuy}/{u.wantSell}) on the same side of pool {f.pair} rests untouched at a better price"
    else none))

theorem orderPriorityMonitor_silent {filled untouched : List BookEntry} (h : orderPriorityMonitor filled untouched = []) :
    ∀ f ∈ filled, ∀ u ∈ untouched, u.betterThan f = false := by
  intro f hf u hu
  unfold orderPriorityMonitor at h
  rw [List.flatMap_eq_nil_iff] at h
  have h1 := h f hf
  rw [List.filterMap_eq_nil_iff] at h1
  have h2 := h1 u hu
  by_cases hb : u.betterThan f = true
  · simp [hb] at h2
  · simpa using hb

end Minter
