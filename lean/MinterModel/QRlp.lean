import MinterModel.Rlp
/-
  `Q` evaluator for the RLP component (C23).  Token formats (space free):
    bytes      lowercase hex, `-` for the empty string
    item       `<hex>` | `-` | `[` item `,` … `]`         e.g.  `[01,[],-,[ff00]]`
  Functions (left: what the harness computed with the real Go code)
    rlpdec <hex>            = item | err          rlp.DecodeBytes(b, &interface{})
    rlpenc <item>           = hex                 rlp.EncodeToBytes(nested []interface{} / []byte)
    beint <hex>             = nat | err           rlp.DecodeBytes(b, new(big.Int))
    uintdec <bits> <hex>    = nat | err           rlp.DecodeBytes(b, &uint8/16/32/64)
    uintenc <nat>           = hex                 rlp.EncodeToBytes(uint64 / *big.Int)
    txdec <hex>             = f1,…,f10 | err      rlp.DecodeBytes(b, &transaction.Transaction{})
    txenc <f1,…,f10>        = hex                 Transaction.Serialize()
    txfull <hex>            = ok | err            Executor.DecodeFromBytes (outer + data by type + signature)
    sigdec <hex>            = v,r,s | err         rlp.DecodeBytes(b, &Signature{})
    msigdec <hex>           = addr;v,r,s;… | err  rlp.DecodeBytes(b, &SignatureMulti{})
    sigok <v> <r> <s>       = true | false        value checks of RecoverPlain (BitLen, v-27, ValidateSignatureValues homestead)
    chkdec <hex>            = ok | err            check.DecodeFromBytes
-/
namespace Minter
namespace Rlp

def hexVal (c : Char) : Option Nat :=
  if '0' ≤ c ∧ c ≤ '9' then some (c.toNat - '0'.toNat)
  else if 'a' ≤ c ∧ c ≤ 'f' then some (c.toNat - 'a'.toNat + 10)
  else none

def hexCharsToBytes : List Char → Option Bytes
  | [] => some []
  | [_] => none
  | a :: b :: t =>
    match hexVal a, hexVal b, hexCharsToBytes t with
    | some x, some y, some r => some (UInt8.ofNat (x * 16 + y) :: r)
    | _, _, _ => none

def parseHex (s : String) : Option Bytes := if s = "-" then some [] else hexCharsToBytes s.toList

def hexDigitChar (n : Nat) : Char := if n < 10 then Char.ofNat (48 + n) else Char.ofNat (87 + n)

def hexOfBytes (b : Bytes) : String :=
  String.ofList (b.flatMap fun x => [hexDigitChar (x.toNat / 16), hexDigitChar (x.toNat % 16)])

def showBytes (b : Bytes) : String := if b.isEmpty then "-" else hexOfBytes b

mutual
def showItem : Item → String
  | .str b => showBytes b
  | .list l => "[" ++ showItems l ++ "]"
def showItems : List Item → String
  | [] => ""
  | [x] => showItem x
  | x :: y :: r => showItem x ++ "," ++ showItems (y :: r)
end

/-- recursive descent over the characters of an item token; fuel = number of characters + 1. -/
def isHexChar (c : Char) : Bool := (hexVal c).isSome

mutual
def parseItemC : Nat → List Char → Option (Item × List Char)
  | 0, _ => none
  | f + 1, cs =>
    match cs with
    | '[' :: r =>
      match r with
      | ']' :: r' => some (.list [], r')
      | _ =>
        match parseItemsC f r with
        | some (l, r') => some (.list l, r')
        | none => none
    | '-' :: r => some (.str [], r)
    | _ =>
      let h := cs.takeWhile isHexChar
      if h.isEmpty then none
      else match hexCharsToBytes h with
        | some b => some (.str b, cs.dropWhile isHexChar)
        | none => none
/-- one or more items separated by `,` and closed by `]`. -/
def parseItemsC : Nat → List Char → Option (List Item × List Char)
  | 0, _ => none
  | f + 1, cs =>
    match parseItemC f cs with
    | none => none
    | some (x, r) =>
      match r with
      | ']' :: r' => some ([x], r')
      | ',' :: r' =>
        match parseItemsC f r' with
        | some (xs, r'') => some (x :: xs, r'')
        | none => none
      | _ => none
end

def parseItem (s : String) : Option Item :=
  match parseItemC (2 * s.length + 2) s.toList with
  | some (x, []) => some x
  | _ => none

def showTx (t : TxFields) : String :=
  ",".intercalate [toString t.nonce, toString t.chainId, toString t.gasPrice, toString t.gasCoin, toString t.typ,
    showBytes t.data, showBytes t.payload, showBytes t.serviceData, toString t.sigType, showBytes t.sigData]

def parseTx (s : String) : Option TxFields :=
  match s.splitOn "," with
  | [a, b, c, d, e, f, g, h, i, j] =>
    match a.toNat?, b.toNat?, c.toNat?, d.toNat?, e.toNat?, parseHex f, parseHex g, parseHex h, i.toNat?, parseHex j with
    | some a, some b, some c, some d, some e, some f, some g, some h, some i, some j => some ⟨a, b, c, d, e, f, g, h, i, j⟩
    | _, _, _, _, _, _, _, _, _, _ => none
  | _ => none

def showSig (s : Nat × Nat × Nat) : String := s!"{s.1},{s.2.1},{s.2.2}"

def rlpEvalQ (fn : String) (args : List String) : Option String :=
  match fn, args with
  | "rlpdec", [h] =>
    match parseHex h with
    | none => some "badarg"
    | some b => some (match decode b with | some x => showItem x | none => "err")
  | "rlpenc", [r] =>
    match parseItem r with
    | none => some "badarg"
    | some x => some (hexOfBytes (encode x))
  | "beint", [h] =>
    match parseHex h with
    | none => some "badarg"
    | some b => some (match (decode b).bind asBig with | some n => toString n | none => "err")
  | "uintdec", [bits, h] =>
    match parseHex h, bits.toNat? with
    | some b, some k => some (match (decode b).bind (asUint k) with | some n => toString n | none => "err")
    | _, _ => some "badarg"
  | "uintenc", [n] =>
    match n.toNat? with
    | some n => some (hexOfBytes (encode (uintItem n)))
    | none => some "badarg"
  | "txdec", [h] =>
    match parseHex h with
    | none => some "badarg"
    | some b => some (match decodeTx b with | some t => showTx t | none => "err")
  | "txenc", [f] =>
    match parseTx f with
    | none => some "badarg"
    | some t => some (hexOfBytes (encodeTx t))
  | "txfull", [h] =>
    match parseHex h with
    | none => some "badarg"
    | some b => some (if acceptsTx b then "ok" else "err")
  | "sigdec", [h] =>
    match parseHex h with
    | none => some "badarg"
    | some b => some (match decodeSig b with | some s => showSig s | none => "err")
  | "msigdec", [h] =>
    match parseHex h with
    | none => some "badarg"
    | some b => some (match decodeMultiSig b with
        | some (a, ss) => ";".intercalate (showBytes a :: ss.map showSig)
        | none => "err")
  | "sigok", [v, r, s] =>
    match v.toNat?, r.toNat?, s.toNat? with
    | some v, some r, some s => some (toString (validSig v r s))
    | _, _, _ => some "badarg"
  | "chkdec", [h] =>
    match parseHex h with
    | none => some "badarg"
    | some b => some (if accepts checkSchema b then "ok" else "err")
  | _, _ => none

end Rlp
end Minter
