import Std.Data.HashMap
/-
  C24 — the events store (`coreV2/events/store.go`, `types.go`) as a pure state machine.

  What is modelled, line by line:
  * the DB key space of one `eventsStore`:  `uint32(height)` → JSON of the compacted batch,
    `"pubKey"+uint16(id)` → 32-byte key, `"pubKeys"` → uint16 count, `"address"+uint32(id)` → 20-byte address,
    `"addresses"` → uint32 count.  The five key families have different lengths (4, 8, 7, 11, 9 bytes), so they never collide;
    the model keeps them as five separate maps (`Disk`).
  * the in-memory struct: `idPubKey/pubKeyID/idAddress/addressID` (`Cache`); `NewEventsStore` = all four empty (`restart`).
  * `loadCache` (only when `len(idPubKey) == 0`), `loadPubKeys` (loop `for id := uint16(1); id < count+1; id++`, the `+1` is a
    uint16 addition and wraps), `loadAddresses`, `savePubKey` (`nil` ↦ 0, else `id := uint16(len(idPubKey)) + 1`, persisted count
    `uint16(len(idPubKey))`), `saveAddress` (`id := uint32(len(addressID))`), `cachePubKey/cacheAddress`.
  * `CommitEvents`: the type switch in source order (Stake = Reward/Slash/Unbond/StakeKick; Jail; addressE = OrderExpired/Unlock;
    StakeMove; everything else — UpdateNetwork, UpdateCommissions, UpdatedBlockReward **and RemoveCandidate** — is stored raw),
    the `convert` of every kind (amount ↦ `big.Int.Bytes()` = magnitude, coin/order id/for_coin ↦ `uint32(·)`, `NewRole` panics on an
    unknown role), argument evaluation order (address first, then pubkeys left to right).
  * `LoadEvents`: `nil` for a height never written, the `compile` of every kind (`*pubKey` dereference panics for
    Reward/Slash/StakeKick when the id is unknown, Unbond keeps the nil pointer, Jail/StakeMove/address lookups give the zero value).

  Not modelled (trusted, exercised by the harness' direct comparison): the tmjson encoding of a compacted batch is injective and
  `Unmarshal ∘ Marshal = id` on it (amount bytes as base64, uint64 as decimal strings, valid UTF-8 strings — the node only
  stores decimal numbers and `[a-zA-Z0-9_]{1,20}` version names there; bytes that are not UTF-8 would come back as U+FFFD).  Amount strings are modelled
  as the integer they denote (the node only produces `big.Int.String()`); a non-numeric amount string makes `convert` panic and is
  outside the model.

  Pubkeys and addresses are `Nat` (the big-endian value of the 32/20 bytes; the Go zero value of a missing map entry is 0).
  Strings of the raw kinds are lists of bytes.  Core Lean + Std.HashMap only.
-/
namespace Minter
namespace Ev

/-! ### Go maps.  `Tbl` wraps `Std.HashMap` (so that the driver can replay 65 536+ keys); the proofs use only the three
    interface facts `get?_set`, `len_set`, `get?_empty/len_empty` (MinterProofs/Events.lean). -/

structure Tbl (β : Type) where
  m : Std.HashMap Nat β := {}

instance {β : Type} [Repr β] : Repr (Tbl β) := ⟨fun t n => reprPrec t.m.toList n⟩

namespace Tbl
variable {β : Type}

def empty : Tbl β := ⟨{}⟩

/-- `v, ok := m[a]` -/
def get? (t : Tbl β) (a : Nat) : Option β := t.m[a]?

/-- `m[a] = b` -/
def set (t : Tbl β) (a : Nat) (b : β) : Tbl β := ⟨t.m.insert a b⟩

/-- `len(m)` -/
def len (t : Tbl β) : Nat := t.m.size

end Tbl

def pkMod : Nat := 65536          -- uint16
def adMod : Nat := 4294967296     -- uint32
def u32 (n : Nat) : Nat := n % 4294967296

/-! ### Events (`types.go`), exactly the fields that exist -/

/-- Roles: 0 Validator, 1 Delegator, 2 DAO, 3 Developers; anything ≥ 4 stands for a string `NewRole` panics on. -/
inductive Event where
  | reward (role : Nat) (addr : Nat) (amount : Int) (pk : Nat) (forCoin : Nat)
  | slash (addr : Nat) (amount : Int) (coin : Nat) (pk : Nat)
  | jail (pk : Nat) (jailedUntil : Nat)
  | unbond (addr : Nat) (amount : Int) (coin : Nat) (pk : Option Nat)       -- `ValidatorPubKey *types.Pubkey`
  | unlock (addr : Nat) (amount : Int) (coin : Nat)
  | kick (addr : Nat) (amount : Int) (coin : Nat) (pk : Nat)
  | move (addr : Nat) (amount : Int) (coin : Nat) (fromPk toPk : Nat)
  | orderExpired (id : Nat) (addr : Nat) (coin : Nat) (amount : Int)
  | removeCandidate (pk : Nat)
  | updateNetwork (version : List Nat)
  | updateCommissions (coin : Nat) (vals : List (List Nat))                  -- the 48 string fields in declaration order
  | updatedBlockReward (value locked : List Nat)
  deriving DecidableEq, Repr, Inhabited

/-- What is written for one event (`reward`, `slash`, … structs; `move.WaitList` is never set and never read). -/
inductive Rec where
  | reward (role addrId amount pkId forCoin : Nat)
  | slash (addrId amount coin pkId : Nat)
  | jail (pkId jailedUntil : Nat)
  | unbond (addrId amount coin pkId : Nat)
  | unlock (addrId amount coin : Nat)
  | kick (addrId amount coin pkId : Nat)
  | move (addrId amount coin fromId toId : Nat)
  | orderExpired (addrId amount coin id : Nat)
  | raw (e : Event)
  deriving DecidableEq, Repr, Inhabited

/-! ### The store -/

structure Disk where
  blocks : Tbl (List Rec) := {}
  pk : Tbl Nat := {}                 -- "pubKey"+id
  pkCount : Option Nat := none       -- "pubKeys"
  ad : Tbl Nat := {}                 -- "address"+id
  adCount : Option Nat := none       -- "addresses"
  deriving Repr

structure Cache where
  idPub : Tbl Nat := {}
  pubId : Tbl Nat := {}
  idAddr : Tbl Nat := {}
  addrId : Tbl Nat := {}
  deriving Repr

structure EvStore where
  disk : Disk := {}
  cache : Cache := {}
  deriving Repr

def EvStore.empty : EvStore := {}

def Cache.cachePubKey (c : Cache) (id key : Nat) : Cache :=
  { c with idPub := c.idPub.set id key, pubId := c.pubId.set key id }

def Cache.cacheAddress (c : Cache) (id a : Nat) : Cache :=
  { c with idAddr := c.idAddr.set id a, addrId := c.addrId.set a id }

/-- `savePubKey`. -/
def savePubKey (st : EvStore) : Option Nat → EvStore × Nat
  | none => (st, 0)
  | some key =>
    match st.cache.pubId.get? key with
    | some id => (st, id)
    | none =>
      let id := (st.cache.idPub.len % pkMod + 1) % pkMod
      let c := st.cache.cachePubKey id key
      ({ disk := { st.disk with pk := st.disk.pk.set id key, pkCount := some (c.idPub.len % pkMod) }, cache := c }, id)

/-- `saveAddress`. -/
def saveAddress (st : EvStore) (a : Nat) : EvStore × Nat :=
  match st.cache.addrId.get? a with
  | some id => (st, id)
  | none =>
    let id := st.cache.addrId.len % adMod
    let c := st.cache.cacheAddress id a
    ({ disk := { st.disk with ad := st.disk.ad.set id a, adCount := some (c.addrId.len % adMod) }, cache := c }, id)

/-- `loadPubKeys`: ids `1 ≤ id < uint16(count+1)`. -/
def loadPubKeys (st : EvStore) : EvStore :=
  match st.disk.pkCount with
  | none => st
  | some c =>
    let ch := (List.range' 1 ((c + 1) % pkMod - 1)).foldl (fun ch id => ch.cachePubKey id ((st.disk.pk.get? id).getD 0)) st.cache
    { st with cache := ch }

/-- `loadAddresses`: ids `0 ≤ id < count`. -/
def loadAddresses (st : EvStore) : EvStore :=
  match st.disk.adCount with
  | none => st
  | some c =>
    let ch := (List.range c).foldl (fun ch id => ch.cacheAddress id ((st.disk.ad.get? id).getD 0)) st.cache
    { st with cache := ch }

/-- `loadCache`: `if len(store.idPubKey) == 0 { loadPubKeys(); loadAddresses() }`. -/
def loadCache (st : EvStore) : EvStore :=
  if st.cache.idPub.len = 0 then loadAddresses (loadPubKeys st) else st

/-- `NewEventsStore(db)` on the same DB. -/
def restart (st : EvStore) : EvStore := { st with cache := {} }

/-- One iteration of the loop in `CommitEvents`; `none` = panic. -/
def compactEv (st : EvStore) : Event → Option (EvStore × Rec)
  | .reward role addr amount pk forCoin =>
    let (st, aid) := saveAddress st addr
    let (st, pid) := savePubKey st (some pk)
    if role < 4 then some (st, .reward role aid amount.natAbs pid (u32 forCoin)) else none
  | .slash addr amount coin pk =>
    let (st, aid) := saveAddress st addr
    let (st, pid) := savePubKey st (some pk)
    some (st, .slash aid amount.natAbs (u32 coin) pid)
  | .unbond addr amount coin pk =>
    let (st, aid) := saveAddress st addr
    let (st, pid) := savePubKey st pk
    some (st, .unbond aid amount.natAbs (u32 coin) pid)
  | .kick addr amount coin pk =>
    let (st, aid) := saveAddress st addr
    let (st, pid) := savePubKey st (some pk)
    some (st, .kick aid amount.natAbs (u32 coin) pid)
  | .jail pk ju =>
    let (st, pid) := savePubKey st (some pk)
    some (st, .jail pid ju)
  | .orderExpired id addr coin amount =>
    let (st, aid) := saveAddress st addr
    some (st, .orderExpired aid amount.natAbs (u32 coin) (u32 id))
  | .unlock addr amount coin =>
    let (st, aid) := saveAddress st addr
    some (st, .unlock aid amount.natAbs (u32 coin))
  | .move addr amount coin fromPk toPk =>
    let (st, aid) := saveAddress st addr
    let (st, fid) := savePubKey st (some fromPk)
    let (st, tid) := savePubKey st (some toPk)
    some (st, .move aid amount.natAbs (u32 coin) fid tid)
  | e => some (st, .raw e)

def compactAll (st : EvStore) : List Event → Option (EvStore × List Rec)
  | [] => some (st, [])
  | e :: es =>
    match compactEv st e with
    | none => none
    | some (st1, r) =>
      match compactAll st1 es with
      | none => none
      | some (st2, rs) => some (st2, r :: rs)

/-- `AddEvent`* then `CommitEvents(h)`; `none` = panic. -/
def commit (st : EvStore) (h : Nat) (b : List Event) : Option EvStore :=
  match compactAll (loadCache st) b with
  | none => none
  | some (st1, rs) => some { st1 with disk := { st1.disk with blocks := st1.disk.blocks.set h rs } }

/-- The `compile` calls in `LoadEvents`; `none` = nil-pointer panic. -/
def expand (c : Cache) : Rec → Option Event
  | .reward role aid amount pid forCoin =>
    match c.idPub.get? pid with
    | none => none
    | some pk => some (.reward role ((c.idAddr.get? aid).getD 0) (Int.ofNat amount) pk forCoin)
  | .slash aid amount coin pid =>
    match c.idPub.get? pid with
    | none => none
    | some pk => some (.slash ((c.idAddr.get? aid).getD 0) (Int.ofNat amount) coin pk)
  | .kick aid amount coin pid =>
    match c.idPub.get? pid with
    | none => none
    | some pk => some (.kick ((c.idAddr.get? aid).getD 0) (Int.ofNat amount) coin pk)
  | .unbond aid amount coin pid =>
    some (.unbond ((c.idAddr.get? aid).getD 0) (Int.ofNat amount) coin (c.idPub.get? pid))
  | .jail pid ju => some (.jail ((c.idPub.get? pid).getD 0) ju)
  | .orderExpired aid amount coin id => some (.orderExpired id ((c.idAddr.get? aid).getD 0) coin (Int.ofNat amount))
  | .unlock aid amount coin => some (.unlock ((c.idAddr.get? aid).getD 0) (Int.ofNat amount) coin)
  | .move aid amount coin fid tid =>
    some (.move ((c.idAddr.get? aid).getD 0) (Int.ofNat amount) coin ((c.idPub.get? fid).getD 0) ((c.idPub.get? tid).getD 0))
  | .raw e => some e

def expandAll (c : Cache) : List Rec → Option (List Event)
  | [] => some []
  | r :: rs =>
    match expand c r with
    | none => none
    | some e => match expandAll c rs with
      | none => none
      | some es => some (e :: es)

inductive Loaded where
  | absent                       -- `LoadEvents` returned nil: nothing stored under that height
  | panic
  | ok (es : List Event)
  deriving DecidableEq, Repr

/-- `LoadEvents(h)` (its result; its effect on the struct is `loadCache`). -/
def load (st : EvStore) (h : Nat) : Loaded :=
  let st := loadCache st
  match st.disk.blocks.get? h with
  | none => .absent
  | some rs =>
    match expandAll st.cache rs with
    | none => .panic
    | some es => .ok es

inductive Op where
  | commit (h : Nat) (b : List Event)
  | load (h : Nat)
  | restart
  deriving Repr

def step (st : EvStore) : Op → Option EvStore
  | .commit h b => commit st h b
  | .load _ => some (loadCache st)
  | .restart => some (restart st)

def run (st : EvStore) : List Op → Option EvStore
  | [] => some st
  | op :: ops => match step st op with
    | none => none
    | some st1 => run st1 ops

/-- What the node can emit (and what the statement "loads back unchanged" needs): a known role, a non-negative amount,
    coin ids / order ids that fit `uint32` (they are `uint32` in the node: `types.CoinID`, `Limit.id`). -/
def Event.WF : Event → Prop
  | .reward role _ amount _ forCoin => role < 4 ∧ 0 ≤ amount ∧ forCoin < 4294967296
  | .slash _ amount coin _ => 0 ≤ amount ∧ coin < 4294967296
  | .jail _ _ => True
  | .unbond _ amount coin _ => 0 ≤ amount ∧ coin < 4294967296
  | .unlock _ amount coin => 0 ≤ amount ∧ coin < 4294967296
  | .kick _ amount coin _ => 0 ≤ amount ∧ coin < 4294967296
  | .move _ amount coin _ _ => 0 ≤ amount ∧ coin < 4294967296
  | .orderExpired id _ coin amount => 0 ≤ amount ∧ coin < 4294967296 ∧ id < 4294967296
  | _ => True

instance (e : Event) : Decidable e.WF := by
  cases e <;> unfold Event.WF <;> infer_instance

/-- Pubkeys an event makes `CommitEvents` intern, in the order of the `savePubKey` calls. -/
def Event.keys : Event → List Nat
  | .reward _ _ _ pk _ => [pk]
  | .slash _ _ _ pk => [pk]
  | .jail pk _ => [pk]
  | .unbond _ _ _ (some pk) => [pk]
  | .kick _ _ _ pk => [pk]
  | .move _ _ _ f t => [f, t]
  | _ => []

/-- Addresses an event makes `CommitEvents` intern. -/
def Event.addrs : Event → List Nat
  | .reward _ a _ _ _ => [a]
  | .slash a _ _ _ => [a]
  | .unbond a _ _ _ => [a]
  | .unlock a _ _ => [a]
  | .kick a _ _ _ => [a]
  | .move a _ _ _ _ => [a]
  | .orderExpired _ a _ _ => [a]
  | _ => []

/-- First-appearance list of distinct values. -/
def addKey (ks : List Nat) (k : Nat) : List Nat := if k ∈ ks then ks else ks ++ [k]

def seenKeysB (ks : List Nat) (b : List Event) : List Nat := b.foldl (fun ks e => e.keys.foldl addKey ks) ks
def seenAddrsB (as : List Nat) (b : List Event) : List Nat := b.foldl (fun as e => e.addrs.foldl addKey as) as

/-- Distinct validator keys / addresses that appeared in committed events, in order of first appearance. -/
def seenKeys (ks : List Nat) : List Op → List Nat
  | [] => ks
  | .commit _ b :: ops => seenKeys (seenKeysB ks b) ops
  | _ :: ops => seenKeys ks ops

def seenAddrs (as : List Nat) : List Op → List Nat
  | [] => as
  | .commit _ b :: ops => seenAddrs (seenAddrsB as b) ops
  | _ :: ops => seenAddrs as ops

/-! ### `Q evstore` / `Q evstoreh` — the correspondence functions

  One argument: the op sequence, ops joined by `;` (no spaces):
    `C<h>:<ev>|<ev>|…`  commit the batch at height `h` (`C<h>:` = empty batch)      `L<h>`  load height `h`      `R`  restart
  events, fields joined by `,` (addresses 40 hex digits, pubkeys 64 hex digits, amounts/coins/ids decimal, strings = hex of their bytes, `-` if empty):
    `rw,<role name>,<addr>,<amount>,<pk>,<forCoin>`   `sl,<addr>,<amount>,<coin>,<pk>`   `jl,<pk>,<jailedUntil>`
    `ub,<addr>,<amount>,<coin>,<pk | ->`   `ul,<addr>,<amount>,<coin>`   `kk,<addr>,<amount>,<coin>,<pk>`
    `mv,<addr>,<amount>,<coin>,<fromPk>,<toPk>`   `oe,<id>,<addr>,<coin>,<amount>`   `rc,<pk>`   `un,<version>`
    `uc,<coin>,<s1>,…,<s48>`   `br,<value>,<locked>`
  result: one item per `L` op, joined by `;`:  `<h>=nil` | `<h>=panic` | `<h>=<ev>|<ev>|…` (`<h>=-` for an empty batch); a panicking
  commit appends the item `panic` and ends the sequence.  `evstoreh` returns `<number of items>:<FNV-1a-64 of that string, hex>`.
-/

def hexDigit (c : Char) : Nat :=
  if '0' ≤ c ∧ c ≤ '9' then c.toNat - '0'.toNat
  else if 'a' ≤ c ∧ c ≤ 'f' then c.toNat - 'a'.toNat + 10
  else 0

def hexNat (s : String) : Nat := s.toList.foldl (fun acc c => acc * 16 + hexDigit c) 0

def hexChar (d : Nat) : Char := if d < 10 then Char.ofNat (48 + d) else Char.ofNat (87 + d)

/-- `width` lowercase hex digits of `n` (most significant first). -/
def toHexW (width n : Nat) : String :=
  String.ofList ((List.range width).foldl (fun (acc : List Char × Nat) _ => (hexChar (acc.2 % 16) :: acc.1, acc.2 / 16)) ([], n)).1

def strBytes (s : String) : List Nat :=
  if s == "-" then [] else
  let rec go : List Char → List Nat
    | a :: b :: t => (hexDigit a * 16 + hexDigit b) :: go t
    | _ => []
  go s.toList

def bytesStr (l : List Nat) : String :=
  if l.isEmpty then "-" else String.join (l.map (toHexW 2))

def roleCode (s : String) : Nat :=
  if s == "Validator" then 0 else if s == "Delegator" then 1 else if s == "DAO" then 2 else if s == "Developers" then 3 else 4

def roleName (r : Nat) : String :=
  match r with | 0 => "Validator" | 1 => "Delegator" | 2 => "DAO" | 3 => "Developers" | _ => "?"

def natD (s : String) : Nat := s.toNat?.getD 0
def intD (s : String) : Int := s.toInt?.getD 0

def parseEvent (s : String) : Option Event :=
  match s.splitOn "," with
  | ["rw", role, a, amt, pk, fc] => some (.reward (roleCode role) (hexNat a) (intD amt) (hexNat pk) (natD fc))
  | ["sl", a, amt, c, pk] => some (.slash (hexNat a) (intD amt) (natD c) (hexNat pk))
  | ["jl", pk, ju] => some (.jail (hexNat pk) (natD ju))
  | ["ub", a, amt, c, pk] => some (.unbond (hexNat a) (intD amt) (natD c) (if pk == "-" then none else some (hexNat pk)))
  | ["ul", a, amt, c] => some (.unlock (hexNat a) (intD amt) (natD c))
  | ["kk", a, amt, c, pk] => some (.kick (hexNat a) (intD amt) (natD c) (hexNat pk))
  | ["mv", a, amt, c, f, t] => some (.move (hexNat a) (intD amt) (natD c) (hexNat f) (hexNat t))
  | ["oe", id, a, c, amt] => some (.orderExpired (natD id) (hexNat a) (natD c) (intD amt))
  | ["rc", pk] => some (.removeCandidate (hexNat pk))
  | ["un", v] => some (.updateNetwork (strBytes v))
  | ["br", v, l] => some (.updatedBlockReward (strBytes v) (strBytes l))
  | "uc" :: c :: vals => some (.updateCommissions (natD c) (vals.map strBytes))
  | _ => none

def renderEvent : Event → String
  | .reward role a amt pk fc => s!"rw,{roleName role},{toHexW 40 a},{amt},{toHexW 64 pk},{fc}"
  | .slash a amt c pk => s!"sl,{toHexW 40 a},{amt},{c},{toHexW 64 pk}"
  | .jail pk ju => s!"jl,{toHexW 64 pk},{ju}"
  | .unbond a amt c pk => s!"ub,{toHexW 40 a},{amt},{c},{match pk with | none => "-" | some k => toHexW 64 k}"
  | .unlock a amt c => s!"ul,{toHexW 40 a},{amt},{c}"
  | .kick a amt c pk => s!"kk,{toHexW 40 a},{amt},{c},{toHexW 64 pk}"
  | .move a amt c f t => s!"mv,{toHexW 40 a},{amt},{c},{toHexW 64 f},{toHexW 64 t}"
  | .orderExpired id a c amt => s!"oe,{id},{toHexW 40 a},{c},{amt}"
  | .removeCandidate pk => s!"rc,{toHexW 64 pk}"
  | .updateNetwork v => s!"un,{bytesStr v}"
  | .updateCommissions c vals => ",".intercalate ("uc" :: toString c :: vals.map bytesStr)
  | .updatedBlockReward v l => s!"br,{bytesStr v},{bytesStr l}"

def parseBatch (s : String) : Option (List Event) :=
  if s.isEmpty then some [] else (s.splitOn "|").mapM parseEvent

def parseOp (s : String) : Option Op :=
  match s.toList with
  | 'R' :: [] => some .restart
  | 'L' :: t => some (.load (natD (String.ofList t)))
  | 'C' :: t =>
    match (String.ofList t).splitOn ":" with
    | [h, b] => (parseBatch b).map (Op.commit (natD h))
    | _ => none
  | _ => none

def renderLoaded (h : Nat) : Loaded → String
  | .absent => s!"{h}=nil"
  | .panic => s!"{h}=panic"
  | .ok [] => s!"{h}=-"
  | .ok es => s!"{h}=" ++ "|".intercalate (es.map renderEvent)

/-- Run the ops on the model, collecting the rendering of every load (newest first in `acc`). -/
def runRender (st : EvStore) (acc : List String) : List Op → List String
  | [] => acc.reverse
  | op :: ops =>
    let acc := match op with
      | .load h => renderLoaded h (load st h) :: acc
      | _ => acc
    match step st op with
    | none => ("panic" :: acc).reverse
    | some st1 => runRender st1 acc ops

def fnv64 (s : String) : UInt64 :=
  s.toUTF8.foldl (fun h b => (h ^^^ b.toUInt64) * 1099511628211) 14695981039346656037

def evalOps (s : String) : Option (List String) :=
  match (s.splitOn ";").mapM parseOp with
  | none => none
  | some ops => some (runRender EvStore.empty [] ops)

end Ev

def eventsEvalQ (fn : String) (args : List String) : Option String :=
  match fn, args with
  | "evstore", [ops] => (Ev.evalOps ops).map (fun items => if items.isEmpty then "-" else ";".intercalate items)
  | "evstoreh", [ops] => (Ev.evalOps ops).map (fun items =>
      s!"{items.length}:{Ev.toHexW 16 (Ev.fnv64 (";".intercalate items)).toNat}")
  | _, _ => none

end Minter
