import MinterModel.QEval
import MinterModel.QRlp
import MinterModel.BancorQ
import MinterModel.Events
import MinterModel.Persist
import MinterModel.BeginBlock
import MinterModel.Rules
import MinterModel.OrdersQ
import MinterModel.ValidQ
import MinterModel.Genesis
/-
  Dispatcher over every component's `Q` evaluator.  A component adds one line here.
-/
namespace Minter

/-- `none` = no model definition under that name (reported by the driver as a failure, never skipped). -/
def evalQ (fn : String) (args : List String) : Option String :=
  evalKernels fn (args.map intD)
  <|> Rlp.rlpEvalQ fn args
  <|> bancorEvalQ fn args
  <|> eventsEvalQ fn args
  <|> Persist.persistEvalQ fn args
  <|> beginEvalQ fn args
  <|> Rules.rulesEvalQ fn args
  <|> ordersEvalQ fn args
  <|> validEvalQ fn args
  <|> exportEvalQ fn args

end Minter
