def hello := "world"
