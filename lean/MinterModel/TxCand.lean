import MinterModel.TxStake
/-
  L2, part 5: candidate settings, multisig accounts and governance votes —
  SetCandidateOn/Off (10/11), EditCandidate (14), EditCandidatePublicKey (20), EditCandidateCommission (26),
  CreateMultisig (12), EditMultisig (18), SetHaltBlock (15), VoteCommission (32), VoteUpdate (33).
-/
namespace Minter

/-- `checkCandidateControl`: owner or control address. -/
def candControl (s : State) (a : Addr) (pk : PubKey) : Except Nat Candidate :=
  match candByKey s pk with
  | none => .error 403
  | some cd => if a == cd.owner || a == cd.control then .ok cd else .error 406

/-- `checkCandidateOwnership`: owner only. -/
def candOwnership (s : State) (a : Addr) (pk : PubKey) : Except Nat Candidate :=
  match candByKey s pk with
  | none => .error 403
  | some cd => if a == cd.owner then .ok cd else .error 406

/-- SetCandidateOn (10). -/
def runSetOn (P : Params) (o : Oracle) (s : State) (block : Nat) (t : TxIn) (price : Int) : Handler :=
  match candControl s t.sender (t.hex "d.PubKey") with
  | .error c => reject c
  | .ok cd =>
    withCom P o s t.gasCoin price fun com =>
      if balanceOf s t.sender t.gasCoin < com.commission then reject 107 else
      if cd.jailedUntil ≥ block then reject 414 else
      ready t com [.admin (.setCandStatus cd.id 2)]

/-- SetCandidateOff (11): also marks the validator (if it is one) to be dropped. -/
def runSetOff (P : Params) (o : Oracle) (s : State) (t : TxIn) (price : Int) : Handler :=
  match candControl s t.sender (t.hex "d.PubKey") with
  | .error c => reject c
  | .ok cd =>
    withCom P o s t.gasCoin price fun com =>
      if balanceOf s t.sender t.gasCoin < com.commission then reject 107 else
      ready t com [.admin (.setCandStatus cd.id 1), .admin (.setToDrop cd.pubkey)]

/-- EditCandidate (14). -/
def runEditCandidate (P : Params) (o : Oracle) (s : State) (t : TxIn) (price : Int) : Handler :=
  match candOwnership s t.sender (t.hex "d.PubKey") with
  | .error c => reject c
  | .ok cd =>
    withCom P o s t.gasCoin price fun com =>
      if balanceOf s t.sender t.gasCoin < com.commission then reject 107 else
      ready t com [.admin (.editCandidate cd.id (t.hex "d.OwnerAddress") (t.hex "d.RewardAddress") (t.hex "d.ControlAddress"))]

/-- EditCandidatePublicKey (20). -/
def runEditPubKey (P : Params) (o : Oracle) (s : State) (t : TxIn) (price : Int) : Handler :=
  let pk := t.hex "d.PubKey"; let newPk := t.hex "d.NewPubKey"
  match candOwnership s t.sender pk with
  | .error c => reject c
  | .ok cd =>
    if pk == newPk then reject 411 else
    if candExists s newPk then reject 401 else
    withCom P o s t.gasCoin price fun com =>
      if balanceOf s t.sender t.gasCoin < com.commission then reject 107 else
      if s.blocklist.contains newPk then reject 410 else
      ready t com [.admin (.setCandPubKey cd.id pk newPk)]

/-- EditCandidateCommission (26); the bounds are computed in `uint32` arithmetic as in the code. -/
def runEditCommission (P : Params) (o : Oracle) (s : State) (block : Nat) (t : TxIn) (price : Int) : Handler :=
  let newC := t.nat "d.Commission"
  match candOwnership s t.sender (t.hex "d.PubKey") with
  | .error c => reject c
  | .ok cd =>
    let maxNew := if cd.commission + 10 > 100 then 100 else cd.commission + 10
    let minRaw := (cd.commission + 4294967296 - 10) % 4294967296
    let minNew := if minRaw > 100 then 0 else minRaw
    if newC < minNew || newC > maxNew then reject 402 else
    if cd.lastEditCommission + 3 * P.unbond > block then reject 413 else
    withCom P o s t.gasCoin price fun com =>
      if balanceOf s t.sender t.gasCoin < com.commission then reject 107 else
      ready t com [.admin (.setCandCommission cd.id newC block)]

/-! ### Multisig accounts -/

def natList (v : String) : List Nat := if v == "-" || v == "" then [] else (v.splitOn ",").map natD
def hexList (v : String) : List Nat := if v == "-" || v == "" then [] else (v.splitOn ",").map hexNat

/-- The checks on the owner lists shared by create and edit. -/
def multisigLists (weights : List Nat) (addrs : List Addr) : Option Nat :=
  if weights.length > 32 then some 605
  else if addrs.length != weights.length then some 607
  else if weights.any (· > 1023) then some 601
  else if addrs.eraseDups.length != addrs.length then some 606
  else none

/-- `Accounts.ExistsMultisig`: a multisig, or any account that already sent a transaction. -/
def existsMultisig (s : State) (a : Addr) : Bool := (s.multisigs.lookup a).isSome || nonceOf s a > 0

/-- CreateMultisig (12); the address of the new account (`k.msig`) is a hash of sender and nonce (oracle fact). -/
def runCreateMultisig (P : Params) (o : Oracle) (s : State) (t : TxIn) (price : Int) : Handler :=
  let weights := natList (t.str "d.Weights"); let addrs := hexList (t.str "d.Addresses"); let threshold := t.nat "d.Threshold"
  match multisigLists weights addrs with
  | some c => reject c
  | none =>
    withCom P o s t.gasCoin price fun com =>
      if balanceOf s t.sender t.gasCoin < com.commission then reject 107 else
      let msig := t.hex "k.msig"
      if existsMultisig s msig then reject 602 else
      -- an account without owners is not a multisig (`IsMultisig` = the weight list is not empty)
      let body : List Move := if weights.isEmpty then [] else [.admin (.setMultisig msig { threshold := threshold, owners := addrs.zip weights })]
      ready t com body [("tx.created_multisig", toHexPad40 msig)]
where toHexPad40 (n : Nat) : String := hexPad n 40

/-- EditMultisig (18). -/
def runEditMultisig (P : Params) (o : Oracle) (s : State) (t : TxIn) (price : Int) : Handler :=
  let weights := natList (t.str "d.Weights"); let addrs := hexList (t.str "d.Addresses"); let threshold := t.nat "d.Threshold"
  if (s.multisigs.lookup t.sender).isNone then reject 603 else
  match multisigLists weights addrs with
  | some c => reject c
  | none =>
    if threshold > (weights.foldl (· + ·) 0) % 4294967296 then reject 608 else
    withCom P o s t.gasCoin price fun com =>
      if balanceOf s t.sender t.gasCoin < com.commission then reject 107 else
      ready t com [.admin (.setMultisig t.sender { threshold := threshold, owners := addrs.zip weights })]

/-! ### Votes -/

/-- SetHaltBlock (15). -/
def runSetHalt (P : Params) (o : Oracle) (s : State) (block : Nat) (t : TxIn) (price : Int) : Handler :=
  let pk := t.hex "d.PubKey"; let height := t.nat "d.Height"
  if height < block then reject 120 else
  if s.halts.contains (height, pk) then reject 118 else
  match candOwnership s t.sender pk with
  | .error c => reject c
  | .ok _ =>
    withCom P o s t.gasCoin price fun com =>
      if balanceOf s t.sender t.gasCoin < com.commission then reject 107 else
      ready t com [.admin (.addHalt height pk)]

/-- Price-table field names: dump key ↔ field of the vote transaction. -/
def comFieldNames : List (String × String) :=
  [("coin", "Coin"), ("payload_byte", "PayloadByte"), ("send", "Send"), ("buy_bancor", "BuyBancor"), ("sell_bancor", "SellBancor"),
   ("sell_all_bancor", "SellAllBancor"), ("buy_pool_base", "BuyPoolBase"), ("buy_pool_delta", "BuyPoolDelta"), ("sell_pool_base", "SellPoolBase"),
   ("sell_pool_delta", "SellPoolDelta"), ("sell_all_pool_base", "SellAllPoolBase"), ("sell_all_pool_delta", "SellAllPoolDelta"),
   ("create_ticker3", "CreateTicker3"), ("create_ticker4", "CreateTicker4"), ("create_ticker5", "CreateTicker5"), ("create_ticker6", "CreateTicker6"),
   ("create_ticker7_10", "CreateTicker7to10"), ("create_coin", "CreateCoin"), ("create_token", "CreateToken"), ("recreate_coin", "RecreateCoin"),
   ("recreate_token", "RecreateToken"), ("declare_candidacy", "DeclareCandidacy"), ("delegate", "Delegate"), ("unbond", "Unbond"),
   ("redeem_check", "RedeemCheck"), ("set_candidate_on", "SetCandidateOn"), ("set_candidate_off", "SetCandidateOff"), ("create_multisig", "CreateMultisig"),
   ("multisend_base", "MultisendBase"), ("multisend_delta", "MultisendDelta"), ("edit_candidate", "EditCandidate"), ("set_halt_block", "SetHaltBlock"),
   ("edit_ticker_owner", "EditTickerOwner"), ("edit_multisig", "EditMultisig"), ("edit_candidate_public_key", "EditCandidatePublicKey"),
   ("create_swap_pool", "CreateSwapPool"), ("add_liquidity", "AddLiquidity"), ("remove_liquidity", "RemoveLiquidity"),
   ("edit_candidate_commission", "EditCandidateCommission"), ("mint_token", "MintToken"), ("burn_token", "BurnToken"), ("vote_commission", "VoteCommission"),
   ("vote_update", "VoteUpdate"), ("failed_tx", "FailedTx"), ("add_limit_order", "AddLimitOrder"), ("remove_limit_order", "RemoveLimitOrder"),
   ("move_stake", "MoveStake"), ("lock_stake", "LockStake"), ("lock", "Lock")]

/-- Digest of the price table a VoteCommission transaction proposes (same digest as the dump uses for `cv` entries). -/
def voteDigest (t : TxIn) : String :=
  comDigestOf (comFieldNames.map (fun e => (e.1, t.str ("d." ++ e.2))))

/-- VoteCommission (32). -/
def runVoteCommission (P : Params) (o : Oracle) (s : State) (block : Nat) (t : TxIn) (price : Int) : Handler :=
  let pk := t.hex "d.PubKey"; let height := t.nat "d.Height"; let coin := t.nat "d.Coin"
  if listLen (t.str "d.More") != 0 then reject 106 else
  if height < block then reject 120 else
  if s.cvotes.any (fun v => v.1 == (height, pk)) then reject 121 else
  if !coinExists s coin then reject 102 else
  if coin != 0 && !poolExists s coin 0 then reject 701 else
  match candOwnership s t.sender pk with
  | .error c => reject c
  | .ok _ =>
    withCom P o s t.gasCoin price fun com =>
      if balanceOf s t.sender t.gasCoin < com.commission then reject 107 else
      ready t com [.admin (.addCVote height pk (voteDigest t))]

def isVersionChar (c : Char) : Bool := c.isAlphanum || c == '_'

/-- `^[a-zA-Z0-9_]{1,20}$` on the bytes of the version name (`d.Version` is rendered in hex). -/
def versionNameOk (hex : String) : Bool :=
  let bytes := hexBytes (if hex == "-" then "" else hex)
  1 ≤ bytes.length && bytes.length ≤ 20 && bytes.all (fun b => isVersionChar (Char.ofNat b.toNat))

def versionName (hex : String) : String := String.ofList ((hexBytes (if hex == "-" then "" else hex)).map (fun b => Char.ofNat b.toNat))

/-- VoteUpdate (33). -/
def runVoteUpdate (P : Params) (o : Oracle) (s : State) (block : Nat) (t : TxIn) (price : Int) : Handler :=
  let pk := t.hex "d.PubKey"; let height := t.nat "d.Height"
  if !versionNameOk (t.str "d.Version") then reject 122 else
  if height < block then reject 120 else
  if s.uvotes.any (fun v => v.1 == (height, pk)) then reject 121 else
  match candOwnership s t.sender pk with
  | .error c => reject c
  | .ok _ =>
    withCom P o s t.gasCoin price fun com =>
      if balanceOf s t.sender t.gasCoin < com.commission then reject 107 else
      ready t com [.admin (.addUVote height pk (versionName (t.str "d.Version")))]

end Minter
