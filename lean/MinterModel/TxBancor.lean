import MinterModel.TxBase
/-
  L2, part 3: bancor conversions — SellCoin (2), BuyCoin (4), SellAllCoin (3).
  The bonding-curve functions are oracle questions (`ask`); everything around them (the order of the checks, the
  `DummyCoin` adjustment when a bancor-paid gas coin is one of the traded coins, supply overflow / reserve underflow) is modelled.
-/
namespace Minter

/-- The view of a coin the conversion formulas use (`CalculateCoin`). -/
structure BView where
  volume : Int
  reserve : Int
  crr : Nat
  maxSupply : Int
  deriving Repr

def bview (s : State) (c : Coin) : BView :=
  match getCoin s c with
  | some ci => ⟨ci.volume, ci.reserve, ci.crr, ci.maxSupply⟩
  | none => ⟨0, 0, 0, 0⟩          -- the base coin is never used as a curve

/-- `DummyCoin`: the coin after a bancor-paid commission in it. -/
def BView.afterCom (v : BView) (com : Com) : BView := { v with volume := v.volume - com.commission, reserve := v.reserve - com.inBase }

/-- `basicCheck` shared by the three bancor conversions. -/
def bancorBasic (s : State) (sell buy : Coin) : Option Nat :=
  if !coinExists s sell then some 102
  else if !baseOrReserve s sell then some 200
  else if !coinExists s buy then some 102
  else if !baseOrReserve s buy then some 200
  else if sell == buy then some 301
  else none

/-- `CalculateSaleReturnAndCheck`. -/
def saleReturnAndCheck (P : Params) (o : Oracle) (v : BView) (value : Int) : M (Except Nat Int) :=
  if v.volume < value then pure (.error 103) else
  match ask o (.saleReturn v.volume v.reserve v.crr value) with
  | .error e => throw e
  | .ok r => if v.reserve - r < P.minReserve then pure (.error 116) else pure (.ok r)

/-- `CalculateSaleAmountAndCheck`: the minimal-reserve rule applies to the base-coin amount `value` leaving the reserve. -/
def saleAmountAndCheck (P : Params) (o : Oracle) (v : BView) (value : Int) : M (Except Nat Int) :=
  if v.reserve < value then pure (.error 103) else
  match ask o (.saleAmount v.volume v.reserve v.crr value) with
  | .error e => throw e
  | .ok r => if v.reserve - value < P.minReserve then pure (.error 116) else pure (.ok r)

/-- Selling `value` of `sell` for `buy`: (base value moved between the reserves, amount bought) or a response code. -/
def sellStep2 (o : Oracle) (buy : Coin) (to : BView) (bip : Int) : M (Except Nat (Int × Int)) :=
  if buy == 0 then pure (.ok (bip, bip)) else
  match ask o (.purchaseReturn to.volume to.reserve to.crr bip) with
  | .error e => throw e
  | .ok r => if to.volume + r > to.maxSupply then pure (.error 112) else pure (.ok (bip, r))

def sellQuote (P : Params) (o : Oracle) (sell buy : Coin) (from_ to : BView) (value : Int) : M (Except Nat (Int × Int)) :=
  if sell == 0 then sellStep2 o buy to value else
  match saleReturnAndCheck P o from_ value with
  | .error e => throw e
  | .ok (.error c) => pure (.error c)
  | .ok (.ok bip) => sellStep2 o buy to bip

/-- The views of the two coins after the `DummyCoin` adjustment. -/
def bancorViews (s : State) (gas sell buy : Coin) (com : Com) : BView × BView :=
  let from0 := bview s sell; let to0 := bview s buy
  if !com.fromPool && gas != 0 then
    if gas == sell then (from0.afterCom com, to0)
    else if gas == buy then (from0, to0.afterCom com)
    else (from0, to0)
  else (from0, to0)

/-- SellCoin (2). -/
def runSellCoin (P : Params) (o : Oracle) (s : State) (t : TxIn) (price : Int) : Handler :=
  let sell := t.nat "d.CoinToSell"; let buy := t.nat "d.CoinToBuy"
  let value := t.int "d.ValueToSell"; let minBuy := t.int "d.MinimumValueToBuy"
  match bancorBasic s sell buy with
  | some c => reject c
  | none =>
    withCom P o s t.gasCoin price fun com =>
      if t.gasCoin != sell && balanceOf s t.sender sell < value then reject 107 else
      if balanceOf s t.sender t.gasCoin < t.addIfGas sell com.commission value then reject 107 else
      match sellQuote P o sell buy (bancorViews s t.gasCoin sell buy com).1 (bancorViews s t.gasCoin sell buy com).2 value with
      | .error e => throw e
      | .ok (.error c) => reject c
      | .ok (.ok (bip, got)) =>
        if got < minBuy then reject 303 else
        ready t com [.bancor t.sender sell value buy got bip] [("tx.return", toString got), ("tx.reserve", toString bip)]

/-- Buying `want` of `buy`: the base value that has to enter its reserve (supply overflow checked first). -/
def buyStep1 (o : Oracle) (buy : Coin) (to : BView) (want : Int) : M (Except Nat Int) :=
  if buy == 0 then pure (.ok want) else
  if to.volume + want > to.maxSupply then pure (.error 112) else
  match ask o (.purchaseAmount to.volume to.reserve to.crr want) with
  | .error e => throw e
  | .ok r => pure (.ok r)

/-- … and the amount of `sell` that yields that base value. -/
def buyStep2 (P : Params) (o : Oracle) (sell : Coin) (from_ : BView) (bip : Int) : M (Except Nat Int) :=
  if sell == 0 then pure (.ok bip) else saleAmountAndCheck P o from_ bip

/-- BuyCoin (4). -/
def runBuyCoin (P : Params) (o : Oracle) (s : State) (t : TxIn) (price : Int) : Handler :=
  let sell := t.nat "d.CoinToSell"; let buy := t.nat "d.CoinToBuy"
  let want := t.int "d.ValueToBuy"; let maxSell := t.int "d.MaximumValueToSell"
  match bancorBasic s sell buy with
  | some c => reject c
  | none =>
    withCom P o s t.gasCoin price fun com =>
      match buyStep1 o buy (bancorViews s t.gasCoin sell buy com).2 want with
      | .error e => throw e
      | .ok (.error c) => reject c
      | .ok (.ok bip) =>
        match buyStep2 P o sell (bancorViews s t.gasCoin sell buy com).1 bip with
        | .error e => throw e
        | .ok (.error c) => reject c
        | .ok (.ok pay) =>
          if pay > maxSell then reject 302 else
          if t.gasCoin != sell && balanceOf s t.sender sell < pay then reject 107 else
          if balanceOf s t.sender t.gasCoin < t.addIfGas sell com.commission pay then reject 107 else
          ready t com [.bancor t.sender sell pay buy want bip] [("tx.return", toString pay), ("tx.reserve", toString bip)]

/-- The coin being sold by SellAllCoin after its own bancor-paid commission (`DummyCoin`). -/
def sellAllView (s : State) (sell : Coin) (com : Com) : BView :=
  if !com.fromPool && sell != 0 then (bview s sell).afterCom com else bview s sell

/-- SellAllCoin (3): the commission is paid in the coin being sold. -/
def runSellAllCoin (P : Params) (o : Oracle) (s : State) (t : TxIn) (price : Int) : Handler :=
  let sell := t.nat "d.CoinToSell"; let buy := t.nat "d.CoinToBuy"
  let minBuy := t.int "d.MinimumValueToBuy"
  match bancorBasic s sell buy with
  | some c => reject c
  | none =>
    withCom P o s sell price fun com =>
      let balance := balanceOf s t.sender sell
      if balance ≤ com.commission then reject 107 else
      let value := balance - com.commission
      if value ≤ 0 then reject 107 else
      match sellQuote P o sell buy (sellAllView s sell com) (bview s buy) value with
      | .error e => throw e
      | .ok (.error c) => reject c
      | .ok (.ok (bip, got)) =>
        if got < minBuy then reject 303 else
        pure (.ok { payer := t.sender, coin := sell, com := com, minOut := com.inBase,
                    exec := fun _ => pure ([.bancor t.sender sell value buy got bip],
                      [("tx.return", toString got), ("tx.reserve", toString bip), ("tx.sell_amount", toString balance)]) })

end Minter
