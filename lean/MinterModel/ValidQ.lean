import MinterModel.Validators
import MinterModel.Parse
/-
  `Q` evaluators of the validator component (see harness/mode_valid.go for the producer).
  Every token is space-free; `-` is the empty list.  Lists are `,`-joined, records `:`-joined, the validators of the
  payout functions are `;`-joined and their stakes use `/` inside a `,`-joined list.  Addresses are 40 lowercase hex digits.

    select   <limit> <minStake> <id:status:stake,…>                       = <id,…>
    powers   <stake,…>                                                     = <power,…>
    updates  <activeId,…> <id:power,…>                                     = <id:power,…>
    prune    <limit> <validatorId,…> <id:stake,…>                          = <removedId,…>          (order of removal)
    setnew   <id:accum,…> <selectedId,…>                                   = <id:accum,…;slashed>
    accrue   <pot0> <id:stake:accum:drop,…> <presentId,…>                  = <id:accum,…;remainder>      (validators not dropped)
    setaccrue <id:accum,…> <id:stake,…> <pot0> <presentId,…>               = <id:accum,…;slashed+remainder>   (SetNewValidators, then one block)
    slot     <nslots> <owner:coin:value:bip,…> <owner:coin:value:bip,…>    = <owner:coin:value:bip,…;owner:coin:value,…;total>
             (stakes fill the first slots; updates in the order of `candidate.updates`; result: occupied slots, kicks, total bip stake)
    unbond   <nslots> <stakes> <updates>                                   = <owner:coin:value,…;kicks>   (recalculation, then DeleteCandidate)
    payout   <height> <calc> <safe> <period> <dao> <dev> <V;V;…>           = <id:Role:addr:amount:coin,…;Σremainder;more> | panic
    payblock <pot0> <height> <calc> <safe> <period> <dao> <dev> <V;…> <presentId,…> = <payments;accrualRemainder+Σremainder;more> | panic
       V = id:stake:accum:drop:commission:rewardAddr:hasCandidate:<owner/coin/bip/lockUntil,…>
-/
namespace Minter

def splitList (s : String) (sep : String := ",") : List String :=
  if s == "-" || s == "" then [] else s.splitOn sep

def joinList (l : List String) (sep : String := ",") : String :=
  if l.isEmpty then "-" else sep.intercalate l

def hexChar (n : Nat) : Char := if n < 10 then Char.ofNat (48 + n) else Char.ofNat (87 + n)

def hexPadAux : Nat → Nat → List Char → List Char
  | 0, _, acc => acc
  | fuel + 1, n, acc => hexPadAux fuel (n / 16) (hexChar (n % 16) :: acc)

def hex40 (n : Nat) : String := String.ofList (hexPadAux 40 n [])

def mkCand (id status : Nat) (stake : Int) : Candidate :=
  { id := id, pubkey := id, owner := 0, reward := 0, control := 0, commission := 0, status := status, jailedUntil := 0,
    lastEditCommission := 0, totalBip := stake, stakes := [], updates := [] }

def parseCands (s : String) : List Candidate :=
  (splitList s).filterMap (fun t => match t.splitOn ":" with
    | [id, st, stake] => some (mkCand (natD id) (natD st) (intD stake))
    | [id, stake] => some (mkCand (natD id) 2 (intD stake))
    | _ => none)

def parseVals (s : String) : List Validator :=
  (splitList s).filterMap (fun t => match t.splitOn ":" with
    | [id, stake, accum, drop] => some { pubkey := natD id, totalBip := intD stake, accum := intD accum, absent := [], toDrop := drop == "1" }
    | [id, accum] => some { pubkey := natD id, totalBip := 0, accum := intD accum, absent := [] }
    | _ => none)

def parseStake (t : String) : Option Stake :=
  match t.splitOn ":" with
  | [o, c, v, b] => some { owner := hexNat o, coin := natD c, value := intD v, bip := intD b }
  | _ => none

def parseSlots (s : String) : Slots := (splitList s).map parseStake

def showStake (s : Stake) : String := s!"{hex40 s.owner}:{s.coin}:{s.value}:{s.bip}"

def showSlots (l : Slots) : String :=
  joinList (l.map (fun o => match o with | some s => showStake s | none => "_"))

/-- `n` slots: the given stakes first, the rest empty (how `SetStakes` fills the array). -/
def mkSlots (n : Nat) (stakes : String) : Slots :=
  let l := (splitList stakes).map parseStake
  l ++ List.replicate (n - l.length) none

def showStakes (l : Slots) : String := joinList ((l.filterMap id).map showStake)

def showKicks (l : List Stake) : String := joinList (l.map (fun s => s!"{hex40 s.owner}:{s.coin}:{s.value}"))

def parsePStakes (s : String) : List PStake :=
  (splitList s).filterMap (fun t => match t.splitOn "/" with
    | [o, c, b, l] => some { owner := hexNat o, coin := natD c, bip := intD b, lockUntil := natD l }
    | _ => none)

/-- `(validator, candidate data)` of the payout functions. -/
def parsePayVals (s : String) : List (Validator × PayVal) :=
  (splitList s ";").filterMap (fun t => match t.splitOn ":" with
    | [id, stake, accum, drop, com, rew, has, stakes] =>
      some ({ pubkey := natD id, totalBip := intD stake, accum := intD accum, absent := [], toDrop := drop == "1" },
            { id := natD id, accum := intD accum, valStake := intD stake, commission := intD com, rewardAddr := hexNat rew,
              stakes := parsePStakes stakes, hasCandidate := has == "1" })
    | _ => none)

def showPayments (l : List (Nat × PayOut)) : String :=
  joinList (l.flatMap (fun (id, o) => o.payments.map (fun p => s!"{id}:{p.role.name}:{hex40 p.addr}:{p.amount}:{p.forCoin}")))

def showPayout (extra : Int) (l : List (Nat × PayOut)) : String :=
  if l.any (fun x => x.2.remainder < 0) then "panic"
  else s!"{showPayments l};{extra + sumBy (fun x => x.2.remainder) l};{sumBy (fun x => x.2.more) l}"

def memNat (l : List Nat) (k : Nat) : Bool := l.contains k

def validEvalQ (fn : String) (args : List String) : Option String :=
  match fn, args with
  | "select", [limit, minStake, cands] =>
    some (joinList ((selectValidators (natD limit) (intD minStake) (parseCands cands)).map (fun c => toString c.id)))
  | "powers", [stakes] =>
    let sel := (splitList stakes).zipIdx.map (fun (s, i) => mkCand i 2 (intD s))
    some (joinList ((validatorPowers sel).map (fun p => toString p.2)))
  | "updates", [active, new] =>
    let nw := (splitList new).filterMap (fun t => match t.splitOn ":" with
      | [id, p] => some (natD id, intD p) | _ => none)
    some (joinList ((validatorUpdates ((splitList active).map natD) nw).map (fun p => s!"{p.1}:{p.2}")))
  | "prune", [limit, vals, cands] =>
    let vs := (splitList vals).map natD
    some (joinList ((prunedCandidates (natD limit) (memNat vs) (parseCands cands)).map (fun c => toString c.id)))
  | "setnew", [old, sel] =>
    let r := setNewValidators (parseVals old) ((splitList sel).map (fun i => mkCand (natD i) 2 0))
    some s!"{joinList (r.1.map (fun v => s!"{v.pubkey}:{v.accum}"))};{r.2}"
  | "accrue", [pot, vals, present] =>
    let r := endBlockAccrue (intD pot) (parseVals vals) (memNat ((splitList present).map natD))
    some s!"{joinList ((r.1.filter (fun v => !v.toDrop)).map (fun v => s!"{v.pubkey}:{v.accum}"))};{r.2}"
  | "slot", [nslots, stakes, updates] =>
    let r := recalcCandidate (fun _ v => v) (mkSlots (natD nslots) stakes) ((splitList updates).filterMap parseStake)
    some s!"{showStakes r.1};{showKicks r.2.1};{r.2.2}"
  | "unbond", [nslots, stakes, updates] =>
    let r := recalcCandidate (fun _ v => v) (mkSlots (natD nslots) stakes) ((splitList updates).filterMap parseStake)
    let c : Candidate := { mkCand 0 2 0 with stakes := r.1.filterMap id }
    some s!"{joinList ((unbondAll 0 c).map (fun f => s!"{hex40 f.addr}:{f.coin}:{f.value}"))};{showKicks r.2.1}"
  | "setaccrue", [old, sel, pot, present] =>
    let r := setNewValidators (parseVals old) (parseCands sel)
    let a := endBlockAccrue (intD pot) r.1 (memNat ((splitList present).map natD))
    some s!"{joinList (a.1.map (fun v => s!"{v.pubkey}:{v.accum}"))};{r.2 + a.2}"
  | "payout", [height, calcR, safeR, period, dao, dev, vals] =>
    let pv := (parsePayVals vals).map (·.2)
    some (showPayout 0 (payoutAll (natD height) (intD calcR) (intD safeR) (intD period) (hexNat dao) (hexNat dev) pv))
  | "payblock", [pot, height, calcR, safeR, period, dao, dev, vals, present] =>
    let both := parsePayVals vals
    let r := endBlockAccrue (intD pot) (both.map (·.1)) (memNat ((splitList present).map natD))
    let pv := (both.map (·.2)).zip r.1 |>.map (fun (p, v) => { p with accum := v.accum })
    some (showPayout r.2 (payoutAll (natD height) (intD calcR) (intD safeR) (intD period) (hexNat dao) (hexNat dev) pv))
  | _, _ => none

end Minter
