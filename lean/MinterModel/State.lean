import MinterModel.Bag
/-
  Ledger state of the node as exported by `CheckState.Export` plus the app-DB values the
  properties speak about.  Everything is plain data (lists / Int / Nat).
-/
namespace Minter

-- These are notations (not abbreviations) so that `omega` sees plain `Nat` facts about coins and addresses.
notation "Addr" => Nat
notation "Coin" => Nat
notation "PubKey" => Nat
notation "Height" => Nat

structure CoinInfo where
  id : Coin
  symbol : String
  version : Nat
  volume : Int
  reserve : Int
  crr : Nat
  maxSupply : Int
  owner : Option Addr
  mintable : Bool
  burnable : Bool
  deriving Repr, BEq, DecidableEq

structure Stake where
  owner : Addr
  coin : Coin
  value : Int
  bip : Int
  deriving Repr, BEq, DecidableEq

structure Candidate where
  id : Nat
  pubkey : PubKey
  owner : Addr
  reward : Addr
  control : Addr
  commission : Nat
  status : Nat          -- 1 offline, 2 online
  jailedUntil : Height
  lastEditCommission : Height
  totalBip : Int
  stakes : List Stake
  updates : List Stake
  deriving Repr, BEq, DecidableEq

structure WaitEntry where
  cand : Nat
  owner : Addr
  coin : Coin
  value : Int
  deriving Repr, BEq, DecidableEq

structure Frozen where
  height : Height
  addr : Addr
  candKey : Option PubKey
  candId : Nat
  coin : Coin
  value : Int
  moveTo : Nat
  deriving Repr, BEq, DecidableEq

structure Pool where
  c0 : Coin
  c1 : Coin
  id : Nat
  r0 : Int
  r1 : Int
  deriving Repr, BEq, DecidableEq

/-- Limit order as exported: `isSale` ⇒ escrow is `v1` of the pool's `c1`, else `v0` of `c0`. -/
structure Order where
  id : Nat
  c0 : Coin
  c1 : Coin
  isSale : Bool
  v0 : Int
  v1 : Int
  owner : Addr
  height : Height
  deriving Repr, BEq, DecidableEq

structure Validator where
  pubkey : PubKey
  totalBip : Int
  accum : Int
  absent : List Bool
  tmAddr : Nat := 0
  toDrop : Bool := false
  deriving Repr, BEq, DecidableEq

structure Multisig where
  threshold : Nat
  owners : List (Addr × Nat)
  deriving Repr, BEq, DecidableEq

structure State where
  balances : Bag (Addr × Coin) := []
  nonces : List (Addr × Nat) := []
  multisigs : List (Addr × Multisig) := []
  lockStake : List (Addr × Height) := []
  coins : List CoinInfo := []
  candidates : List Candidate := []
  waitlist : List WaitEntry := []
  frozen : List Frozen := []
  pools : List Pool := []
  orders : List Order := []
  validators : List Validator := []
  usedChecks : List String := []
  halts : List (Height × PubKey) := []
  cvotes : List ((Height × PubKey) × String) := []
  uvotes : List ((Height × PubKey) × String) := []
  blocklist : List PubKey := []
  deleted : List (Nat × PubKey) := []
  slashed : Int := 0
  maxGas : Nat := 0
  nextOrder : Nat := 0
  ncoins : Nat := 0
  commission : List (String × Int) := []
  emission : Int := 0
  reward : Int := 0
  safeReward : Int := 0
  price : String := ""
  versions : String := ""
  rewardsPool : Int := 0        -- fees collected in the current block (in memory only)
  totalStakes : Int := 0        -- Candidates.totalStakes (Σ total bip stakes as of the last recalculation)
  deriving Repr

/-! ### Holdings -/

def sumBy {α : Type} (f : α → Int) : List α → Int
  | [] => 0
  | x :: t => f x + sumBy f t

def stakeOf (c : Coin) (s : Stake) : Int := if s.coin = c then s.value else 0

def candHoldings (c : Coin) (cd : Candidate) : Int :=
  sumBy (stakeOf c) cd.stakes + sumBy (stakeOf c) cd.updates

def poolHoldings (c : Coin) (p : Pool) : Int :=
  (if p.c0 = c then p.r0 else 0) + (if p.c1 = c then p.r1 else 0)

def orderEscrow (c : Coin) (o : Order) : Int :=
  if o.isSale then (if o.c1 = c then o.v1 else 0) else (if o.c0 = c then o.v0 else 0)

/-- Everything of coin `c` that somebody holds. -/
def holdings (s : State) (c : Coin) : Int :=
  Bag.sumIf (fun k => decide (k.2 = c)) s.balances
  + sumBy (candHoldings c) s.candidates
  + sumBy (fun w => if w.coin = c then w.value else 0) s.waitlist
  + sumBy (fun f => if f.coin = c then f.value else 0) s.frozen
  + sumBy (poolHoldings c) s.pools
  + sumBy (orderEscrow c) s.orders

def volumeOf (s : State) (c : Coin) : Int :=
  sumBy (fun ci => if ci.id = c then ci.volume else 0) s.coins

def totalReserve (s : State) : Int := sumBy (fun ci => ci.reserve) s.coins
def totalAccum (s : State) : Int := sumBy (fun v => v.accum) s.validators

/-- Base-coin total of the property C01. -/
def baseTotal (s : State) : Int :=
  holdings s 0 + totalReserve s + totalAccum s + s.slashed

/-! ### Monitors (decidable forms of the properties, evaluated on observed states) -/

/-- C01 (custom coins): recorded volume equals holdings for every coin in the registry. -/
def volumesOk (s : State) : Bool :=
  s.coins.all (fun ci => ci.id == 0 || decide (ci.volume = holdings s ci.id))

def volumeViolations (s : State) : List (Coin × Int × Int) :=
  s.coins.filterMap (fun ci => if ci.id ≠ 0 ∧ ci.volume ≠ holdings s ci.id then some (ci.id, ci.volume, holdings s ci.id) else none)

/-- C01 (base coin): change of the base total across a block equals the change of emission. -/
def baseDeltaOk (before after : State) : Bool :=
  decide (baseTotal after - baseTotal before = after.emission - before.emission)

def stakesNonneg (l : List Stake) : Bool := l.all (fun s => decide (0 ≤ s.value))

/-- C02: nothing negative, volume within max supply, pool reserves positive. -/
def amountsOk (s : State) : Bool :=
  Bag.nonneg s.balances
  && s.coins.all (fun ci => decide (0 ≤ ci.volume) && decide (0 ≤ ci.reserve) && decide (ci.volume ≤ ci.maxSupply))
  && s.candidates.all (fun cd => stakesNonneg cd.stakes && stakesNonneg cd.updates)
  && s.waitlist.all (fun w => decide (0 ≤ w.value))
  && s.frozen.all (fun f => decide (0 ≤ f.value))
  && s.pools.all (fun p => decide (0 < p.r0) && decide (0 < p.r1))
  && s.orders.all (fun o => decide (0 ≤ o.v0) && decide (0 ≤ o.v1))
  && s.validators.all (fun v => decide (0 ≤ v.accum))
  && decide (0 ≤ s.slashed)

end Minter
