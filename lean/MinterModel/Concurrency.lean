/-
  C25 — op-level model of "queries interleaved with block execution".
  A node is a state machine `step : σ → Op → σ × Out`. Some ops are *queries* (read-only API calls served from the
  current state). The model cannot exhibit sub-operation interleavings of the Go runtime (unsynchronised map access, lock
  ordering, lazy cache fills from reader goroutines): those are exercised by the concurrent-query mode of the harness
  (race-detector build, reader goroutines hammering `CurrentState()` while blocks execute).
-/
namespace Minter

structure Machine (σ Op Out : Type) where
  step : σ → Op → σ × Out
  isQuery : Op → Bool
  /-- what "read-only" means: a query op returns the state it was given -/
  query_pure : ∀ s op, isQuery op = true → (step s op).1 = s

namespace Machine
variable {σ Op Out : Type}

/-- Run a list of ops; collect the outputs of the non-query ops (responses, app hashes) and the final state. -/
def run (M : Machine σ Op Out) (s : σ) : List Op → σ × List Out
  | [] => (s, [])
  | op :: rest =>
    let r := M.step s op
    let t := run M r.1 rest
    if M.isQuery op then t else (t.1, r.2 :: t.2)

/-- The same history with every query removed. -/
def strip (M : Machine σ Op Out) (ops : List Op) : List Op := ops.filter (fun op => !M.isQuery op)

end Machine
end Minter
