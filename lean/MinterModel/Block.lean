import MinterModel.BeginBlock
import MinterModel.Rules
import MinterModel.ValidMonitor
/-
  One whole block as far as VALUE is concerned: `blockStep` = BeginBlock ; DeliverTx* ; EndBlock.

  `endBlock` follows `Blockchain.EndBlock` (coreV2/minter/blockchain.go) line by line, composing the pieces that are tied to the
  code one by one elsewhere:

    1. dropped validators hand their accumulated reward back to the block's pot           `returnDropped`     (Validators.lean)
    2. `calculatePowers`, block reward (0 once the emission reached the cap)              `totalPower`, `Rules.blockEmission`
    3. accrual loop, remainder → total slashed                                            `accrue` / `endBlockAccrue`
    4. `ExpireOrders(height − expire)` when `height > expire ∧ height % period = period/2` `expirePlan`        (ledger primitives)
    5. `PayRewardsV5Fix` when `height % period = 0`; `moreRewards` → emission             `payout`            (Validators.lean)
         every payment is `candidate.AddUpdate(baseCoin, v, v, address)`: a pending stake update on the validator's candidate,
         the validator's accumulated reward := 0, the remainder → total slashed (negative remainder: panic)
    6. below the cap: emission += safeReward, zero address += safeReward − reward when positive   `Rules.blockEmission`
    7. commission / version tallies, votes of this height deleted                          (no value; results are inputs)
    8. `updateValidators` when `height % period = 0`, a validator was dropped, or a public key changed:
         `RecalculateStakesV2` (bip values, updates merged into stakes / slots, kicked stakes → waitlist; candidates beyond
         rank 100 that are not validators deleted, everything they hold → frozen funds due `height + unbond`)
                                                                                          `recalcCandidate`, `prunedCandidates`, `unbondAll`
         `GetNewCandidates`, `SetNewValidators` (positive rewards of leaving validators → total slashed)
                                                                                          `selectValidators`, `setNewValidators`

  Inputs that are not part of the ledger state travel in `EndReq`: who signed, the cap, whether a public key changed in this
  block (an in-memory flag of the node), the results of the two tallies, and `bipOf` = `calculateBipValue` during the
  recalculation (identity for the base coin, a floating-point bonding-curve value otherwise).  The conservation theorems
  (MinterProofs/Props/C01Block.lean) hold for EVERY `bipOf`, every oracle and every tally result.

  Where the code can create or destroy value the model does the same and *names* the amount (`EndDefect`): the theorems are
  unconditional equations containing these terms, and each term is shown to vanish under the invariant that excludes it.

  Not modelled: `PayRewardsV3/V4/V5Bug` and `FixStakesAfter10509400` (only reachable before / within one period after the
  v3.3.0 switch height), events, statistics, `ValidatorUpdates` answered to Tendermint (C17), max gas.
  Trusted about the representation: `State.orders` is in id order and order heights do not decrease with the id (the node
  scans the committed orders by id and stops at the first one that is too young); the slots of a candidate are its listed
  stakes followed by free slots (the export does not carry slot positions; only ties of C17 depend on them).
  Core Lean only.
-/
namespace Minter

/-! ## What EndBlock reads besides the ledger -/

structure EndReq where
  height : Nat := 0
  signed : List Nat := []                              -- Tendermint addresses with `validatorsStatuses = ValidatorPresent`
  cap : Int := Rules.emissionCap                       -- `rewardsCounter.TotalEmissionBig()`
  changedKeys : Bool := false                          -- `Candidates.IsChangedPublicKeys()`
  bipOf : Coin → Int → Int := fun _ v => v             -- `calculateBipValue` of the recalculation
  newCommission : Option (List (String × Int)) := none -- `isUpdateCommissionsBlockV2(height)`: the price table that won
  newVersion : Option String := none                   -- `isUpdateNetworkBlockV2(height)`: the version that won

/-- The places where `EndBlock` can create or destroy value, each with the amount.  All are zero in a well-formed state
    (`EndOK` in the proofs); the conservation theorem carries them explicitly so that it holds for every state. -/
structure EndDefect where
  /-- `reward − safeReward` when positive (below the cap): the validators' pot receives `reward` but the emission counter
      only grows by `safeReward`.  Excluded by C28 `reward_le_safeReward`. -/
  overMint : Int := 0
  /-- `PayRewardsV5Fix`: proportional rewards of locked stakes whose increased reward came out below 1 pip — taken off the
      remainder, paid to nobody.  Excluded by C19 `payout_main` (`calcReward ≤ 3·safeReward`). -/
  lost : Int := 0
  /-- `getFilteredUpdates`: pending updates with a value ≤ 0 that found no stake to merge into are dropped; a negative value
      vanishes from the holdings.  Excluded when no pending update is negative. -/
  dropped : List Stake := []
  /-- `SetNewValidators`: accumulated rewards ≤ 0 of validators leaving the set are discarded (only positive ones go to the
      slashed total).  Excluded when no accumulated reward is negative. -/
  goneNonPos : Int := 0
  /-- `SetNewValidators`: accumulated rewards not carried over exactly once (two validators or two selected candidates with
      one public key).  Excluded when the public keys are pairwise different. -/
  carry : Int := 0
  deriving Repr

def droppedOf (c : Coin) (d : EndDefect) : Int := sumBy (stakeOf c) d.dropped

/-- Net base-coin value that appeared out of nothing in this EndBlock (0 when the state is well formed). -/
def EndDefect.base (d : EndDefect) : Int := d.overMint - d.lost - droppedOf 0 d - d.goneNonPos - d.carry

def EndDefect.isZero (d : EndDefect) : Bool :=
  d.overMint == 0 && d.lost == 0 && d.dropped.all (fun u => u.value == 0) && d.goneNonPos == 0 && d.carry == 0

/-- What one EndBlock did (for the comparison with the node and for the theorems). -/
structure EndOut where
  emit : Rules.Emit
  expired : List Order := []
  payouts : List (PubKey × PayOut) := []
  more : Int := 0
  updatedSet : Bool := false
  kicked : List WaitEntry := []
  pruned : List Candidate := []
  defect : EndDefect := {}

def unmodelledPrim : Stop := .unmodelled "endBlock: side condition of a ledger primitive failed"

def applyPlan (s : State) (ps : List Prim) : M State :=
  match applyChecked s ps with
  | some s' => .ok s'
  | none => .error unmodelledPrim

/-! ## 1–3. Accrual -/

def hasDropped (s : State) : Bool := s.validators.any (·.toDrop)

/-- Steps 1–3: the pot is `reward` (0 at the cap) + the fees of the block + what dropped validators hand back.
    `blockchain.rewards` keeps its value (fees + returned rewards) until the next BeginBlock resets it. -/
def accrueStep (s : State) (signed : List Nat) (e : Rules.Emit) : State :=
  let r := endBlockAccrue (e.toValidators + s.rewardsPool) s.validators (presentOf s signed)
  { s with validators := r.1, slashed := s.slashed + r.2, rewardsPool := s.rewardsPool + (returnDropped s.validators).2 }

/-! ## 4. Order expiry -/

/-- What the owner of a removed order gets back: the unfilled escrow, in the coin he sells. -/
def orderRefund (o : Order) : Coin × Int := if o.isSale then (o.c1, o.v1) else (o.c0, o.v0)

/-- `ExpireOrders(before)`: the scan over the orders by id stops at the first order younger than `before`. -/
def expiredOrders (s : State) (before : Nat) : List Order := s.orders.takeWhile (fun o => decide (o.height ≤ before))

/-- `removeLimitOrder` + `AddBalance` (skipped for a zero volume) for one order. -/
def expireOne (o : Order) : List Prim :=
  .delOrder o :: (if (orderRefund o).2 = 0 then [] else [.addBal o.owner (orderRefund o).1 (orderRefund o).2])

def expirePlan (os : List Order) : List Prim := os.flatMap expireOne

def expireDue (P : Params) (height : Nat) : Bool := decide (height > P.expire) && height % P.period == P.period / 2

/-! ## 5. Payout -/

/-- `IsX3Mining` reads `GetLockStakeUntilBlock(owner)`. -/
def pstakesOf (s : State) (c : Candidate) : List PStake :=
  c.stakes.map (fun st => { owner := st.owner, coin := st.coin, bip := st.bip, lockUntil := (s.lockStake.lookup st.owner).getD 0 })

/-- What `PayRewardsV5Fix` reads for validator `v` with candidate `c`. -/
def payInOf (s : State) (hpay : Nat) (period : Int) (tA tS : Int) (v : Validator) (c : Candidate) : PayIn :=
  { accum := v.accum, valStake := v.totalBip, commission := c.commission, rewardAddr := c.reward,
    daoAddr := daoAddress, devAddr := devAddress, height := hpay, calcReward := s.reward, safeReward := s.safeReward,
    period := period, totalAccum := tA, totalStakes := tS, stakes := pstakesOf s c }

structure PayoutOf where
  val : Validator
  cand : Candidate
  out : PayOut

/-- The payouts of all validators that still have a candidate under their public key (`GetCandidate(pubkey) == nil` ⇒ skipped);
    `totalAccumRewards` and `totalStakes` are taken over ALL validators before the loop. -/
def payoutsOf (s : State) (hpay : Nat) (period : Int) : List PayoutOf :=
  let tA := totalAccum s
  let tS := if tA > 0 then 0 else sumBy (fun v => v.totalBip) s.validators
  s.validators.filterMap (fun v =>
    match findFirst (fun c => c.pubkey == v.pubkey) s.candidates with
    | none => none
    | some c => some { val := v, cand := c, out := payout (payInOf s hpay period tA tS v c) })

/-- One validator: every payment becomes a pending update (base coin, bip value = value) on the validator's candidate,
    the accumulated reward is reset, the remainder goes to the slashed total. -/
def payPlanOne (x : PayoutOf) : List Prim :=
  x.out.payments.map (fun p => Prim.pushUpdate x.cand.id { owner := p.addr, coin := 0, value := p.amount, bip := p.amount })
    ++ [.addAccum x.val.pubkey (- x.val.accum), .addSlashed x.out.remainder]

def moreOf (xs : List PayoutOf) : Int := sumBy (fun x => x.out.more) xs
def lostOf (xs : List PayoutOf) : Int := sumBy (fun x => x.out.lost) xs

/-- All validators, then `SetEmission(Emission() + moreRewards)`. -/
def payPlan (xs : List PayoutOf) : List Prim := xs.flatMap payPlanOne ++ [.addEmission (moreOf xs)]

/-! ## 6. Emission -/

/-- `SetEmission(Emission() + rewardForBlock)` and the withheld part for the zero address (`diff.Sign() == 1`). -/
def emitPlan (emission0 : Int) (e : Rules.Emit) : List Prim :=
  .addEmission (e.emission - emission0) :: (if 0 < e.toZero then [.addBal 0 0 e.toZero] else [])

/-! ## 7. Tallies -/

def endTallyStep (s : State) (req : EndReq) : State :=
  { s with
    commission := req.newCommission.getD s.commission
    versions := match req.newVersion with
      | none => s.versions
      | some v => (if s.versions == "" then "" else s.versions ++ ",") ++ s!"{v}@{req.height}"
    cvotes := s.cvotes.filter (fun e => e.1.1 != req.height)
    uvotes := s.uvotes.filter (fun e => e.1.1 != req.height) }

/-! ## 8. `updateValidators` -/

/-- The 1000 slots of a candidate as the state lists them. -/
def toSlots (stakes : List Stake) : Slots := stakes.map some ++ List.replicate (maxDelegators - stakes.length) none

def rebip (bipOf : Coin → Int → Int) (slots : Slots) : Slots :=
  slots.map (fun o => o.map (fun s => { s with bip := bipOf s.coin s.value }))

/-- Updates that found no stake to merge into and have a value ≤ 0: `getFilteredUpdates` skips them. -/
def droppedUpdates (bipOf : Coin → Int → Int) (slots : Slots) (updates : List Stake) : List Stake :=
  (mergeExisting bipOf (rebip bipOf slots) updates).2.filter (fun u => !decide (u.value > 0))

structure CandRecalc where
  cand : Candidate
  kicked : List Stake
  dropped : List Stake

/-- `recalculateStakes` for one candidate of the state. -/
def recalcCand (bipOf : Coin → Int → Int) (cd : Candidate) : CandRecalc :=
  let r := recalcCandidate bipOf (toSlots cd.stakes) cd.updates
  { cand := { cd with stakes := r.1.filterMap id, updates := [], totalBip := r.2.2 },
    kicked := r.2.1,
    dropped := droppedUpdates bipOf (toSlots cd.stakes) cd.updates }

def kickEntry (cd : Candidate) (k : Stake) : WaitEntry := { cand := cd.id, owner := k.owner, coin := k.coin, value := k.value }

structure ValUpdate where
  state : State
  kicked : List WaitEntry
  pruned : List Candidate
  dropped : List Stake
  goneNonPos : Int
  carry : Int

/-- Validators of `old` that are not in the new set. -/
def goneValidators (old : List Validator) (sel : List Candidate) : List Validator :=
  old.filter (fun v => !(sel.any (fun c => c.pubkey == v.pubkey)))

/-- `recalculateStakes`: every candidate recalculated. -/
def recalcedCands (bipOf : Coin → Int → Int) (cands : List Candidate) : List Candidate :=
  cands.map (fun cd => (recalcCand bipOf cd).cand)

/-- The waitlist entries of the kicked stakes, candidates in `getOrderedCandidates` order (the order of the kick events). -/
def kickedEntries (bipOf : Coin → Int → Int) (cands : List Candidate) : List WaitEntry :=
  (sortStable candLess cands).flatMap (fun cd => (recalcCand bipOf cd).kicked.map (kickEntry cd))

def droppedAll (bipOf : Coin → Int → Int) (cands : List Candidate) : List Stake :=
  cands.flatMap (fun cd => (recalcCand bipOf cd).dropped)

/-- `RecalculateStakesV2`: ranked beyond 100 in the `LessID` order and not a validator (`DeleteCandidate` returns early for those). -/
def isGone (vals : List Validator) (cands1 : List Candidate) (c : Candidate) : Bool :=
  (prunedCandidates candidatesLimit (fun pk => vals.any (fun v => v.pubkey == pk)) cands1).any (fun d => d.id == c.id)

/-- The deleted candidates in the order of deletion. -/
def removedCands (vals : List Validator) (cands1 : List Candidate) : List Candidate :=
  sortStable candLessID (cands1.filter (isGone vals cands1))

def keptCands (vals : List Validator) (cands1 : List Candidate) : List Candidate :=
  cands1.filter (fun c => !isGone vals cands1 c)

/-- `updateValidators()` at `height`. -/
def valUpdateStep (P : Params) (bipOf : Coin → Int → Int) (height : Nat) (s : State) : ValUpdate :=
  let cands1 := recalcedCands bipOf s.candidates
  let kicked := kickedEntries bipOf s.candidates
  let removed := removedCands s.validators cands1
  let kept := keptCands s.validators cands1
  -- GetNewCandidates + SetNewValidators
  let sel := selectValidators validatorsLimit minValidatorBipStake kept
  let nv := setNewValidators s.validators sel
  let gone := goneValidators s.validators sel
  { state := { s with
      candidates := kept
      waitlist := s.waitlist ++ kicked
      frozen := s.frozen ++ removed.flatMap (unbondAll (height + P.unbond))
      deleted := s.deleted ++ removed.map (fun c => (c.id, c.pubkey))
      blocklist := removed.foldl (fun bl c => c.pubkey :: bl) s.blocklist
      validators := nv.1
      slashed := s.slashed + nv.2
      totalStakes := sumBy (fun c => c.totalBip) kept },
    kicked := kicked, pruned := removed, dropped := droppedAll bipOf s.candidates,
    goneNonPos := sumBy (fun v => if v.accum > 0 then 0 else v.accum) gone,
    carry := sumBy (fun v => v.accum) s.validators - sumBy (fun v => v.accum) nv.1 - sumBy (fun v => v.accum) gone }

/-! ## EndBlock -/

def endBlock (P : Params) (s : State) (req : EndReq) : M (State × EndOut) :=
  if P.period = 0 then .error (.panic "integer divide by zero") else
  let e := Rules.blockEmission s.emission req.cap s.reward s.safeReward
  let belowCap := decide (s.emission < req.cap)
  let dropped := hasDropped s
  -- 1–3
  let s1 := accrueStep s req.signed e
  -- 4
  let expired := if expireDue P req.height then expiredOrders s1 (req.height - P.expire) else []
  match applyPlan s1 (expirePlan expired) with
  | .error err => .error err
  | .ok s2 =>
    -- 5
    let pays := if req.height % P.period == 0 then payoutsOf s2 (if belowCap then req.height else maxUint64) P.period else []
    if pays.any (fun x => decide (x.out.remainder < 0)) then .error (.panic "Negative remainder") else
    match applyPlan s2 (if req.height % P.period == 0 then payPlan pays else []) with
    | .error err => .error err
    | .ok s3 =>
      -- 6
      match applyPlan s3 (if belowCap then emitPlan s.emission e else []) with
      | .error err => .error err
      | .ok s4 =>
        -- 7
        let s5 := endTallyStep s4 req
        -- 8
        let upd := req.height % P.period == 0 || dropped || req.changedKeys
        let base : EndDefect := { overMint := e.toValidators + e.toZero - (e.emission - s.emission), lost := lostOf pays }
        if upd then
          let u := valUpdateStep P req.bipOf req.height s5
          .ok (u.state,
               { emit := e, expired := expired, payouts := pays.map (fun x => (x.val.pubkey, x.out)), more := moreOf pays,
                 updatedSet := true, kicked := u.kicked, pruned := u.pruned,
                 defect := { base with dropped := u.dropped, goneNonPos := u.goneNonPos, carry := u.carry } })
        else
          .ok (s5, { emit := e, expired := expired, payouts := pays.map (fun x => (x.val.pubkey, x.out)), more := moreOf pays,
                     defect := base })

/-! ## A block -/

structure BlockReq where
  beginReq : BeginReq := {}
  grace : Bool := false            -- `grace.IsGraceBlock(height)`
  txs : List TxIn := []
  endReq : EndReq := {}

/-- The deliveries of a block, each outcome applied with `applyChecked`. -/
def deliverTxs (P : Params) (o : Oracle) (block : Nat) : State → List TxIn → M State
  | s, [] => .ok s
  | s, t :: ts =>
    match deliverTx P o s block t with
    | .error e => .error e
    | .ok out =>
      match applyChecked s out.plan with
      | none => .error (.unmodelled "deliverTx: side condition of a ledger primitive failed")
      | some s' => deliverTxs P o block s' ts

/-- BeginBlock ; deliveries ; EndBlock.  The second component is what EndBlock reports (incl. its `EndDefect`). -/
def blockRun (P : Params) (o : Oracle) (s : State) (b : BlockReq) : M (State × EndOut) :=
  match beginBlock P o s b.beginReq b.grace with
  | .error e => .error e
  | .ok (sB, _) =>
    match deliverTxs P o b.beginReq.height sB b.txs with
    | .error e => .error e
    | .ok sD => endBlock P sD b.endReq

def blockStep (P : Params) (o : Oracle) (s : State) (b : BlockReq) : M State :=
  match blockRun P o s b with
  | .error e => .error e
  | .ok r => .ok r.1

/-- Any number of blocks; the defects of the EndBlocks in order. -/
def runBlocks (P : Params) (o : Oracle) : State → List BlockReq → M (State × List EndDefect)
  | s, [] => .ok (s, [])
  | s, b :: bs =>
    match blockRun P o s b with
    | .error e => .error e
    | .ok (s1, out) =>
      match runBlocks P o s1 bs with
      | .error e => .error e
      | .ok (s2, ds) => .ok (s2, out.defect :: ds)

/-! ## Comparison with the node (driver: `S end`) -/

/-- `calculateBipValue` as far as the node's state after EndBlock shows it: exact for the base coin; for another coin the bip
    value the node recorded for a stake of the same coin and value (0 when it recorded none). -/
def bipOfObserved (new : State) : Coin → Int → Int := fun c v =>
  if c = 0 then v else
  match findFirst (fun st => st.coin == c && st.value == v) (new.candidates.flatMap (·.stakes)) with
  | some st => st.bip
  | none => 0

/-- Only base-coin stakes and updates: then `bipOf` is the identity and the whole EndBlock model is comparable. -/
def allBaseStakes (s : State) : Bool :=
  s.candidates.all (fun c => c.stakes.all (·.coin == 0) && c.updates.all (·.coin == 0))

def fmtOrder (o : Order) : String := s!"{o.id}/{o.c0}/{o.c1}/{o.isSale}/{o.v0}/{o.v1}/{o.owner}/{o.height}"
/-- The dump lists the waitlist by key, the model in insertion order: compare them sorted. -/
def normWait (l : List WaitEntry) : List WaitEntry :=
  sortBy (fun a b => a.cand < b.cand || (a.cand == b.cand && (a.owner < b.owner || (a.owner == b.owner &&
    (a.coin < b.coin || (a.coin == b.coin && a.value < b.value)))))) l

/-- The node's view keeps slot positions and zero-valued stakes in memory that the committed export (which the driver's view is
    rebuilt from) drops; positions only matter for ties of C17: compare the stakes of a candidate sorted, without empty ones. -/
def normStakes (l : List Stake) : List Stake :=
  sortBy (fun a b => a.owner < b.owner || (a.owner == b.owner && a.coin < b.coin)) (l.filter (fun st => st.value != 0))

/-- `sortFrozen`: the order of the frozen funds of one height is compared only in `exact` runs (the deletion order of pruned
    candidates follows their recalculated totals, which for custom coins are only known for the candidates that stay). -/
def normForEnd (sortFrozen : Bool) (s : State) : State :=
  { s with candidates := s.candidates.map (fun c => { c with stakes := normStakes c.stakes }),
           waitlist := normWait (s.waitlist.filter (fun w => w.value != 0)),
           frozen := if sortFrozen then
               sortBy (fun a b => a.height < b.height || (a.height == b.height && (a.candId < b.candId || (a.candId == b.candId &&
                 (a.addr < b.addr || (a.addr == b.addr && (a.coin < b.coin || (a.coin == b.coin && a.value < b.value)))))))) s.frozen
             else s.frozen }

def fmtWait (w : WaitEntry) : String := s!"{w.cand}/{w.owner}/{w.coin}/{w.value}"

/-- Result of `endCompare`: the messages, the emission counter the model predicts for the commit of this block (the node's
    live view shows the counter only at the commit), and whether the full comparison ran. -/
structure EndCmp where
  msgs : List String
  emission : Int
  full : Bool

/-- Differences between the model's EndBlock on `old` and the node's state `new` after EndBlock, as
    `MISMATCH C01 end h=… …`; a non-zero defect of the model's run is a `VIOL C01 end-defect …` (the node did the same).
    When the block recalculates stakes of custom coins, `bipOf` is read off the node's state after the block
    (`bipOfObserved`; `full = false` in the result): all movements of value are still compared. -/
def endCompare (P : Params) (old new : State) (req : EndReq) : M EndCmp :=
  let full := allBaseStakes old
  let req := if full then { req with bipOf := fun _ v => v } else { req with bipOf := bipOfObserved new }
  match endBlock P old req with
  | .error e => .error e
  | .ok (m, out) =>
    let retag (d : String) : String :=
      match d.splitOn " " with
      | _ :: rest => s!"MISMATCH C01 end h={req.height} {" ".intercalate rest}"
      | [] => s!"MISMATCH C01 end h={req.height}"
    let light : List String :=
      (beginZipDiff fmtOrder "order" 0 m.orders new.orders).map (fun d => s!"MISMATCH C01 end h={req.height} {d}")
      ++ (let keys := ((m.balances.map (·.1)) ++ (new.balances.map (·.1))).eraseDups
          keys.filterMap (fun k =>
            let a := Bag.get m.balances k; let b := Bag.get new.balances k
            if a != b then some s!"MISMATCH C01 end h={req.height} balance addr={k.1} coin={k.2} model={a} go={b}" else none))
    -- without a recalculation `bipOf` is not used at all; with one, custom-coin bip values are the node's own (`bipOfObserved`):
    -- every movement of value is compared, the bip values of custom coins themselves are not (they are C17's floating-point oracle)
    let exact := full || !out.updatedSet
    let heavy : List String :=
        ((beginDiff true (normForEnd (!exact) m) (normForEnd (!exact) new)).filter (fun d => (d.splitOn " ").getD 1 "" != "balance")).map retag
        ++ (beginZipDiff fmtWait "waitlist" 0 (normForEnd false m).waitlist (normForEnd false new).waitlist).map
            (fun d => s!"MISMATCH C01 end h={req.height} {d}")
    let d := out.defect
    let viol : List String :=
      if d.isZero then [] else
        [s!"VIOL C01 end-defect h={req.height} overMint={d.overMint} lost={d.lost} dropped={d.dropped.map (·.value)} goneNonPos={d.goneNonPos} carry={d.carry}"]
    .ok { msgs := light ++ heavy ++ viol, emission := m.emission, full := exact }

end Minter
