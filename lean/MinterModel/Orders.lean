import MinterModel.Kernels
/-
  Pool trades with limit orders (properties C13, C14): an abstract, executable model of
  `coreV2/state/swap/orderV2.go` + `order.go` (live path: SwapV2 / PairV2).

  * The order book of one side of a pool is a plain list of live orders; none of the node's caches
    (sorted id lists, dirty / unsorted / deleted sets, the on-disk price index) exist here.  The harness checks on every
    run that the node's best-first iteration over those caches is exactly `sortBook` of the abstract book.
  * `big.Float` enters the node in three places: the sort key of an order (`CalcPriceSell`, precision 53), the
    conversion `new(big.Float).SetRat(r).Int(nil)` in a partial fill (precision 0 = max(64, bit lengths)), and the square
    root in `calculateAddAmountsForPrice`.  The first two are modelled exactly (`rnQuot`: correctly rounded quotient,
    round to nearest even, unbounded exponent); the third is an ORACLE: the model takes the amount it returns as an
    input and recomputes everything that depends on it with the integer kernels.
  * Every `panic` site of the Go code is an explicit `Fault`.
  Orientation: `wantBuy` is in the coin the taker pays (coin0 of the pair as the taker sees it), `wantSell` in the coin
  the taker receives (coin1).  Reserves `(r0, r1)` are in the same orientation.  The model is meant for positive
  reserves and positive order volumes (rational comparisons are done by cross-multiplication); the theorems state
  these guards.
-/
namespace Minter.Lob

/-! ## `big.Float` quotients -/

/-- `big.Int.BitLen`. -/
def bitLen (n : Nat) : Nat := if n = 0 then 0 else Nat.log2 n + 1

/-- A non-negative `big.Float`: value `mant · 2^exp`, normalised to `2^(prec-1) ≤ mant < 2^prec`; zero is `⟨0, 0⟩`.
    (`big.Float` exponents are 32-bit: no overflow or subnormals in the range of amounts.) -/
structure BFloat where
  mant : Nat
  exp : Int
  deriving DecidableEq, Repr

/-- `a / b` rounded to the nearest integer, ties to even. -/
def roundDiv (a b : Nat) : Nat :=
  let q := a / b
  let r := a % b
  if 2 * r > b ∨ (2 * r = b ∧ q % 2 = 1) then q + 1 else q

/-- numerator and denominator of `num / den / 2^e`. -/
def scaleQuot (num den : Nat) (e : Int) : Nat × Nat :=
  if e ≤ 0 then (num * 2 ^ e.natAbs, den) else (num, den * 2 ^ e.toNat)

/-- `new(big.Float).SetPrec(prec).Quo(num, den)` for exact positive integers: the correctly rounded quotient
    (round to nearest even) with a `prec`-bit mantissa. -/
def rnQuot (prec num den : Nat) : BFloat :=
  if num = 0 ∨ den = 0 then ⟨0, 0⟩
  else
    let e0 : Int := (bitLen num : Int) - (bitLen den : Int) - (prec : Int)
    let s0 := scaleQuot num den e0
    let e := if s0.1 / s0.2 ≥ 2 ^ prec then e0 + 1 else e0
    let s := scaleQuot num den e
    let m := roundDiv s.1 s.2
    if m = 2 ^ prec then ⟨2 ^ (prec - 1), e + 1⟩ else ⟨m, e⟩

/-- `x.Cmp(y) == -1` for two floats of the same precision. -/
def BFloat.lt (x y : BFloat) : Bool :=
  if x.mant = 0 then decide (y.mant ≠ 0)
  else if y.mant = 0 then false
  else decide (x.exp < y.exp ∨ (x.exp = y.exp ∧ x.mant < y.mant))

/-- `CalcPriceSell(sell := den, buy := num)` = `Float.SetPrec(53).SetRat(num/den)`; the float53 price. -/
def rn53 (num den : Int) : BFloat := rnQuot 53 num.toNat den.toNat

/-- IEEE-754 bits of a float53 inside the normal range of `float64` (what `Float64()` returns exactly). -/
def f64bits (f : BFloat) : Option Nat :=
  let biased : Int := f.exp + 52 + 1023
  if f.mant < 2 ^ 52 ∨ biased < 1 ∨ biased > 2046 then none
  else some (biased.toNat * 2 ^ 52 + (f.mant - 2 ^ 52))

/-- `new(big.Float).SetRat(num/den).Int(nil)` for non-negative `num`, positive `den`: the fraction is reduced, the
    quotient is rounded to `max(64, bitLen num, bitLen den)` bits (precision 0 of the receiver), then truncated. -/
def ratIntNat (num den : Nat) : Nat :=
  if den = 0 then 0
  else
    let g := Nat.gcd num den
    let n := num / g
    let d := den / g
    if d = 1 then n
    else
      let p := max 64 (max (bitLen n) (bitLen d))
      let f := rnQuot p n d
      if f.exp ≥ 0 then f.mant * 2 ^ f.exp.toNat else f.mant / 2 ^ f.exp.natAbs

/-- The same for signed arguments (`Float.Int` truncates toward zero). -/
def ratInt (num den : Int) : Int := num.sign * den.sign * (ratIntNat num.natAbs den.natAbs : Int)

/-! ## Orders and the sorted book -/

structure Order where
  id : Nat
  wantBuy : Int
  wantSell : Int
  owner : Nat
  height : Nat
  deriving DecidableEq, Repr

/-- `minimumOrderVolume`. -/
def minOrderVolume : Int := 10000000000

/-- The node's sort key (`sortPrice`): the float53 price of the order *in the canonical orientation of the pair*.
    `sorted = true`: the taker sees the pair in canonical orientation, key = `RN53(wantSell / wantBuy)`, best = largest;
    `sorted = false`: the pair is seen reversed, key = `RN53(wantBuy / wantSell)`, best = smallest. -/
def sortKey (sorted : Bool) (o : Order) : BFloat :=
  if sorted then rn53 o.wantSell o.wantBuy else rn53 o.wantBuy o.wantSell

/-- `a` is consumed no later than `b`: better key first, lower id first among equal keys
    (`sort.Slice` / `addToList`: `sortPrice().Cmp` decides, `case 0: a.id < b.id`). -/
def better (sorted : Bool) (a b : BFloat × Order) : Bool :=
  if sorted then b.1.lt a.1 || (!a.1.lt b.1 && decide (a.2.id ≤ b.2.id))
  else a.1.lt b.1 || (!b.1.lt a.1 && decide (a.2.id ≤ b.2.id))

/-- The order in which `orderSellByIndex 0, 1, 2, …` returns the live orders of one side. -/
def sortBook (sorted : Bool) (book : List Order) : List Order :=
  ((book.map fun o => (sortKey sorted o, o)).mergeSort (better sorted)).map (·.2)

/-! ## The walk of one trade -/

/-- `calculateAddAmountsForPrice`: reserves, the order's volumes (its price) ↦ the amount0 it returns, `0` for `nil`.
    `none` = "no answer available" (only arises when a recorded table is replayed). -/
abbrev Oracle := Int → Int → Int → Int → Option Int

inductive Fault where
  | input | output            -- ErrorInsufficientInputAmount / ErrorInsufficientOutputAmount of the entry points
  | swap (e : SwapErr)        -- `panic(err)` after `CheckSwap`
  | negBFS | negSFB           -- log.Panicln("neg BFS 0") / ("neg SFB 0")
  | oneZero                   -- `isEmpty`: "order has one zero volume"
  | oracle                    -- replay table has no answer
  deriving DecidableEq, Repr

structure Fill where
  id : Nat
  buy : Int      -- credited to the owner (coin0)
  sell : Int     -- taken from the order's escrow (coin1)
  owner : Nat
  deriving DecidableEq, Repr

inductive Calc where
  | ok (amount : Int) (fills : List Fill)
  | nil
  | fault (f : Fault)
  deriving DecidableEq, Repr

/-- Walking the curve towards the price of the next order. -/
inductive Walk where
  | stay
  | move (a0 a1 : Int)
  | fault (f : Fault)
  deriving DecidableEq, Repr

/-- `if pair.PriceRatCmp(limit.PriceRat()) == 1 { pair.CalculateAddAmountsForPrice(limit.Price()) … }`. -/
def walkToPrice (O : Oracle) (r0 r1 : Int) (o : Order) : Walk :=
  if r1 * o.wantBuy > o.wantSell * r0 then
    -- public wrapper: `if price.Cmp(p.Price()) == 1 { return nil, nil }`
    if (rn53 r1 r0).lt (rn53 o.wantSell o.wantBuy) then .stay
    else match O r0 r1 o.wantBuy o.wantSell with
      | none => .fault .oracle
      | some a0 =>
        if a0 ≤ 0 then .stay
        else match buyForSell r0 r1 a0 with
          | none => .stay
          | some a1 => .move a0 a1
  else .stay

/-- State after the optional curve step in front of an order. -/
inductive Pre where
  | brk
  | fault (f : Fault)
  | go (r0 r1 rest add : Int)
  deriving DecidableEq, Repr

def preSell (O : Oracle) (r0 r1 rest : Int) (o : Order) : Pre :=
  match walkToPrice O r0 r1 o with
  | .fault f => .fault f
  | .stay => .go r0 r1 rest 0
  | .move a0 a1 =>
    if rest ≤ a0 then .brk
    else match checkSwap r0 r1 a0 a1 with
      | some e => .fault (.swap e)
      | none => .go (r0 + a0) (r1 - a1) (rest - a0) a1

def preBuy (O : Oracle) (r0 r1 rest : Int) (o : Order) : Pre :=
  match walkToPrice O r0 r1 o with
  | .fault f => .fault f
  | .stay => .go r0 r1 rest 0
  | .move a0 a1 =>
    if rest ≤ a1 then .brk
    else match checkSwap r0 r1 a0 a1 with
      | some e => .fault (.swap e)
      | none => .go (r0 + a0) (r1 - a1) (rest - a1) a0

/-- The amount the order gives in a partial fill on the sell side, with the three clamps of the Go code. -/
def partialSellAmount (o : Order) (amount0 : Int) : Except Fault Int :=
  let a1 := ratInt (o.wantSell * amount0) o.wantBuy
  if a1 = o.wantSell ∧ amount0 ≠ o.wantBuy then .error .negBFS
  else
    let a1 := if a1 > o.wantSell then (if amount0 < o.wantBuy then o.wantSell - 1 else o.wantSell) else a1
    let a1 := if a1 < o.wantSell ∧ amount0 = o.wantBuy then o.wantSell else a1
    .ok a1

/-- The pair `(amount0, amount1)` of a partial fill on the buy side. -/
def partialBuyAmounts (o : Order) (amount1 : Int) : Except Fault (Int × Int) :=
  let a0 := ratInt (amount1 * o.wantBuy) o.wantSell
  if amount1 = o.wantSell ∧ a0 ≠ o.wantBuy then
    if a0 < o.wantBuy then .ok (o.wantBuy, amount1) else .error .negSFB
  else if amount1 < o.wantSell ∧ a0 = o.wantBuy then .ok (a0, o.wantSell)
  else .ok (a0, amount1)

def finalSell (r0 r1 rest : Int) : Calc :=
  match buyForSell r0 r1 rest with
  | none => .ok 0 []
  | some d => match checkSwap r0 r1 rest d with
    | none => .ok d []
    | some e => .fault (.swap e)

def finalBuy (r0 r1 rest : Int) : Calc :=
  match sellForBuy r0 r1 rest with
  | none => if r0 < 1 ∨ r1 - rest < 1 then .nil else .ok 0 []
  | some d => match checkSwap r0 r1 d rest with
    | none => .ok d []
    | some e => .fault (.swap e)

def Calc.add (a : Int) (f : Fill) : Calc → Calc
  | .ok x fs => .ok (a + x) (f :: fs)
  | c => c

def Order.fullFill (o : Order) : Fill := ⟨o.id, o.wantBuy, o.wantSell, o.owner⟩

/-- `calculateBuyForSellWithOrders`: `book` is the side of the book best first, `(r0, r1)` the reserves of the (virtual)
    pair, `rest` the part of the input not yet spent.  Result: amount out and the per-order fills. -/
def sellLoop (O : Oracle) : List Order → Int → Int → Int → Calc
  | [], r0, r1, rest => if rest = 0 then .ok 0 [] else finalSell r0 r1 rest
  | o :: bk, r0, r1, rest =>
    if rest = 0 then .ok 0 []
    else match preSell O r0 r1 rest o with
      | .fault f => .fault f
      | .brk => finalSell r0 r1 rest
      | .go r0' r1' rest' add =>
        let amount0 := rest' - com1001 rest'
        if amount0 ≤ o.wantBuy then
          match partialSellAmount o amount0 with
          | .error f => .fault f
          | .ok amount1 => .ok (add + (amount1 - com1000 amount1)) [⟨o.id, amount0, amount1, o.owner⟩]
        else
          (sellLoop O bk (r0' + com1000 o.wantBuy) (r1' + com1000 o.wantSell) (rest' - (o.wantBuy + com1000 o.wantBuy))).add
            (add + (o.wantSell - com1000 o.wantSell)) o.fullFill

/-- `calculateSellForBuyWithOrders`: `rest` is the part of the wanted output not yet obtained; result: amount in. -/
def buyLoop (O : Oracle) : List Order → Int → Int → Int → Calc
  | [], r0, r1, rest => if rest = 0 then .ok 0 [] else finalBuy r0 r1 rest
  | o :: bk, r0, r1, rest =>
    if rest = 0 then .ok 0 []
    else match preBuy O r0 r1 rest o with
      | .fault f => .fault f
      | .brk => finalBuy r0 r1 rest
      | .go r0' r1' rest' add =>
        let amount1 := rest' + com0999 rest'
        if amount1 ≤ o.wantSell then
          match partialBuyAmounts o amount1 with
          | .error f => .fault f
          | .ok (a0, a1) => .ok (add + (a0 + com1000 a0)) [⟨o.id, a0, a1, o.owner⟩]
        else
          (buyLoop O bk (r0' + com1000 o.wantBuy) (r1' + com1000 o.wantSell) (rest' - (o.wantSell - com1000 o.wantSell))).add
            (add + (o.wantBuy + com1000 o.wantBuy)) o.fullFill

/-! ## `CalcDiffPool`, `updateOrders`, the entry points -/

def sumBuy (fs : List Fill) : Int := (fs.map (·.buy)).sum
def sumSell (fs : List Fill) : Int := (fs.map (·.sell)).sum
def sumComBuy (fs : List Fill) : Int := (fs.map fun f => com1000 f.buy).sum
def sumComSell (fs : List Fill) : Int := (fs.map fun f => com1000 f.sell).sum

/-- owner ↦ credited amount, in order of first appearance (`owners` map of `CalcDiffPool`). -/
def creditAdd (cs : List (Nat × Int)) (owner : Nat) (v : Int) : List (Nat × Int) :=
  match cs with
  | [] => [(owner, v)]
  | (o, x) :: t => if o = owner then (o, x + v) :: t else (o, x) :: creditAdd t owner v

def credits (fs : List Fill) : List (Nat × Int) := fs.foldl (fun cs f => creditAdd cs f.owner f.buy) []

/-- `CalcDiffPool amount0In amount1Out orders` = (commission0orders, commission1orders, amount0, amount1). -/
def calcDiffPool (amount0In amount1Out : Int) (fs : List Fill) : Int × Int × Int × Int :=
  let c0 := sumComBuy fs
  let c1 := sumComSell fs
  (c0, c1, amount0In - (sumBuy fs + c0), amount1Out - (sumSell fs - c1))

/-- An order closed by `updateOrders` because its remainder fell below the minimum volume. -/
structure Closed where
  id : Nat
  owner : Nat
  refund : Int     -- remaining wantSell, returned to the owner
  lostBuy : Int    -- remaining wantBuy
  deriving DecidableEq, Repr

/-- `updateSellOrder` + the dust rule of `updateOrders` for one fill, on the abstract book. -/
def applyFill (book : List Order) (f : Fill) : Except Fault (List Order × List Closed) :=
  match book with
  | [] => .ok ([], [])            -- unreachable: fills come from the book
  | o :: t =>
    if o.id = f.id then
      let b := o.wantBuy - f.buy
      let s := o.wantSell - f.sell
      if b = 0 ∧ s = 0 then .ok (t, [])
      else if b = 0 ∨ s = 0 then .error .oneZero
      else if b < minOrderVolume ∨ s < minOrderVolume then .ok (t, [⟨o.id, o.owner, s, b⟩])
      else .ok ({ o with wantBuy := b, wantSell := s } :: t, [])
    else match applyFill t f with
      | .error e => .error e
      | .ok (t', c) => .ok (o :: t', c)

def updateOrders (book : List Order) : List Fill → Except Fault (List Order × List Closed)
  | [] => .ok (book, [])
  | f :: fs => match applyFill book f with
    | .error e => .error e
    | .ok (b', c) => match updateOrders b' fs with
      | .error e => .error e
      | .ok (b'', c') => .ok (b'', c ++ c')

structure TradeResult where
  amount : Int                 -- sell: amount1Out; buy: amount0In including the 0.1 % on top
  r0 : Int
  r1 : Int
  fills : List Fill
  credits : List (Nat × Int)
  closed : List Closed
  book : List Order
  deriving DecidableEq, Repr

inductive Trade where
  | ok (r : TradeResult)
  | fault (f : Fault)
  deriving DecidableEq, Repr

/-- Common tail of `SellWithOrders` / `BuyWithOrders`: `CalcDiffPool`, the two `update`s, `updateOrders`. -/
def settle (r0 r1 : Int) (book : List Order) (amount0In amount1Out : Int) (fs : List Fill) (ret : Int) : Trade :=
  let (c0, c1, a0, a1) := calcDiffPool amount0In amount1Out fs
  -- `if amount0 ≠ 0 ∨ amount1 ≠ 0 { p.update(amount0, -amount1) }; p.update(c0, c1)`
  match updateOrders book fs with
  | .error e => .fault e
  | .ok (book', closed) => .ok ⟨ret, r0 + a0 + c0, r1 - a1 + c1, fs, credits fs, closed, book'⟩

/-- `PairV2.SellWithOrders` (with the dust handling of `SwapV2.PairSellWithOrders`, `minAmount1Out = 0`). -/
def sellWithOrders (O : Oracle) (sorted : Bool) (r0 r1 : Int) (book : List Order) (amount0In : Int) : Trade :=
  if amount0In ≤ 0 then .fault .input
  else
    let a := amount0In - com1000 amount0In
    if a ≤ 0 then .fault .input
    else match sellLoop O (sortBook sorted book) r0 r1 a with
      | .fault f => .fault f
      | .nil => .fault .output
      | .ok out fs =>
        if out ≤ 0 then .fault .output
        else settle r0 r1 book a out fs out

/-- `PairV2.BuyWithOrders`. -/
def buyWithOrders (O : Oracle) (sorted : Bool) (r0 r1 : Int) (book : List Order) (amount1Out : Int) : Trade :=
  if amount1Out ≤ 0 then .fault .input
  else match buyLoop O (sortBook sorted book) r0 r1 amount1Out with
    | .fault f => .fault f
    | .nil => .fault .output
    | .ok inp fs =>
      if inp ≤ 0 then .fault .output
      else settle r0 r1 book inp amount1Out fs (inp + com0999 inp)

/-! ## Adding, cancelling, expiring -/

/-- `AddOrder`: a new live order with a fresh id. -/
def addOrder (book : List Order) (o : Order) : List Order := book ++ [o]

/-- `removeLimitOrder` on a live order: the whole remaining `wantSell` goes back, the order leaves the book. -/
def cancelOrder (book : List Order) (id : Nat) : Option (Order × List Order) :=
  match book with
  | [] => none
  | o :: t =>
    if o.id = id then some (o, t)
    else match cancelOrder t id with
      | none => none
      | some (x, t') => some (x, o :: t')

inductive CancelErr where
  | notFound | notOwner
  deriving DecidableEq, Repr

/-- `RemoveLimitOrderData.Run`: decision and effect (refund `wantSell` of the order's sell coin to the sender). -/
def cancelTx (book : List Order) (sender id : Nat) : Except CancelErr (Int × List Order) :=
  match cancelOrder book id with
  | none => .error .notFound
  | some (o, book') => if o.owner ≠ sender then .error .notOwner else .ok (o.wantSell, book')

/-- `ExpireOrders beforeHeight`: `orders` = the committed live orders in id order (the on-disk iteration order);
    the scan stops at the first order younger than `beforeHeight`.  Result: (expired, remaining). -/
def expireOrders (orders : List Order) (beforeHeight : Nat) : List Order × List Order :=
  (orders.takeWhile (fun o => decide (o.height ≤ beforeHeight)), orders.dropWhile (fun o => decide (o.height ≤ beforeHeight)))

end Minter.Lob
