/-
  Bancor conversions (`formula` package).  The branches the node decides with integer arithmetic are modelled
  exactly (`*Int`: `none` where the node goes through 100-bit floats); the float branch is specified by an
  exact rational *certificate*: a claimed result is accepted iff it brackets the real-valued formula, written
  with integer powers only (no reals, no floats), see `saleReturnCert` &c.
-/
namespace Minter

/-- `CalculatePurchaseReturn`, integer branches (`deposit = 0`, `crr = 100`). Go `Div` is Euclidean. -/
def purchaseReturnInt (supply reserve : Int) (crr : Nat) (deposit : Int) : Option Int :=
  if deposit = 0 then some 0
  else if crr = 100 then some (supply * deposit / reserve)
  else none

/-- `CalculatePurchaseAmount`, integer branches. -/
def purchaseAmountInt (supply reserve : Int) (crr : Nat) (want : Int) : Option Int :=
  if want = 0 then some 0
  else if crr = 100 then some (want * reserve / supply)
  else none

/-- `CalculateSaleReturn`, integer branches (zero, whole supply, `crr = 100`). -/
def saleReturnInt (supply reserve : Int) (crr : Nat) (sell : Int) : Option Int :=
  if sell = 0 then some 0
  else if sell = supply then some reserve
  else if crr = 100 then some (reserve * sell / supply)
  else none

/-- `CalculateSaleAmount`, integer branches. -/
def saleAmountInt (supply reserve : Int) (crr : Nat) (want : Int) : Option Int :=
  if want = 0 then some 0
  else if crr = 100 then some (want * supply / reserve)
  else none

/-! ### Exact certificates for the float branch

  `saleReturn v R c a = R·(1 − (1 − a/v)^(100/c))`.  With `x = 1 − r/R` the claim `r ≤ true value < r + 1`
  is `(1 − (r+1)/R)^c < (1 − a/v)^100 ≤ (1 − r/R)^c`, i.e. (clearing denominators, all factors non-negative)

      (R − r − 1)^c · v^100 <  (v − a)^100 · R^c  ≤ (R − r)^c · v^100      (exact truncation)

  A *tolerance* `δ ≥ 0` (in pips of the result) relaxes both sides: `r − δ` and `r + 1 + δ`.  All powers are natural
  powers of integers, so the predicate is decidable by big-integer arithmetic. -/

def ipow (b : Int) (n : Nat) : Int := b ^ n

/-- `r` is within `δ` pips of `⌊R·(1 − (1 − a/v)^(100/c))⌋`.  Requires `0 < v`, `0 < R`, `0 ≤ a ≤ v`. -/
def saleReturnCert (v R : Int) (c : Nat) (a r δ : Int) : Bool :=
  let lo := r - δ          -- claimed lower bound on the true value
  let hi := r + 1 + δ      -- claimed strict upper bound
  let t := ipow (v - a) 100 * ipow R c
  -- true ≥ lo  ⇔  (1 − lo/R)^c ≥ (1−a/v)^100   (trivially true when lo ≤ 0)
  (decide (lo ≤ 0) || (decide (lo ≤ R) && decide (t ≤ ipow (R - lo) c * ipow v 100)))
  -- true < hi  ⇔  (1 − hi/R)^c < (1−a/v)^100   (trivially true when hi > R)
  && (decide (hi > R) || decide (ipow (R - hi) c * ipow v 100 < t))

/-- `purchaseReturn v R c d = v·((1 + d/R)^(c/100) − 1)`: `r ≤ true < r+1` ⇔ `(v+r)^100·R^c ≤ (R+d)^c·v^100 < (v+r+1)^100·R^c`. -/
def purchaseReturnCert (v R : Int) (c : Nat) (d r δ : Int) : Bool :=
  let lo := r - δ
  let hi := r + 1 + δ
  let t := ipow (R + d) c * ipow v 100
  (decide (lo ≤ 0) || decide (ipow (v + lo) 100 * ipow R c ≤ t))
  && decide (t < ipow (v + hi) 100 * ipow R c)

/-- `purchaseAmount v R c w = R·(((w+v)/v)^(100/c) − 1)`: `r ≤ true < r+1` ⇔ `(R+r)^c·v^100 ≤ (w+v)^100·R^c < (R+r+1)^c·v^100`. -/
def purchaseAmountCert (v R : Int) (c : Nat) (w r δ : Int) : Bool :=
  let lo := r - δ
  let hi := r + 1 + δ
  let t := ipow (w + v) 100 * ipow R c
  (decide (lo ≤ 0) || decide (ipow (R + lo) c * ipow v 100 ≤ t))
  && decide (t < ipow (R + hi) c * ipow v 100)

/-- `saleAmount v R c w = v·(1 − ((R−w)/R)^(c/100))`: `r ≤ true < r+1` ⇔ `(v−r−1)^100·R^c < (R−w)^c·v^100 ≤ (v−r)^100·R^c`. -/
def saleAmountCert (v R : Int) (c : Nat) (w r δ : Int) : Bool :=
  let lo := r - δ
  let hi := r + 1 + δ
  let t := ipow (R - w) c * ipow v 100
  (decide (lo ≤ 0) || (decide (lo ≤ v) && decide (t ≤ ipow (v - lo) 100 * ipow R c)))
  && (decide (hi > v) || decide (ipow (v - hi) 100 * ipow R c < t))

/-- Tolerance granted to the 100-bit float pipeline: 2⁻⁷⁰ relative to the larger operand magnitude, at least 1 pip
    (fixed once; never adjusted at run time). -/
def bancorTol (scale : Int) : Int := scale / 1180591620717411303424 + 1

end Minter
