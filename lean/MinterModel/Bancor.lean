/-
  Bancor conversions (`formula` package).  The branches the node decides with integer arithmetic are modelled
  exactly (`*Int`: `none` where the node goes through 100-bit floats); the float branch is specified by an
  exact rational *certificate*: a claimed result is accepted iff it brackets the real-valued formula, written
  with integer powers only (no reals, no floats), see `saleReturnCert` &c.
-/
namespace Minter

/-- `CalculatePurchaseReturn`, integer branches (`deposit = 0`, `crr = 100`). Go `Div` is Euclidean. -/
def purchaseReturnInt (supply reserve : Int) (crr : Nat) (deposit : Int) : Option Int :=
  if deposit = 0 then some 0
  else if crr = 100 then some (supply * deposit / reserve)
  else none

/-- `CalculatePurchaseAmount`, integer branches. -/
def purchaseAmountInt (supply reserve : Int) (crr : Nat) (want : Int) : Option Int :=
  if want = 0 then some 0
  else if crr = 100 then some (want * reserve / supply)
  else none

/-- `CalculateSaleReturn`, integer branches (zero, whole supply, `crr = 100`). -/
def saleReturnInt (supply reserve : Int) (crr : Nat) (sell : Int) : Option Int :=
  if sell = 0 then some 0
  else if sell = supply then some reserve
  else if crr = 100 then some (reserve * sell / supply)
  else none

/-- `CalculateSaleAmount`, integer branches. -/
def saleAmountInt (supply reserve : Int) (crr : Nat) (want : Int) : Option Int :=
  if want = 0 then some 0
  else if crr = 100 then some (want * supply / reserve)
  else none

/-! ### Exact certificates for the float branch

  Each of the four functions is `S·|1 − x^e|` for a ratio `x` of integers and a rational exponent `e = 100/c` or `c/100`.
  "The claimed result `r` is within `δ` pips of the truncated real value" — `lo ≤ f < hi` with `lo = r − δ`, `hi = r + 1 + δ` —
  is written with natural powers of integers only (raise to the power `c` resp. `100`, clear the denominators), so it is
  decided by exact big-integer arithmetic.  Every base that is raised to a power is checked to be non-negative first (an even
  power of a negative base would compare the wrong way): that is what the guards `lo ≤ R`, `0 ≤ v + hi` … are for; outside the
  guard the corresponding real inequality is decided by the sign alone.

  *saleReturn* `f = R·(1 − (1 − a/v)^(100/c))`, `0 ≤ a ≤ v`:
      `lo ≤ f`  ⇔  `(R − lo)/R ≥ ((v−a)/v)^(100/c)`  ⇔  `lo ≤ R ∧ (v−a)^100·R^c ≤ (R−lo)^c·v^100`      (true anyway if `lo ≤ 0`)
      `f < hi`  ⇔  `(R − hi)/R < ((v−a)/v)^(100/c)`  ⇔  `R < hi ∨ (R−hi)^c·v^100 < (v−a)^100·R^c`
  *purchaseReturn* `f = v·((1 + d/R)^(c/100) − 1)`, `0 ≤ d`:
      `lo ≤ f`  ⇔  `lo ≤ 0 ∨ (v+lo)^100·R^c ≤ (R+d)^c·v^100`
      `f < hi`  ⇔  `0 ≤ v + hi ∧ (R+d)^c·v^100 < (v+hi)^100·R^c`
  *purchaseAmount* `f = R·((1 + w/v)^(100/c) − 1)`, `0 ≤ w`:
      `lo ≤ f`  ⇔  `lo ≤ 0 ∨ (R+lo)^c·v^100 ≤ (v+w)^100·R^c`
      `f < hi`  ⇔  `0 ≤ R + hi ∧ (v+w)^100·R^c < (R+hi)^c·v^100`
  *saleAmount* `f = v·(1 − (1 − w/R)^(c/100))`, `0 ≤ w ≤ R`:
      `lo ≤ f`  ⇔  `lo ≤ 0 ∨ (lo ≤ v ∧ (R−w)^c·v^100 ≤ (v−lo)^100·R^c)`
      `f < hi`  ⇔  `v < hi ∨ (v−hi)^100·R^c < (R−w)^c·v^100`
  All four require `0 < v`, `0 < R`, `0 < c` and the amount inside the stated range (`bancorEvalQ` answers `domain` otherwise). -/

def ipow (b : Int) (n : Nat) : Int := b ^ n

/-- `r` is within `δ` pips of `⌊R·(1 − (1 − a/v)^(100/c))⌋`.  Requires `0 < v`, `0 < R`, `0 ≤ a ≤ v`. -/
def saleReturnCert (v R : Int) (c : Nat) (a r δ : Int) : Bool :=
  let lo := r - δ          -- claimed lower bound on the true value
  let hi := r + 1 + δ      -- claimed strict upper bound
  let t := ipow (v - a) 100 * ipow R c
  (decide (lo ≤ 0) || (decide (lo ≤ R) && decide (t ≤ ipow (R - lo) c * ipow v 100)))
  && (decide (R < hi) || decide (ipow (R - hi) c * ipow v 100 < t))

/-- `r` is within `δ` pips of `⌊v·((1 + d/R)^(c/100) − 1)⌋`.  Requires `0 < v`, `0 < R`, `0 ≤ d`. -/
def purchaseReturnCert (v R : Int) (c : Nat) (d r δ : Int) : Bool :=
  let lo := r - δ
  let hi := r + 1 + δ
  let t := ipow (R + d) c * ipow v 100
  (decide (lo ≤ 0) || decide (ipow (v + lo) 100 * ipow R c ≤ t))
  && (decide (0 ≤ v + hi) && decide (t < ipow (v + hi) 100 * ipow R c))

/-- `r` is within `δ` pips of `⌊R·(((w+v)/v)^(100/c) − 1)⌋`.  Requires `0 < v`, `0 < R`, `0 ≤ w`. -/
def purchaseAmountCert (v R : Int) (c : Nat) (w r δ : Int) : Bool :=
  let lo := r - δ
  let hi := r + 1 + δ
  let t := ipow (w + v) 100 * ipow R c
  (decide (lo ≤ 0) || decide (ipow (R + lo) c * ipow v 100 ≤ t))
  && (decide (0 ≤ R + hi) && decide (t < ipow (R + hi) c * ipow v 100))

/-- `r` is within `δ` pips of `⌊v·(1 − ((R−w)/R)^(c/100))⌋`.  Requires `0 < v`, `0 < R`, `0 ≤ w ≤ R`. -/
def saleAmountCert (v R : Int) (c : Nat) (w r δ : Int) : Bool :=
  let lo := r - δ
  let hi := r + 1 + δ
  let t := ipow (R - w) c * ipow v 100
  (decide (lo ≤ 0) || (decide (lo ≤ v) && decide (t ≤ ipow (v - lo) 100 * ipow R c)))
  && (decide (v < hi) || decide (ipow (v - hi) 100 * ipow R c < t))

/-! ### The tolerance granted to the 100-bit float pipeline (fixed here once; never adjusted at run time)

  `δ = result·2^-k₁ + scale·2^-k₂ + 1` pips.  The relative part is dominated by the exponent: Go passes `100/float64(crr)` resp.
  `float64(crr)/100` (53 bits) to `math.Pow`, so `x^e` is really `x^(e(1+ε))`, `|ε| ≤ 2^-53`, a relative error of
  `ε·e·|ln x|` of the power (`|ln x| ≤ 76` for amounts up to 10^33).  The absolute part is the 100-bit mantissa: the inputs are
  rounded to 100 bits (supplies/reserves above 2^100 ≈ 1.27·10^30 pip are not exact) and `1 ± tiny` loses `tiny` below 2^-100.
  For `saleAmount` the base `(R−w)/R` is raised to `c/100 < 1`, which is ill-conditioned near 0: the rounding of `R − w`
  (2^-100·R) is amplified by `R/(R−w)`, hence the scale `v·R/(R−w)`.

  Measured against the exact floor of the real formula (`harness bancor -tier measure -seed 11 -n 420000`: 1 028 239 evaluations,
  701 225 results inside the domain compared with the exact floor (big-integer arithmetic); 46.8 % equal
  to the floor).  Maximum of `|go − floor|`:
      saleReturn      result·2^-53.02  resp.  R·2^-97.7          purchaseReturn  result·2^-47.8  resp.  v·2^-99.0
      purchaseAmount  result·2^-43.88  resp.  R·2^-96.3          saleAmount      result·2^-53.2  resp.  (v·R/(R−w))·2^-99.75
  (relative part: over results whose error exceeds the absolute part; absolute part: over results below 2^40 pip).
  Each constant below is the measured maximum times 1000 (≈ 2^10), rounded up to a power of two.  With these constants
  1 026 879 evaluations (`-tier thorough -seed 21`) were all accepted by the certificates. -/

def pow2 (k : Nat) : Int := (2 : Int) ^ k

/-- saleReturn: measured ≤ result·2^-53.02 resp. R·2^-97.7; granted result·2^-43 + R·2^-87 + 1. -/
def saleReturnTol (R r : Int) : Int := max r 0 / pow2 43 + R / pow2 87 + 1

/-- purchaseReturn: measured ≤ result·2^-47.8 resp. v·2^-99.0; granted result·2^-37 + v·2^-89 + 1. -/
def purchaseReturnTol (v r : Int) : Int := max r 0 / pow2 37 + v / pow2 89 + 1

/-- purchaseAmount: measured ≤ result·2^-43.88 resp. R·2^-96.3; granted result·2^-33 + R·2^-86 + 1. -/
def purchaseAmountTol (R r : Int) : Int := max r 0 / pow2 33 + R / pow2 86 + 1

/-- saleAmount: measured ≤ result·2^-53.2 resp. (v·R/(R−w))·2^-99.75; granted result·2^-43 + (v·R/(R−w))·2^-89 + 1. -/
def saleAmountTol (v R w r : Int) : Int := max r 0 / pow2 43 + (v * R / max (R - w) 1) / pow2 89 + 1

/-- (kept for older callers) 2⁻⁷⁰ relative to the larger operand magnitude, at least 1 pip. -/
def bancorTol (scale : Int) : Int := scale / 1180591620717411303424 + 1

/-! ### Direct monitors (decidable forms of the C12 clauses, evaluated on the results of the real code) -/

/-- Results never decrease when the amount grows (exact, no tolerance). -/
def bancorMonoOk (a a' r r' : Int) : Bool := decide (a ≤ a' → r ≤ r')

/-- A sale never returns more than the reserve and nothing is negative (exact, no tolerance). -/
def bancorRangeOk (isSaleReturn : Bool) (R r : Int) : Bool := decide (0 ≤ r) && (!isSaleReturn || decide (r ≤ R))

/-- Buy `r` coins for `d`, sell them in the updated coin `(v+r, R+d)` for `s`: `s ≤ d` up to the tolerances of the two
    conversions, the purchase tolerance converted into reserve units by the bound of `roundTrip_purchaseReturn_saleReturn`:
    `(s − δ' − d)·(v + r) ≤ 100·δ·R`. -/
def bancorRoundTripOk (v R d r s : Int) : Bool :=
  decide ((s - saleReturnTol (R + d) s - d) * (v + r) ≤ 100 * purchaseReturnTol v r * R)

/-- Buy exactly `w` coins for `p`, sell them in the updated coin `(v+w, R+p)` for `s`: `s ≤ p + δ + δ'`
    (`roundTrip_purchaseAmount_saleReturn`). -/
def bancorRoundTripAmountOk (R p s : Int) : Bool :=
  decide (s ≤ p + purchaseAmountTol R p + saleReturnTol (R + p) s)

end Minter
