import MinterModel.Tx
/-
  BeginBlock (coreV2/minter/blockchain.go) — the value-relevant part, in the order of the code:

    1. `blockchain.rewards.SetInt64(0)`                                  (fee pool of the block := 0)
    2. for every vote of `LastCommitInfo` in order:
         signed  → `Validators.SetValidatorPresent(height, addr)`        (clear bit `height % 24`)
         missing → `Validators.SetValidatorAbsent(height, addr, grace)`  (set the bit; when more than 12 of the 24 bits are
                    set: `Candidates.Punish` = jail until `height + jail` unless `grace.IsGraceBlock(height)`, then
                    `turnValidatorOff` = fresh bit array, `toDrop`, candidate offline — the latter also inside a grace period)
    3. for every byzantine validator of the request in order, unless there is no candidate / the candidate is offline /
       there is no validator with that Tendermint address / that validator is already marked to drop:
         `FrozenFunds.PunishFrozenFundsWithID(height, height+unbond, candidate.ID)`, `Validators.PunishByzantineValidator`,
         `Candidates.PunishByzantineCandidate(height, addr)`
    4. frozen funds stored under `height`: credit the owner (`MoveToCandidateID == 0`) or `Candidates.Delegate` an *update*
       with bip value 0 to the target candidate — or, when the target candidate no longer exists, re-freeze the coins as an
       unbond due `height + unbond` (fix 0ed8cf3); then `FrozenFunds.Delete(height)`.

  Not modelled (no effect on the components compared): reward/price update, max gas, `calculatePowers`, the halt / version
  stops (the harness reports those with an `H` line instead of `S begin`), `Halts.Delete`, events DB, the checker.

  Identification of a candidate by Tendermint address: the state keeps `tmAddr` on validators only.  The code looks the
  *candidate* up by Tendermint address and the validator separately; the address is a hash of the public key, so the model
  finds the validator by address and the candidate by that validator's public key (trusted: the hash is injective on the
  keys present).
  `PunishFrozenFundsWithID` walks heights `h … h+unbond` in increasing order; the model walks `State.frozen` in list order,
  which is the same order when the list is sorted by height (as `State.ofDump` and `Export` produce it).  The order only
  matters for the arguments of the float `CalculateSaleReturn` questions.
  Core Lean only.
-/
namespace Minter

/-- `abci.RequestBeginBlock`, the parts BeginBlock reads. -/
structure BeginReq where
  height : Nat := 0
  votes : List (Nat × Bool) := []     -- `LastCommitInfo.Votes` in order: (validator address, `SignedLastBlock`)
  byz : List Nat := []                -- `ByzantineValidators` in order
  deriving Repr

/-- Events BeginBlock hands to the events DB, in order. -/
inductive BEvent where
  | jail (pk : PubKey) (jailedUntil : Nat)
  | slash (addr : Addr) (amount : Int) (coin : Coin) (pk : PubKey)
  | unbond (addr : Addr) (amount : Int) (coin : Coin) (pk : PubKey)
  | unlock (addr : Addr) (amount : Int) (coin : Coin)
  | move (addr : Addr) (amount : Int) (coin : Coin) (fromPk toPk : PubKey)
  deriving Repr, DecidableEq

/-! ### Grace periods (`upgrades.Grace`) -/

/-- `Grace.IsGraceBlock` over a list of periods `(from, to)`, both ends inclusive. -/
def isGraceBlock (periods : List (Nat × Nat)) (h : Nat) : Bool :=
  periods.any (fun p => decide (p.1 ≤ h) && decide (h ≤ p.2))

/-- The periods the node builds (`initState` and EndBlock): 120 blocks from the start height and from every version height. -/
def nodeGracePeriods (start : Nat) (versionHeights : List Nat) : List (Nat × Nat) :=
  (start, start + 120) :: versionHeights.map (fun v => (v, v + 120))

/-- Heights out of the dump value `db versions` = `name@height,name@height…`. -/
def versionHeightsOf (s : String) : List Nat :=
  (s.splitOn ",").filterMap (fun e => match e.splitOn "@" with
    | [_, h] => some (natD h)
    | _ => none)

/-! ### Absence accounting (`Validators.SetValidatorPresent/Absent`) -/

def absentWindow : Nat := 24      -- `ValidatorMaxAbsentWindow`
def maxAbsentTimes : Nat := 12    -- `validatorMaxAbsentTimes`

/-- `Validator.CountAbsentTimes`: set bits among the first 24. -/
def countAbsent (bits : List Bool) : Nat := ((bits.take absentWindow).filter id).length

/-- `types.NewBitArray(24)`. -/
def freshBits : List Bool := List.replicate absentWindow false

def valByTm (a : Nat) (v : Validator) : Bool := v.tmAddr == a
def candByPub (pk : PubKey) (c : Candidate) : Bool := c.pubkey == pk

def setPresent (h : Nat) (a : Nat) (s : State) : State :=
  { s with validators := updFirst (valByTm a) (fun v => { v with absent := v.absent.set (h % absentWindow) false }) s.validators }

/-- The candidate after `Candidates.Punish` (unless grace) and `Candidates.SetOffline`. -/
def switchOff (jail : Nat) (h : Nat) (grace : Bool) (c : Candidate) : Candidate :=
  { c with status := 1, jailedUntil := if grace then c.jailedUntil else h + jail }

/-- `Validator.SetAbsent(h)`: the bits with bit `h % 24` set. -/
def absentBits (h : Nat) (v : Validator) : List Bool := v.absent.set (h % absentWindow) true

/-- `validator.CountAbsentTimes() > validatorMaxAbsentTimes` after `SetAbsent(h)`. -/
def crossedAbsent (h : Nat) (v : Validator) : Bool := decide (countAbsent (absentBits h v) > maxAbsentTimes)

def setAbsent (P : Params) (h : Nat) (grace : Bool) (a : Nat) (s : State) : M (State × List BEvent) :=
  match findFirst (valByTm a) s.validators with
  | none => .ok (s, [])
  | some v =>
    if crossedAbsent h v then
      match findFirst (candByPub v.pubkey) s.candidates with
      | none => .error (.panic "SetValidatorAbsent: validator without a candidate")
      | some c =>
        .ok ({ s with
                candidates := updFirst (candByPub v.pubkey) (switchOff P.jail h grace) s.candidates,
                validators := updFirst (valByTm a) (fun v => { v with absent := freshBits, toDrop := true }) s.validators },
             if grace then [] else [.jail c.pubkey (h + P.jail)])
    else
      .ok ({ s with validators := updFirst (valByTm a) (fun w => { w with absent := absentBits h v }) s.validators }, [])

def absencePhase (P : Params) (h : Nat) (grace : Bool) : List (Nat × Bool) → State → M (State × List BEvent)
  | [], s => .ok (s, [])
  | (a, true) :: t, s => absencePhase P h grace t (setPresent h a s)
  | (a, false) :: t, s =>
    match setAbsent P h grace a s with
    | .error e => .error e
    | .ok (s1, e1) =>
      match absencePhase P h grace t s1 with
      | .error e => .error e
      | .ok (s2, e2) => .ok (s2, e1 ++ e2)

/-! ### Byzantine punishment -/

/-- What is left of a slashed amount: `value * 95 / 100` (big.Int `Mul`, `Div`). -/
def byzKeep (v : Int) : Int := v * 95 / 100
/-- What a byzantine slash takes: `value − value*95/100`. -/
def byzCut (v : Int) : Int := v - byzKeep v

/-- The pots a slash pays into / takes from. -/
structure ByzPots where
  coins : List CoinInfo
  slashed : Int
  deriving Repr

def coinById (c : Coin) (ci : CoinInfo) : Bool := ci.id == c

/-- The pot side of slashing `v` of `coin`: base coin → total slashed += cut; other coins → volume −= cut,
    reserve −= `CalculateSaleReturn(volume, reserve, crr, cut)`, total slashed += that return. -/
def slashPots (o : Oracle) (coin : Coin) (v : Int) (p : ByzPots) : M ByzPots :=
  if coin = 0 then .ok { p with slashed := p.slashed + byzCut v }
  else
    match findFirst (coinById coin) p.coins with
    | none => .error (.panic "byzantine slash of an unknown coin")
    | some ci =>
      match o (.saleReturn ci.volume ci.reserve ci.crr (byzCut v)) with
      | none => .error (.need (.saleReturn ci.volume ci.reserve ci.crr (byzCut v)))
      | some ret =>
        .ok { coins := updFirst (coinById coin) (fun ci => { ci with volume := ci.volume - byzCut v, reserve := ci.reserve - ret }) p.coins,
              slashed := p.slashed + ret }

/-- `item.CandidateID == candidateID` for the heights `from … to`. -/
def inWindow (lo hi cid : Nat) (f : Frozen) : Bool := f.candId == cid && decide (lo ≤ f.height) && decide (f.height ≤ hi)

/-- `FrozenFunds.PunishFrozenFundsWithID(lo, hi, cid)`. -/
def punishFrozen (o : Oracle) (lo hi cid : Nat) : List Frozen → ByzPots → M (List Frozen × ByzPots × List BEvent)
  | [], p => .ok ([], p, [])
  | f :: t, p =>
    if inWindow lo hi cid f then
      match f.candKey with
      | none => .error (.panic "PunishFrozenFundsWithID: nil CandidateKey")
      | some k =>
        match slashPots o f.coin f.value p with
        | .error e => .error e
        | .ok p1 =>
          match punishFrozen o lo hi cid t p1 with
          | .error e => .error e
          | .ok (t', p2, ev) => .ok ({ f with value := byzKeep f.value } :: t', p2, .slash f.addr (byzCut f.value) f.coin k :: ev)
    else
      match punishFrozen o lo hi cid t p with
      | .error e => .error e
      | .ok (t', p2, ev) => .ok (f :: t', p2, ev)

/-- The pot side of `PunishByzantineCandidate` over the stakes in slot order. -/
def punishStakes (o : Oracle) : List Stake → ByzPots → M ByzPots
  | [], p => .ok p
  | st :: t, p =>
    match slashPots o st.coin st.value p with
    | .error e => .error e
    | .ok p1 => punishStakes o t p1

/-- The unbonding fund `PunishByzantineCandidate` creates for the rest of a stake. -/
def remainderFund (unbond : Nat) (h : Nat) (c : Candidate) (st : Stake) : Frozen :=
  { height := h + unbond, addr := st.owner, candKey := some c.pubkey, candId := c.id, coin := st.coin,
    value := byzKeep st.value, moveTo := 0 }

def zeroStake (st : Stake) : Stake := { st with value := 0 }

/-- Whom an evidence entry punishes: `none` = skipped (no validator with that address, validator already marked to drop
    — e.g. punished by an earlier evidence entry of this block —, no candidate, candidate offline). -/
def byzTarget (a : Nat) (s : State) : Option (Validator × Candidate) :=
  match findFirst (valByTm a) s.validators with
  | none => none
  | some v =>
    if v.toDrop then none else
    match findFirst (candByPub v.pubkey) s.candidates with
    | none => none
    | some c => if c.status = 1 then none else some (v, c)

/-- One entry of `req.ByzantineValidators`. -/
def byzStep (P : Params) (o : Oracle) (h : Nat) (a : Nat) (s : State) : M (State × List BEvent) :=
  match byzTarget a s with
  | none => .ok (s, [])
  | some (v, c) =>
    match punishFrozen o h (h + P.unbond) c.id s.frozen ⟨s.coins, s.slashed⟩ with
    | .error e => .error e
    | .ok (fr, p1, ev1) =>
      match punishStakes o c.stakes p1 with
      | .error e => .error e
      | .ok p2 =>
        .ok ({ s with
                frozen := fr ++ c.stakes.map (remainderFund P.unbond h c),
                coins := p2.coins,
                slashed := p2.slashed,
                validators := updFirst (valByTm a) (fun v => { v with totalBip := 0, toDrop := true }) s.validators,
                candidates := updFirst (candByPub v.pubkey) (fun c => { c with stakes := c.stakes.map zeroStake }) s.candidates },
             ev1 ++ c.stakes.map (fun st => .slash st.owner (byzCut st.value) st.coin c.pubkey))

def byzPhase (P : Params) (o : Oracle) (h : Nat) : List Nat → State → M (State × List BEvent)
  | [], s => .ok (s, [])
  | a :: t, s =>
    match byzStep P o h a s with
    | .error e => .error e
    | .ok (s1, e1) =>
      match byzPhase P o h t s1 with
      | .error e => .error e
      | .ok (s2, e2) => .ok (s2, e1 ++ e2)

/-! ### Frozen funds due at this height -/

def candById (id : Nat) (c : Candidate) : Bool := c.id == id

/-- The fund a matured move becomes when its target candidate is gone: an unbond of the stake it came from, due one unbond
    period after this height (`FrozenFunds.AddFund(height+unbond, item.Address, item.CandidateKey, item.CandidateID, item.Coin, amount, 0)`). -/
def refreeze (unbond h : Nat) (f : Frozen) : Frozen := { f with height := h + unbond, moveTo := 0 }

/-- One matured item at height `h`: owner's balance (`MoveToCandidateID == 0`); else, when `Candidates.Exists(PubKey(id))`,
    an update (bip value 0) on the target candidate; else (target removed while the move was in flight) re-frozen as an unbond. -/
def matureOne (unbond h : Nat) (f : Frozen) (s : State) : M (State × List BEvent) :=
  if f.moveTo = 0 then
    .ok ({ s with balances := Bag.add s.balances (f.addr, f.coin) f.value },
         [match f.candKey with
          | some k => .unbond f.addr f.value f.coin k
          | none => .unlock f.addr f.value f.coin])
  else
    match findFirst (candById f.moveTo) s.candidates with
    | none => .ok ({ s with frozen := s.frozen ++ [refreeze unbond h f] }, [])
    | some c =>
      match f.candKey with
      | none => .error (.panic "StakeMoveEvent: nil CandidateKey")
      | some k =>
        .ok ({ s with candidates := updFirst (candById f.moveTo)
                        (fun c => { c with updates := c.updates ++ [{ owner := f.addr, coin := f.coin, value := f.value, bip := 0 }] }) s.candidates },
             [.move f.addr f.value f.coin k c.pubkey])

def matureAll (unbond h : Nat) : List Frozen → State → M (State × List BEvent)
  | [], s => .ok (s, [])
  | f :: t, s =>
    match matureOne unbond h f s with
    | .error e => .error e
    | .ok (s1, e1) =>
      match matureAll unbond h t s1 with
      | .error e => .error e
      | .ok (s2, e2) => .ok (s2, e1 ++ e2)

def dueAt (h : Nat) (f : Frozen) : Bool := f.height == h

/-- Apply the funds stored under `h` (the list as it is when the loop starts), then `FrozenFunds.Delete(h)`. -/
def maturityPhase (unbond h : Nat) (s : State) : M (State × List BEvent) :=
  match matureAll unbond h (s.frozen.filter (dueAt h)) s with
  | .error e => .error e
  | .ok (s1, ev) => .ok ({ s1 with frozen := s1.frozen.filter (fun f => !dueAt h f) }, ev)

/-! ### BeginBlock -/

def beginBlock (P : Params) (o : Oracle) (s : State) (r : BeginReq) (grace : Bool) : M (State × List BEvent) :=
  match absencePhase P r.height grace r.votes { s with rewardsPool := 0 } with
  | .error e => .error e
  | .ok (sA, evA) =>
    match byzPhase P o r.height r.byz sA with
    | .error e => .error e
    | .ok (sB, evB) =>
      match maturityPhase P.unbond r.height sB with
      | .error e => .error e
      | .ok (sC, evC) => .ok (sC, evA ++ (evB ++ evC))

/-- Candidate ids punished by the evidence of a block, in order (with repetitions), on the state after absence accounting. -/
def byzPunishedIds (P : Params) (o : Oracle) (h : Nat) : List Nat → State → List Nat
  | [], _ => []
  | a :: t, s =>
    let hit : List Nat := match byzTarget a s with
      | none => []
      | some (_, c) => [c.id]
    match byzStep P o h a s with
    | .error _ => hit
    | .ok (s1, _) => hit ++ byzPunishedIds P o h t s1

/-! ### Transaction side of C16/C18: the validations and the fund a successful transaction creates
    (the commission / stake-sufficiency part of the `Run` methods is modelled elsewhere). -/

/-- `Accounts.GetLockStakeUntilBlock`. -/
def lockStakeUntil (s : State) (a : Addr) : Nat := (s.lockStake.lookup a).getD 0

-- (integration: named `begin…` because `TxStake.lean` now defines `candByKey` / `candIdOf` with the same meaning)
def beginCandByKey (s : State) (pk : PubKey) : Option Candidate := findFirst (candByPub pk) s.candidates

/-- `Candidates.ID(pubkey)`: live candidates, then deleted ones, else 0. -/
def beginCandIdOf (s : State) (pk : PubKey) : Nat :=
  match beginCandByKey s pk with
  | some c => c.id
  | none => match findFirst (fun d => d.2 == pk) s.deleted with
    | some d => d.1
    | none => 0

/-- `UnbondDataV3.Run`: 416 while the sender's stake is locked, 102 for an unknown coin; the fund of an accepted unbond. -/
def unbondFund (P : Params) (s : State) (sender : Addr) (pk : PubKey) (coin : Coin) (value : Int) (block : Nat) : Except Nat Frozen :=
  if lockStakeUntil s sender > block then .error 416
  else if !coinExists s coin then .error 102
  else .ok { height := block + P.unbond, addr := sender, candKey := some pk, candId := beginCandIdOf s pk, coin := coin, value := value, moveTo := 0 }

/-- `MoveStakeData.Run`: 417 for equal keys, 403 when the target is not a candidate, 102 for an unknown coin. -/
def moveFund (P : Params) (s : State) (sender : Addr) (fromPk toPk : PubKey) (coin : Coin) (value : Int) (block : Nat) : Except Nat Frozen :=
  if fromPk = toPk then .error 417
  else match beginCandByKey s toPk with
    | none => .error 403
    | some c =>
      if !coinExists s coin then .error 102
      else .ok { height := block + P.move, addr := sender, candKey := some fromPk, candId := beginCandIdOf s fromPk, coin := coin, value := value, moveTo := c.id }

/-- `LockData.Run`: 123 unless the due block is in the future, 102 for an unknown coin. -/
def lockFund (s : State) (sender : Addr) (due : Nat) (coin : Coin) (value : Int) (block : Nat) : Except Nat Frozen :=
  if due ≤ block then .error 123
  else if !coinExists s coin then .error 102
  else .ok { height := due, addr := sender, candKey := none, candId := 0, coin := coin, value := value, moveTo := 0 }

/-- `Candidates.DeleteCandidate(height, candidate)`: every stake and update becomes an unbonding fund. -/
def removalFunds (unbond : Nat) (h : Nat) (c : Candidate) : List Frozen :=
  (c.stakes ++ c.updates).map (fun st =>
    { height := h + unbond, addr := st.owner, candKey := some c.pubkey, candId := c.id, coin := st.coin, value := st.value, moveTo := 0 })

/-- `Candidates.IsCandidateJailed(pubkey, block)`. -/
def isJailed (c : Candidate) (block : Nat) : Bool := decide (c.jailedUntil ≥ block)

/-- `SetCandidateOnData.Run` validations (without the commission part, which can only add other error codes):
    403 unknown candidate, 406 sender neither owner nor control address, 414 jailed. `none` = accepted. -/
def setCandidateOnCheck (s : State) (sender : Addr) (pk : PubKey) (block : Nat) : Option Nat :=
  match beginCandByKey s pk with
  | none => some 403
  | some c =>
    if sender ≠ c.owner ∧ sender ≠ c.control then some 406
    else if isJailed c block then some 414
    else none

/-! ### Comparison with the node's observation -/

def beginFmtBits (l : List Bool) : String := String.ofList (l.map (fun b => if b then '1' else '0'))

def beginFmtFrozen (f : Frozen) : String :=
  s!"h={f.height} addr={f.addr} key={f.candKey} cand={f.candId} coin={f.coin} value={f.value} moveTo={f.moveTo}"

def beginFmtStake (st : Stake) : String := s!"{st.owner}/{st.coin}/{st.value}/{st.bip}"

/-- Frozen funds in export order: by height, insertion order within a height. -/
def beginNormFrozen (l : List Frozen) : List Frozen := sortBy (fun a b => a.height < b.height) l

def beginZipDiff {α : Type} [BEq α] (fmt : α → String) (tag : String) : Nat → List α → List α → List String
  | _, [], [] => []
  | i, x :: t, [] => s!"{tag}[{i}] model={fmt x} go=absent" :: beginZipDiff fmt tag (i + 1) t []
  | i, [], y :: t => s!"{tag}[{i}] model=absent go={fmt y}" :: beginZipDiff fmt tag (i + 1) [] t
  | i, x :: t, y :: u => (if x == y then [] else [s!"{tag}[{i}] model={fmt x} go={fmt y}"]) ++ beginZipDiff fmt tag (i + 1) t u

/-- Every difference between the model's state `m` and the node's state `g` on what BeginBlock may touch, each with the
    property it belongs to (balances, frozen funds, updates: C16; statuses, jail, validators, stakes, coins, slashed pool: C18). -/
def beginDiff (withUpdates : Bool) (m g : State) : List String := Id.run do
  let mut out : List String := []
  -- balances
  let keys := ((m.balances.map (·.1)) ++ (g.balances.map (·.1))).eraseDups
  for k in keys do
    let a := Bag.get m.balances k; let b := Bag.get g.balances k
    if a != b then out := s!"C16 balance addr={k.1} coin={k.2} model={a} go={b}" :: out
  -- frozen funds
  out := (beginZipDiff beginFmtFrozen "C16 frozen" 0 (beginNormFrozen m.frozen) (beginNormFrozen g.frozen)).reverse ++ out
  -- candidates
  for c in m.candidates do
    match findFirst (candById c.id) g.candidates with
    | none => out := s!"C18 candidate {c.id} model=present go=absent" :: out
    | some d =>
      if c.status != d.status then out := s!"C18 candidate {c.id} status model={c.status} go={d.status}" :: out
      if c.jailedUntil != d.jailedUntil then out := s!"C18 candidate {c.id} jailedUntil model={c.jailedUntil} go={d.jailedUntil}" :: out
      if c.totalBip != d.totalBip then out := s!"C18 candidate {c.id} totalBip model={c.totalBip} go={d.totalBip}" :: out
      out := (beginZipDiff beginFmtStake s!"C18 candidate {c.id} stake" 0 c.stakes d.stakes).reverse ++ out
      if withUpdates then out := (beginZipDiff beginFmtStake s!"C16 candidate {c.id} update" 0 c.updates d.updates).reverse ++ out
  for d in g.candidates do
    if !(m.candidates.any (candById d.id)) then out := s!"C18 candidate {d.id} model=absent go=present" :: out
  -- validators
  for v in m.validators do
    match findFirst (fun w => w.pubkey == v.pubkey) g.validators with
    | none => out := s!"C18 validator {v.pubkey} model=present go=absent" :: out
    | some w =>
      if v.absent != w.absent then out := s!"C18 validator {v.pubkey} absent model={beginFmtBits v.absent} go={beginFmtBits w.absent}" :: out
      if v.toDrop != w.toDrop then out := s!"C18 validator {v.pubkey} toDrop model={v.toDrop} go={w.toDrop}" :: out
      if v.totalBip != w.totalBip then out := s!"C18 validator {v.pubkey} totalBip model={v.totalBip} go={w.totalBip}" :: out
      if v.accum != w.accum then out := s!"C18 validator {v.pubkey} accum model={v.accum} go={w.accum}" :: out
  for w in g.validators do
    if !(m.validators.any (fun v => v.pubkey == w.pubkey)) then out := s!"C18 validator {w.pubkey} model=absent go=present" :: out
  -- coins
  for ci in m.coins do
    match findFirst (coinById ci.id) g.coins with
    | none => out := s!"C18 coin {ci.id} model=present go=absent" :: out
    | some cj =>
      if ci.volume != cj.volume then out := s!"C18 coin {ci.id} volume model={ci.volume} go={cj.volume}" :: out
      if ci.reserve != cj.reserve then out := s!"C18 coin {ci.id} reserve model={ci.reserve} go={cj.reserve}" :: out
  if m.slashed != g.slashed then out := s!"C18 slashed model={m.slashed} go={g.slashed}" :: out
  if m.rewardsPool != g.rewardsPool then out := s!"C16 rewards model={m.rewardsPool} go={g.rewardsPool}" :: out
  return out.reverse

/-- Run the model on `old` and list every difference from `new` (the node's state after BeginBlock) as
    `MISMATCH <property> begin h=<height> <what>`.  A candidate punished twice in one block is reported as a C18 violation
    (the model mirrors the node, so this monitor — not a mismatch — is what shows a missing `punish_once`). -/
def beginCompare (P : Params) (o : Oracle) (old new : State) (r : BeginReq) (grace : Bool) (withUpdates : Bool := true) : M (List String) :=
  match beginBlock P o old r grace with
  | .error e => .error e
  | .ok (m, _) =>
    let diffs := (beginDiff withUpdates m new).map (fun d =>
      match d.splitOn " " with
      | tag :: rest => s!"MISMATCH {tag} begin h={r.height} {" ".intercalate rest}"
      | [] => s!"MISMATCH begin h={r.height}")
    let ids :=
      match absencePhase P r.height grace r.votes { old with rewardsPool := 0 } with
      | .ok (sA, _) => byzPunishedIds P o r.height r.byz sA
      | .error _ => []
    let dup := ids.filter (fun i => ids.count i > 1)
    .ok (diffs ++ (if dup.isEmpty then [] else [s!"VIOL C18 candidate-punished-twice-in-one-block h={r.height} ids={dup.eraseDups}"]))

/-- Tie of the transaction-side functions to the node: evaluated on every delivered Unbond (8), SetCandidateOn (10),
    MoveStake (27) and Lock (38) with the node's state before and after the transaction and the node's response code.
    * node accepted ⇒ the model function accepts and the fund it predicts is new in the node's state;
    * the model function rejects ⇒ the node rejected;
    * the node answered with the code of one of the modelled checks ⇒ the model gives the same code. -/
def stakingTxMonitor (P : Params) (old new : State) (t : TxIn) (goCode : Nat) (block : Nat) : List String :=
  let fundCheck (name : String) (r : Except Nat Frozen) (own : List Nat) : List String :=
    match r with
    | .ok f =>
      (if goCode == 0 && new.frozen.count f ≤ old.frozen.count f then
        [s!"MISMATCH C16 staking-tx {name} accepted but the predicted fund is not new: {beginFmtFrozen f}"] else [])
      ++ (if own.contains goCode then [s!"MISMATCH C16 staking-tx {name} model=accepted go={goCode}"] else [])
    | .error c =>
      (if goCode == 0 then [s!"MISMATCH C16 staking-tx {name} model={c} go=accepted"] else [])
      ++ (if own.contains goCode && goCode != c then [s!"MISMATCH C16 staking-tx {name} model={c} go={goCode}"] else [])
  if !t.dec then [] else
  if t.typ == 8 then
    fundCheck "unbond" (unbondFund P old t.sender (t.hex "d.PubKey") (t.nat "d.Coin") (t.int "d.Value") block) [416]
  else if t.typ == 27 then
    fundCheck "move" (moveFund P old t.sender (t.hex "d.FromPubKey") (t.hex "d.ToPubKey") (t.nat "d.Coin") (t.int "d.Value") block) [417]
  else if t.typ == 38 then
    fundCheck "lock" (lockFund old t.sender (t.nat "d.DueBlock") (t.nat "d.Coin") (t.int "d.Value") block) [123]
  else if t.typ == 10 then
    match setCandidateOnCheck old t.sender (t.hex "d.PubKey") block with
    | none => if goCode == 414 then [s!"MISMATCH C18 staking-tx set-on model=not-jailed go=414"] else []
    | some c =>
      (if goCode == 0 then [s!"MISMATCH C18 staking-tx set-on model={c} go=accepted"] else [])
      ++ (if goCode == 414 && c != 414 then [s!"MISMATCH C18 staking-tx set-on model={c} go=414"] else [])
  else []

/-- Kernel questions of this component (`Q <fn> <args…> = <result of the real code>`). -/
def beginEvalQ (fn : String) (args : List String) : Option String :=
  match fn, args with
  | "absent", [bits, h] =>
    -- `Validator.SetAbsent(h)` then `CountAbsentTimes()` on a 24-bit array
    let b := (bits.toList.map (· == '1')).set (natD h % absentWindow) true
    some s!"{beginFmtBits b},{countAbsent b}"
  | "present", [bits, h] =>
    let b := (bits.toList.map (· == '1')).set (natD h % absentWindow) false
    some s!"{beginFmtBits b},{countAbsent b}"
  | "grace", [periods, h] =>
    -- `upgrades.Grace.IsGraceBlock` over `from:to,from:to…`
    let ps := (if periods == "-" then [] else periods.splitOn ",").filterMap (fun e => match e.splitOn ":" with
      | [a, b] => some (natD a, natD b)
      | _ => none)
    some (if isGraceBlock ps (natD h) then "1" else "0")
  | "jailed", [untilS, block] =>
    -- `Candidates.IsCandidateJailed`
    let c : Candidate := { id := 0, pubkey := 0, owner := 0, reward := 0, control := 0, commission := 0, status := 1,
                           jailedUntil := natD untilS, lastEditCommission := 0, totalBip := 0, stakes := [], updates := [] }
    some (if isJailed c (natD block) then "1" else "0")
  | _, _ => none

end Minter
