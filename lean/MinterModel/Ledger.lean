import MinterModel.State
/-
  L1: ledger primitives.  Everything the node does to value is a sequence of `Prim`s.
  Each primitive has a side condition `ok` (the entry it touches exists) and a *declared effect* on
  holdings / volume / base-coin side pots that does not depend on the state.  `applyChecked` refuses a
  primitive whose side condition fails (the model then reports a FAULT instead of silently doing nothing).
  The accounting lemmas (MinterProofs/Ledger.lean) show checked application realises exactly the declared effect.
-/
namespace Minter

def updFirst {α : Type} (p : α → Bool) (f : α → α) : List α → List α
  | [] => []
  | x :: t => if p x then f x :: t else x :: updFirst p f t

def eraseFirst {α : Type} (p : α → Bool) : List α → List α
  | [] => []
  | x :: t => if p x then t else x :: eraseFirst p t

def findFirst {α : Type} (p : α → Bool) : List α → Option α
  | [] => none
  | x :: t => if p x then some x else findFirst p t

inductive Prim where
  | addBal (a : Addr) (c : Coin) (v : Int)
  | addVolume (c : Coin) (v : Int)
  | addReserve (c : Coin) (v : Int)
  | setNonce (a : Addr) (n : Nat)
  | createCoin (ci : CoinInfo)
  | addPool (c0 c1 : Coin) (d0 d1 : Int)
  | createPool (p : Pool)
  | addRewards (v : Int)
  | addSlashed (v : Int)
  | addAccum (pk : PubKey) (v : Int)
  | addEmission (v : Int)
  | addStake (cand : Nat) (owner : Addr) (coin : Coin) (v : Int)
  | newStake (cand : Nat) (st : Stake)
  | delStake (cand : Nat) (st : Stake)
  | pushUpdate (cand : Nat) (st : Stake)
  | addWait (w : WaitEntry)
  | delWait (w : WaitEntry)
  | addFrozen (f : Frozen)
  | delFrozen (f : Frozen)
  | addOrder (o : Order)
  | delOrder (o : Order)
  | fillOrder (o : Order) (d0 d1 : Int)     -- `o` is the order before the fill; v0 -= d0, v1 -= d1
  | useCheck (h : String)
  | setCoinOwner (sym : String) (a : Addr)
  | bumpVersion (c : Coin) (v : Nat)
  | note (tag : String)                     -- bookkeeping without value
  -- settings without value (candidates, multisigs, stake lock, votes, order counter)
  | setLockStake (a : Addr) (h : Height)
  | setMultisig (a : Addr) (ms : Multisig)
  | addCandidate (cd : Candidate)           -- stakes and updates of `cd` are ignored (a new candidate holds nothing)
  | setCandStatus (id : Nat) (status : Nat)
  | setToDrop (pk : PubKey)
  | editCandidate (id : Nat) (owner reward control : Addr)
  | setCandPubKey (id : Nat) (old new : PubKey)
  | setCandCommission (id : Nat) (commission : Nat) (h : Height)
  | addHalt (h : Height) (pk : PubKey)
  | addCVote (h : Height) (pk : PubKey) (digest : String)
  | addUVote (h : Height) (pk : PubKey) (version : String)
  | setNextOrder (n : Nat)
  deriving Repr

def nonceOf (s : State) (a : Addr) : Nat := (s.nonces.lookup a).getD 0

def setAssoc {κ β : Type} [BEq κ] (l : List (κ × β)) (k : κ) (v : β) : List (κ × β) :=
  (k, v) :: l.filter (fun e => !(e.1 == k))

def coinExists (s : State) (c : Coin) : Bool := c == 0 || s.coins.any (·.id == c)
def getCoin (s : State) (c : Coin) : Option CoinInfo := findFirst (·.id == c) s.coins
def getPool (s : State) (c0 c1 : Coin) : Option Pool := findFirst (fun p => p.c0 == c0 && p.c1 == c1) s.pools
def balanceOf (s : State) (a : Addr) (c : Coin) : Int := Bag.get s.balances (a, c)
def getCand (s : State) (id : Nat) : Option Candidate := findFirst (·.id == id) s.candidates

def stakeKey (owner : Addr) (coin : Coin) (st : Stake) : Bool := st.owner == owner && st.coin == coin

/-- Side condition of a primitive. -/
def Prim.ok (s : State) : Prim → Bool
  | .addVolume c _ => s.coins.any (·.id == c)
  | .addReserve c _ => s.coins.any (·.id == c)
  | .createCoin ci => !(s.coins.any (·.id == ci.id))
  | .addPool c0 c1 _ _ => s.pools.any (fun p => p.c0 == c0 && p.c1 == c1)
  | .createPool p => !(s.pools.any (fun q => q.c0 == p.c0 && q.c1 == p.c1))
  | .addAccum pk _ => s.validators.any (·.pubkey == pk)
  | .addStake cand owner coin _ =>
      match getCand s cand with
      | some cd => cd.stakes.any (stakeKey owner coin)
      | none => false
  | .newStake cand _ => s.candidates.any (·.id == cand)
  | .delStake cand st =>
      match getCand s cand with
      | some cd => decide (findFirst (stakeKey st.owner st.coin) cd.stakes = some st)
      | none => false
  | .pushUpdate cand _ => s.candidates.any (·.id == cand)
  | .delWait w => decide (findFirst (fun x => x.cand == w.cand && x.owner == w.owner && x.coin == w.coin) s.waitlist = some w)
  | .delFrozen f => decide (findFirst (fun x => decide (x = f)) s.frozen = some f)
  | .delOrder o => decide (findFirst (·.id == o.id) s.orders = some o)
  | .fillOrder o _ _ => decide (findFirst (·.id == o.id) s.orders = some o)
  | .addCandidate cd => !(s.candidates.any (fun x => x.id == cd.id || x.pubkey == cd.pubkey))
  | .setCandStatus id _ => s.candidates.any (·.id == id)
  | .editCandidate id _ _ _ => s.candidates.any (·.id == id)
  | .setCandPubKey id _ _ => s.candidates.any (·.id == id)
  | .setCandCommission id _ _ => s.candidates.any (·.id == id)
  | _ => true

def Prim.apply (s : State) : Prim → State
  | .addBal a c v => { s with balances := Bag.add s.balances (a, c) v }
  | .addVolume c v => { s with coins := updFirst (·.id == c) (fun ci => { ci with volume := ci.volume + v }) s.coins }
  | .addReserve c v => { s with coins := updFirst (·.id == c) (fun ci => { ci with reserve := ci.reserve + v }) s.coins }
  | .setNonce a n => { s with nonces := setAssoc s.nonces a n }
  | .createCoin ci => { s with coins := s.coins ++ [ci], ncoins := s.ncoins + 1 }
  | .addPool c0 c1 d0 d1 => { s with pools := updFirst (fun p => p.c0 == c0 && p.c1 == c1) (fun p => { p with r0 := p.r0 + d0, r1 := p.r1 + d1 }) s.pools }
  | .createPool p => { s with pools := s.pools ++ [p] }
  | .addRewards v => { s with rewardsPool := s.rewardsPool + v }
  | .addSlashed v => { s with slashed := s.slashed + v }
  | .addAccum pk v => { s with validators := updFirst (·.pubkey == pk) (fun x => { x with accum := x.accum + v }) s.validators }
  | .addEmission v => { s with emission := s.emission + v }
  | .addStake cand owner coin v =>
      let f : Candidate → Candidate := fun cd => { cd with stakes := updFirst (stakeKey owner coin) (fun st => { st with value := st.value + v }) cd.stakes }
      { s with candidates := updFirst (·.id == cand) f s.candidates }
  | .newStake cand st => { s with candidates := updFirst (·.id == cand) (fun cd => { cd with stakes := cd.stakes ++ [st] }) s.candidates }
  | .delStake cand st => { s with candidates := updFirst (·.id == cand) (fun cd => { cd with stakes := eraseFirst (stakeKey st.owner st.coin) cd.stakes }) s.candidates }
  | .pushUpdate cand st => { s with candidates := updFirst (·.id == cand) (fun cd => { cd with updates := cd.updates ++ [st] }) s.candidates }
  | .addWait w => { s with waitlist := s.waitlist ++ [w] }
  | .delWait w => { s with waitlist := eraseFirst (fun x => x.cand == w.cand && x.owner == w.owner && x.coin == w.coin) s.waitlist }
  | .addFrozen f => { s with frozen := s.frozen ++ [f] }
  | .delFrozen f => { s with frozen := eraseFirst (fun x => decide (x = f)) s.frozen }
  | .addOrder o => { s with orders := s.orders ++ [o] }
  | .delOrder o => { s with orders := eraseFirst (·.id == o.id) s.orders }
  | .fillOrder o d0 d1 => { s with orders := updFirst (·.id == o.id) (fun x => { x with v0 := x.v0 - d0, v1 := x.v1 - d1 }) s.orders }
  | .useCheck h => { s with usedChecks := h :: s.usedChecks }
  | .setCoinOwner sym a => { s with coins := s.coins.map (fun ci => if ci.symbol == sym then { ci with owner := some a } else ci) }
  | .bumpVersion c v => { s with coins := updFirst (·.id == c) (fun ci => { ci with version := v }) s.coins }
  | .note _ => s
  | .setLockStake a h => { s with lockStake := setAssoc s.lockStake a h }
  | .setMultisig a ms => { s with multisigs := setAssoc s.multisigs a ms }
  | .addCandidate cd => { s with candidates := s.candidates ++ [{ cd with stakes := [], updates := [] }] }
  | .setCandStatus id st => { s with candidates := updFirst (·.id == id) (fun cd => { cd with status := st }) s.candidates }
  | .setToDrop pk => { s with validators := updFirst (·.pubkey == pk) (fun v => { v with toDrop := true }) s.validators }
  | .editCandidate id ow rw ct => { s with candidates := updFirst (·.id == id) (fun cd => { cd with owner := ow, reward := rw, control := ct }) s.candidates }
  | .setCandPubKey id old new => { s with candidates := updFirst (·.id == id) (fun cd => { cd with pubkey := new }) s.candidates, blocklist := old :: s.blocklist }
  | .setCandCommission id c h => { s with candidates := updFirst (·.id == id) (fun cd => { cd with commission := c, lastEditCommission := h }) s.candidates }
  | .addHalt h pk => { s with halts := (h, pk) :: s.halts }
  | .addCVote h pk dg => { s with cvotes := ((h, pk), dg) :: s.cvotes }
  | .addUVote h pk v => { s with uvotes := ((h, pk), v) :: s.uvotes }
  | .setNextOrder n => { s with nextOrder := n }

/-- Checked application of a plan: `none` as soon as a side condition fails. -/
def applyChecked : State → List Prim → Option State
  | s, [] => some s
  | s, p :: t => if p.ok s then applyChecked (p.apply s) t else none

def applyAll (s : State) (ps : List Prim) : State := ps.foldl Prim.apply s

/-! ### Declared effects (state independent) -/

def Prim.dHold (c : Coin) : Prim → Int
  | .addBal _ c' v => if c' = c then v else 0
  | .addPool c0 c1 d0 d1 => (if c0 = c then d0 else 0) + (if c1 = c then d1 else 0)
  | .createPool p => poolHoldings c p
  | .addStake _ _ coin v => if coin = c then v else 0
  | .newStake _ st => stakeOf c st
  | .delStake _ st => - stakeOf c st
  | .pushUpdate _ st => stakeOf c st
  | .addWait w => if w.coin = c then w.value else 0
  | .delWait w => - (if w.coin = c then w.value else 0)
  | .addFrozen f => if f.coin = c then f.value else 0
  | .delFrozen f => - (if f.coin = c then f.value else 0)
  | .addOrder o => orderEscrow c o
  | .delOrder o => - orderEscrow c o
  | .fillOrder o d0 d1 => - (if o.isSale then (if o.c1 = c then d1 else 0) else (if o.c0 = c then d0 else 0))
  | _ => 0

def Prim.dVol (c : Coin) : Prim → Int
  | .addVolume c' v => if c' = c then v else 0
  | .createCoin ci => if ci.id = c then ci.volume else 0
  | _ => 0

/-- Effect on Σ reserves + Σ accumulated rewards + slashed + rewards pool. -/
def Prim.dSide : Prim → Int
  | .addReserve _ v => v
  | .createCoin ci => ci.reserve
  | .addRewards v => v
  | .addSlashed v => v
  | .addAccum _ v => v
  | _ => 0

def Prim.dEmission : Prim → Int
  | .addEmission v => v
  | _ => 0

def sumHold (c : Coin) (ps : List Prim) : Int := sumBy (Prim.dHold c) ps
def sumVol (c : Coin) (ps : List Prim) : Int := sumBy (Prim.dVol c) ps
def sumSide (ps : List Prim) : Int := sumBy Prim.dSide ps
def sumEmission (ps : List Prim) : Int := sumBy Prim.dEmission ps

/-- Coins mentioned by a plan (where its holdings/volume effect can be non-zero). -/
def Prim.coins : Prim → List Coin
  | .addBal _ c _ => [c]
  | .addVolume c _ => [c]
  | .createCoin ci => [ci.id]
  | .addPool c0 c1 _ _ => [c0, c1]
  | .createPool p => [p.c0, p.c1]
  | .addStake _ _ c _ => [c]
  | .newStake _ st => [st.coin]
  | .delStake _ st => [st.coin]
  | .pushUpdate _ st => [st.coin]
  | .addWait w => [w.coin]
  | .delWait w => [w.coin]
  | .addFrozen f => [f.coin]
  | .delFrozen f => [f.coin]
  | .addOrder o => [o.c0, o.c1]
  | .delOrder o => [o.c0, o.c1]
  | .fillOrder o _ _ => [o.c0, o.c1]
  | _ => []

/-- Decidable balance test of a plan (used by the driver on every executed plan). -/
def balancedB (ps : List Prim) : Bool :=
  (ps.flatMap Prim.coins).all (fun c => c == 0 || decide (sumHold c ps = sumVol c ps))
  && decide (sumHold 0 ps + sumSide ps = sumEmission ps)

/-- Base-coin total including the in-memory rewards pool. -/
def baseTotalP (s : State) : Int := baseTotal s + s.rewardsPool

end Minter
