import MinterModel.Tx
/-
  The decidable state invariant of the transaction layer (`txInvB`), evaluable on any exported state.  `MinterProofs/Props/C07Tx.lean`
  proves that on states satisfying it no transaction makes `deliverTx` / `checkTx` stop at a Go panic site; the driver evaluates it on
  every committed state of every run (`VIOL C07 tx-invariant-broken …`), which ties the hypothesis of the theorem to the real node.
-/
namespace Minter

/-- No negative entry in the price table (entries come from unsigned RLP integers of VoteCommission or from the genesis). Since
    /repo 19af872 a negative PRICE (empty multisend list / short route under a table whose delta exceeds its base) is rejected
    before it reaches the pool arithmetic, so nothing else has to be asked of the table. -/
def priceTableOk (s : State) : Bool := s.commission.all (fun e => decide (0 ≤ e.2))

/-- Every pool has its LP token (version 0) with a positive supply (the first 1000 units are locked for ever). -/
def lpOk (s : State) : Bool :=
  s.pools.all (fun p => match coinBySymbolV0 s (lpSymbol p.id) with
    | some lp => decide (0 < lp.volume)
    | none => false)

/-- Pools are stored with sorted coin ids and no reserve exceeds the global supply cap. -/
def poolsShapeOk (P : Params) (s : State) : Bool :=
  s.pools.all (fun p => decide (p.c0 < p.c1) && decide (p.r0 ≤ P.maxSupply) && decide (p.r1 ≤ P.maxSupply))

/-- A price table denominated in a custom coin has its pool with the base coin. -/
def priceCoinOk (s : State) : Bool := priceCoin s == 0 || poolExists s (priceCoin s) 0

/-- Decidable state invariant of the transaction layer. -/
def txInvB (P : Params) (s : State) : Bool :=
  amountsOk s && poolsShapeOk P s && priceTableOk s && priceCoinOk s && lpOk s

/-- Names of the clauses of `txInvB` a state violates (for the driver's report). -/
def txInvBroken (P : Params) (s : State) : List String :=
  (if amountsOk s then [] else ["amounts"]) ++ (if poolsShapeOk P s then [] else ["pools-sorted-capped"]) ++
  (if priceTableOk s then [] else ["price-table"]) ++ (if priceCoinOk s then [] else ["price-coin-pool"]) ++
  (if lpOk s then [] else ["lp-token"])

end Minter
