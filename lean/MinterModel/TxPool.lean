import MinterModel.TxLedger
/-
  L2, part 6: swap pools and limit orders —
  CreateSwapPool (34), AddLiquidity (21), RemoveLiquidity (22), Sell/Buy/SellAll swap pool (23/24/25) over routes of up to
  five coins on pools WITHOUT orders, AddLimitOrder (35) and RemoveLimitOrder (36) (escrow only; matching is modelled elsewhere).

  As in the Go code, the checks run on the pool as *simulated* after the commission swap (`AddLastSwapStepWithOrders`, `simRes`),
  the execution runs on the pool as it really is after that swap (`PoolAdj`); `sim_vs_real` (Props/C15.lean) proves they coincide.
-/
namespace Minter

def coinList (v : String) : List Coin := if v == "-" || v == "" then [] else (v.splitOn ",").map natD

/-- Is pool `{a, b}` the commission pool `{gas, BIP}` of a pool-paid commission? -/
def isComPool (gas : Coin) (com : Com) (a b : Coin) : Bool :=
  com.fromPool && ((a == gas && b == 0) || (a == 0 && b == gas))

/-- Reserves of pool `{a, b}` oriented `a → b` as the validation code sees them: when the commission is paid through this very
    pool the code first applies `AddLastSwapStepWithOrders` with the commission swap — the commission net of its 0.1 % burn enters
    on the gas-coin side, its base-coin value leaves on the other side (both orientations; exact since /repo a9a396f). -/
def simRes (s : State) (gas : Coin) (com : Com) (a b : Coin) : M (Int × Int) :=
  match poolRes s a b with
  | none => throw (.panic "GetSwapper on a missing pool")
  | some (ra, rb) =>
    if !isComPool gas com a b then pure (ra, rb) else
    if pairHasOrders s a b then throw (.unmodelled "orders on the pool") else
    let rg := if a == gas then ra else rb
    let r0 := if a == gas then rb else ra
    match quoteBuyForSell rg r0 com.commission with
    | .panic w => throw (.panic w)
    | .nil => throw (.panic "AddLastSwapStepWithOrders with a nil amount")
    | .val inBase =>
      let net := if com.commission > 0 then com.commission - com1000 com.commission else com.commission
      match bfsNoOrders rg r0 net with
      | .panic w => throw (.panic w)
      | _ => if a == gas then pure (rg + net, r0 - inBase) else pure (r0 - inBase, rg + net)

/-- `basicCheck` of the three route transactions. -/
def routeBasicGo (s : State) : Coin → List Coin → Option Nat
  | _, [] => none
  | a, b :: t => if a == b then some 301 else if !poolExists s a b then some 701 else routeBasicGo s b t

def routeBasic (s : State) (coins : List Coin) : Option Nat :=
  if coins.length < 2 then some 106
  else if coins.length > 5 then some 709
  else match coins with
    | a :: t => routeBasicGo s a t
    | [] => none

/-- The validation loop of SellSwapPool / SellAllSwapPool (current coin, rest of the route, amount in hand, pools used):
    the amount bought at the end of the route, or a response code. -/
def routeSellCheck (s : State) (gas : Coin) (com : Com) (minBuy : Int) : Coin → List Coin → Int → List Nat → M (Except Nat Int)
  | _, [], value, _ => pure (.ok value)
  | a, b :: rest, value, used =>
    let id := poolId s a b
    if used.contains id then pure (.error 710) else
    if pairHasOrders s a b then throw (.unmodelled "orders on the pool") else
    match simRes s gas com a b with
    | .error e => throw e
    | .ok (r0, r1) =>
      match checkSwapQuote r0 r1 value (if rest.isEmpty then minBuy else 0) false with
      | .error e => throw e
      | .ok (.error c) => pure (.error c)
      | .ok (.ok x) =>
        if x ≤ 0 then pure (.error 703)
        else routeSellCheck s gas com minBuy b rest x (id :: used)

/-- The execution loop of a sell route: one `PairSellWithOrders` per hop on the real reserves. -/
def routeSellExec (s : State) (adj : Option PoolAdj) (who : Addr) : Coin → List Coin → Int → M (List Move × Int)
  | _, [], value => pure ([], value)
  | a, b :: rest, value =>
    match pairSellMove s adj who a b value 0 false who with
    | .error e => throw e
    | .ok (mv, out, _) =>
      match routeSellExec s adj who b rest out with
      | .error e => throw e
      | .ok (ms, final) => pure (mv :: ms, final)

/-- SellSwapPool (23). -/
def runSellPool (P : Params) (o : Oracle) (s : State) (t : TxIn) (price : Int) : Handler :=
  let coins := coinList (t.str "d.Coins"); let value := t.int "d.ValueToSell"; let minBuy := t.int "d.MinimumValueToBuy"
  match routeBasic s coins with
  | some c => reject c
  | none =>
    withCom P o s t.gasCoin price fun com =>
      match routeSellCheck s t.gasCoin com minBuy (coins.headD 0) coins.tail value [] with
      | .error e => throw e
      | .ok (.error c) => reject c
      | .ok (.ok _) =>
        let first := coins.headD 0
        if t.gasCoin != first && balanceOf s t.sender t.gasCoin < com.commission then reject 107 else
        if balanceOf s t.sender first < t.addIfGas first value com.commission then reject 107 else
        pure (.ok { payer := t.sender, coin := t.gasCoin, com := com,
                    exec := fun adj =>
                      match routeSellExec s adj t.sender (coins.headD 0) coins.tail value with
                      | .error e => throw e
                      | .ok (ms, out) => pure (ms, [("tx.return", toString out)]) })

/-- SellAllSwapPool (25): the commission is paid in the first coin of the route. -/
def runSellAllPool (P : Params) (o : Oracle) (s : State) (t : TxIn) (price : Int) : Handler :=
  let coins := coinList (t.str "d.Coins"); let minBuy := t.int "d.MinimumValueToBuy"
  match routeBasic s coins with
  | some c => reject c
  | none =>
    let first := coins.headD 0
    withCom P o s first price fun com =>
      let available := balanceOf s t.sender first
      let value := available - com.commission
      if value ≤ 0 then reject 107 else
      match routeSellCheck s first com minBuy first coins.tail value [] with
      | .error e => throw e
      | .ok (.error c) => reject c
      | .ok (.ok _) =>
        pure (.ok { payer := t.sender, coin := first, com := com,
                    exec := fun adj =>
                      match routeSellExec s adj t.sender (coins.headD 0) coins.tail value with
                      | .error e => throw e
                      | .ok (ms, out) => pure (ms, [("tx.return", toString out), ("tx.sell_amount", toString available)]) })

/-- The validation loop of BuySwapPool over the reversed route (coin being bought, coins to pay with, amount wanted, pools used):
    the amount to sell at the start of the route, or a response code. -/
def routeBuyCheck (P : Params) (s : State) (gas : Coin) (com : Com) (maxSell : Int) : Coin → List Coin → Int → List Nat → M (Except Nat Int)
  | _, [], want, _ => pure (.ok want)
  | b, a :: rest, want, used =>           -- buying `b` with `a`
    let id := poolId s a b
    if used.contains id then pure (.error 710) else
    if pairHasOrders s a b then throw (.unmodelled "orders on the pool") else
    match simRes s gas com a b with
    | .error e => throw e
    | .ok (r0, r1) =>
      match checkSwapQuote r0 r1 (if rest.isEmpty then maxSell else P.maxSupply) want true with
      | .error e => throw e
      | .ok (.error c) => pure (.error c)
      | .ok (.ok x) =>
        if x ≤ 0 then pure (.error 703)
        else routeBuyCheck P s gas com maxSell a rest x (id :: used)

def routeBuyExec (P : Params) (s : State) (adj : Option PoolAdj) (who : Addr) : Coin → List Coin → Int → M (List Move × Int)
  | _, [], want => pure ([], want)
  | b, a :: rest, want =>
    match pairBuyMove P s adj who a b want who with
    | .error e => throw e
    | .ok (mv, gross, _) =>
      match routeBuyExec P s adj who a rest gross with
      | .error e => throw e
      | .ok (ms, final) => pure (mv :: ms, final)

/-- BuySwapPool (24). -/
def runBuyPool (P : Params) (o : Oracle) (s : State) (t : TxIn) (price : Int) : Handler :=
  let coins := coinList (t.str "d.Coins"); let want := t.int "d.ValueToBuy"; let maxSell := t.int "d.MaximumValueToSell"
  match routeBasic s coins with
  | some c => reject c
  | none =>
    withCom P o s t.gasCoin price fun com =>
      match routeBuyCheck P s t.gasCoin com maxSell (coins.reverse.headD 0) coins.reverse.tail want [] with
      | .error e => throw e
      | .ok (.error c) => reject c
      | .ok (.ok pay) =>
        let first := coins.headD 0
        if balanceOf s t.sender first < t.addIfGas first pay com.commission then reject 107 else
        if balanceOf s t.sender t.gasCoin < com.commission then reject 107 else
        pure (.ok { payer := t.sender, coin := t.gasCoin, com := com,
                    exec := fun adj =>
                      match routeBuyExec P s adj t.sender (coins.reverse.headD 0) coins.reverse.tail want with
                      | .error e => throw e
                      | .ok (ms, paid) => pure (ms, [("tx.return", toString paid)]) })

/-! ### Liquidity -/

def lpSymbol (id : Nat) : String := s!"LP-{id}"

/-- Stored orientation of a pool on `(a, b)` with amounts `(xa, xb)`. -/
def sorted2 (a b : Coin) (xa xb : Int) : Coin × Coin × Int × Int := if a < b then (a, b, xa, xb) else (b, a, xb, xa)

/-- CreateSwapPool (34). -/
def runCreatePool (P : Params) (o : Oracle) (s : State) (t : TxIn) (price : Int) : Handler :=
  let c0 := t.nat "d.Coin0"; let c1 := t.nat "d.Coin1"; let v0 := t.int "d.Volume0"; let v1 := t.int "d.Volume1"
  if c0 == c1 then reject 301 else
  if poolExists s c0 c1 then reject 708 else
  if !coinExists s c0 then reject 102 else
  if !coinExists s c1 then reject 102 else
  withCom P o s t.gasCoin price fun com =>
    let liquidity := startingSupply v0 v1
    if liquidity ≤ minLiquidity then reject 704 else
    if balanceOf s t.sender c0 < t.addIfGas c0 v0 com.commission then reject 107 else
    if balanceOf s t.sender c1 < t.addIfGas c1 v1 com.commission then reject 107 else
    if balanceOf s t.sender t.gasCoin < com.commission then reject 107 else
    let pid := s.pools.length + 1
    let (lo, hi, xlo, xhi) := sorted2 c0 c1 v0 v1
    let lpId := nextCoinId s
    let lp : CoinInfo := { id := lpId, symbol := lpSymbol pid, version := 0, volume := liquidity, reserve := 0, crr := 0, maxSupply := P.maxSupply,
                           owner := none, mintable := true, burnable := true }
    ready t com [.poolCreate t.sender { c0 := lo, c1 := hi, id := pid, r0 := xlo, r1 := xhi } lp]
      [("tx.liquidity", toString (liquidity - minLiquidity)), ("tx.pool_token_id", toString lpId), ("tx.pool_id", toString pid)]

/-- The LP token of pool `{a, b}` (`GetCoinBySymbol("LP-<id>", 0)`). -/
def lpCoin (s : State) (a b : Coin) : Option CoinInfo := coinBySymbolV0 s (lpSymbol (poolId s a b))

/-- `PairMint` on the real reserves (after the commission swap): the second amount and the liquidity are recomputed, the maximum is
    not looked at again. -/
def addLiquidityExec (s : State) (who : Addr) (c0 c1 : Coin) (v0 : Int) (lp : CoinInfo) (adj : Option PoolAdj) :
    M (List Move × List (String × String)) :=
  match poolResAdj s adj c0 c1 with
  | none => throw (.panic "PairMint on a missing pool")
  | some (q0, q1) =>
    if q0 == 0 then throw (.panic "division by zero") else
    if lp.volume * v0 / q0 ≤ 0 then throw (.panic "INSUFFICIENT_LIQUIDITY_MINTED") else
    pure ([.poolMint who (sorted2 c0 c1 v0 (v0 * q1 / q0)).1 (sorted2 c0 c1 v0 (v0 * q1 / q0)).2.1 (sorted2 c0 c1 v0 (v0 * q1 / q0)).2.2.1
             (sorted2 c0 c1 v0 (v0 * q1 / q0)).2.2.2 lp.id (lp.volume * v0 / q0)],
          [("tx.volume1", toString (v0 * q1 / q0)), ("tx.liquidity", toString (lp.volume * v0 / q0)), ("tx.pool_token_id", toString lp.id)])

/-- `PairBurn` on the real reserves: panics when the amounts fall below the minimums (unreachable after a passed validation:
    `remove_liquidity_exec_ok`, Props/C15.lean). -/
def removeLiquidityExec (s : State) (who : Addr) (c0 c1 : Coin) (liq min0 min1 : Int) (lp : CoinInfo) (adj : Option PoolAdj) :
    M (List Move × List (String × String)) :=
  match poolResAdj s adj c0 c1 with
  | none => throw (.panic "PairBurn on a missing pool")
  | some (q0, q1) =>
    if liq * q0 / lp.volume < min0 || liq * q1 / lp.volume < min1 then throw (.panic "INSUFFICIENT_LIQUIDITY_BURNED") else
    pure ([.poolBurn who (sorted2 c0 c1 (liq * q0 / lp.volume) (liq * q1 / lp.volume)).1 (sorted2 c0 c1 (liq * q0 / lp.volume) (liq * q1 / lp.volume)).2.1
             (sorted2 c0 c1 (liq * q0 / lp.volume) (liq * q1 / lp.volume)).2.2.1 (sorted2 c0 c1 (liq * q0 / lp.volume) (liq * q1 / lp.volume)).2.2.2
             lp.id liq],
          [("tx.volume0", toString (liq * q0 / lp.volume)), ("tx.volume1", toString (liq * q1 / lp.volume))])

/-- AddLiquidity (21). -/
def runAddLiquidity (P : Params) (o : Oracle) (s : State) (t : TxIn) (price : Int) : Handler :=
  let c0 := t.nat "d.Coin0"; let c1 := t.nat "d.Coin1"; let v0 := t.int "d.Volume0"; let max1 := t.int "d.MaximumVolume1"
  if c0 == c1 then reject 301 else
  if !poolExists s c0 c1 then reject 701 else
  if !coinExists s c0 then reject 102 else
  if !coinExists s c1 then reject 102 else
  withCom P o s t.gasCoin price fun com =>
    if balanceOf s t.sender c0 < t.addIfGas c0 v0 com.commission then reject 107 else
    match simRes s t.gasCoin com c0 c1 with
    | .error e => throw e
    | .ok (r0, r1) =>
      match lpCoin s c0 c1 with
      | none => throw (.panic "pool without its LP token")
      | some lp =>
        if r0 == 0 then throw (.panic "division by zero") else
        let needed1 := v0 * r1 / r0
        if needed1 > max1 then reject 702 else
        if lp.volume * v0 / r0 ≤ 0 then reject 704 else
        if balanceOf s t.sender c1 < t.addIfGas c1 needed1 com.commission then reject 107 else
        if balanceOf s t.sender t.gasCoin < com.commission then reject 107 else
        pure (.ok { payer := t.sender, coin := t.gasCoin, com := com, exec := addLiquidityExec s t.sender c0 c1 v0 lp })

/-- RemoveLiquidity (22). -/
def runRemoveLiquidity (P : Params) (o : Oracle) (s : State) (t : TxIn) (price : Int) : Handler :=
  let c0 := t.nat "d.Coin0"; let c1 := t.nat "d.Coin1"; let liq := t.int "d.Liquidity"
  let min0 := t.int "d.MinimumVolume0"; let min1 := t.int "d.MinimumVolume1"
  if liq ≤ 0 then reject 106 else
  if c0 == c1 then reject 301 else
  withCom P o s t.gasCoin price fun com =>
    if !poolExists s c0 c1 then reject 701 else
    match simRes s t.gasCoin com c0 c1 with
    | .error e => throw e
    | .ok (r0, r1) =>
      match lpCoin s c0 c1 with
      | none => throw (.panic "pool without its LP token")
      | some lp =>
        if t.gasCoin != lp.id && balanceOf s t.sender lp.id < liq then reject 107 else
        if balanceOf s t.sender t.gasCoin < t.addIfGas lp.id com.commission liq then reject 107 else
        if lp.volume == 0 then throw (.panic "division by zero") else
        if liq * r0 / lp.volume < min0 || liq * r1 / lp.volume < min1 then reject 705 else
        pure (.ok { payer := t.sender, coin := t.gasCoin, com := com, exec := removeLiquidityExec s t.sender c0 c1 liq min0 min1 lp })

/-! ### Limit orders (escrow) -/

def nextOrderId (s : State) : Nat := if s.nextOrder == 0 then 1 else s.nextOrder

/-- AddLimitOrder (35). -/
def runAddOrder (P : Params) (o : Oracle) (s : State) (block : Nat) (t : TxIn) (price : Int) : Handler :=
  let sell := t.nat "d.CoinToSell"; let buy := t.nat "d.CoinToBuy"; let vSell := t.int "d.ValueToSell"; let vBuy := t.int "d.ValueToBuy"
  if sell == buy then reject 301 else
  if vBuy < P.minOrderVolume || vSell < P.minOrderVolume then reject 714 else
  if !poolExists s sell buy then reject 701 else
  withCom P o s t.gasCoin price fun com =>
    if t.gasCoin != sell && balanceOf s t.sender t.gasCoin < com.commission then reject 107 else
    if balanceOf s t.sender sell < t.addIfGas sell vSell com.commission then reject 107 else
    match simRes s t.gasCoin com sell buy with
    | .error e => throw e
    | .ok (rS, rB) =>
      -- currentPrice = rS / rB, orderPrice = vSell / vBuy; accepted iff currentPrice / 5 ≤ orderPrice ≤ currentPrice
      if rS * vBuy < vSell * rB || rS * vBuy > 5 * vSell * rB then reject 713 else
      let id := nextOrderId s
      let ord : Order :=
        if buy < sell then { id := id, c0 := buy, c1 := sell, isSale := true, v0 := vBuy, v1 := vSell, owner := t.sender, height := block }
        else { id := id, c0 := sell, c1 := buy, isSale := false, v0 := vSell, v1 := vBuy, owner := t.sender, height := block }
      ready t com [.orderAdd t.sender ord, .admin (.setNextOrder (id + 1))] [("tx.order_id", toString id)]

/-- RemoveLimitOrder (36): only orders committed in an earlier block are visible (`GetOrder` reads the committed tree). -/
def runRemoveOrder (P : Params) (o : Oracle) (s : State) (block : Nat) (t : TxIn) (price : Int) : Handler :=
  let id := t.nat "d.ID"
  withCom P o s t.gasCoin price fun com =>
    if balanceOf s t.sender t.gasCoin < com.commission then reject 107 else
    match findFirst (fun x => x.id == id && decide (x.height < block)) s.orders with
    | none => reject 711
    | some ord =>
      if ord.owner != t.sender then reject 712 else
      if isComPool t.gasCoin com ord.c0 ord.c1 then throw (.unmodelled "orders on the commission pool") else
      ready t com [.orderRemove t.sender ord]

end Minter
