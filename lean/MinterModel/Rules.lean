import MinterModel.Monitors
/-
  Rule kernels for C20 (governance threshold), C27 (fee formula), C28 (block reward rule).
  Every definition mirrors a piece of Go code named in its doc comment, line by line; the harness mode `rules`
  (harness/mode_rules.go) evaluates the real Go code and these definitions on the same generated inputs (`rulesEvalQ`).
  Core Lean only.  Names live in `Minter.Rules` so that they cannot collide with other components.
-/
namespace Minter
namespace Rules

/-! ## C20 — governance threshold and tallies -/

/-- `big.Int.Cmp`. -/
def cmpInt (a b : Int) : Int := if a < b then -1 else if a = b then 0 else 1

/-- `isMoreThanTwoThirds` (coreV2/minter/minter.go, after fix 950a195):
    `new(big.Int).Mul(votedPower, 3).Cmp(new(big.Int).Mul(totalPower, 2)) == 1`. -/
def passesCode (voted total : Int) : Bool := cmpInt (voted * 3) (total * 2) == 1

/-- `blockchain.validatorsPowers`: public key → total bip stake (keys are unique: one validator per key). -/
abbrev Powers := List (PubKey × Int)

/-- What `calculatePowers` reads of a validator. -/
structure ValInfo where
  pubkey : PubKey
  stake : Int
  toDrop : Bool
  present : Bool        -- `GetValidatorStatus(addr) == ValidatorPresent`
  deriving Repr

def sumPowers (ps : Powers) : Int := sumBy (fun p => p.2) ps

/-- `calculatePowers`: powers of the validators that are present and not about to be dropped; a zero total becomes 1. -/
def calcPowers (vals : List ValInfo) : Powers × Int :=
  let ps := (vals.filter (fun v => !v.toDrop && v.present)).map (fun v => (v.pubkey, v.stake))
  let t := sumPowers ps
  (ps, if t = 0 then 1 else t)

/-- `for vote in votes { if power, ok := validatorsPowers[vote]; ok { total += power } }`. -/
def votedPower (ps : Powers) (votes : List PubKey) : Int :=
  sumBy (fun k => (ps.lookup k).getD 0) votes

/-- `isApplicationHalted` without the operator's `haltHeight` override: the halt votes stored for this height. -/
def tallyHalt (ps : Powers) (total : Int) (votes : List PubKey) : Bool :=
  passesCode (votedPower ps votes) total

/-- A stored proposal: its text (encoded price table / version name) and the voters in arrival order. -/
abbrev Proposal := String × List PubKey

/-- Loop body of `isUpdateCommissionsBlockV2` / `isUpdateNetworkBlockV2`:
    `if maxVotingResult.Cmp(votingResult) == -1 { max…, maxVotedPower, name = … }`.
    The Go comparison is between the `big.Float` quotients `voted/total`; for `0 ≤ voted ≤ total` their order is
    the order of the integers (precision ≥ bit length of `total`; see INTEGRATION.md, trusted base), which is what is modelled. -/
def tallyStep (ps : Powers) (acc : Int × String) (p : Proposal) : Int × String :=
  let v := votedPower ps p.2
  if acc.1 < v then (v, p.1) else acc

/-- Best supported proposal so far (initially power 0, empty text): the first maximum wins. -/
def tallyWinner (ps : Powers) (props : List Proposal) : Int × String :=
  props.foldl (tallyStep ps) (0, "")

/-- `isUpdateNetworkBlockV2`: `("", false)` = `none`. -/
def tallyVersion (ps : Powers) (total : Int) (props : List Proposal) : Option String :=
  if props.isEmpty then none
  else
    let w := tallyWinner ps props
    if passesCode w.1 total then some w.2 else none

/-- `isUpdateCommissionsBlockV2` followed by EndBlock's `len(prices) != 0`. -/
def tallyCommission (ps : Powers) (total : Int) (props : List Proposal) : Option String :=
  match tallyVersion ps total props with
  | some p => if p.isEmpty then none else some p
  | none => none

/-- Response codes of the vote checks. -/
def codeHaltAlreadyExists : Nat := 118
def codeVoteExpired : Nat := 120
def codeVoteAlreadyExists : Nat := 121

/-- The part of `basicCheck` shared by SetHaltBlock (type 15), VoteCommission (32) and VoteUpdate (33):
    `data.Height < block` → VoteExpired; a stored vote of this key for this height → …AlreadyExists.
    (VoteUpdate tests the version name first, VoteCommission the `More` tail first; they are not part of this rule.) -/
def voteCheck (typ : Nat) (voteHeight block : Nat) (voteExists : Bool) : Option Nat :=
  if voteHeight < block then some codeVoteExpired
  else if voteExists then some (if typ = 15 then codeHaltAlreadyExists else codeVoteAlreadyExists)
  else none

/-- `IsHaltExists` / `IsVoteExists` over the stored votes `(height, key)` of one kind. -/
def voteExists (stored : List (Height × PubKey)) (h : Height) (k : PubKey) : Bool :=
  stored.any (fun v => v.1 == h && v.2 == k)

/-! ## C27 — fee formula -/

/-- `commission.Price` (coreV2/state/commission/model.go), fields in the order of the Go struct. -/
structure PriceTable where
  coin : Nat := 0
  payloadByte : Int := 0
  send : Int := 0
  buyBancor : Int := 0
  sellBancor : Int := 0
  sellAllBancor : Int := 0
  buyPoolBase : Int := 0
  buyPoolDelta : Int := 0
  sellPoolBase : Int := 0
  sellPoolDelta : Int := 0
  sellAllPoolBase : Int := 0
  sellAllPoolDelta : Int := 0
  createTicker3 : Int := 0
  createTicker4 : Int := 0
  createTicker5 : Int := 0
  createTicker6 : Int := 0
  createTicker7to10 : Int := 0
  createCoin : Int := 0
  createToken : Int := 0
  recreateCoin : Int := 0
  recreateToken : Int := 0
  declareCandidacy : Int := 0
  delegate : Int := 0
  unbond : Int := 0
  redeemCheck : Int := 0
  setCandidateOn : Int := 0
  setCandidateOff : Int := 0
  createMultisig : Int := 0
  multisendBase : Int := 0
  multisendDelta : Int := 0
  editCandidate : Int := 0
  setHaltBlock : Int := 0
  editTickerOwner : Int := 0
  editMultisig : Int := 0
  editCandidatePublicKey : Int := 0
  createSwapPool : Int := 0
  addLiquidity : Int := 0
  removeLiquidity : Int := 0
  editCandidateCommission : Int := 0
  burnToken : Int := 0
  mintToken : Int := 0
  voteCommission : Int := 0
  voteUpdate : Int := 0
  failedTx : Int := 0
  addLimitOrder : Int := 0
  removeLimitOrder : Int := 0
  moveStake : Int := 0
  lockStake : Int := 0
  lock : Int := 0
  deriving Repr

/-- 49 numbers in struct order (coin first). -/
def PriceTable.ofList (l : List Int) : Option PriceTable :=
  if l.length != 49 then none else
  let g := fun i => l.getD i 0
  some { coin := (g 0).toNat, payloadByte := g 1, send := g 2, buyBancor := g 3, sellBancor := g 4, sellAllBancor := g 5,
         buyPoolBase := g 6, buyPoolDelta := g 7, sellPoolBase := g 8, sellPoolDelta := g 9, sellAllPoolBase := g 10,
         sellAllPoolDelta := g 11, createTicker3 := g 12, createTicker4 := g 13, createTicker5 := g 14, createTicker6 := g 15,
         createTicker7to10 := g 16, createCoin := g 17, createToken := g 18, recreateCoin := g 19, recreateToken := g 20,
         declareCandidacy := g 21, delegate := g 22, unbond := g 23, redeemCheck := g 24, setCandidateOn := g 25,
         setCandidateOff := g 26, createMultisig := g 27, multisendBase := g 28, multisendDelta := g 29, editCandidate := g 30,
         setHaltBlock := g 31, editTickerOwner := g 32, editMultisig := g 33, editCandidatePublicKey := g 34,
         createSwapPool := g 35, addLiquidity := g 36, removeLiquidity := g 37, editCandidateCommission := g 38,
         burnToken := g 39, mintToken := g 40, voteCommission := g 41, voteUpdate := g 42, failedTx := g 43,
         addLimitOrder := g 44, removeLimitOrder := g 45, moveStake := g 46, lockStake := g 47, lock := g 48 }

/-- The table of a model state (`State.commission`, keyed by the names of the exported genesis). -/
def PriceTable.ofAssoc (l : List (String × Int)) : PriceTable :=
  let g := fun k => (l.lookup k).getD 0
  { coin := (g "coin").toNat, payloadByte := g "payload_byte", send := g "send", buyBancor := g "buy_bancor",
    sellBancor := g "sell_bancor", sellAllBancor := g "sell_all_bancor", buyPoolBase := g "buy_pool_base",
    buyPoolDelta := g "buy_pool_delta", sellPoolBase := g "sell_pool_base", sellPoolDelta := g "sell_pool_delta",
    sellAllPoolBase := g "sell_all_pool_base", sellAllPoolDelta := g "sell_all_pool_delta",
    createTicker3 := g "create_ticker3", createTicker4 := g "create_ticker4", createTicker5 := g "create_ticker5",
    createTicker6 := g "create_ticker6", createTicker7to10 := g "create_ticker7_10", createCoin := g "create_coin",
    createToken := g "create_token", recreateCoin := g "recreate_coin", recreateToken := g "recreate_token",
    declareCandidacy := g "declare_candidacy", delegate := g "delegate", unbond := g "unbond", redeemCheck := g "redeem_check",
    setCandidateOn := g "set_candidate_on", setCandidateOff := g "set_candidate_off", createMultisig := g "create_multisig",
    multisendBase := g "multisend_base", multisendDelta := g "multisend_delta", editCandidate := g "edit_candidate",
    setHaltBlock := g "set_halt_block", editTickerOwner := g "edit_ticker_owner", editMultisig := g "edit_multisig",
    editCandidatePublicKey := g "edit_candidate_public_key", createSwapPool := g "create_swap_pool",
    addLiquidity := g "add_liquidity", removeLiquidity := g "remove_liquidity",
    editCandidateCommission := g "edit_candidate_commission", burnToken := g "burn_token", mintToken := g "mint_token",
    voteCommission := g "vote_commission", voteUpdate := g "vote_update", failedTx := g "failed_tx",
    addLimitOrder := g "add_limit_order", removeLimitOrder := g "remove_limit_order", moveStake := g "move_stake",
    lockStake := g "lock_stake", lock := g "lock" }

/-- `PayForSymbol` (CreateCoinData and CreateTokenData): `len(data.Symbol.String())` = bytes of the ticker without NULs. -/
def tickerPriceT (tb : PriceTable) (symLen : Nat) : Int :=
  match symLen with
  | 3 => tb.createTicker3
  | 4 => tb.createTicker4
  | 5 => tb.createTicker5
  | 6 => tb.createTicker6
  | _ => tb.createTicker7to10

/-- `Data.CommissionData(price)` of the data type `GetDataV3` selects for `typ`;
    `n` = `len(data.List)` (Multisend) / `len(data.Coins)` (pool routes), `symLen` = ticker length (CreateCoin/CreateToken).
    `none`: `GetDataV3` knows no such type (0, 0x13, > 0x26).
    NB `CreateTokenData.CommissionData` adds `price.CreateCoin` (not `CreateToken`) — that is what the code does. -/
def priceOfType (tb : PriceTable) (typ n symLen : Nat) : Option Int :=
  match typ with
  | 1 => some tb.send
  | 2 => some tb.sellBancor
  | 3 => some tb.sellAllBancor
  | 4 => some tb.buyBancor
  | 5 => some (tickerPriceT tb symLen + tb.createCoin)
  | 6 => some tb.declareCandidacy
  | 7 => some tb.delegate
  | 8 => some tb.unbond
  | 9 => some tb.redeemCheck
  | 10 => some tb.setCandidateOn
  | 11 => some tb.setCandidateOff
  | 12 => some tb.createMultisig
  | 13 => some (tb.multisendBase + ((n : Int) - 1) * tb.multisendDelta)
  | 14 => some tb.editCandidate
  | 15 => some tb.setHaltBlock
  | 16 => some tb.recreateCoin
  | 17 => some tb.editTickerOwner
  | 18 => some tb.editMultisig
  | 20 => some tb.editCandidatePublicKey
  | 21 => some tb.addLiquidity
  | 22 => some tb.removeLiquidity
  | 23 => some (tb.sellPoolBase + tb.sellPoolDelta * ((n : Int) - 2))
  | 24 => some (tb.buyPoolBase + tb.buyPoolDelta * ((n : Int) - 2))
  | 25 => some (tb.sellAllPoolBase + tb.sellAllPoolDelta * ((n : Int) - 2))
  | 26 => some tb.editCandidateCommission
  | 27 => some tb.moveStake
  | 28 => some tb.mintToken
  | 29 => some tb.burnToken
  | 30 => some (tickerPriceT tb symLen + tb.createCoin)
  | 31 => some tb.recreateToken
  | 32 => some tb.voteCommission
  | 33 => some tb.voteUpdate
  | 34 => some tb.createSwapPool
  | 35 => some tb.addLimitOrder
  | 36 => some tb.removeLimitOrder
  | 37 => some tb.lockStake
  | 38 => some tb.lock
  | _ => none

/-- `tx.MulGasPrice(tx.Price(commissions))`: the commission in price-table terms. -/
def txPriceInTable (tb : PriceTable) (gasPrice typ n symLen payloadLen serviceLen : Nat) : Option Int :=
  (priceOfType tb typ n symLen).map
    (fun p => (gasPrice : Int) * (p + ((payloadLen + serviceLen : Nat) : Int) * tb.payloadByte))

/-- Failed transaction: `MulGasPrice(FailedTx + len·PayloadByte)`. -/
def failedPriceInTable (tb : PriceTable) (gasPrice payloadLen serviceLen : Nat) : Int :=
  (gasPrice : Int) * (tb.failedTx + ((payloadLen + serviceLen : Nat) : Int) * tb.payloadByte)

/-- `tx.MulGasPrice(PayForSymbol(commissions))`: the ticker fee in table terms (burned after conversion to the base coin). -/
def symbolPriceInTable (tb : PriceTable) (gasPrice symLen : Nat) : Int :=
  (gasPrice : Int) * tickerPriceT tb symLen

/-- RunTx: the table price converted to the base coin.  A zero price is free (no conversion, no check);
    a base-coin table needs `price.Sign() == 1`; a custom-coin table sells `price` of the table coin into the pool
    `(table coin, base)` with reserves `(r0, r1)` — `CheckSwap(…, price, 0, false)`, pair without orders — and the
    proceeds must be positive. -/
def commissionInBase (tb : PriceTable) (price : Int) (pool : Int × Int) : M (Except Nat Int) :=
  if price = 0 then pure (.ok 0)
  else if tb.coin = 0 then pure (if price ≤ 0 then .error 119 else .ok price)
  else do
    match ← checkSwapQuote pool.1 pool.2 price 0 false with
    | .error c => pure (.error c)
    | .ok x => pure (if x ≤ 0 then .error 119 else .ok x)

/-- RunTx after a successful CreateCoin/CreateToken (code since /repo f0b1597, which repaired finding R1 of this component: the
    old code answered 119 here although `Run` had already applied the transaction): `symbolPrice = MulGasPrice(PayForSymbol)`;
    when it is positive and the table coin is not the base coin it is converted through the pool (table coin, base) with
    `CheckSwap`, an error making it `nil`; the burn happens only for a non-nil, positive amount and is SKIPPED otherwise — nothing
    here rejects the transaction any more.  `some v`: `v` moves from the reward pool to the zero address; `none`: no burn. -/
def tickerBurnInBase (tb : PriceTable) (gasPrice symLen : Nat) (pool : Int × Int) : M (Option Int) :=
  let p := symbolPriceInTable tb gasPrice symLen
  if p ≤ 0 then pure none
  else if tb.coin = 0 then pure (some p)
  else do
    match ← checkSwapQuote pool.1 pool.2 p 0 false with
    | .error _ => pure none
    | .ok x => pure (if x ≤ 0 then none else some x)

inductive Route where
  | pool | reserve
  deriving Repr, DecidableEq

/-- Tail of `CalculateCommission`: `none` = a route that answered an error.  Both fail → reject (119);
    both answer → the reserve route only when strictly cheaper (pool on ties); otherwise the one that answered. -/
def chooseRoute (pool reserve : Option Int) : Option (Route × Int) :=
  match pool, reserve with
  | none, none => none
  | some p, some r => if r < p then some (.reserve, r) else some (.pool, p)
  | some p, none => some (.pool, p)
  | none, some r => some (.reserve, r)

/-- `CalculateCommission` as a function of the two quotes: `(commission, isGasCommissionFromPoolSwap)`.
    Base gas coin and a zero commission short-cut (flag `false`). -/
def calcCommissionQ (gasIsBase : Bool) (inBase : Int) (pool reserve : Option Int) : Option (Int × Bool) :=
  if gasIsBase then some (inBase, false)
  else if inBase = 0 then some (0, false)
  else match chooseRoute pool reserve with
    | none => none
    | some (.pool, p) => some (p, true)
    | some (.reserve, r) => some (r, false)

/-- Effect of a primitive on the block's reward pool (`rewardPool` of DeliverTx). -/
def primRewards : Prim → Int
  | .addRewards v => v
  | _ => 0

/-- Effect of a primitive on the base-coin balance of the zero address. -/
def primZero : Prim → Int
  | .addBal a c v => if a = 0 ∧ c = 0 then v else 0
  | _ => 0

def moveRewards (m : Move) : Int := sumBy primRewards m.prims
def moveZero (m : Move) : Int := sumBy primZero m.prims
def movesRewards (ms : List Move) : Int := sumBy moveRewards ms

/-! ## C28 — block reward rule -/

/-- `appdb.TimePrice` as returned by `GetPrice`: `t = none` is Go's zero `time.Time` (nothing stored yet),
    otherwise unix nanoseconds. `r0` = BIP reserve, `r1` = USDT reserve of pool (0, 1993) at the last update. -/
structure RewardState where
  t : Option Int := none
  r0 : Int := 0
  r1 : Int := 0
  last : Int := 0
  off : Bool := false
  deriving Repr, DecidableEq

/-- 350 BIP in pip. -/
def K350 : Int := 350 * 1000000000000000000
/-- `5e18 + 5e18`. -/
def tenBip : Int := 10000000000000000000
/-- `rewards.TotalEmission`. -/
def emissionCap : Int := 10000000000000000000000000000
def threeHoursNs : Int := 10800000000000

/-- Floor of the rational `n/d` (`big.Rat` keeps the denominator positive; `big.Int.Div` is Euclidean). -/
def floorDiv (n d : Int) : Int := if 0 < d then n / d else if d < 0 then (-n) / (-d) else 0

/-- `diff`: ⌊100·(fNew − fOld)/fOld⌋ with `fNew = r1/r0`, `fOld = R1/R0`; `none` = the Go code panics
    (`SetFrac` with a zero denominator, `Quo` by a zero `fOld`). -/
def pctChange (R0 R1 r0 r1 : Int) : Option Int :=
  if r0 = 0 ∨ R0 = 0 ∨ R1 = 0 then none
  else some (floorDiv (100 * (r1 * R0 - R1 * r0)) (R1 * r0))

/-- `AppDB.UpdatePriceFix(t, r0, r1)` after the two expressions that can panic on the new reserves. -/
def updatePriceCore (st : RewardState) (t r0 r1 pc : Int) : Option (RewardState × Int × Int) :=
  match st.t with
  | none => some ({ t := some t, r0 := r0, r1 := r1, last := pc, off := false }, pc, pc)
  | some _ =>
    match pctChange st.r0 st.r1 r0 r1 with
    | none => none
    | some diff =>
      if diff ≤ -10 then
        some ({ t := some t, r0 := r0, r1 := r1, last := 0, off := true }, 0, pc)
      else if st.off && decide (st.last < pc) then
        let last' := st.last + tenBip
        if pc - last' ≤ 0 then
          some ({ t := some t, r0 := r0, r1 := r1, last := pc, off := false }, pc, pc)
        else
          some ({ t := some t, r0 := r0, r1 := r1, last := last', off := true }, last', pc)
      else
        some ({ t := some t, r0 := r0, r1 := r1, last := pc, off := false }, pc, pc)

/-- `AppDB.UpdatePriceFix(t, r0, r1)`; `pc` is the value of `priceCount` (oracle: ⌊350·10^18·(r1/r0)^(1/4)⌋ computed with
    `big.Float`, see `priceCountCert`).  Result: stored state, `reward`, `safeReward`; `none` = panic
    (`SetFrac(r1, r0)` with `r0 = 0`; `math.Pow` on a negative `r1/r0`; a zero stored price or reserve). -/
def updatePrice (st : RewardState) (t r0 r1 pc : Int) : Option (RewardState × Int × Int) :=
  if r0 = 0 then none
  else if r1 * r0 < 0 then none
  else updatePriceCore st t r0 r1 pc

/-- `time.Time.Hour()` of a UTC instant given in unix nanoseconds. -/
def hourOf (timeNs : Int) : Int := (timeNs / 1000000000) % 86400 / 3600

/-- BeginBlock: `height % period == 1 && (t.IsZero() || (12 ≤ hour ≤ 14) && time.Sub(t) > 3h)` (`&&` binds tighter than `||`). -/
def inWindow (height period : Nat) (timeNs : Int) (last : Option Int) : Bool :=
  height % period == 1 &&
    (match last with
     | none => true
     | some l => (decide (12 ≤ hourOf timeNs) && decide (hourOf timeNs ≤ 14)) && decide (timeNs - l > threeHoursNs))

/-- `App.Reward()`: (reward, safeReward) of the ledger state. -/
structure AppReward where
  reward : Int := 0
  safe : Int := 0
  deriving Repr, DecidableEq

/-- `App.SetReward`: skipped when old and new safe reward are both zero; values are stored as `big.Int.Bytes()` (magnitude). -/
def setReward (old : AppReward) (r s : Int) : AppReward :=
  if old.safe = s ∧ s = 0 then old else { reward := Int.ofNat r.natAbs, safe := Int.ofNat s.natAbs }

/-- The reward part of BeginBlock: `emission < cap` → update in the window when the pool exists; otherwise `SetReward(0, 0)`.
    `(r0, r1)` = reserves of pool (BIP, USDT), `pc` = `priceCount` for them.  `none` = panic inside `UpdatePriceFix`. -/
def beginReward (emission cap : Int) (height period : Nat) (timeNs : Int) (poolExists : Bool) (r0 r1 pc : Int)
    (st : RewardState) (app : AppReward) : Option (RewardState × AppReward) :=
  if emission < cap then
    if inWindow height period timeNs st.t && poolExists then
      match updatePrice st timeNs r0 r1 pc with
      | none => none
      | some (st', rw, sf) => some (st', setReward app rw sf)
    else some (st, app)
  else some (st, setReward app 0 0)

structure Emit where
  toValidators : Int     -- added to the pot shared by the present validators
  toZero : Int           -- credited to address 0 (withheld part)
  minted : Int           -- base coin brought into existence by this block's reward
  emission : Int         -- new value of the emission counter
  deriving Repr, DecidableEq

/-- EndBlock: below the cap the validators' pot receives `reward`, the emission counter grows by `safeReward`,
    and a positive difference `safeReward − reward` is credited to the zero address; at the cap nothing happens.
    (The extra rewards of locked stakes in payout blocks are a separate term, see C19.) -/
def blockEmission (emission cap reward safe : Int) : Emit :=
  if emission < cap then
    let diff := safe - reward
    let burn := if 0 < diff then diff else 0
    { toValidators := reward, toZero := burn, minted := reward + burn, emission := emission + safe }
  else { toValidators := 0, toZero := 0, minted := 0, emission := emission }

/-- Relative tolerance 2⁻⁵⁰ plus 2 units: how far the `big.Float` value may be from the exact fourth root. -/
def certTol (v : Int) : Int := v / 1125899906842624 + 2

/-- Decidable certificate for the oracle value `v = priceCount(r0, r1)`: the exact real `350·10^18·(r1/r0)^(1/4)` lies in
    `[max 0 (v − tol), v + tol + 1)`, tol = `certTol v`. -/
def priceCountCert (r0 r1 v : Int) : Bool :=
  let tol := certTol v
  let lo := if v - tol < 0 then 0 else v - tol
  let hi := v + tol + 1
  decide (0 < r0) && decide (0 ≤ r1) && decide (0 ≤ v) &&
    decide (lo ^ 4 * r0 ≤ K350 ^ 4 * r1) && decide (K350 ^ 4 * r1 < hi ^ 4 * r0)

/-! ## `Q` evaluator -/

def boolS (b : Bool) : String := if b then "true" else "false"
def optIntS (o : Option Int) : String := match o with | some v => toString v | none => "none"
def splitD (s : String) (sep : String) : List String := if s == "-" || s == "" then [] else s.splitOn sep
def optArg (s : String) : Option Int := if s == "-" then none else some (intD s)

/-- `pk:power,pk:power` (keys in hex). -/
def parsePowers (s : String) : Powers :=
  (splitD s ",").map (fun e => match e.splitOn ":" with
    | [k, v] => (hexNat k, intD v)
    | _ => (0, 0))

/-- `name:pk|pk;name:pk` (names and keys in hex; an empty name is written `_`). -/
def parseProps (s : String) : List Proposal :=
  (splitD s ";").map (fun e => match e.splitOn ":" with
    | [n, ks] => ((if n == "_" then "" else n), (splitD ks "|").map hexNat)
    | _ => ("", []))

/-- `pk:stake:toDrop:present,…`. -/
def parseVals (s : String) : List ValInfo :=
  (splitD s ",").map (fun e => match e.splitOn ":" with
    | [k, v, d, p] => { pubkey := hexNat k, stake := intD v, toDrop := d == "1", present := p == "1" }
    | _ => { pubkey := 0, stake := 0, toDrop := true, present := false })

def hexDigitC (d : Nat) : Char := if d < 10 then Char.ofNat (48 + d) else Char.ofNat (87 + d)

/-- Lowercase hex of `n`, left-padded to `width` digits. -/
def hexPad (n width : Nat) : String :=
  let ds := (Nat.toDigits 16 n)
  String.ofList (List.replicate (width - ds.length) '0' ++ ds)

def powersS (ps : Powers) : String :=
  if ps.isEmpty then "-" else ",".intercalate (ps.map (fun p => s!"{hexPad p.1 64}:{p.2}"))

def parseTable (s : String) : Option PriceTable := PriceTable.ofList ((s.splitOn ",").map intD)

/-- `t|-,r0,r1,last,off`. -/
def parseRewardState (s : String) : RewardState :=
  match s.splitOn "," with
  | [t, a, b, l, o] => { t := optArg t, r0 := intD a, r1 := intD b, last := intD l, off := o == "1" }
  | _ => {}

def rewardStateS (st : RewardState) : String :=
  s!"{match st.t with | some t => toString t | none => "-"},{st.r0},{st.r1},{st.last},{if st.off then 1 else 0}"

def parseAppReward (s : String) : AppReward :=
  match s.splitOn "," with
  | [a, b] => { reward := intD a, safe := intD b }
  | _ => {}

def routeS : Option (Route × Int) → String
  | none => "reject,0"
  | some (.pool, v) => s!"pool,{v}"
  | some (.reserve, v) => s!"reserve,{v}"

def rulesEvalQ (fn : String) (a : List String) : Option String :=
  match fn, a with
  | "two3code", [v, t] => some (boolS (passesCode (intD v) (intD t)))
  | "calcpowers", [vals] => let r := calcPowers (parseVals vals); some s!"{powersS r.1};{r.2}"
  | "tallyhalt", [ps, tot, votes] => some (boolS (tallyHalt (parsePowers ps) (intD tot) ((splitD votes "|").map hexNat)))
  | "tallycom", [ps, tot, props] => some ((tallyCommission (parsePowers ps) (intD tot) (parseProps props)).getD "none")
  | "tallyver", [ps, tot, props] => some ((tallyVersion (parsePowers ps) (intD tot) (parseProps props)).getD "none")
  | "votecheck", [typ, h, b, ex] =>
      some (match voteCheck (natD typ) (natD h) (natD b) (ex == "1") with | none => "0" | some c => toString c)
  | "typeprice", [typ, n, sl, tb] =>
      (parseTable tb).map (fun t => optIntS (priceOfType t (natD typ) (natD n) (natD sl)))
  | "txprice", [gp, typ, n, sl, pl, svl, tb] =>
      (parseTable tb).map (fun t => optIntS (txPriceInTable t (natD gp) (natD typ) (natD n) (natD sl) (natD pl) (natD svl)))
  | "failprice", [gp, pl, svl, tb] =>
      (parseTable tb).map (fun t => toString (failedPriceInTable t (natD gp) (natD pl) (natD svl)))
  | "symprice", [gp, sl, tb] =>
      (parseTable tb).map (fun t => toString (symbolPriceInTable t (natD gp) (natD sl)))
  | "tickerburn", [gp, sl, r0, r1, tb] =>
      (parseTable tb).map (fun t => match tickerBurnInBase t (natD gp) (natD sl) (intD r0, intD r1) with
        | .ok (some v) => toString v
        | .ok none => "skip"
        | .error _ => "panic")
  | "route", [p, r] => some (routeS (chooseRoute (optArg p) (optArg r)))
  | "commission", [isBase, inBase, p, r] =>
      some (match calcCommissionQ (isBase == "1") (intD inBase) (optArg p) (optArg r) with
        | none => "reject"
        | some (v, fromPool) => s!"{if fromPool then "pool" else "bancor"},{v}")
  | "tobase", [coin, price, r0, r1] =>
      some (match commissionInBase { coin := natD coin } (intD price) (intD r0, intD r1) with
        | .ok (.ok v) => toString v
        | .ok (.error c) => s!"err{c}"
        | .error _ => "panic")
  | "updprice", [st, t, r0, r1, pc] =>
      some (match updatePrice (parseRewardState st) (intD t) (intD r0) (intD r1) (intD pc) with
        | none => "panic"
        | some (st', rw, sf) => s!"{rewardStateS st'};{rw};{sf}")
  | "pricecert", [r0, r1, v] => some (boolS (priceCountCert (intD r0) (intD r1) (intD v)))
  | "pct", [R0, R1, r0, r1] => some (optIntS (pctChange (intD R0) (intD R1) (intD r0) (intD r1)))
  | "window", [h, p, t, l] => some (boolS (inWindow (natD h) (natD p) (intD t) (optArg l)))
  | "hour", [t] => some (toString (hourOf (intD t)))
  | "beginreward", [em, h, p, t, pool, r0, r1, pc, st, app] =>
      some (match beginReward (intD em) emissionCap (natD h) (natD p) (intD t) (pool == "1") (intD r0) (intD r1) (intD pc)
                  (parseRewardState st) (parseAppReward app) with
        | none => "panic"
        | some (st', app') => s!"{rewardStateS st'};{app'.reward},{app'.safe}")
  | "emit", [em, rw, sf] =>
      let e := blockEmission (intD em) emissionCap (intD rw) (intD sf)
      some s!"{e.minted},{e.toZero},{e.emission}"
  | "emitcap", [em, cap, rw, sf] =>
      let e := blockEmission (intD em) (intD cap) (intD rw) (intD sf)
      some s!"{e.toValidators},{e.minted},{e.toZero},{e.emission}"
  | _, _ => none

end Rules
end Minter
