import MinterModel.Bancor
/-
  `Q` evaluator of the Bancor component (mode `bancor` of the harness).  The harness calls the real `formula.Calculate*`
  and asks whether the *Lean certificate* accepts the result, with the tolerance fixed in `Bancor.lean`:

      Q saleReturnCert v R c a r = true        Q purchaseReturnCert v R c d r = true
      Q purchaseAmountCert v R c w r = true    Q saleAmountCert v R c w r = true
      Q bancorMono <fn> v R c a a' r r' = ok   Q bancorSellAll v R c r = ok
      Q bancorRoundTrip v R c d r s = ok       Q bancorRoundTripAmount v R c w p s = ok

  A result that is not a number (the Go side writes `panic:…` or `nil-result`) is never accepted.
-/
namespace Minter

private def int? (s : String) : Option Int := s.toInt?

private def ints? (l : List String) : Option (List Int) := l.mapM int?

def bancorDomain (fn : String) (v R c x : Int) : Bool :=
  decide (0 < v) && decide (0 < R) && decide (0 < c) && decide (0 ≤ x) &&
  (match fn with
   | "saleReturn" => decide (x ≤ v)
   | "saleAmount" => decide (x ≤ R)
   | _ => true)

/-- Reserves above 2^100 pip (1.27·10^12 BIP) are not exactly representable in the node's 100-bit floats; the known finding
    "a sale of almost the whole supply returns the reserve rounded *up*" is confined to them and tagged, so that the same
    symptom for an exactly representable reserve is never mistaken for it. -/
def inexactTag (R : Int) : String := if R > pow2 100 then "(reserve>2^100)" else ""

/-- `SaleReturnOk` &c. of `Props/C12.lean`, decided: where the node uses integer arithmetic the result must be *equal* to the
    integer branch of the model; otherwise it must be accepted by the certificate with the fixed tolerance.  Next to it the
    exact range monitors (never negative; a sale never above the reserve). -/
def bancorCertQ (fn : String) (v R c x r : Int) : String :=
  if !bancorDomain fn v R c x then "domain" else
  let n := c.toNat
  let (int?, ok, range) := match fn with
    | "saleReturn" => (saleReturnInt v R n x, saleReturnCert v R n x r (saleReturnTol R r), bancorRangeOk true R r)
    | "purchaseReturn" => (purchaseReturnInt v R n x, purchaseReturnCert v R n x r (purchaseReturnTol v r), bancorRangeOk false R r)
    | "purchaseAmount" => (purchaseAmountInt v R n x, purchaseAmountCert v R n x r (purchaseAmountTol R r), bancorRangeOk false R r)
    | _ => (saleAmountInt v R n x, saleAmountCert v R n x r (saleAmountTol v R x r), bancorRangeOk false R r)
  match int? with
  | some r' => if r == r' then "true" else s!"integer-branch-expected:{r'}"
  | none =>
    if !ok then "false"
    else if !range then (if r < 0 then "negative-result" else "sale-return-exceeds-reserve" ++ inexactTag R)
    else "true"

private def cert (f v R c x r : String) : Option String :=
  match ints? [v, R, c, x], int? r with
  | some [v, R, c, x], some r => some (bancorCertQ f v R c x r)
  | _, _ => some s!"not-a-number:{r}"

def bancorEvalQ (fn : String) (args : List String) : Option String :=
  match fn, args with
  | "saleReturnCert", [v, R, c, x, r] => cert "saleReturn" v R c x r
  | "purchaseReturnCert", [v, R, c, x, r] => cert "purchaseReturn" v R c x r
  | "purchaseAmountCert", [v, R, c, x, r] => cert "purchaseAmount" v R c x r
  | "saleAmountCert", [v, R, c, x, r] => cert "saleAmount" v R c x r
  | "bancorMono", [f, v, R, c, a, a', r, r'] =>
    match ints? [v, R, c, a, a', r, r'] with
    | some [v, R, _, a, a', r, r'] =>
      if bancorMonoOk a a' r r' then some "ok"
      else if f == "saleReturn" && a' == v && r' == R then some ("non-monotone-at-whole-supply" ++ inexactTag R)
      else some "non-monotone"
    | _ => some "not-a-number"
  | "bancorSellAll", [v, R, c, r] =>
    match ints? [v, R, c], int? r with
    | some [v, R, c], some r => some (if saleReturnInt v R c.toNat v == some r && r == R then "ok" else "sell-all-differs-from-reserve")
    | _, _ => some "not-a-number"
  | "bancorRoundTrip", [v, R, _, d, r, s] =>
    match ints? [v, R, d, r, s] with
    | some [v, R, d, r, s] => some (if bancorRoundTripOk v R d r s then "ok" else "round-trip-returns-more-than-paid")
    | _ => some "not-a-number"
  | "bancorRoundTripAmount", [_, R, _, _, p, s] =>
    match ints? [R, p, s] with
    | some [R, p, s] => some (if bancorRoundTripAmountOk R p s then "ok" else "round-trip-returns-more-than-paid")
    | _ => some "not-a-number"
  | _, _ => none

end Minter
