import MinterModel.State
import Std.Data.HashMap
/-
  Parsing of the canonical dump (see harness/dump.go) into `State`.
-/
namespace Minter

def hexDigit (c : Char) : Nat :=
  if '0' ≤ c ∧ c ≤ '9' then c.toNat - '0'.toNat
  else if 'a' ≤ c ∧ c ≤ 'f' then c.toNat - 'a'.toNat + 10
  else if 'A' ≤ c ∧ c ≤ 'F' then c.toNat - 'A'.toNat + 10
  else 0

def hexNat (s : String) : Nat := s.toList.foldl (fun acc c => acc * 16 + hexDigit c) 0

def hexBytes (s : String) : List UInt8 :=
  let rec go : List Char → List UInt8
    | a :: b :: t => UInt8.ofNat (hexDigit a * 16 + hexDigit b) :: go t
    | _ => []
  go s.toList

def natD (s : String) : Nat := s.toNat?.getD 0
def intD (s : String) : Int := s.toInt?.getD 0
def boolD (s : String) : Bool := s == "true"

def optAddr (s : String) : Option Nat := if s == "-" then none else some (hexNat s)

def hexDigitChar (n : Nat) : Char := if n < 10 then Char.ofNat (48 + n) else Char.ofNat (87 + n)

/-- Lowercase hex of `n`, left-padded with zeros to `width` digits (addresses: 40, public keys: 64). -/
def hexPad (n : Nat) (width : Nat) : String :=
  let rec go (fuel : Nat) (n : Nat) (acc : List Char) : List Char :=
    match fuel with
    | 0 => acc
    | fuel + 1 => go fuel (n / 16) (hexDigitChar (n % 16) :: acc)
  String.ofList (go width n [])

def fnv64 (s : String) : UInt64 :=
  s.toUTF8.foldl (fun h b => (h ^^^ b.toUInt64) * 1099511628211) 14695981039346656037

abbrev Dump := Std.HashMap String String

def words (s : String) : List String := (s.splitOn " ").filter (· ≠ "")

def insertSorted {α : Type} (lt : α → α → Bool) (x : α) : List α → List α
  | [] => [x]
  | y :: t => if lt x y then x :: y :: t else y :: insertSorted lt x t

def sortBy {α : Type} (lt : α → α → Bool) (l : List α) : List α := l.foldl (fun acc x => insertSorted lt x acc) []

structure RawStake where
  cand : Nat
  idx : Nat
  st : Stake

/-- Build a `State` from a dump. Unknown keys are ignored. -/
def State.ofDump (d : Dump) : State := Id.run do
  let mut s : State := {}
  let mut stakes : List RawStake := []
  let mut updates : List RawStake := []
  let mut frozen : List (Nat × Nat × Frozen) := []
  let mut cands : List Candidate := []
  for (k, v) in d.toList do
    let kw := words k
    let vw := words v
    match kw with
    | ["b", a, c] => s := { s with balances := ((hexNat a, natD c), intD v) :: s.balances }
    | ["n", a] => s := { s with nonces := (hexNat a, natD v) :: s.nonces }
    | ["ls", a] => s := { s with lockStake := (hexNat a, natD v) :: s.lockStake }
    | ["ms", a] =>
      match vw with
      | [th, ows] =>
        let owners := (ows.splitOn ",").filterMap (fun p => match p.splitOn ":" with
          | [x, w] => some (hexNat x, natD w)
          | _ => none)
        s := { s with multisigs := (hexNat a, { threshold := natD th, owners := owners }) :: s.multisigs }
      | _ => pure ()
    | ["c", id] =>
      match vw with
      | [sym, ver, vol, res, crr, mx, own, mi, bu] =>
        s := { s with coins := { id := natD id, symbol := sym, version := natD ver, volume := intD vol, reserve := intD res, crr := natD crr, maxSupply := intD mx, owner := optAddr own, mintable := boolD mi, burnable := boolD bu } :: s.coins }
      | _ => pure ()
    | ["cand", id] =>
      match vw with
      | [pk, ow, rw, ct, com, stt, jail, le, tb] =>
        cands := { id := natD id, pubkey := hexNat pk, owner := hexNat ow, reward := hexNat rw, control := hexNat ct, commission := natD com, status := natD stt, jailedUntil := natD jail, lastEditCommission := natD le, totalBip := intD tb, stakes := [], updates := [] } :: cands
      | _ => pure ()
    | ["st", cid, ow, c] =>
      match vw with
      | [i, val, bip] => stakes := { cand := natD cid, idx := natD i, st := { owner := hexNat ow, coin := natD c, value := intD val, bip := intD bip } } :: stakes
      | _ => pure ()
    | ["up", cid, i] =>
      match vw with
      | [ow, c, val, bip] => updates := { cand := natD cid, idx := natD i, st := { owner := hexNat ow, coin := natD c, value := intD val, bip := intD bip } } :: updates
      | _ => pure ()
    | ["wl", cid, ow, c] =>
      -- duplicates are rendered "a+b"
      let tot := (v.splitOn "+").foldl (fun acc x => acc + intD x) 0
      s := { s with waitlist := { cand := natD cid, owner := hexNat ow, coin := natD c, value := tot } :: s.waitlist }
    | ["ff", h, i] =>
      match vw with
      | [a, ck, cid, c, val, mv] => frozen := (natD h, natD i, { height := natD h, addr := hexNat a, candKey := optAddr ck, candId := natD cid, coin := natD c, value := intD val, moveTo := natD mv }) :: frozen
      | _ => pure ()
    | ["p", c0, c1] =>
      match vw with
      | [id, r0, r1] => s := { s with pools := { c0 := natD c0, c1 := natD c1, id := natD id, r0 := intD r0, r1 := intD r1 } :: s.pools }
      | _ => pure ()
    | ["o", id] =>
      match vw with
      | [c0, c1, sale, v0, v1, ow, h] => s := { s with orders := { id := natD id, c0 := natD c0, c1 := natD c1, isSale := boolD sale, v0 := intD v0, v1 := intD v1, owner := hexNat ow, height := natD h } :: s.orders }
      | _ => pure ()
    | ["v", pk] =>
      match vw with
      | [tb, acc, bits, ad, dr] => s := { s with validators := { pubkey := hexNat pk, totalBip := intD tb, accum := intD acc, absent := bits.toList.map (· == '1'), tmAddr := hexNat ad, toDrop := dr == "drop" } :: s.validators }
      | [tb, acc, bits, ad] => s := { s with validators := { pubkey := hexNat pk, totalBip := intD tb, accum := intD acc, absent := bits.toList.map (· == '1'), tmAddr := hexNat ad } :: s.validators }
      | [tb, acc, bits] => s := { s with validators := { pubkey := hexNat pk, totalBip := intD tb, accum := intD acc, absent := bits.toList.map (· == '1') } :: s.validators }
      | [tb, acc] => s := { s with validators := { pubkey := hexNat pk, totalBip := intD tb, accum := intD acc, absent := [] } :: s.validators }
      | _ => pure ()
    | ["uc", h] => s := { s with usedChecks := h :: s.usedChecks }
    | ["h", h, pk] => s := { s with halts := (natD h, hexNat pk) :: s.halts }
    | ["cv", h, pk] => s := { s with cvotes := ((natD h, hexNat pk), v) :: s.cvotes }
    | ["uv", h, pk] => s := { s with uvotes := ((natD h, hexNat pk), v) :: s.uvotes }
    | ["blk", pk] => s := { s with blocklist := hexNat pk :: s.blocklist }
    | ["del", id] => s := { s with deleted := (natD id, hexNat v) :: s.deleted }
    | ["app", "slashed"] => s := { s with slashed := intD v }
    | ["app", "maxgas"] => s := { s with maxGas := natD v }
    | ["app", "nextorder"] => s := { s with nextOrder := natD v }
    | ["app", "ncoins"] => s := { s with ncoins := natD v }
    | ["app", "rewards"] => s := { s with rewardsPool := intD v }
    | ["app", "totalstakes"] => s := { s with totalStakes := intD v }
    | ["app", "reward"] =>
      match vw with
      | [r, sr] => s := { s with reward := intD r, safeReward := intD sr }
      | _ => pure ()
    | ["com", f] => s := { s with commission := (f, intD v) :: s.commission }
    | ["db", "emission"] => s := { s with emission := intD v }
    | ["db", "price"] => s := { s with price := v }
    | ["db", "versions"] => s := { s with versions := v }
    | _ => pure ()
  -- attach stakes / updates in slot order
  let cands' := cands.map (fun cd =>
    let ss := (sortBy (fun a b => a.idx < b.idx) (stakes.filter (·.cand == cd.id))).map (·.st)
    let us := (sortBy (fun a b => a.idx < b.idx) (updates.filter (·.cand == cd.id))).map (·.st)
    { cd with stakes := ss, updates := us })
  let fr := (sortBy (fun (a b : Nat × Nat × Frozen) => a.1 < b.1 || (a.1 == b.1 && a.2.1 < b.2.1)) frozen).map (·.2.2)
  return { s with
    candidates := sortBy (fun a b => a.id < b.id) cands',
    frozen := fr,
    coins := sortBy (fun a b => a.id < b.id) s.coins,
    pools := sortBy (fun a b => a.id < b.id) s.pools,
    orders := sortBy (fun a b => a.id < b.id) s.orders,
    validators := sortBy (fun a b => a.pubkey < b.pubkey) s.validators }

/-- Digest of a price table given as (field, decimal value) pairs: FNV-64 of the values in field order (harness/dump.go `commissionDigest`). -/
def comDigestOf (c : List (String × String)) : String :=
  let sorted := sortBy (fun a b => a.1 < b.1) c
  let txt := String.join (sorted.map (fun e => e.2 ++ ","))
  hexPad (fnv64 txt).toNat 16 |>.toList |>.dropWhile (· == '0') |> String.ofList

def addrS (a : Nat) : String := hexPad a 40
def pkS (a : Nat) : String := hexPad a 64
def optAddrS (a : Option Nat) : String := match a with | some x => addrS x | none => "-"
def optPkS (a : Option Nat) : String := match a with | some x => pkS x | none => "-"

def lookupFirst {α : Type} (p : α → Bool) : List α → Option α
  | [] => none
  | x :: t => if p x then some x else lookupFirst p t

/-- The dump value the state holds under a dump key (`none` = the key is absent); the inverse of `State.ofDump` on the keys
    the transaction model can change.  `st` entries are rendered without the slot index, `v` entries as `live`/`drop`. -/
def State.valueAt (s : State) (key : String) : Option String :=
  match words key with
  | ["b", a, c] =>
    let v := Bag.get s.balances (hexNat a, natD c)
    if v == 0 then none else some (toString v)
  | ["n", a] =>
    match s.nonces.lookup (hexNat a) with
    | some n => if n == 0 then none else some (toString n)
    | none => none
  | ["ms", a] =>
    match s.multisigs.lookup (hexNat a) with
    | some ms => if ms.owners.isEmpty then none else
      some (s!"{ms.threshold} " ++ ",".intercalate (ms.owners.map (fun e => s!"{addrS e.1}:{e.2}")))
    | none => none
  | ["ls", a] =>
    match s.lockStake.lookup (hexNat a) with
    | some h => if h == 0 then none else some (toString h)
    | none => none
  | ["c", id] =>
    match lookupFirst (fun ci => ci.id == natD id) s.coins with
    | some ci => some s!"{ci.symbol} {ci.version} {ci.volume} {ci.reserve} {ci.crr} {ci.maxSupply} {optAddrS ci.owner} {ci.mintable} {ci.burnable}"
    | none => none
  | ["cand", id] =>
    match lookupFirst (fun cd => cd.id == natD id) s.candidates with
    | some cd => some s!"{pkS cd.pubkey} {addrS cd.owner} {addrS cd.reward} {addrS cd.control} {cd.commission} {cd.status} {cd.jailedUntil} {cd.lastEditCommission} {cd.totalBip}"
    | none => none
  | ["st", cid, ow, c] =>
    match lookupFirst (fun cd => cd.id == natD cid) s.candidates with
    | some cd =>
      match lookupFirst (fun st => st.owner == hexNat ow && st.coin == natD c) cd.stakes with
      | some st => some s!"{st.value} {st.bip}"
      | none => none
    | none => none
  | ["up", cid, i] =>
    match lookupFirst (fun cd => cd.id == natD cid) s.candidates with
    | some cd =>
      match cd.updates[natD i]? with
      | some st => some s!"{addrS st.owner} {st.coin} {st.value} {st.bip}"
      | none => none
    | none => none
  | ["wl", cid, ow, c] =>
    let l := s.waitlist.filter (fun w => w.cand == natD cid && w.owner == hexNat ow && w.coin == natD c)
    if l.isEmpty then none else some (toString (l.foldl (fun acc w => acc + w.value) 0))
  | ["ff", h, i] =>
    match (s.frozen.filter (fun f => f.height == natD h))[natD i]? with
    | some f => some s!"{addrS f.addr} {optPkS f.candKey} {f.candId} {f.coin} {f.value} {f.moveTo}"
    | none => none
  | ["p", c0, c1] =>
    match lookupFirst (fun p => p.c0 == natD c0 && p.c1 == natD c1) s.pools with
    | some p => some s!"{p.id} {p.r0} {p.r1}"
    | none => none
  | ["o", id] =>
    match lookupFirst (fun o => o.id == natD id) s.orders with
    | some o => some s!"{o.c0} {o.c1} {o.isSale} {o.v0} {o.v1} {addrS o.owner} {o.height}"
    | none => none
  | ["v", pk] =>
    match lookupFirst (fun v => v.pubkey == hexNat pk) s.validators with
    | some v => some (if v.toDrop then "drop" else "live")
    | none => none
  | ["uc", h] => if s.usedChecks.contains h then some "1" else none
  | ["h", h, pk] => if s.halts.contains (natD h, hexNat pk) then some "1" else none
  | ["cv", h, pk] => (s.cvotes.lookup (natD h, hexNat pk))
  | ["uv", h, pk] => (s.uvotes.lookup (natD h, hexNat pk))
  | ["blk", pk] => if s.blocklist.contains (hexNat pk) then some "1" else none
  | ["app", "slashed"] => some (toString s.slashed)
  | ["app", "rewards"] => some (toString s.rewardsPool)
  | ["app", "ncoins"] => some (toString s.ncoins)
  | ["app", "nextorder"] => some (toString s.nextOrder)
  | _ => none

/-- Which dump keys `State.valueAt` speaks about (others are not compared). -/
def State.tracksKey (key : String) : Bool :=
  match words key with
  | "b" :: _ | "n" :: _ | "ms" :: _ | "ls" :: _ | "c" :: _ | "cand" :: _ | "st" :: _ | "up" :: _ | "wl" :: _ | "ff" :: _
  | "p" :: _ | "o" :: _ | "v" :: _ | "uc" :: _ | "h" :: _ | "cv" :: _ | "uv" :: _ | "blk" :: _ => true
  | ["app", "slashed"] | ["app", "rewards"] | ["app", "ncoins"] | ["app", "nextorder"] => true
  | _ => false

/-- Apply one delta line (`=key<TAB>value` or `-key`) to a dump. -/
def Dump.applyLine (d : Dump) (line : String) : Dump :=
  match line.toList with
  | '=' :: rest =>
    let body := String.ofList rest
    match body.splitOn "\t" with
    | [k, v] => d.insert k v
    | k :: vs => d.insert k ("\t".intercalate vs)
    | [] => d
  | '-' :: rest => d.erase (String.ofList rest)
  | _ => d

end Minter
