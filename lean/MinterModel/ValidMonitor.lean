import MinterModel.Validators
import MinterModel.Ledger
/-
  Campaign-path monitors for C17/C19: the *proven* functions of MinterModel/Validators.lean evaluated on the node's own
  observations around EndBlock (`old` = live projection before EndBlock, `new` = after).  They replace the ad-hoc
  `endMonitor` / `validatorSetMonitor` of Monitors.lean: the monitor IS the model the theorems are about.
-/
namespace Minter

def daoAddress : Addr := 0x7f0fc21d932f38ca9444f61703174569066cfa50
def devAddress : Addr := 0x688568d9d70c57e71d0b9de6480afb0d317f885c
def maxUint64 : Nat := 18446744073709551615

/-- Present in the block = its tendermint address signed (`validatorsStatuses[address] == ValidatorPresent`). -/
def presentOf (s : State) (signed : List Nat) : PubKey → Bool :=
  fun pk => s.validators.any (fun v => v.pubkey == pk && signed.contains v.tmAddr)

def endPot (old : State) (capReached : Bool) : Int := (if capReached then 0 else old.reward) + old.rewardsPool

/-- What `PayRewardsV5Fix` reads for every validator of `s` (after the accrual of the block). -/
def payVals (s : State) (vals : List Validator) : List PayVal :=
  vals.map (fun v =>
    match findFirst (fun c => c.pubkey == v.pubkey) s.candidates with
    | none => { id := v.pubkey, accum := v.accum, valStake := v.totalBip, commission := 0, rewardAddr := 0, stakes := [], hasCandidate := false }
    | some c =>
      { id := v.pubkey, accum := v.accum, valStake := v.totalBip, commission := c.commission, rewardAddr := c.reward,
        stakes := c.stakes.map (fun st => { owner := st.owner, coin := st.coin, bip := st.bip,
                                            lockUntil := (s.lockStake.lookup st.owner).getD 0 }) })

/-- C19 on a block: accrual (every block) and, on payout blocks, the total that reaches the slashed counter. -/
def endMonitorModel (old new : State) (signed : List Nat) (capReached payout : Bool) (height : Nat) (period : Nat) : List String :=
  let pot0 := endPot old capReached
  let r := endBlockAccrue pot0 old.validators (presentOf old signed)
  let sameSet := (old.validators.map (·.pubkey)) == (new.validators.map (·.pubkey))
  if !payout then
    let accr := r.1.filterMap (fun v' =>
      match findFirst (fun w => w.pubkey == v'.pubkey) new.validators with
      | none => none
      | some w =>
        if w.accum == v'.accum then none
        else
          let o := (findFirst (fun u => u.pubkey == v'.pubkey) old.validators).map (·.accum)
          let tag := if !(isPresent (presentOf old signed) v') && w.accum > v'.accum then "accrued-while-not-present" else "wrong-accrual"
          some s!"VIOL C19 {tag} validator={v'.pubkey} accum:{o.getD 0}->{w.accum} model={v'.accum} pot={pot0} stake={v'.totalBip} totalPower={totalPower (returnDropped old.validators).1 (presentOf old signed)}")
    let sl := if sameSet && new.slashed - old.slashed != r.2 then
        [s!"VIOL C19 accrual-remainder slashed:{old.slashed}->{new.slashed} model-remainder={r.2} pot={pot0}"] else []
    accr ++ sl
  else
    let outs := payoutAll (if capReached then maxUint64 else height) old.reward old.safeReward period daoAddress devAddress (payVals old r.1)
    if outs.any (fun x => x.2.remainder < 0) then [s!"VIOL C19 model-predicts-negative-remainder-panic height={height}"]
    else
      -- (integration) a validator whose candidate changed its public key in this block is skipped by the payout
      -- (`GetCandidate == nil`) and then replaced by the validator-set update of the same EndBlock, which matches old
      -- validators by Tendermint address: `SetNewValidators` moves the accumulated reward of a validator that leaves
      -- the set to the slashed counter (/repo 2752269, f4d0559)
      let leftUnpaid := sumBy (fun v =>
        if !(old.candidates.any (fun c => c.pubkey == v.pubkey)) && !(new.validators.any (fun w => w.pubkey == v.pubkey)) && v.accum > 0
        then v.accum else 0) r.1
      let want := r.2 + sumBy (fun x => x.2.remainder) outs + leftUnpaid
      let lost := sumBy (fun x => x.2.lost) outs
      (if new.slashed - old.slashed != want then
        [s!"VIOL C19 payout-remainder slashed:{old.slashed}->{new.slashed} model={want} accrual-remainder={r.2} left-unpaid={leftUnpaid}"] else [])
      ++ (if lost != 0 then [s!"VIOL C19 payout-loses-rewards lost={lost} height={height}"] else [])
      ++ (new.validators.filterMap (fun w => if w.accum != 0 && (old.validators.any (fun v => v.pubkey == w.pubkey)) &&
            (old.candidates.any (fun c => c.pubkey == w.pubkey))
          then some s!"VIOL C19 accum-not-reset-by-payout validator={w.pubkey} accum={w.accum}" else none))

/-- C17 after a validator-set update: the validators in the state are exactly `selectValidators` of the candidates in the state. -/
def validatorSetModel (s : State) : List String :=
  let sel := (selectValidators validatorsLimit minValidatorBipStake s.candidates).map (·.pubkey)
  let have_ := s.validators.map (·.pubkey)
  (sel.filterMap (fun k => if have_.contains k then none else some s!"VIOL C17 selected-candidate-not-validator pubkey={k}"))
  ++ (have_.filterMap (fun k => if sel.contains k then none else some s!"VIOL C17 validator-not-selected pubkey={k}"))
  ++ (s.validators.filterMap (fun v =>
        match findFirst (fun c => c.pubkey == v.pubkey) s.candidates with
        | some c => if c.totalBip == v.totalBip then none else some s!"VIOL C17 validator-stake-differs-from-candidate pubkey={v.pubkey} validator={v.totalBip} candidate={c.totalBip}"
        | none => none))

/-! ## Pruning at a recalculation (`RecalculateStakesV2`): who is removed is decided by the totals of THIS recalculation -/

/-- All stakes and pending updates of the candidate are in the base coin: its recalculated total is the plain sum
    (`calculateBipValue` is the identity for the base coin; fewer than 1000 entries, so nothing is kicked to the waitlist). -/
def baseOnly (c : Candidate) : Bool :=
  (c.stakes ++ c.updates).all (fun s => s.coin == 0) && decide ((c.stakes ++ c.updates).length ≤ maxDelegators)

/-- Base-coin part of the recalculated total: a lower bound in general (custom-coin stakes are worth ≥ 0), the exact total
    for a `baseOnly` candidate. Updates with a non-positive value are dropped by `getFilteredUpdates`. -/
def baseStakeSum (c : Candidate) : Int :=
  sumBy (fun s => if s.coin == 0 then s.value else 0) c.stakes
  + sumBy (fun s => if s.coin == 0 && decide (s.value > 0) then s.value else 0) c.updates

/-- C17 on the node's own states around an EndBlock (`old` = live state before, `new` = after; `recalc` = the block is a
    recalculation block). The survivors carry their recalculated totals in `new`; a removed candidate's total is known from its
    stakes and pending updates in `old` (exactly when they are all in the base coin, else bounded from below).
    * nobody who is removed outranks (stake desc, id asc - `candLessID`) a candidate that stays;
    * when every removed candidate's total is exact, the removed set is `prunedCandidates` - the function the C17 theorems
      are about - of the candidates with their recalculated totals;
    * after a recalculation no non-validator stands beyond rank 100, and nobody is removed while there is room. -/
def pruneMonitor (old new : State) (recalc : Bool) : List String :=
  let removed := old.candidates.filter (fun c => !(new.candidates.any (fun d => d.id == c.id)))
  let isVal : PubKey → Bool := fun pk => old.validators.any (fun v => v.pubkey == pk)
  let stay := new.candidates.filter (fun s => !isVal s.pubkey)
  let outranks := (removed.flatMap (fun (r : Candidate) =>
    let lb := baseStakeSum r
    let rel := if baseOnly r then "=" else ">="
    stay.filterMap (fun (s : Candidate) =>
      if decide (lb > s.totalBip) || (baseOnly r && decide (lb = s.totalBip) && decide (r.id < s.id)) then
        some s!"VIOL C17 removed-candidate-outranks-survivor removed={r.id} total{rel}{lb} survivor={s.id} total={s.totalBip}"
      else none))).take 3
  let exact :=
    if removed.isEmpty || !(removed.all baseOnly) then [] else
    let cands := new.candidates ++ removed.map (fun r => { r with totalBip := baseStakeSum r })
    let want := (prunedCandidates candidatesLimit isVal cands).map (·.id)
    let got := removed.map (·.id)
    if want.all got.contains && got.all want.contains then []
    else [s!"VIOL C17 pruned-set-differs model={want} node={got}"]
  let room :=
    if !removed.isEmpty && old.candidates.length ≤ candidatesLimit then
      [s!"VIOL C17 candidate-removed-within-limit removed={removed.map (·.id)} candidates={old.candidates.length}"] else []
  let beyond :=
    if !recalc then [] else
    (((sortStable candLessID new.candidates).drop candidatesLimit).filter (fun c => !isVal c.pubkey)).map (fun c =>
      s!"VIOL C17 candidate-beyond-limit-not-removed id={c.id} total={c.totalBip} candidates={new.candidates.length}")
  outranks ++ exact ++ room ++ beyond.take 3

end Minter
