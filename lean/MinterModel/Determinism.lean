/-
  C08 — where the Go code could depend on map iteration order, and the model of what it does about it.
  A Go map iteration is modelled as an *arbitrary permutation* of the map's entries (keys are distinct).
  Every state module flushes its dirty entries to the IAVL tree in `getOrderedDirty*` order (sorted by key) because the
  tree's shape — and therefore the app hash — depends on the order of the writes.
-/
namespace Minter

/-- `getOrderedDirty*` + the write loop: the dirty entries in ascending key order (the sequence of tree writes). -/
def commitWrites {β : Type} (dirty : List (Nat × β)) : List (Nat × β) :=
  dirty.mergeSort (fun a b => decide (a.1 ≤ b.1))

/-- A commutative accumulation over a map (total stakes, sums of deltas, set inserts). -/
def accumulate (vals : List (Nat × Int)) : Int := vals.foldl (fun acc e => acc + e.2) 0

/-- Candidate ranking used for validator selection and pruning: stake descending, then id descending
    (`getOrderedCandidates`); ids are unique so the order is total. -/
def rankLe (a b : Nat × Int) : Bool := decide (a.2 > b.2) || (decide (a.2 = b.2) && decide (a.1 ≥ b.1))

def rankCandidates (cands : List (Nat × Int)) : List (Nat × Int) := cands.mergeSort rankLe

/-- Ranking used for removing the candidates beyond the first 100 (`getOrderedCandidatesLessID`, called by
    `RecalculateStakesV2`): stake descending, then id ASCENDING. The slice that Go sorts is filled by ranging over the
    map `c.list`, and `sort.SliceStable` keeps the (random) input order of elements that compare equal: the id tie-break is
    what makes the order total and the pruned tail `[100:]` - and the order of the `DeleteCandidate` calls - a function
    of the candidate set alone. -/
def rankLessIdLe (a b : Nat × Int) : Bool := decide (a.2 > b.2) || (decide (a.2 = b.2) && decide (a.1 ≤ b.1))

def pruneRankCandidates (cands : List (Nat × Int)) : List (Nat × Int) := cands.mergeSort rankLessIdLe

/-- The candidates `RecalculateStakesV2` deletes, in deletion order: everything behind position `limit` (100) of the pruning order. -/
def prunedTail (limit : Nat) (cands : List (Nat × Int)) : List (Nat × Int) := (pruneRankCandidates cands).drop limit

/-- The comparator WITHOUT the id tie-break (stake only). A stable sort with it keeps the iteration order inside a group of
    equal stakes; used only to state that the tie-break is necessary (`C08_stake_only_order_depends_on_iteration`). -/
def stakeOnlyLe (a b : Nat × Int) : Bool := decide (a.2 ≥ b.2)

/-- The syntactic patterns of a range-over-map loop whose effect is independent of the iteration order. -/
def safePatterns : List String := ["collect-then-sort", "commutative", "lookup", "empty"]

/-- Sites the classifier cannot recognise, reviewed by hand: site id ↦ why the iteration order cannot reach consensus state. -/
def reviewedSites : List (String × String) := [
  ("coreV2/state/accounts:Accounts.ExportV1#1:subCoinValue", "legacy export (V1), not on the live path; result sorted by the caller"),
  ("coreV2/state/candidates:Candidates.loadStakesV1#1:c.pubKeyIDs", "legacy loader, not on the live path (loadStakes is)"),
  ("coreV2/state/checker:Checker.Check#1:c.deltas()", "pure comparison of two maps; only the error text of a panic depends on the order"),
  ("coreV2/state/swap:Pair.updateDirtyOrders#1:p.unsortedSellOrderIDs().list", "legacy Swap V1; collected ids are sorted by (price, id) right after the loop"),
  ("coreV2/state/swap:PairV2.updateDirtyOrders#1:p.unsortedSellOrderIDs().list", "collected orders are sorted by (sort price, id) right after the loop (sort.Slice on `dirties`)"),
  ("coreV2/state/swap:Swap.Export#1:s.pairs", "legacy Swap V1"),
  ("coreV2/state/swap:Swap.SwapPools#1:s.pairs", "legacy Swap V1"),
  ("coreV2/state/swap:Swap.swapPools#1:s.pairs", "legacy Swap V1"),
  ("coreV2/state/swap:SwapV2.Export#1:s.pairs", "export only: pools are sorted by key after the loop; NextOrderID assignment is idempotent"),
  ("coreV2/state/swap:SwapV2.SwapPools#1:s.pairs", "API route search only (GetBestTrade*), never called from block execution"),
  ("coreV2/state/swap:SwapV2.swapPools#1:s.pairs", "API route search only (GetBestTrade*), never called from block execution")
]

/-- Decidable form of the regenerated obligation. -/
def rangeSitesOk (sites : List (String × String)) : Bool :=
  sites.all (fun s => safePatterns.contains s.2 || (reviewedSites.map (·.1)).contains s.1)

/-- The order of persistence calls `Blockchain.Commit` must make (events, state tree, then the app-DB records).
    Since /repo 861d6db (fix-C10) the app-DB records of a block are collected between `StartBatch` and `WriteBatch`
    and reach the disk in one atomic tm-db batch. -/
def expectedCommitCalls : List String :=
  ["stateDeliver.Check", "eventsDB.CommitEvents", "stateDeliver.Commit", "appDB.StartBatch", "appDB.SetLastBlockHash",
   "appDB.SetLastHeight", "appDB.FlushValidators", "appDB.SaveBlocksTime", "appDB.SaveVersions", "appDB.SaveEmission",
   "appDB.SavePrice", "appDB.WriteBatch", "appDB.WG.Add"]

end Minter
