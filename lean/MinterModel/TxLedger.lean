import MinterModel.TxBase
/-
  L2, part 2: Send, Multisend, the coin registry (create / recreate / edit owner / mint / burn) and RedeemCheck.
  Every handler mirrors the order of the checks of the Go `basicCheck` + `Run`.
-/
namespace Minter

def parseMultisend (v : String) : List (Coin × Addr × Int) :=
  if v == "-" || v == "" then [] else
  (v.splitOn ",").filterMap (fun it => match it.splitOn ":" with
    | [c, a, x] => some (natD c, hexNat a, intD x)
    | _ => none)

/-- Send (1). -/
def runSend (P : Params) (o : Oracle) (s : State) (t : TxIn) (price : Int) : Handler :=
  let coin := t.nat "d.Coin"; let to := t.hex "d.To"; let value := t.int "d.Value"
  if !coinExists s coin then reject 102 else
  withCom P o s t.gasCoin price fun com =>
    if t.gasCoin != coin && balanceOf s t.sender coin < value then reject 107 else
    if balanceOf s t.sender t.gasCoin < t.addIfGas coin com.commission value then reject 107 else
    ready t com [.transfer t.sender to coin value]

def sumFor (items : List (Coin × Addr × Int)) (c : Coin) : Int :=
  sumBy (fun it => if it.1 == c then it.2.2 else 0) items

/-- Multisend (13). -/
def runMultisend (P : Params) (o : Oracle) (s : State) (t : TxIn) (price : Int) : Handler :=
  let items := parseMultisend (t.str "d.List")
  if items.length < 1 || items.length > 100 then reject 111 else
  if items.any (fun it => !coinExists s it.1) then reject 102 else
  withCom P o s t.gasCoin price fun com =>
    -- checkBalances: totals per coin (gas coin includes the commission)
    let coins := (t.gasCoin :: items.map (·.1)).eraseDups
    let short := coins.any (fun c => balanceOf s t.sender c < sumFor items c + (if c == t.gasCoin then com.commission else 0))
    if short then reject 107 else
    ready t com (items.map (fun it => Move.transfer t.sender it.2.1 it.1 it.2.2))

def isUpperOrDigit (c : Char) : Bool := ('A' ≤ c && c ≤ 'Z') || ('0' ≤ c && c ≤ '9')
/-- `checkAllowSymbol`: `^[A-Z0-9]{3,10}$` and not a decimal number. -/
def allowSymbol (sym : String) : Bool :=
  3 ≤ sym.length && sym.length ≤ 10 && sym.toList.all isUpperOrDigit && !(sym.toList.all Char.isDigit)

def baseSymbol (P : Params) : String := if P.chain == 1 then "BIP" else "MNT"
def symbolExists (P : Params) (s : State) (sym : String) : Bool := sym == baseSymbol P || s.coins.any (·.symbol == sym)
def coinBySymbolV0 (s : State) (sym : String) : Option CoinInfo := findFirst (fun ci => ci.symbol == sym && ci.version == 0) s.coins
def symbolOwner (s : State) (sym : String) : Option Addr :=
  match findFirst (fun ci => ci.symbol == sym && ci.owner.isSome) s.coins with
  | some ci => ci.owner
  | none => none
def maxVersion (s : State) (sym : String) : Nat := (s.coins.filter (·.symbol == sym)).foldl (fun m ci => max m ci.version) 0
def nextCoinId (s : State) : Coin := s.ncoins + 1

/-- CreateCoin (5). -/
def runCreateCoin (P : Params) (o : Oracle) (s : State) (t : TxIn) (price : Int) : Handler :=
  let sym := t.str "d.Symbol"
  let amount := t.int "d.InitialAmount"; let reserve := t.int "d.InitialReserve"; let crr := t.nat "d.ConstantReserveRatio"; let maxS := t.int "d.MaxSupply"
  if (t.str "d.Name").length / 2 > 64 then reject 204 else
  if !allowSymbol sym then reject 203 else
  if symbolExists P s sym then reject 201 else
  if maxS > P.maxSupply then reject 205 else
  if amount < oneBip || amount > maxS then reject 205 else
  if reserve < P.minReserve then reject 205 else
  if crr < 10 || crr > 100 then reject 202 else
  withCom P o s t.gasCoin price fun com =>
    if balanceOf s t.sender t.gasCoin < com.commission then reject 107 else
    if balanceOf s t.sender 0 < t.addIfGas 0 reserve com.inBase then reject 107 else
    let id := nextCoinId s
    let ci : CoinInfo := { id := id, symbol := sym, version := 0, volume := amount, reserve := reserve, crr := crr, maxSupply := maxS, owner := some t.sender, mintable := false, burnable := false }
    ready t com [.createCoin t.sender ci] [("tx.coin_id", toString id)]

/-- CreateToken (30). -/
def runCreateToken (P : Params) (o : Oracle) (s : State) (t : TxIn) (price : Int) : Handler :=
  let sym := t.str "d.Symbol"
  let amount := t.int "d.InitialAmount"; let maxS := t.int "d.MaxSupply"
  let mintable := t.bool "d.Mintable"; let burnable := t.bool "d.Burnable"
  if (t.str "d.Name").length / 2 > 64 then reject 204 else
  if !allowSymbol sym then reject 203 else
  if symbolExists P s sym then reject 201 else
  if !mintable && amount != maxS then reject 205 else
  if amount < 1 || amount > maxS then reject 205 else
  if maxS > P.maxSupply then reject 205 else
  withCom P o s t.gasCoin price fun com =>
    if balanceOf s t.sender t.gasCoin < com.commission then reject 107 else
    let id := nextCoinId s
    let ci : CoinInfo := { id := id, symbol := sym, version := 0, volume := amount, reserve := 0, crr := 0, maxSupply := maxS, owner := some t.sender, mintable := mintable, burnable := burnable }
    ready t com [.createCoin t.sender ci] [("tx.coin_id", toString id)]

/-- RecreateCoin (16). -/
def runRecreateCoin (P : Params) (o : Oracle) (s : State) (t : TxIn) (price : Int) : Handler :=
  let sym := t.str "d.Symbol"
  let amount := t.int "d.InitialAmount"; let reserve := t.int "d.InitialReserve"; let crr := t.nat "d.ConstantReserveRatio"; let maxS := t.int "d.MaxSupply"
  if (t.str "d.Name").length / 2 > 64 then reject 204 else
  if amount < oneBip || amount > maxS then reject 205 else
  if maxS > P.maxSupply then reject 205 else
  if reserve < P.minReserve then reject 205 else
  if crr < 10 || crr > 100 then reject 202 else
  if sym == baseSymbol P then reject 206 else
  match coinBySymbolV0 s sym with
  | none => reject 102
  | some old =>
    if symbolOwner s sym != some t.sender then reject 206 else
    withCom P o s t.gasCoin price fun com =>
      if balanceOf s t.sender t.gasCoin < com.commission then reject 107 else
      if balanceOf s t.sender 0 < reserve then reject 107 else
      if t.gasCoin == 0 && balanceOf s t.sender 0 < reserve + com.commission then reject 107 else
      let id := nextCoinId s
      let ci : CoinInfo := { id := id, symbol := sym, version := 0, volume := amount, reserve := reserve, crr := crr, maxSupply := maxS, owner := some t.sender, mintable := false, burnable := false }
      ready t com [.admin (.bumpVersion old.id (maxVersion s sym + 1)), .createCoin t.sender ci] [("tx.coin_id", toString id)]

/-- RecreateToken (31). -/
def runRecreateToken (P : Params) (o : Oracle) (s : State) (t : TxIn) (price : Int) : Handler :=
  let sym := t.str "d.Symbol"
  let amount := t.int "d.InitialAmount"; let maxS := t.int "d.MaxSupply"
  let mintable := t.bool "d.Mintable"; let burnable := t.bool "d.Burnable"
  if (t.str "d.Name").length / 2 > 64 then reject 204 else
  if !mintable && amount != maxS then reject 205 else
  if amount < 1 || amount > maxS then reject 205 else
  if maxS > P.maxSupply then reject 205 else
  if sym == baseSymbol P then reject 206 else
  match coinBySymbolV0 s sym with
  | none => reject 102
  | some old =>
    if symbolOwner s sym != some t.sender then reject 206 else
    withCom P o s t.gasCoin price fun com =>
      if balanceOf s t.sender t.gasCoin < com.commission then reject 107 else
      let id := nextCoinId s
      let ci : CoinInfo := { id := id, symbol := sym, version := 0, volume := amount, reserve := 0, crr := 0, maxSupply := maxS, owner := some t.sender, mintable := mintable, burnable := burnable }
      ready t com [.admin (.bumpVersion old.id (maxVersion s sym + 1)), .createCoin t.sender ci] [("tx.coin_id", toString id)]

/-- EditCoinOwner (17). -/
def runEditCoinOwner (P : Params) (o : Oracle) (s : State) (t : TxIn) (price : Int) : Handler :=
  let sym := t.str "d.Symbol"
  if !symbolExists P s sym then reject 102 else
  if symbolOwner s sym != some t.sender then reject 206 else
  withCom P o s t.gasCoin price fun com =>
    if balanceOf s t.sender t.gasCoin < com.commission then reject 107 else
    ready t com [.admin (.setCoinOwner sym (t.hex "d.NewOwner"))]

/-- MintToken (28). -/
def runMintToken (P : Params) (o : Oracle) (s : State) (t : TxIn) (price : Int) : Handler :=
  let coin := t.nat "d.Coin"; let value := t.int "d.Value"
  if coin == 0 then reject 801 else        -- the base coin is not mintable
  match getCoin s coin with
  | none => reject 102
  | some ci =>
    if !ci.mintable then reject 801 else
    if ci.volume + value > ci.maxSupply then reject 206 else
    if ci.version != 0 || symbolOwner s ci.symbol != some t.sender then reject 206 else
    withCom P o s t.gasCoin price fun com =>
      if balanceOf s t.sender t.gasCoin < com.commission then reject 107 else
      ready t com [.mint t.sender coin value]

/-- BurnToken (29). -/
def runBurnToken (P : Params) (o : Oracle) (s : State) (t : TxIn) (price : Int) : Handler :=
  let coin := t.nat "d.Coin"; let value := t.int "d.Value"
  if coin == 0 then reject 802 else
  match getCoin s coin with
  | none => reject 102
  | some ci =>
    if !ci.burnable then reject 802 else
    if ci.volume - value < 1 then reject 206 else
    withCom P o s t.gasCoin price fun com =>
      if balanceOf s t.sender t.gasCoin < com.commission then reject 107 else
      if balanceOf s t.sender coin < t.addIfGas coin value com.commission then reject 107 else
      ready t com [.mint t.sender coin (-value)]

/-! ### RedeemCheck (9)

  The check is carried on the transaction as oracle facts (`k.*`): decoded fields, the issuer recovered from its
  signature, the lock public key recovered from `Lock`, the public key recovered from the proof over
  `keccak(rlp[redeemer])`, and the check hash.  The issuer pays both the value and the commission. -/

structure CheckIn where
  chain : Nat
  nonceLen : Nat
  due : Nat
  coin : Coin
  value : Int
  gasCoin : Coin
  issuer : Option Addr
  lock : String
  proofPub : String
  hash : String
  deriving Repr

/-- `check.DecodeFromBytes(data.RawCheck)`; `none` when the bytes do not decode. -/
def TxIn.check (t : TxIn) : Option CheckIn :=
  if t.str "k.dec" != "1" then none else
  some { chain := t.nat "k.chain", nonceLen := t.nat "k.noncelen", due := t.nat "k.due", coin := t.nat "k.coin", value := t.int "k.value",
         gasCoin := t.nat "k.gascoin", issuer := (if t.str "k.from" == "bad" || t.str "k.from" == "" then none else some (t.hex "k.from")),
         lock := t.str "k.lock", proofPub := t.str "k.proofpub", hash := t.str "k.hash" }

def runRedeemCheck (P : Params) (o : Oracle) (s : State) (block : Nat) (t : TxIn) (price : Int) : Handler :=
  if listLen (t.str "d.RawCheck") == 0 then reject 106 else
  if t.gasPrice != 1 then reject 504 else
  match t.check with
  | none => reject 106
  | some k =>
    if k.chain != P.chain then reject 115 else
    if k.nonceLen > 16 then reject 506 else
    match k.issuer with
    | none => reject 106
    | some issuer =>
      if !coinExists s k.coin then reject 102 else
      if !coinExists s k.gasCoin then reject 102 else
      if t.gasCoin != k.gasCoin then reject 505 else
      if k.due < block then reject 502 else
      if s.usedChecks.contains k.hash then reject 503 else
      if k.lock == "bad" || k.lock == "nil" || k.lock == "" then reject 106 else
      if k.proofPub == "bad" || k.proofPub == "" then reject 106 else
      if k.lock != k.proofPub then reject 501 else
      withCom P o s t.gasCoin price fun com =>
        if k.coin == k.gasCoin && balanceOf s issuer k.coin < k.value + com.commission then reject 107 else
        if k.coin != k.gasCoin && balanceOf s issuer k.coin < k.value then reject 107 else
        if k.coin != k.gasCoin && balanceOf s issuer k.gasCoin < com.commission then reject 107 else
        pure (.ok { payer := issuer, coin := t.gasCoin, com := com,
                    exec := fun _ => pure ([.admin (.useCheck k.hash), .transfer issuer t.sender k.coin k.value], []) })

end Minter
