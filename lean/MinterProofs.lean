import MinterProofs.Ledger
import MinterProofs.Moves
import MinterProofs.Props.C01
