import MinterProofs.Ledger
