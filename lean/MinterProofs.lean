import MinterProofs.Ledger
import MinterProofs.Moves
import MinterProofs.Props.C01
import MinterProofs.Props.C04
import MinterProofs.Props.C05
import MinterProofs.Props.C13
import MinterProofs.Props.C08
