import MinterProofs.AmountsDeliver
/-
  C02, per transaction type: what each handler checked (`Checked`: a successful `CalculateCommission` and the payer's funds for the
  commission) and the safety of its own moves in the state after the commission.
-/
namespace Minter

/-- What every handler establishes before it answers `Ready`: the commission was computed by `CalculateCommission` for the coin it is
    paid in, and the payer holds it. -/
structure Checked (P : Params) (o : Oracle) (s : State) (price : Int) (rd : Ready) : Prop where
  comOk : calcCommission P o s rd.coin price = .ok (.ok rd.com)
  funds : rd.com.commission ≤ balanceOf s rd.payer rd.coin

/-- Fails iff the hypothesis is syntactically `withCom … = …` (a purely syntactic test: no unfolding). -/
elab "head_not_withCom " h:ident : tactic => Lean.Elab.Tactic.withMainContext do
  let fv ← Lean.Elab.Tactic.getFVarId h
  let ty ← Lean.instantiateMVars (← fv.getType)
  match ty.eq? with
  | some (_, lhs, _) => if lhs.consumeMData.getAppFn.isConstOf ``Minter.withCom then throwError "head is withCom" else pure ()
  | none => pure ()

/-- Succeeds iff the left-hand side of the hypothesis is syntactically a rejection (`reject`, `throw`, `pure`, `Except.error`, `Except.ok`):
    only then is `cases` tried on it (never on a whole unfolded handler, which `cases` would try to normalise). -/
elab "head_is_answer " h:ident : tactic => Lean.Elab.Tactic.withMainContext do
  let fv ← Lean.Elab.Tactic.getFVarId h
  let ty ← Lean.instantiateMVars (← fv.getType)
  match ty.eq? with
  | some (_, lhs, _) =>
    let f := lhs.consumeMData.getAppFn
    if f.isConstOf ``Minter.reject || f.isConstOf ``MonadExcept.throw || f.isConstOf ``throw || f.isConstOf ``Pure.pure
        || f.isConstOf ``Except.error || f.isConstOf ``Except.ok || f.isConstOf ``throwThe then pure ()
    else throwError "head is not an answer"
  | none => throwError "not an equation"

/-- Peels the `if … then reject c else …` / `match … | none => reject c` layers of a handler down to its `withCom`. -/
syntax "peel " ident : tactic
macro_rules
  | `(tactic| peel $h) => `(tactic| ((try simp only at $h:ident); first | (head_is_answer $h:ident; cases $h:ident; done) | repeat (head_not_withCom $h:ident; (split at $h:ident <;> (try (head_is_answer $h:ident; cases $h:ident; done))))))

/-- The commission stage for a checked handler. -/
theorem fee_stage (P : Params) (o : Oracle) (s s1 : State) (price : Int) (rd : Ready) (paid : Paid)
    (ho : OracleSound o) (hP : 0 ≤ P.minReserve) (hok : AmountsOk s) (hp : 0 ≤ price) (hck : Checked P o s price rd)
    (hpay : payCommission s rd.payer rd.coin rd.com rd.minOut = .ok paid)
    (h1 : applyChecked s (planOf paid.moves) = some s1) :
    AmountsOk s1 ∧ FeeFrame s s1 rd.payer rd.coin rd.com paid.adj :=
  fee_preserves s s1 rd.payer rd.coin rd.com rd.minOut paid hok
    (calcCommission_sound P o s rd.coin price rd.com ho hP hok hp hck.comOk).1 hck.funds hpay h1

/-! ### Bodies made of settings only -/

theorem admin_prim_safe (s : State) (p : Prim) (h : p.isAdmin = true) : PrimSafe s p := by
  cases p <;> first | trivial | cases h

theorem admin_moves_planSafe (s : State) (body : List Move) (h : ∀ m ∈ body, ∃ p, m = .admin p) : PlanSafe s (planOf body) := by
  induction body generalizing s with
  | nil => trivial
  | cons m t ih =>
    obtain ⟨p, rfl⟩ := h m (List.mem_cons_self ..)
    have ht := fun s' => ih s' (fun x hx => h x (List.mem_cons_of_mem _ hx))
    simp only [planOf, List.flatMap_cons, Move.prims] at ht ⊢
    split
    · next hp => exact ⟨admin_prim_safe s p hp, ht _⟩
    · exact ht _

/-- A handler whose own moves are settings only. -/
def AdminOnly (rd : Ready) : Prop := ∀ adj body tags, rd.exec adj = .ok (body, tags) → ∀ m ∈ body, ∃ p, m = .admin p

/-- **Accepted delivery of a checked handler with settings-only moves.** -/
theorem admin_type_preserves (P : Params) (o : Oracle) (s s' : State) (b : Nat) (t : TxIn) (out : Outcome)
    (ho : OracleSound o) (hP : 0 ≤ P.minReserve)
    (hspec : ∀ price rd, runData P o s b t price = .ok (.ok rd) → Checked P o s price rd ∧ AdminOnly rd)
    (h : deliverTx P o s b t = .ok out) (h0 : out.code = 0) (ha : applyChecked s out.plan = some s')
    (hok : AmountsOk s) : AmountsOk s' := by
  obtain ⟨price, rd, paid, body, tags, s1, s2, hp, hr, hpay, he, h1, h2, hfin⟩ := deliver_stages P o s s' b t out h h0 ha
  obtain ⟨hck, hadm⟩ := hspec price rd hr
  obtain ⟨hok1, _⟩ := fee_stage P o s s1 price rd paid ho hP hok hp hck hpay h1
  exact hfin (planSafe_preserves s1 s2 _ (admin_moves_planSafe s1 body (hadm _ _ _ he)) hok1 h2)

theorem ready_checked (P : Params) (o : Oracle) (s : State) (price : Int) (t : TxIn) (com : Com) (body : List Move) (tags : List (String × String))
    (rd : Ready) (hcom : calcCommission P o s t.gasCoin price = .ok (.ok com)) (hf : com.commission ≤ balanceOf s t.sender t.gasCoin)
    (h : ready t com body tags = .ok (.ok rd)) : Checked P o s price rd ∧ ∀ adj, rd.exec adj = .ok (body, tags) := by
  obtain ⟨hp, hc, hcm, _, hex⟩ := ready_eq t com body tags rd h
  exact ⟨⟨by rw [hc, hcm]; exact hcom, by rw [hp, hc, hcm]; exact hf⟩, hex⟩

theorem adminOnly_of_exec (rd : Ready) (body : List Move) (tags : List (String × String)) (hex : ∀ adj, rd.exec adj = .ok (body, tags))
    (hb : ∀ m ∈ body, ∃ p, m = .admin p) : AdminOnly rd := by
  intro adj body' tags' he
  rw [hex adj] at he
  cases he
  exact hb

/-- The proof script shared by the settings-only handlers. -/
syntax "admin_handler " ident : tactic
macro_rules
  | `(tactic| admin_handler $h) => `(tactic| (
      peel $h
      all_goals (obtain ⟨com, hcom, hk⟩ := withCom_ready _ _ _ _ _ _ _ $h; peel hk)
      all_goals (obtain ⟨hck, hex⟩ := ready_checked _ _ _ _ _ com _ _ _ hcom (by omega) hk; exact ⟨hck, adminOnly_of_exec _ _ _ hex (by simp)⟩)))

theorem setOn_admin (P : Params) (o : Oracle) (s : State) (block : Nat) (t : TxIn) (price : Int) (rd : Ready)
    (h : runSetOn P o s block t price = .ok (.ok rd)) : Checked P o s price rd ∧ AdminOnly rd := by
  unfold runSetOn at h
  admin_handler h

theorem setOff_admin (P : Params) (o : Oracle) (s : State) (t : TxIn) (price : Int) (rd : Ready)
    (h : runSetOff P o s t price = .ok (.ok rd)) : Checked P o s price rd ∧ AdminOnly rd := by
  unfold runSetOff at h
  admin_handler h

theorem createMultisig_admin (P : Params) (o : Oracle) (s : State) (t : TxIn) (price : Int) (rd : Ready)
    (h : runCreateMultisig P o s t price = .ok (.ok rd)) : Checked P o s price rd ∧ AdminOnly rd := by
  unfold runCreateMultisig at h
  admin_handler h

theorem editCandidate_admin (P : Params) (o : Oracle) (s : State) (t : TxIn) (price : Int) (rd : Ready)
    (h : runEditCandidate P o s t price = .ok (.ok rd)) : Checked P o s price rd ∧ AdminOnly rd := by
  unfold runEditCandidate at h
  admin_handler h

theorem setHalt_admin (P : Params) (o : Oracle) (s : State) (block : Nat) (t : TxIn) (price : Int) (rd : Ready)
    (h : runSetHalt P o s block t price = .ok (.ok rd)) : Checked P o s price rd ∧ AdminOnly rd := by
  unfold runSetHalt at h
  admin_handler h

theorem editCoinOwner_admin (P : Params) (o : Oracle) (s : State) (t : TxIn) (price : Int) (rd : Ready)
    (h : runEditCoinOwner P o s t price = .ok (.ok rd)) : Checked P o s price rd ∧ AdminOnly rd := by
  unfold runEditCoinOwner at h
  admin_handler h

theorem editMultisig_admin (P : Params) (o : Oracle) (s : State) (t : TxIn) (price : Int) (rd : Ready)
    (h : runEditMultisig P o s t price = .ok (.ok rd)) : Checked P o s price rd ∧ AdminOnly rd := by
  unfold runEditMultisig at h
  admin_handler h

theorem editPubKey_admin (P : Params) (o : Oracle) (s : State) (t : TxIn) (price : Int) (rd : Ready)
    (h : runEditPubKey P o s t price = .ok (.ok rd)) : Checked P o s price rd ∧ AdminOnly rd := by
  unfold runEditPubKey at h
  admin_handler h

theorem editCommission_admin (P : Params) (o : Oracle) (s : State) (block : Nat) (t : TxIn) (price : Int) (rd : Ready)
    (h : runEditCommission P o s block t price = .ok (.ok rd)) : Checked P o s price rd ∧ AdminOnly rd := by
  unfold runEditCommission at h
  split at h
  · cases h
  · rename_i cd hcd
    generalize (if cd.commission + 10 > 100 then 100 else cd.commission + 10) = maxNew at h
    generalize ((cd.commission + 4294967296 - 10) % 4294967296) = minRaw at h
    simp only at h
    generalize (if minRaw > 100 then 0 else minRaw) = minNew at h
    admin_handler h

theorem voteCommission_admin (P : Params) (o : Oracle) (s : State) (block : Nat) (t : TxIn) (price : Int) (rd : Ready)
    (h : runVoteCommission P o s block t price = .ok (.ok rd)) : Checked P o s price rd ∧ AdminOnly rd := by
  unfold runVoteCommission at h
  admin_handler h

theorem voteUpdate_admin (P : Params) (o : Oracle) (s : State) (block : Nat) (t : TxIn) (price : Int) (rd : Ready)
    (h : runVoteUpdate P o s block t price = .ok (.ok rd)) : Checked P o s price rd ∧ AdminOnly rd := by
  unfold runVoteUpdate at h
  admin_handler h

theorem lockStake_admin (P : Params) (o : Oracle) (s : State) (block : Nat) (t : TxIn) (price : Int) (rd : Ready)
    (h : runLockStake P o s block t price = .ok (.ok rd)) : Checked P o s price rd ∧ AdminOnly rd := by
  unfold runLockStake at h
  admin_handler h

/-- The settings-only transaction types: SetCandidateOn/Off (10, 11), CreateMultisig (12), EditCandidate (14), SetHaltBlock (15),
    EditCoinOwner (17), EditMultisig (18), EditCandidatePublicKey (20), EditCandidateCommission (26), VoteCommission (32),
    VoteUpdate (33), LockStake (37). -/
def settingsTypes : List Nat := [10, 11, 12, 14, 15, 17, 18, 20, 26, 32, 33, 37]

theorem settings_spec (P : Params) (o : Oracle) (s : State) (b : Nat) (t : TxIn) (price : Int) (rd : Ready)
    (ht : t.typ ∈ settingsTypes) (h : runData P o s b t price = .ok (.ok rd)) : Checked P o s price rd ∧ AdminOnly rd := by
  simp only [settingsTypes, List.mem_cons, List.mem_nil_iff, or_false] at ht
  unfold runData at h
  rcases ht with e | e | e | e | e | e | e | e | e | e | e | e <;> rw [e] at h <;> simp only at h
  · exact setOn_admin P o s b t price rd h
  · exact setOff_admin P o s t price rd h
  · exact createMultisig_admin P o s t price rd h
  · exact editCandidate_admin P o s t price rd h
  · exact setHalt_admin P o s b t price rd h
  · exact editCoinOwner_admin P o s t price rd h
  · exact editMultisig_admin P o s t price rd h
  · exact editPubKey_admin P o s t price rd h
  · exact editCommission_admin P o s b t price rd h
  · exact voteCommission_admin P o s b t price rd h
  · exact voteUpdate_admin P o s b t price rd h
  · exact lockStake_admin P o s b t price rd h

/-- **C02, settings-only types, every commission route.** -/
theorem C02_settings (P : Params) (o : Oracle) (s s' : State) (b : Nat) (t : TxIn) (out : Outcome)
    (ho : OracleSound o) (hP : 0 ≤ P.minReserve) (ht : t.typ ∈ settingsTypes)
    (h : deliverTx P o s b t = .ok out) (h0 : out.code = 0) (ha : applyChecked s out.plan = some s')
    (hok : AmountsOk s) : AmountsOk s' :=
  admin_type_preserves P o s s' b t out ho hP (fun price rd hr => settings_spec P o s b t price rd ht hr) h h0 ha hok

end Minter
