import MinterProofs.AmountsFee
/-
  C02, per value move: the condition under which the primitives of a move are safe in a state that satisfies `AmountsOk`.
-/
namespace Minter

theorem planOf_single (m : Move) : planOf [m] = m.prims := by simp [planOf]
theorem planOf_cons (m : Move) (t : List Move) : planOf (m :: t) = m.prims ++ planOf t := by simp [planOf]

theorem planSafe_nil (s : State) : PlanSafe s [] := trivial

/-- `v` of coin `c` from `a` to `b`. -/
theorem transfer_safe (s : State) (hok : AmountsOk s) (a b : Addr) (c : Coin) (v : Int) (hv : 0 ≤ v) (hb : v ≤ balanceOf s a c) :
    PlanSafe s (Move.transfer a b c v).prims := by
  have := hok.balances b c
  simp only [Move.prims, PlanSafe, PrimSafe, apply_balance', Prim.balDelta', and_true]
  refine ⟨by omega, ?_⟩
  bal_omega

/-- Mint (or, with a negative amount, burn) of a token. -/
theorem mint_safe (s : State) (a : Addr) (c : Coin) (v : Int) (ci : CoinInfo) (hci : getCoin s c = some ci)
    (h0 : 0 ≤ ci.volume + v) (h1 : ci.volume + v ≤ ci.maxSupply) (hb : 0 ≤ balanceOf s a c + v) :
    PlanSafe s (Move.mint a c v).prims := by
  simp only [Move.prims]
  split
  · trivial
  · simp only [PlanSafe, PrimSafe, hci, optProp_some, apply_balance', Prim.balDelta', and_true]
    exact ⟨⟨h0, h1⟩, by omega⟩

/-- A new coin / token: the reserve is locked from the creator's base-coin balance. -/
theorem createCoin_safe (s : State) (hok : AmountsOk s) (owner : Addr) (ci : CoinInfo) (hr : ci.reserve ≤ balanceOf s owner 0)
    (h0 : 0 ≤ ci.volume) (h1 : 0 ≤ ci.reserve) (h2 : ci.volume ≤ ci.maxSupply) :
    PlanSafe s (Move.createCoin owner ci).prims := by
  have := hok.balances owner ci.id
  simp only [Move.prims]
  split
  · trivial
  · simp only [PlanSafe, PrimSafe, apply_balance', Prim.balDelta', and_true]
    refine ⟨by omega, ⟨h0, h1, h2⟩, ?_⟩
    bal_omega

theorem lock_safe (s : State) (a : Addr) (f : Frozen) (hv : 0 ≤ f.value) (hb : f.value ≤ balanceOf s a f.coin) :
    PlanSafe s (Move.lock a f).prims := by
  simp only [Move.prims, PlanSafe, PrimSafe, and_true]
  exact ⟨by omega, hv⟩

theorem declare_safe (s : State) (a : Addr) (cd : Candidate) (coin : Coin) (stake : Int) (hv : 0 ≤ stake) (hb : stake ≤ balanceOf s a coin) :
    PlanSafe s (Move.declare a cd coin stake).prims := by
  simp only [Move.prims, PlanSafe, PrimSafe, and_true, true_and]
  exact ⟨by omega, hv⟩

theorem delegate_safe (s : State) (a : Addr) (cand : Nat) (coin : Coin) (value : Int) (wl : Option WaitEntry)
    (hb : value ≤ balanceOf s a coin) (ht : 0 ≤ value + (match wl with | some w => w.value | none => 0)) :
    PlanSafe s (Move.delegate a cand coin value wl).prims := by
  cases wl with
  | none => simp only [Move.prims, PlanSafe, PrimSafe, and_true]; exact ⟨by omega, by simpa using ht⟩
  | some w => simp only [Move.prims, PlanSafe, PrimSafe, and_true, true_and]; exact ⟨by omega, ht⟩

theorem orderAdd_safe (s : State) (a : Addr) (o : Order) (h0 : 0 ≤ o.v0) (h1 : 0 ≤ o.v1) (hb : o.escrowValue ≤ balanceOf s a o.escrowCoin) :
    PlanSafe s (Move.orderAdd a o).prims := by
  simp only [Move.prims, PlanSafe, PrimSafe, and_true]
  exact ⟨by omega, h0, h1⟩

theorem orderRemove_safe (s : State) (hok : AmountsOk s) (a : Addr) (o : Order) (hv : 0 ≤ o.escrowValue) :
    PlanSafe s (Move.orderRemove a o).prims := by
  have := hok.balances a o.escrowCoin
  simp only [Move.prims, PlanSafe, PrimSafe, apply_balance', Prim.balDelta', and_true, true_and]
  omega

end Minter
