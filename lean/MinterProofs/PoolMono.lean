import MinterModel.Tx
import MinterProofs.Props.C13
import Mathlib.Tactic.Linarith
import Mathlib.Tactic.Ring
/-
  Monotonicity of the pool kernels (helper lemmas for C15): a trader is never worse off with a smaller input-side reserve,
  a larger amount sold, or a smaller amount bought.
-/
namespace Minter

theorem com1000_eq (a : Int) (ha : 0 ≤ a) : com1000 a = a / 1000 + (if a % 1000 > 0 then 1 else 0) := by
  unfold com1000
  rw [Int.tdiv_eq_ediv_of_nonneg ha, Int.tmod_eq_emod_of_nonneg ha]

theorem com0999_eq (a : Int) (ha : 0 ≤ a) : com0999 a = a / 999 + (if a % 999 > 0 then 1 else 0) := by
  unfold com0999
  rw [Int.tdiv_eq_ediv_of_nonneg ha, Int.tmod_eq_emod_of_nonneg ha]

/-- The amount that reaches the pool after the 0.1 % burn is monotone in the amount sold. -/
theorem net_mono (a a' : Int) (ha : 0 ≤ a) (h : a ≤ a') : a - com1000 a ≤ a' - com1000 a' := by
  rw [com1000_eq a ha, com1000_eq a' (by omega)]
  split <;> split <;> omega

theorem com1000_bounds (a : Int) (ha : 0 ≤ a) : 0 ≤ com1000 a ∧ com1000 a ≤ a := by
  rw [com1000_eq a ha]
  split <;> omega

/-- The amount debited for a purchase (pool input plus 0.1 % surcharge) is monotone in the pool input. -/
theorem gross_mono (a a' : Int) (ha : 0 ≤ a) (h : a ≤ a') : a + com0999 a ≤ a' + com0999 a' := by
  rw [com0999_eq a ha, com0999_eq a' (by omega)]
  split <;> split <;> omega

/-- Floor division is monotone under cross-multiplication. -/
theorem ediv_le_ediv_of_cross (a b c d : Int) (hb : 0 < b) (hd : 0 < d) (h : a * d ≤ c * b) : a / b ≤ c / d := by
  apply Int.le_ediv_of_mul_le hd
  have h1 : a / b * b ≤ a := Int.ediv_mul_le a (ne_of_gt hb)
  have h2 : a / b * b * d ≤ a * d := by nlinarith
  have h3 : (a / b * d) * b ≤ c * b := by nlinarith
  exact Int.le_of_mul_le_mul_right h3 hb

/-- `CalculateBuyForSell`: a smaller input-side reserve and a larger input never give less. -/
theorem buyForSell_mono (r0 r0' r1 a a' d d' : Int) (h0 : 0 < r0') (hr : r0' ≤ r0) (h1 : 0 < r1) (ha : 0 < a) (haa : a ≤ a')
    (h : buyForSell r0 r1 a = some d) (h' : buyForSell r0' r1 a' = some d') : d ≤ d' := by
  unfold buyForSell at h h'
  simp only at h h'
  split at h
  · cases h
  split at h'
  · cases h'
  cases h; cases h'
  have h0r : 0 < r0 := by omega
  have hk : 0 ≤ r0 * r1 * 1000000 := by positivity
  have hk' : 0 ≤ r0' * r1 * 1000000 := by positivity
  rw [Int.tdiv_eq_ediv_of_nonneg hk, Int.tdiv_eq_ediv_of_nonneg hk']
  have hD : 0 < ((a + r0) * 1000 - a * 2) * 1000 := by nlinarith
  have hD' : 0 < ((a' + r0') * 1000 - a' * 2) * 1000 := by nlinarith
  have := ediv_le_ediv_of_cross (r0' * r1 * 1000000) (((a' + r0') * 1000 - a' * 2) * 1000) (r0 * r1 * 1000000) (((a + r0) * 1000 - a * 2) * 1000) hD' hD (by
    have e1 : 0 ≤ r1 * (a' * r0 - a * r0') := by
      apply mul_nonneg (le_of_lt h1)
      nlinarith
    nlinarith)
  omega

/-- `CalculateSellForBuy`: a smaller input-side reserve and a smaller amount wanted never cost more. -/
theorem sellForBuy_mono (r0 r0' r1 w w' x x' : Int) (h0 : 0 < r0') (hr : r0' ≤ r0) (h1 : 0 < r1) (hw : 0 < w') (hww : w' ≤ w)
    (h : sellForBuy r0 r1 w = some x) (h' : sellForBuy r0' r1 w' = some x') : x' ≤ x := by
  unfold sellForBuy at h h'
  split at h
  · cases h
  split at h'
  · cases h'
  rename_i hlt hlt'
  simp only at h h'
  cases h; cases h'
  have h0r : 0 < r0 := by omega
  have hw0 : 0 < w := by omega
  have hk : 0 ≤ r0 * r1 * 1000000 := by positivity
  have hk' : 0 ≤ r0' * r1 * 1000000 := by positivity
  have hb : 0 < (r1 - w) * 1000 := by nlinarith
  have hb' : 0 < (r1 - w') * 1000 := by nlinarith
  rw [Int.tdiv_eq_ediv_of_nonneg hk, Int.tdiv_eq_ediv_of_nonneg hk']
  -- q − 1000·r0 = ⌊10⁶·r0·w / ((r1 − w)·1000)⌋
  have e : ∀ (R W : Int), 0 < (r1 - W) * 1000 →
      R * r1 * 1000000 / ((r1 - W) * 1000) - R * 1000 = (R * W * 1000000) / ((r1 - W) * 1000) := by
    intro R W hB
    have : R * r1 * 1000000 = R * W * 1000000 + (R * 1000) * ((r1 - W) * 1000) := by ring
    rw [this, Int.add_mul_ediv_right _ _ (ne_of_gt hB)]
    omega
  rw [e r0 w hb, e r0' w' hb']
  have hn : 0 ≤ r0 * w * 1000000 / ((r1 - w) * 1000) := Int.ediv_nonneg (by positivity) (le_of_lt hb)
  have hn' : 0 ≤ r0' * w' * 1000000 / ((r1 - w') * 1000) := Int.ediv_nonneg (by positivity) (le_of_lt hb')
  rw [Int.tdiv_eq_ediv_of_nonneg hn, Int.tdiv_eq_ediv_of_nonneg hn']
  have hq := ediv_le_ediv_of_cross (r0' * w' * 1000000) ((r1 - w') * 1000) (r0 * w * 1000000) ((r1 - w) * 1000) hb' hb (by
    have e1 : r0' * w' ≤ r0 * w := by nlinarith
    have e2 : 0 ≤ r0' * w' := by positivity
    have e3 : r1 - w ≤ r1 - w' := by omega
    have e4 : 0 < r1 - w := by omega
    nlinarith)
  omega

end Minter
