import MinterModel.Events
/-
  Helper lemmas for C24 (events store).  The store's Go maps are `Tbl` (a wrapper of `Std.HashMap`); everything below uses only
  `get?_set`, `len_set`, `get?_empty`, `len_empty`.

  Abstraction used by all proofs: the store's two tables are described by two duplicate-free lists, in order of first appearance:
  `ks` (validator keys: key `ks[i]` has id `i+1`; id 0 is "no key") and `as` (addresses: `as[i]` has id `i`).
-/
namespace Minter
namespace Ev

/-! ### `Tbl` interface -/

theorem Tbl.get?_set {β : Type} (t : Tbl β) (a c : Nat) (b : β) :
    (t.set a b).get? c = if a = c then some b else t.get? c := by
  simp [Tbl.get?, Tbl.set, Std.HashMap.getElem?_insert]

theorem Tbl.len_set {β : Type} (t : Tbl β) (a : Nat) (b : β) :
    (t.set a b).len = if (t.get? a).isSome then t.len else t.len + 1 := by
  unfold Tbl.get? Tbl.set Tbl.len
  rw [Std.HashMap.size_insert]
  by_cases h : a ∈ t.m
  · rw [if_pos h, if_pos (Std.HashMap.mem_iff_isSome_getElem?.mp h)]
  · rw [if_neg h, if_neg (fun x => h (Std.HashMap.mem_iff_isSome_getElem?.mpr x))]

@[simp] theorem Tbl.get?_empty {β : Type} (a : Nat) : ({} : Tbl β).get? a = none := by
  simp [Tbl.get?]

@[simp] theorem Tbl.len_empty {β : Type} : ({} : Tbl β).len = 0 := by
  simp [Tbl.len]

/-! ### Lists without duplicates -/

theorem nodup_getElem?_inj {l : List Nat} (hn : l.Nodup) {i j a : Nat}
    (hi : l[i]? = some a) (hj : l[j]? = some a) : i = j := by
  obtain ⟨hi', ei⟩ := List.getElem?_eq_some_iff.mp hi
  obtain ⟨hj', ej⟩ := List.getElem?_eq_some_iff.mp hj
  have hp := List.pairwise_iff_getElem.mp hn
  rcases Nat.lt_trichotomy i j with h | h | h
  · exact absurd (ei.trans ej.symm) (hp i j hi' hj' h)
  · exact h
  · exact absurd (ej.trans ei.symm) (hp j i hj' hi' h)

theorem nodup_concat {l : List Nat} {a : Nat} (hn : l.Nodup) (ha : a ∉ l) : (l ++ [a]).Nodup := by
  rw [List.nodup_append]
  refine ⟨hn, by simp, ?_⟩
  intro x hx y hy
  simp at hy
  subst hy
  intro h
  exact ha (h ▸ hx)

theorem addKey_nodup {ks : List Nat} (k : Nat) (hn : ks.Nodup) : (addKey ks k).Nodup := by
  unfold addKey
  split
  · exact hn
  · exact nodup_concat hn ‹_›

theorem addKey_prefix (ks : List Nat) (k : Nat) : ∃ t, addKey ks k = ks ++ t := by
  unfold addKey
  split
  · exact ⟨[], by simp⟩
  · exact ⟨[k], rfl⟩

theorem foldl_addKey_prefix (l ks : List Nat) : ∃ t, l.foldl addKey ks = ks ++ t := by
  induction l generalizing ks with
  | nil => exact ⟨[], by simp⟩
  | cons a l ih =>
    obtain ⟨t1, h1⟩ := addKey_prefix ks a
    obtain ⟨t2, h2⟩ := ih (addKey ks a)
    exact ⟨t1 ++ t2, by simp only [List.foldl_cons]; rw [h2, h1, List.append_assoc]⟩

theorem foldl_addKey_nodup (l : List Nat) {ks : List Nat} (hn : ks.Nodup) : (l.foldl addKey ks).Nodup := by
  induction l generalizing ks with
  | nil => exact hn
  | cons a l ih => exact ih (addKey_nodup a hn)

/-- lookup of the id-to-key table described by `ks` -/
def kget (ks : List Nat) (id : Nat) : Option Nat := if id = 0 then none else ks[id - 1]?

theorem kget_append {ks t : List Nat} {id k : Nat} (h : kget ks id = some k) : kget (ks ++ t) id = some k := by
  unfold kget at *
  split at h
  · cases h
  · rename_i h0
    simp only [h0, if_false]
    have hlt : id - 1 < ks.length := by
      rcases Nat.lt_or_ge (id - 1) ks.length with h1 | h1
      · exact h1
      · rw [List.getElem?_eq_none_iff.mpr h1] at h; cases h
    rw [List.getElem?_append_left hlt]; exact h

theorem aget_append {as t : List Nat} {id a : Nat} (h : as[id]? = some a) : (as ++ t)[id]? = some a := by
  have hlt : id < as.length := by
    rcases Nat.lt_or_ge id as.length with h1 | h1
    · exact h1
    · rw [List.getElem?_eq_none_iff.mpr h1] at h; cases h
  rw [List.getElem?_append_left hlt]; exact h

/-! ### What "the cache describes `ks` / `as`" means -/

structure PW (c : Cache) (ks : List Nat) : Prop where
  len : c.idPub.len = ks.length
  get : ∀ id, c.idPub.get? id = kget ks id
  rev : ∀ k id, c.pubId.get? k = some id ↔ kget ks id = some k

structure AW (c : Cache) (as : List Nat) : Prop where
  len : c.addrId.len = as.length
  get : ∀ id, c.idAddr.get? id = as[id]?
  rev : ∀ a id, c.addrId.get? a = some id ↔ as[id]? = some a

theorem PW_empty : PW {} [] := by
  refine ⟨by simp, ?_, ?_⟩
  · intro id; simp [kget]
  · intro k id; simp [kget]

theorem AW_empty : AW {} [] := by
  refine ⟨by simp, ?_, ?_⟩
  · intro id; simp
  · intro k id; simp

theorem kget_mem {ks : List Nat} {id k : Nat} (h : kget ks id = some k) : k ∈ ks := by
  unfold kget at h
  split at h
  · cases h
  · exact List.mem_iff_getElem?.mpr ⟨_, h⟩

theorem mem_kget {ks : List Nat} {k : Nat} (h : k ∈ ks) : ∃ id, kget ks id = some k := by
  obtain ⟨i, hi⟩ := List.mem_iff_getElem?.mp h
  exact ⟨i + 1, by simp [kget, hi]⟩

theorem kget_concat_new (ks : List Nat) (k : Nat) : kget (ks ++ [k]) (ks.length + 1) = some k := by
  simp [kget]

theorem kget_concat (ks : List Nat) (k id : Nat) :
    kget (ks ++ [k]) id = if id = ks.length + 1 then some k else kget ks id := by
  unfold kget
  by_cases h0 : id = 0
  · subst h0; simp
  · simp only [h0, if_false]
    by_cases h1 : id = ks.length + 1
    · subst h1; simp
    · simp only [h1, if_false]
      rcases Nat.lt_or_ge (id - 1) ks.length with h2 | h2
      · rw [List.getElem?_append_left h2]
      · rw [List.getElem?_append_right h2, List.getElem?_eq_none_iff.mpr h2]
        have : id - 1 - ks.length ≠ 0 := by omega
        simp [this]

theorem aget_concat (as : List Nat) (a id : Nat) :
    (as ++ [a])[id]? = if id = as.length then some a else as[id]? := by
  by_cases h1 : id = as.length
  · subst h1; simp
  · simp only [h1, if_false]
    rcases Nat.lt_or_ge id as.length with h2 | h2
    · rw [List.getElem?_append_left h2]
    · rw [List.getElem?_append_right h2, List.getElem?_eq_none_iff.mpr h2]
      have : id - as.length ≠ 0 := by omega
      simp [this]

theorem kget_inj {ks : List Nat} (hn : ks.Nodup) {i j k : Nat} (hi : kget ks i = some k) (hj : kget ks j = some k) : i = j := by
  unfold kget at hi hj
  split at hi
  · cases hi
  · split at hj
    · cases hj
    · have := nodup_getElem?_inj hn hi hj
      omega

/-- a brand-new key gets the next id -/
theorem PW.cache_new {c : Cache} {ks : List Nat} (h : PW c ks) {k : Nat} (hk : k ∉ ks) :
    PW (c.cachePubKey (ks.length + 1) k) (ks ++ [k]) := by
  have hnone : c.idPub.get? (ks.length + 1) = none := by
    rw [h.get]; simp [kget]
  have hnone2 : c.pubId.get? k = none := by
    cases hq : c.pubId.get? k with
    | none => rfl
    | some id => exact absurd (kget_mem ((h.rev k id).mp hq)) hk
  refine ⟨?_, ?_, ?_⟩
  · simp [Cache.cachePubKey, Tbl.len_set, hnone, h.len]
  · intro id
    simp only [Cache.cachePubKey, Tbl.get?_set, kget_concat, h.get]
    by_cases e : ks.length + 1 = id
    · subst e; simp
    · have e' : ¬ id = ks.length + 1 := fun x => e x.symm
      simp [e, e']
  · intro k' id
    simp only [Cache.cachePubKey, Tbl.get?_set, kget_concat]
    by_cases e : k = k'
    · subst e
      simp only [if_true]
      constructor
      · intro hh; cases hh; simp
      · intro hh
        split at hh
        · rename_i e2; rw [e2]
        · exact absurd (kget_mem hh) hk
    · simp only [e, if_false]
      rw [h.rev]
      by_cases e2 : id = ks.length + 1
      · subst e2
        simp only [if_true]
        constructor
        · intro hh; rw [← h.get, hnone] at hh; cases hh
        · intro hh; cases hh; exact absurd rfl e
      · simp only [e2, if_false]

theorem AW.cache_new {c : Cache} {as : List Nat} (h : AW c as) {a : Nat} (ha : a ∉ as) :
    AW (c.cacheAddress as.length a) (as ++ [a]) := by
  have hnone2 : c.addrId.get? a = none := by
    cases hq : c.addrId.get? a with
    | none => rfl
    | some id => exact absurd (List.mem_iff_getElem?.mpr ⟨id, (h.rev a id).mp hq⟩) ha
  have hnone : as[as.length]? = none := by simp
  refine ⟨?_, ?_, ?_⟩
  · simp [Cache.cacheAddress, Tbl.len_set, hnone2, h.len]
  · intro id
    simp only [Cache.cacheAddress, Tbl.get?_set, aget_concat, h.get]
    by_cases e : as.length = id
    · subst e; simp
    · have e' : ¬ id = as.length := fun x => e x.symm
      simp [e, e']
  · intro a' id
    simp only [Cache.cacheAddress, Tbl.get?_set, aget_concat]
    by_cases e : a = a'
    · subst e
      simp only [if_true]
      constructor
      · intro hh; cases hh; simp
      · intro hh
        split at hh
        · rename_i e2; rw [e2]
        · exact absurd (List.mem_iff_getElem?.mpr ⟨id, hh⟩) ha
    · simp only [e, if_false]
      rw [h.rev]
      by_cases e2 : id = as.length
      · subst e2
        simp only [if_true]
        constructor
        · intro hh; rw [hnone] at hh; cases hh
        · intro hh; cases hh; exact absurd rfl e
      · simp only [e2, if_false]

/-- re-caching an address that is already cached under the same id changes nothing observable -/
theorem AW.cache_again {c : Cache} {as : List Nat} (h : AW c as) (hn : as.Nodup) {i a : Nat} (hi : as[i]? = some a) :
    AW (c.cacheAddress i a) as := by
  have hsome : c.addrId.get? a = some i := (h.rev a i).mpr hi
  refine ⟨?_, ?_, ?_⟩
  · simp [Cache.cacheAddress, Tbl.len_set, hsome, h.len]
  · intro id
    simp only [Cache.cacheAddress, Tbl.get?_set, h.get]
    by_cases e : i = id
    · subst e; simp [hi]
    · simp [e]
  · intro a' id
    simp only [Cache.cacheAddress, Tbl.get?_set]
    by_cases e : a = a'
    · subst e
      simp only [if_true]
      constructor
      · intro hh; cases hh; exact hi
      · intro hh; rw [nodup_getElem?_inj hn hi hh]
    · simp only [e, if_false]
      exact h.rev a' id

theorem PW.frame_addr {c : Cache} {ks : List Nat} (h : PW c ks) (i a : Nat) : PW (c.cacheAddress i a) ks :=
  ⟨h.len, h.get, h.rev⟩

theorem AW.frame_pub {c : Cache} {as : List Nat} (h : AW c as) (i k : Nat) : AW (c.cachePubKey i k) as :=
  ⟨h.len, h.get, h.rev⟩

/-! ### The disk tables and the whole store -/

structure DP (d : Disk) (ks : List Nat) : Prop where
  count : d.pkCount = if ks = [] then none else some ks.length
  get : ∀ id k, kget ks id = some k → d.pk.get? id = some k

structure DA (d : Disk) (as : List Nat) : Prop where
  count : d.adCount = if as = [] then none else some as.length
  get : ∀ id a, as[id]? = some a → d.ad.get? id = some a

/-- the store (disk tables and a loaded cache) describes `ks` / `as` -/
structure Good (st : EvStore) (ks as : List Nat) : Prop where
  nk : ks.Nodup
  na : as.Nodup
  pw : PW st.cache ks
  aw : AW st.cache as
  dp : DP st.disk ks
  da : DA st.disk as

theorem savePubKey_found {st : EvStore} {k id : Nat} (h : st.cache.pubId.get? k = some id) :
    savePubKey st (some k) = (st, id) := by
  simp only [savePubKey, h]

theorem savePubKey_new {st : EvStore} {k : Nat} (h : st.cache.pubId.get? k = none) :
    savePubKey st (some k) =
      (let id := (st.cache.idPub.len % pkMod + 1) % pkMod
       let c := st.cache.cachePubKey id k
       ({ disk := { st.disk with pk := st.disk.pk.set id k, pkCount := some (c.idPub.len % pkMod) }, cache := c }, id)) := by
  simp only [savePubKey, h]

theorem saveAddress_found {st : EvStore} {a id : Nat} (h : st.cache.addrId.get? a = some id) :
    saveAddress st a = (st, id) := by
  simp only [saveAddress, h]

theorem saveAddress_new {st : EvStore} {a : Nat} (h : st.cache.addrId.get? a = none) :
    saveAddress st a =
      (let id := st.cache.addrId.len % adMod
       let c := st.cache.cacheAddress id a
       ({ disk := { st.disk with ad := st.disk.ad.set id a, adCount := some (c.addrId.len % adMod) }, cache := c }, id)) := by
  simp only [saveAddress, h]

theorem savePubKey_spec {st : EvStore} {ks as : List Nat} (g : Good st ks as) (k : Nat)
    (hb : (addKey ks k).length ≤ 65535) :
    Good (savePubKey st (some k)).1 (addKey ks k) as ∧
    (savePubKey st (some k)).1.disk.blocks = st.disk.blocks ∧
    kget (addKey ks k) (savePubKey st (some k)).2 = some k := by
  cases hq : st.cache.pubId.get? k with
  | some id =>
    rw [savePubKey_found hq]
    have hk := (g.pw.rev k id).mp hq
    have hmem : k ∈ ks := kget_mem hk
    have ha : addKey ks k = ks := by simp [addKey, hmem]
    simp only [ha]
    exact ⟨g, by trivial, hk⟩
  | none =>
    have hmem : k ∉ ks := by
      intro hm
      obtain ⟨id, hid⟩ := mem_kget hm
      rw [(g.pw.rev k id).mpr hid] at hq; cases hq
    have ha : addKey ks k = ks ++ [k] := by simp [addKey, hmem]
    rw [ha] at hb ⊢
    rw [savePubKey_new hq]
    have hlen : ks.length + 1 ≤ 65535 := by simpa using hb
    have hid : (st.cache.idPub.len % pkMod + 1) % pkMod = ks.length + 1 := by
      rw [g.pw.len]; unfold pkMod; omega
    simp only [hid]
    have pw' := g.pw.cache_new hmem
    refine ⟨⟨nodup_concat g.nk hmem, g.na, pw', g.aw.frame_pub _ _, ?_, ⟨g.da.count, g.da.get⟩⟩, by trivial, kget_concat_new ks k⟩
    refine ⟨?_, ?_⟩
    · show some ((st.cache.cachePubKey (ks.length + 1) k).idPub.len % pkMod) = _
      rw [pw'.len]
      simp
      unfold pkMod; omega
    · intro id k' hk'
      show (st.disk.pk.set (ks.length + 1) k).get? id = some k'
      rw [Tbl.get?_set]
      rw [kget_concat] at hk'
      by_cases e : id = ks.length + 1
      · subst e; simpa using hk'
      · have e' : ¬ ks.length + 1 = id := fun x => e x.symm
        simp only [e, if_false] at hk'
        simp only [e', if_false]
        exact g.dp.get id k' hk'

theorem saveAddress_spec {st : EvStore} {ks as : List Nat} (g : Good st ks as) (a : Nat)
    (hb : (addKey as a).length ≤ 4294967295) :
    Good (saveAddress st a).1 ks (addKey as a) ∧
    (saveAddress st a).1.disk.blocks = st.disk.blocks ∧
    (addKey as a)[(saveAddress st a).2]? = some a := by
  cases hq : st.cache.addrId.get? a with
  | some id =>
    rw [saveAddress_found hq]
    have hk := (g.aw.rev a id).mp hq
    have hmem : a ∈ as := List.mem_iff_getElem?.mpr ⟨id, hk⟩
    have ha : addKey as a = as := by simp [addKey, hmem]
    simp only [ha]
    exact ⟨g, by trivial, hk⟩
  | none =>
    have hmem : a ∉ as := by
      intro hm
      obtain ⟨id, hid⟩ := List.mem_iff_getElem?.mp hm
      rw [(g.aw.rev a id).mpr hid] at hq; cases hq
    have ha : addKey as a = as ++ [a] := by simp [addKey, hmem]
    rw [ha] at hb ⊢
    rw [saveAddress_new hq]
    have hlen : as.length + 1 ≤ 4294967295 := by simpa using hb
    have hid : st.cache.addrId.len % adMod = as.length := by
      rw [g.aw.len]; unfold adMod; omega
    simp only [hid]
    have aw' := g.aw.cache_new hmem
    refine ⟨⟨g.nk, nodup_concat g.na hmem, g.pw.frame_addr _ _, aw', ⟨g.dp.count, g.dp.get⟩, ?_⟩, by trivial, by simp⟩
    refine ⟨?_, ?_⟩
    · show some ((st.cache.cacheAddress as.length a).addrId.len % adMod) = _
      rw [aw'.len]
      simp
      unfold adMod; omega
    · intro id a' ha'
      show (st.disk.ad.set as.length a).get? id = some a'
      rw [Tbl.get?_set]
      rw [aget_concat] at ha'
      by_cases e : id = as.length
      · subst e; simpa using ha'
      · have e' : ¬ as.length = id := fun x => e x.symm
        simp only [e, if_false] at ha'
        simp only [e', if_false]
        exact g.da.get id a' ha'

/-! ### `loadCache` -/

theorem fold_pub_frame (d : Tbl Nat) (l : List Nat) (c : Cache) (as : List Nat) (h : AW c as) :
    AW (l.foldl (fun ch id => ch.cachePubKey id ((d.get? id).getD 0)) c) as := by
  induction l generalizing c with
  | nil => exact h
  | cons a l ih => exact ih _ (h.frame_pub _ _)

theorem fold_addr_frame (d : Tbl Nat) (l : List Nat) (c : Cache) (ks : List Nat) (h : PW c ks) :
    PW (l.foldl (fun ch id => ch.cacheAddress id ((d.get? id).getD 0)) c) ks := by
  induction l generalizing c with
  | nil => exact h
  | cons a l ih => exact ih _ (h.frame_addr _ _)

theorem fold_pub (d : Tbl Nat) (suf pre : List Nat) (c : Cache) (hn : (pre ++ suf).Nodup) (h : PW c pre)
    (hd : ∀ id k, kget (pre ++ suf) id = some k → d.get? id = some k) :
    PW ((List.range' (pre.length + 1) suf.length).foldl (fun ch id => ch.cachePubKey id ((d.get? id).getD 0)) c)
      (pre ++ suf) := by
  induction suf generalizing pre c with
  | nil => simpa using h
  | cons k suf ih =>
    have hk : kget (pre ++ k :: suf) (pre.length + 1) = some k := by simp [kget]
    have hdk := hd _ _ hk
    have hnot : k ∉ pre := by
      intro hm
      rw [List.nodup_append] at hn
      exact hn.2.2 k hm k (by simp) rfl
    have e : pre ++ k :: suf = (pre ++ [k]) ++ suf := by simp
    simp only [List.length_cons, List.range'_succ, List.foldl_cons, hdk, Option.getD_some]
    have := ih (pre ++ [k]) _ (e ▸ hn) (h.cache_new hnot) (e ▸ hd)
    rw [e]
    simpa using this

theorem fold_addr (d : Tbl Nat) (suf pre : List Nat) (c : Cache) (hn : (pre ++ suf).Nodup) (h : AW c pre)
    (hd : ∀ id a, (pre ++ suf)[id]? = some a → d.get? id = some a) :
    AW ((List.range' pre.length suf.length).foldl (fun ch id => ch.cacheAddress id ((d.get? id).getD 0)) c)
      (pre ++ suf) := by
  induction suf generalizing pre c with
  | nil => simpa using h
  | cons a suf ih =>
    have hk : (pre ++ a :: suf)[pre.length]? = some a := by simp
    have hdk := hd _ _ hk
    have hnot : a ∉ pre := by
      intro hm
      rw [List.nodup_append] at hn
      exact hn.2.2 a hm a (by simp) rfl
    have e : pre ++ a :: suf = (pre ++ [a]) ++ suf := by simp
    simp only [List.length_cons, List.range'_succ, List.foldl_cons, hdk, Option.getD_some]
    have := ih (pre ++ [a]) _ (e ▸ hn) (h.cache_new hnot) (e ▸ hd)
    rw [e]
    simpa using this

theorem fold_addr_again (d : Tbl Nat) (as : List Nat) (hn : as.Nodup)
    (hd : ∀ id a, as[id]? = some a → d.get? id = some a) (l : List Nat) (hl : ∀ id ∈ l, id < as.length)
    (c : Cache) (h : AW c as) :
    AW (l.foldl (fun ch id => ch.cacheAddress id ((d.get? id).getD 0)) c) as := by
  induction l generalizing c with
  | nil => exact h
  | cons i l ih =>
    have hi : i < as.length := hl i (by simp)
    have hs : as[i]? = some as[i] := by simp [hi]
    simp only [List.foldl_cons, hd _ _ hs, Option.getD_some]
    exact ih (fun id hid => hl id (by simp [hid])) _ (h.cache_again hn hs)

/-- `loadCache` on a store whose cache is already loaded (possibly with no validator key yet: then it reloads). -/
theorem loadCache_warm {st : EvStore} {ks as : List Nat} (g : Good st ks as) :
    Good (loadCache st) ks as ∧ (loadCache st).disk = st.disk := by
  unfold loadCache
  split
  · rename_i h0
    have hks : ks = [] := by
      have := g.pw.len; rw [h0] at this; exact List.length_eq_zero_iff.mp this.symm
    subst hks
    have h1 : loadPubKeys st = st := by
      unfold loadPubKeys; rw [g.dp.count]; simp
    rw [h1]
    unfold loadAddresses
    rw [g.da.count]
    by_cases has : as = []
    · simp only [has, if_true]; subst has; exact ⟨g, by trivial⟩
    · simp only [has, if_false]
      refine ⟨⟨g.nk, g.na, fold_addr_frame _ _ _ _ g.pw, ?_, g.dp, g.da⟩, by trivial⟩
      exact fold_addr_again _ as g.na g.da.get _ (by intro id hid; simpa using hid) _ g.aw
  · exact ⟨g, rfl⟩

/-- `loadCache` right after a restart. -/
theorem loadCache_cold {st : EvStore} {ks as : List Nat} (nk : ks.Nodup) (na : as.Nodup)
    (dp : DP st.disk ks) (da : DA st.disk as) (pw : PW st.cache []) (aw : AW st.cache [])
    (hk : ks.length ≤ 65534) :
    Good (loadCache st) ks as ∧ (loadCache st).disk = st.disk := by
  unfold loadCache
  have h0 : st.cache.idPub.len = 0 := by simpa using pw.len
  simp only [h0, if_true]
  -- pubkeys
  have hp : PW (loadPubKeys st).cache ks ∧ AW (loadPubKeys st).cache [] ∧ (loadPubKeys st).disk = st.disk := by
    unfold loadPubKeys
    rw [dp.count]
    by_cases hks : ks = []
    · subst hks; simp only [if_true]; exact ⟨pw, aw, by trivial⟩
    · simp only [hks, if_false]
      have hn : (ks.length + 1) % pkMod - 1 = ks.length := by unfold pkMod; omega
      rw [hn]
      refine ⟨?_, fold_pub_frame _ _ _ _ aw, by trivial⟩
      have := fold_pub st.disk.pk ks [] st.cache (by simpa using nk) pw (by simpa using dp.get)
      simpa using this
  obtain ⟨pw1, aw1, d1⟩ := hp
  unfold loadAddresses
  rw [d1, da.count]
  by_cases has : as = []
  · subst has; simp only [if_true]
    exact ⟨⟨nk, na, pw1, aw1, d1 ▸ dp, d1 ▸ da⟩, d1⟩
  · simp only [has, if_false]
    refine ⟨⟨nk, na, fold_addr_frame _ _ _ _ pw1, ?_, dp, da⟩, by trivial⟩
    have := fold_addr st.disk.ad as [] (loadPubKeys st).cache (by simpa using na) aw1 (by simpa using da.get)
    rw [List.range_eq_range']
    simpa using this

/-! ### Records: what they expand to, when the tables are described by `ks` / `as` -/

def expandA (ks as : List Nat) : Rec → Option Event
  | .reward role aid amount pid forCoin =>
    match kget ks pid with
    | none => none
    | some pk => some (.reward role (as[aid]?.getD 0) (Int.ofNat amount) pk forCoin)
  | .slash aid amount coin pid =>
    match kget ks pid with
    | none => none
    | some pk => some (.slash (as[aid]?.getD 0) (Int.ofNat amount) coin pk)
  | .kick aid amount coin pid =>
    match kget ks pid with
    | none => none
    | some pk => some (.kick (as[aid]?.getD 0) (Int.ofNat amount) coin pk)
  | .unbond aid amount coin pid => some (.unbond (as[aid]?.getD 0) (Int.ofNat amount) coin (kget ks pid))
  | .jail pid ju => some (.jail ((kget ks pid).getD 0) ju)
  | .orderExpired aid amount coin id => some (.orderExpired id (as[aid]?.getD 0) coin (Int.ofNat amount))
  | .unlock aid amount coin => some (.unlock (as[aid]?.getD 0) (Int.ofNat amount) coin)
  | .move aid amount coin fid tid =>
    some (.move (as[aid]?.getD 0) (Int.ofNat amount) coin ((kget ks fid).getD 0) ((kget ks tid).getD 0))
  | .raw e => some e

def expandAllA (ks as : List Nat) : List Rec → Option (List Event)
  | [] => some []
  | r :: rs =>
    match expandA ks as r with
    | none => none
    | some e => match expandAllA ks as rs with
      | none => none
      | some es => some (e :: es)

theorem expand_eq {c : Cache} {ks as : List Nat} (pw : PW c ks) (aw : AW c as) (r : Rec) :
    expand c r = expandA ks as r := by
  cases r <;> simp only [expand, expandA, pw.get, aw.get] <;> rfl

theorem expandAll_eq {c : Cache} {ks as : List Nat} (pw : PW c ks) (aw : AW c as) (rs : List Rec) :
    expandAll c rs = expandAllA ks as rs := by
  induction rs with
  | nil => rfl
  | cons r rs ih => simp only [expandAll, expandAllA, expand_eq pw aw, ih]; rfl

/-- every id in the record is one that the tables know (0 = "no key" is allowed for an unbond) -/
def RecValid (ks as : List Nat) : Rec → Prop
  | .reward _ aid _ pid _ => (kget ks pid).isSome ∧ aid < as.length
  | .slash aid _ _ pid => (kget ks pid).isSome ∧ aid < as.length
  | .kick aid _ _ pid => (kget ks pid).isSome ∧ aid < as.length
  | .jail pid _ => (kget ks pid).isSome
  | .unbond aid _ _ pid => (pid = 0 ∨ (kget ks pid).isSome) ∧ aid < as.length
  | .unlock aid _ _ => aid < as.length
  | .orderExpired aid _ _ _ => aid < as.length
  | .move aid _ _ f t => (kget ks f).isSome ∧ (kget ks t).isSome ∧ aid < as.length
  | .raw _ => True

theorem kget_append_isSome {ks t : List Nat} {id : Nat} (h : (kget ks id).isSome) : kget (ks ++ t) id = kget ks id := by
  cases hk : kget ks id with
  | none => rw [hk] at h; cases h
  | some k => exact kget_append hk

theorem kget_zero (ks : List Nat) : kget ks 0 = none := by simp [kget]

theorem aget_append_lt {as u : List Nat} {id : Nat} (h : id < as.length) : (as ++ u)[id]? = as[id]? :=
  List.getElem?_append_left h

theorem RecValid.mono {ks as : List Nat} {r : Rec} (h : RecValid ks as r) (t u : List Nat) :
    RecValid (ks ++ t) (as ++ u) r := by
  have hl : ∀ {i}, i < as.length → i < (as ++ u).length := by
    intro i hi; simp only [List.length_append]; omega
  cases r <;> simp only [RecValid] at h ⊢
  · exact ⟨by rw [kget_append_isSome h.1]; exact h.1, hl h.2⟩
  · exact ⟨by rw [kget_append_isSome h.1]; exact h.1, hl h.2⟩
  · rw [kget_append_isSome h]; exact h
  · refine ⟨?_, hl h.2⟩
    rcases h.1 with h0 | h1
    · exact Or.inl h0
    · exact Or.inr (by rw [kget_append_isSome h1]; exact h1)
  · exact hl h
  · exact ⟨by rw [kget_append_isSome h.1]; exact h.1, hl h.2⟩
  · exact ⟨by rw [kget_append_isSome h.1]; exact h.1, by rw [kget_append_isSome h.2.1]; exact h.2.1, hl h.2.2⟩
  · exact hl h

theorem RecValid.stable {ks as : List Nat} {r : Rec} (h : RecValid ks as r) (t u : List Nat) :
    expandA (ks ++ t) (as ++ u) r = expandA ks as r := by
  cases r <;> simp only [RecValid] at h <;> simp only [expandA]
  · rw [kget_append_isSome h.1, aget_append_lt h.2]
  · rw [kget_append_isSome h.1, aget_append_lt h.2]
  · rw [kget_append_isSome h]
  · rw [aget_append_lt h.2]
    rcases h.1 with h0 | h1
    · subst h0; rw [kget_zero, kget_zero]
    · rw [kget_append_isSome h1]
  · rw [aget_append_lt h]
  · rw [kget_append_isSome h.1, aget_append_lt h.2]
  · rw [kget_append_isSome h.1, kget_append_isSome h.2.1, aget_append_lt h.2.2]
  · rw [aget_append_lt h]

theorem expandAllA_stable {ks as : List Nat} {rs : List Rec} (h : ∀ r ∈ rs, RecValid ks as r) (t u : List Nat) :
    expandAllA (ks ++ t) (as ++ u) rs = expandAllA ks as rs := by
  induction rs with
  | nil => rfl
  | cons r rs ih =>
    simp only [expandAllA, (h r (by simp)).stable t u, ih (fun r hr => h r (by simp [hr]))]

end Ev
end Minter
