import MinterModel.Tx
import MinterProofs.Props.C04
/-
  Shared lemmas about the shape of DeliverTx: what an accepted delivery went through, how the commission is paid,
  and exact balance accounting of plans.
-/
namespace Minter

theorem reject_ne_ready (c : Nat) (rd : Ready) : reject c ≠ .ok (.ok rd) := by
  intro h; cases h

/-- A handler wrapped in `withCom` that validated went through a successful `CalculateCommission`. -/
theorem withCom_ready (P : Params) (o : Oracle) (s : State) (gas : Coin) (price : Int) (k : Com → Handler) (rd : Ready)
    (h : withCom P o s gas price k = .ok (.ok rd)) :
    ∃ com, calcCommission P o s gas price = .ok (.ok com) ∧ k com = .ok (.ok rd) := by
  unfold withCom at h
  split at h
  · cases h
  · cases h
  · next com hc => exact ⟨com, hc, h⟩

theorem ready_eq (t : TxIn) (com : Com) (body : List Move) (tags : List (String × String)) (rd : Ready)
    (h : ready t com body tags = .ok (.ok rd)) :
    rd.payer = t.sender ∧ rd.coin = t.gasCoin ∧ rd.com = com ∧ rd.minOut = 0 ∧ ∀ adj, rd.exec adj = .ok (body, tags) := by
  unfold ready at h
  cases h
  exact ⟨rfl, rfl, rfl, rfl, fun _ => rfl⟩

/-- What an accepted delivery went through. -/
theorem deliver_accepted (P : Params) (o : Oracle) (s : State) (b : Nat) (t : TxIn) (out : Outcome)
    (h : deliverTx P o s b t = .ok out) (h0 : out.code = 0) :
    prologue P s b t = none ∧
    ∃ price rd r, basePrice s t = .ok (.ok price) ∧ runData P o s b t price = .ok (.ok rd) ∧
      execReady s rd = .ok r ∧ successOutcome s t r = .ok out := by
  unfold deliverTx at h
  cases hp : prologue P s b t with
  | some c => rw [hp] at h; cases h; exact absurd (h0 ▸ hp) (prologue_ne_zero P s b t)
  | none =>
    rw [hp] at h
    simp only at h
    refine ⟨rfl, ?_⟩
    unfold deliverBody at h
    cases hb : basePrice s t with
    | error e => rw [hb] at h; cases h
    | ok pr =>
      cases pr with
      | error c => rw [hb] at h; cases h; exact absurd h0 (basePrice_code_ne_zero s t c hb)
      | ok price =>
        rw [hb] at h
        simp only at h
        cases hr : runData P o s b t price with
        | error e => rw [hr] at h; cases h
        | ok v =>
          cases v with
          | error c =>
            rw [hr] at h
            simp only at h
            split at h
            · cases h
            · exact absurd h0 (failureOutcome_ok P o s t c out h).1
          | ok rd =>
            rw [hr] at h
            simp only at h
            cases hx : execReady s rd with
            | error e => rw [hx] at h; cases h
            | ok r => rw [hx] at h; exact ⟨price, rd, r, rfl, hr, hx, h⟩

/-- The success path appends the ticker burn (CreateCoin / CreateToken only) and the nonce bump. -/
theorem successOutcome_burn (s : State) (t : TxIn) (r out : Outcome) (h : successOutcome s t r = .ok out) :
    ∃ burn btags, tickerBurn s t = .ok (burn, btags) ∧ out.code = 0 ∧ out.moves = successMoves t r burn ∧ out.tags = r.tags ++ btags := by
  unfold successOutcome at h
  split at h
  · cases h
  · next burn btags hb =>
    split at h
    · cases h
    · split at h
      · cases h
      · split at h
        · cases h
        · split at h
          · cases h
          · cases h; exact ⟨burn, btags, hb, rfl, rfl, rfl⟩

/-- No ticker burn outside CreateCoin (5) / CreateToken (30). -/
theorem tickerBurn_other (s : State) (t : TxIn) (h5 : t.typ ≠ 5) (h30 : t.typ ≠ 30) : tickerBurn s t = .ok ([], []) := by
  unfold tickerBurn
  have h1 : (t.typ == 5) = false := by simpa using h5
  have h2 : (t.typ == 30) = false := by simpa using h30
  simp [h1, h2]
  rfl

/-- `execReady` = commission payment followed by the type-specific execution. -/
theorem execReady_ok (s : State) (rd : Ready) (r : Outcome) (h : execReady s rd = .ok r) :
    ∃ paid body tags, payCommission s rd.payer rd.coin rd.com rd.minOut = .ok paid ∧ rd.exec paid.adj = .ok (body, tags) ∧
      r.code = 0 ∧ r.moves = paid.moves ++ body ∧
      r.tags = [("tx.commission_amount", toString paid.amount), ("tx.commission_in_base_coin", toString paid.inBase)] ++ tags := by
  unfold execReady at h
  split at h
  · cases h
  · next paid hp =>
    split at h
    · cases h
    · next body tags he => cases h; exact ⟨paid, body, tags, hp, he, rfl, rfl, rfl⟩

/-- The three ways a commission is paid. -/
theorem payCommission_shape (s : State) (payer : Addr) (gas : Coin) (c : Com) (minOut : Int) (paid : Paid)
    (h : payCommission s payer gas c minOut = .ok paid) :
    paid.amount = c.commission ∧
    ((c.fromPool = true ∧ ∃ mv out adj, pairSellMove s none payer gas 0 c.commission minOut true 0 = .ok (mv, out, adj) ∧
        paid.moves = [mv] ∧ paid.inBase = out ∧ paid.adj = some adj) ∨
     (c.fromPool = false ∧ gas ≠ 0 ∧ paid.moves = [.feeBancor payer gas c.commission c.inBase] ∧ paid.inBase = c.inBase ∧ paid.adj = none) ∨
     (c.fromPool = false ∧ gas = 0 ∧ c.commission = c.inBase ∧ paid.moves = [.feeBase payer c.commission] ∧ paid.inBase = c.inBase ∧ paid.adj = none)) := by
  unfold payCommission at h
  split at h
  · next hf =>
    split at h
    · cases h
    · next mv out adj hm => cases h; exact ⟨rfl, Or.inl ⟨hf, mv, out, adj, hm, rfl, rfl, rfl⟩⟩
  · next hf =>
    have hf' : c.fromPool = false := by simpa using hf
    split at h
    · next hg => cases h; exact ⟨rfl, Or.inr (Or.inl ⟨hf', by simpa using hg, rfl, rfl, rfl⟩)⟩
    · next hg =>
      have hg' : gas = 0 := by simpa using hg
      split at h
      · cases h
      · next hc => cases h; exact ⟨rfl, Or.inr (Or.inr ⟨hf', hg', by simpa using hc, rfl, rfl, rfl⟩)⟩

/-- The move of a pool sale, as `pairSellMove` builds it, the reserves it ran on and the reserve change it reports. -/
theorem pairSellMove_shape (s : State) (adj : Option PoolAdj) (payer : Addr) (a b : Coin) (amountIn minOut : Int) (toRewards : Bool) (dest : Addr)
    (mv : Move) (out : Int) (j : PoolAdj) (h : pairSellMove s adj payer a b amountIn minOut toRewards dest = .ok (mv, out, j)) :
    0 < amountIn ∧ 0 < out ∧ minOut ≤ out ∧ 0 < amountIn - com1000 amountIn ∧
    (mv = .poolSell payer a b true (amountIn - com1000 amountIn) out (com1000 amountIn) toRewards dest ∨
     mv = .poolSell payer b a false (amountIn - com1000 amountIn) out (com1000 amountIn) toRewards dest) ∧
    j = ⟨a, b, amountIn - com1000 amountIn, -out⟩ ∧ pairHasOrders s a b = false ∧
    ∃ r0 r1, poolResAdj s adj a b = some (r0, r1) ∧ bfsNoOrders r0 r1 (amountIn - com1000 amountIn) = .val out := by
  unfold pairSellMove at h
  split at h
  · cases h
  · rename_i r0 r1 hres
    split at h
    · cases h
    · rename_i hord
      split at h
      · cases h
      · next hin =>
        simp only at h
        split at h
        · cases h
        · next hnet =>
          split at h
          · cases h
          · cases h
          · next o' hq =>
            split at h
            · cases h
            · next hout =>
              split at h
              · cases h
              · next hmin =>
                have hord' : pairHasOrders s a b = false := by simpa using hord
                split at h
                · cases h; exact ⟨by omega, by omega, by omega, by omega, Or.inl rfl, rfl, hord', r0, r1, hres, hq⟩
                · cases h; exact ⟨by omega, by omega, by omega, by omega, Or.inr rfl, rfl, hord', r0, r1, hres, hq⟩

theorem findFirst_mem {α : Type} (p : α → Bool) (l : List α) (x : α) (h : findFirst p l = some x) : x ∈ l ∧ p x = true := by
  induction l with
  | nil => simp [findFirst] at h
  | cons y t ih =>
    simp only [findFirst] at h
    split at h
    · next hy => cases h; exact ⟨List.mem_cons_self .., hy⟩
    · exact ⟨List.mem_cons_of_mem _ (ih h).1, (ih h).2⟩

/-- What `updFirst` can put into the list: old members, or the image of the first match. -/
theorem mem_updFirst_find {α : Type} (p : α → Bool) (g : α → α) (l : List α) (x : α) (h : x ∈ updFirst p g l) :
    x ∈ l ∨ ∃ y, findFirst p l = some y ∧ x = g y := by
  induction l with
  | nil => simp [updFirst] at h
  | cons y t ih =>
    simp only [updFirst, findFirst] at h ⊢
    split at h
    · next hp =>
      rw [List.mem_cons] at h
      rcases h with h | h
      · right; simp only [hp, if_true]; exact ⟨y, rfl, h⟩
      · left; exact List.mem_cons_of_mem _ h
    · next hp =>
      rw [List.mem_cons] at h
      rcases h with h | h
      · left; subst h; exact List.mem_cons_self ..
      · rcases ih h with h' | ⟨z, hz, hx⟩
        · left; exact List.mem_cons_of_mem _ h'
        · right; simp only [hp, if_false]; exact ⟨z, hz, hx⟩

/-! ### Exact balance accounting of a plan -/

def Prim.balDelta' (x : Addr) (c : Coin) : Prim → Int
  | .addBal a c' v => if a = x ∧ c' = c then v else 0
  | _ => 0

def sumBal (x : Addr) (c : Coin) (ps : List Prim) : Int := sumBy (Prim.balDelta' x c) ps

theorem apply_balance' (s : State) (p : Prim) (x : Addr) (c : Coin) :
    balanceOf (p.apply s) x c = balanceOf s x c + p.balDelta' x c := by
  cases p with
  | addBal a c' v =>
    simp only [Prim.apply, balanceOf, Prim.balDelta', Bag.get_add]
    by_cases h : a = x ∧ c' = c
    · obtain ⟨h1, h2⟩ := h; subst h1; subst h2; simp
    · have : ¬ ((a, c') = (x, c)) := by
        intro he; apply h; cases he; exact ⟨rfl, rfl⟩
      simp [h, this]
  | _ => simp [Prim.apply, balanceOf, Prim.balDelta']

theorem checked_balance_eq (s s' : State) (ps : List Prim) (x : Addr) (c : Coin)
    (h : applyChecked s ps = some s') : balanceOf s' x c = balanceOf s x c + sumBal x c ps := by
  induction ps generalizing s with
  | nil => simp [applyChecked] at h; subst h; simp [sumBal, sumBy]
  | cons p t ih =>
    obtain ⟨_, ht⟩ := applyChecked_cons _ _ _ _ h
    rw [ih _ ht, apply_balance']
    simp only [sumBal, sumBy]; omega

theorem sumBal_append (x : Addr) (c : Coin) (p q : List Prim) : sumBal x c (p ++ q) = sumBal x c p + sumBal x c q := by
  simp only [sumBal, sumBy_append]

end Minter
