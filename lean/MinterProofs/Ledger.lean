import MinterModel.Ledger
/-
  Accounting lemmas: every primitive changes holdings / volume / side pots by exactly its declared effect.
  Core Lean only.
-/
namespace Minter

/-! ### Bag -/
namespace Bag
variable {κ : Type} [DecidableEq κ]

theorem sumIf_add (p : κ → Bool) (m : Bag κ) (k : κ) (v : Int) :
    sumIf p (add m k v) = sumIf p m + (if p k then v else 0) := by
  induction m with
  | nil => simp [add, sumIf]
  | cons e t ih =>
    obtain ⟨k', v'⟩ := e
    simp only [add]
    split
    · next h => subst h; simp only [sumIf]; split <;> omega
    · simp only [sumIf, ih]; omega

theorem get_add (m : Bag κ) (k k' : κ) (v : Int) :
    get (add m k v) k' = get m k' + (if k = k' then v else 0) := by
  simp only [get, sumIf_add]
  by_cases h : k = k' <;> simp [h]

theorem total_add (m : Bag κ) (k : κ) (v : Int) : total (add m k v) = total m + v := by
  simp [total, sumIf_add]

end Bag

/-! ### sumBy over list surgery -/

theorem sumBy_append {α : Type} (f : α → Int) (l₁ l₂ : List α) :
    sumBy f (l₁ ++ l₂) = sumBy f l₁ + sumBy f l₂ := by
  induction l₁ with
  | nil => simp [sumBy]
  | cons x t ih => simp only [List.cons_append, sumBy, ih]; omega

theorem sumBy_single {α : Type} (f : α → Int) (x : α) : sumBy f [x] = f x := by simp [sumBy]

/-- Effect of updating the first match. -/
def updDelta {α : Type} (f : α → Int) (p : α → Bool) (g : α → α) (l : List α) : Int :=
  match findFirst p l with
  | some x => f (g x) - f x
  | none => 0

theorem sumBy_updFirst {α : Type} (f : α → Int) (p : α → Bool) (g : α → α) (l : List α) :
    sumBy f (updFirst p g l) = sumBy f l + updDelta f p g l := by
  induction l with
  | nil => simp [updFirst, sumBy, updDelta, findFirst]
  | cons x t ih =>
    simp only [updFirst, updDelta, findFirst]
    split
    · simp only [sumBy]; omega
    · simp only [sumBy, ih, updDelta]; omega

theorem sumBy_eraseFirst {α : Type} (f : α → Int) (p : α → Bool) (l : List α) :
    sumBy f (eraseFirst p l) = sumBy f l - (match findFirst p l with | some x => f x | none => 0) := by
  induction l with
  | nil => simp [eraseFirst, sumBy, findFirst]
  | cons x t ih =>
    simp only [eraseFirst, findFirst]
    split
    · simp only [sumBy]; omega
    · simp only [sumBy, ih]; omega

theorem sumBy_filter_split {α : Type} (f : α → Int) (p : α → Bool) (l : List α) :
    sumBy f l = sumBy f (l.filter p) + sumBy f (l.filter (fun x => !p x)) := by
  induction l with
  | nil => simp [sumBy]
  | cons x t ih =>
    by_cases h : p x <;> simp [List.filter, h, sumBy, ih] <;> omega

theorem sumBy_updFirst_inv {α : Type} (f : α → Int) (p : α → Bool) (g : α → α) (l : List α) (h : ∀ x, f (g x) = f x) :
    sumBy f (updFirst p g l) = sumBy f l := by
  induction l with
  | nil => rfl
  | cons x t ih =>
    simp only [updFirst]
    split
    · simp only [sumBy, h]
    · simp only [sumBy, ih]

theorem sumBy_map_eq {α : Type} (f : α → Int) (g : α → α) (l : List α) (h : ∀ x, f (g x) = f x) :
    sumBy f (l.map g) = sumBy f l := by
  induction l with
  | nil => simp [sumBy]
  | cons x t ih => simp [sumBy, ih, h]

theorem findFirst_any {α : Type} (p : α → Bool) (l : List α) :
    (findFirst p l).isSome = l.any p := by
  induction l with
  | nil => simp [findFirst]
  | cons x t ih =>
    simp only [findFirst, List.any_cons]
    split
    · next h => simp [h]
    · next h => simp [h, ih]

end Minter

namespace Minter

theorem findFirst_some {α : Type} (p : α → Bool) (l : List α) (x : α) (h : findFirst p l = some x) : p x = true := by
  induction l with
  | nil => simp [findFirst] at h
  | cons y t ih =>
    simp only [findFirst] at h
    split at h
    · next hy => cases h; exact hy
    · exact ih h

theorem findFirst_none_any {α : Type} (p : α → Bool) (l : List α) (h : findFirst p l = none) : l.any p = false := by
  have := findFirst_any p l
  rw [h] at this
  simpa using this.symm

theorem findFirst_isSome_of_any {α : Type} (p : α → Bool) (l : List α) (h : l.any p = true) : ∃ x, findFirst p l = some x := by
  have := findFirst_any p l
  rw [h] at this
  exact Option.isSome_iff_exists.mp this

/-! ### holdings -/

theorem holdings_def (s : State) (c : Coin) : holdings s c =
    Bag.sumIf (fun k => decide (k.2 = c)) s.balances
  + sumBy (candHoldings c) s.candidates
  + sumBy (fun w => if w.coin = c then w.value else 0) s.waitlist
  + sumBy (fun f => if f.coin = c then f.value else 0) s.frozen
  + sumBy (poolHoldings c) s.pools
  + sumBy (orderEscrow c) s.orders := rfl

theorem any_of_findFirst {α : Type} (p : α → Bool) (l : List α) (x : α) (h : findFirst p l = some x) : l.any p = true := by
  have := findFirst_any p l
  rw [h] at this; simpa using this.symm

theorem stake_updDelta (c : Coin) (owner : Addr) (coin : Coin) (v : Int) (l : List Stake)
    (h : l.any (stakeKey owner coin) = true) :
    updDelta (stakeOf c) (stakeKey owner coin) (fun st => { st with value := st.value + v }) l
      = if coin = c then v else 0 := by
  unfold updDelta
  obtain ⟨st, hf⟩ := findFirst_isSome_of_any _ _ h
  have hp := findFirst_some _ _ _ hf
  simp only [stakeKey, Bool.and_eq_true, beq_iff_eq] at hp
  rw [hf]
  simp only [stakeOf, hp.2]
  split <;> omega

theorem apply_holdings (s : State) (p : Prim) (c : Coin) (hok : p.ok s = true) :
    holdings (p.apply s) c = holdings s c + p.dHold c := by
  cases p with
  | addBal a c' v =>
    simp only [Prim.apply, holdings_def, Prim.dHold, Bag.sumIf_add]
    by_cases h : c' = c <;> simp [h] <;> omega
  | addVolume c' v => simp [Prim.apply, holdings_def, Prim.dHold]
  | addReserve c' v => simp [Prim.apply, holdings_def, Prim.dHold]
  | setNonce a n => simp [Prim.apply, holdings_def, Prim.dHold]
  | createCoin ci => simp [Prim.apply, holdings_def, Prim.dHold]
  | addPool c0 c1 d0 d1 =>
    simp only [Prim.ok] at hok
    obtain ⟨pl, hf⟩ := findFirst_isSome_of_any _ _ hok
    have hp := findFirst_some _ _ _ hf
    simp only [Bool.and_eq_true, beq_iff_eq] at hp
    simp only [Prim.apply, holdings_def, Prim.dHold, sumBy_updFirst, updDelta, hf, poolHoldings, hp.1, hp.2]
    split <;> split <;> omega
  | createPool pl => simp only [Prim.apply, holdings_def, Prim.dHold, sumBy_append, sumBy_single]; omega
  | addRewards v => simp [Prim.apply, holdings_def, Prim.dHold]
  | addSlashed v => simp [Prim.apply, holdings_def, Prim.dHold]
  | addAccum pk v => simp [Prim.apply, holdings_def, Prim.dHold]
  | addEmission v => simp [Prim.apply, holdings_def, Prim.dHold]
  | addStake cand owner coin v =>
    simp only [Prim.ok, getCand] at hok
    cases hf : findFirst (fun x => x.id == cand) s.candidates with
    | none => simp [hf] at hok
    | some cd =>
      simp only [hf] at hok
      simp only [Prim.apply, holdings_def, Prim.dHold, sumBy_updFirst]
      unfold updDelta
      rw [hf]
      simp only [candHoldings, sumBy_updFirst, stake_updDelta c owner coin v cd.stakes hok]
      split <;> omega
  | newStake cand st =>
    simp only [Prim.ok] at hok
    obtain ⟨cd, hf⟩ := findFirst_isSome_of_any _ _ hok
    simp only [Prim.apply, holdings_def, Prim.dHold, sumBy_updFirst, updDelta, hf, candHoldings, sumBy_append, sumBy_single]
    omega
  | delStake cand st =>
    simp only [Prim.ok, getCand] at hok
    cases hf : findFirst (fun x => x.id == cand) s.candidates with
    | none => simp [hf] at hok
    | some cd =>
      simp only [hf, decide_eq_true_eq] at hok
      simp only [Prim.apply, holdings_def, Prim.dHold, sumBy_updFirst, updDelta, hf, candHoldings, sumBy_eraseFirst, hok]
      omega
  | pushUpdate cand st =>
    simp only [Prim.ok] at hok
    obtain ⟨cd, hf⟩ := findFirst_isSome_of_any _ _ hok
    simp only [Prim.apply, holdings_def, Prim.dHold, sumBy_updFirst, updDelta, hf, candHoldings, sumBy_append, sumBy_single]
    omega
  | addWait w => simp only [Prim.apply, holdings_def, Prim.dHold, sumBy_append, sumBy_single]; omega
  | delWait w =>
    simp only [Prim.ok, decide_eq_true_eq] at hok
    simp only [Prim.apply, holdings_def, Prim.dHold, sumBy_eraseFirst, hok]
    omega
  | addFrozen f => simp only [Prim.apply, holdings_def, Prim.dHold, sumBy_append, sumBy_single]; omega
  | delFrozen f =>
    simp only [Prim.ok, decide_eq_true_eq] at hok
    simp only [Prim.apply, holdings_def, Prim.dHold, sumBy_eraseFirst, hok]
    omega
  | addOrder o => simp only [Prim.apply, holdings_def, Prim.dHold, sumBy_append, sumBy_single]; omega
  | delOrder o =>
    simp only [Prim.ok, decide_eq_true_eq] at hok
    simp only [Prim.apply, holdings_def, Prim.dHold, sumBy_eraseFirst, hok]
    omega
  | fillOrder o d0 d1 =>
    simp only [Prim.ok, decide_eq_true_eq] at hok
    simp only [Prim.apply, holdings_def, Prim.dHold, sumBy_updFirst, updDelta, hok, orderEscrow]
    split <;> split <;> omega
  | useCheck h => simp [Prim.apply, holdings_def, Prim.dHold]
  | setCoinOwner sym a => simp [Prim.apply, holdings_def, Prim.dHold]
  | bumpVersion c' v => simp [Prim.apply, holdings_def, Prim.dHold]
  | note t => simp [Prim.apply, holdings_def, Prim.dHold]
  | setLockStake a h => simp [Prim.apply, holdings_def, Prim.dHold]
  | setMultisig a ms => simp [Prim.apply, holdings_def, Prim.dHold]
  | addCandidate cd =>
    simp only [Prim.apply, holdings_def, Prim.dHold, sumBy_append, sumBy_single, candHoldings, sumBy]; omega
  | setCandStatus id st =>
    simp only [Prim.apply, holdings_def, Prim.dHold]
    rw [sumBy_updFirst_inv (candHoldings c) _ _ _ (by intro x; rfl)]; omega
  | setToDrop pk => simp [Prim.apply, holdings_def, Prim.dHold]
  | editCandidate id ow rw ct =>
    simp only [Prim.apply, holdings_def, Prim.dHold]
    rw [sumBy_updFirst_inv (candHoldings c) _ _ _ (by intro x; rfl)]; omega
  | setCandPubKey id old new =>
    simp only [Prim.apply, holdings_def, Prim.dHold]
    rw [sumBy_updFirst_inv (candHoldings c) _ _ _ (by intro x; rfl)]; omega
  | setCandCommission id cm h =>
    simp only [Prim.apply, holdings_def, Prim.dHold]
    rw [sumBy_updFirst_inv (candHoldings c) _ _ _ (by intro x; rfl)]; omega
  | addHalt h pk => simp [Prim.apply, holdings_def, Prim.dHold]
  | addCVote h pk dg => simp [Prim.apply, holdings_def, Prim.dHold]
  | addUVote h pk v => simp [Prim.apply, holdings_def, Prim.dHold]
  | setNextOrder n => simp [Prim.apply, holdings_def, Prim.dHold]

def sideTotal (s : State) : Int := totalReserve s + totalAccum s + s.slashed + s.rewardsPool

theorem apply_volume (s : State) (p : Prim) (c : Coin) (hok : p.ok s = true) :
    volumeOf (p.apply s) c = volumeOf s c + p.dVol c := by
  cases p with
  | addVolume c' v =>
    simp only [Prim.ok] at hok
    obtain ⟨ci, hf⟩ := findFirst_isSome_of_any _ _ hok
    have hp := findFirst_some _ _ _ hf
    simp only [beq_iff_eq] at hp
    simp only [Prim.apply, volumeOf, Prim.dVol, sumBy_updFirst, updDelta, hf, hp]
    split <;> omega
  | addReserve c' v =>
    simp only [Prim.apply, volumeOf, Prim.dVol, sumBy_updFirst, updDelta]
    cases findFirst (fun x => x.id == c') s.coins with
    | none => simp
    | some ci => simp
  | createCoin ci => simp only [Prim.apply, volumeOf, Prim.dVol, sumBy_append, sumBy_single]
  | setCoinOwner sym a =>
    simp only [Prim.apply, volumeOf, Prim.dVol]
    rw [sumBy_map_eq]
    · omega
    · intro x; split <;> rfl
  | addBal a c' v => simp [Prim.apply, volumeOf, Prim.dVol]
  | setNonce a n => simp [Prim.apply, volumeOf, Prim.dVol]
  | addPool c0 c1 d0 d1 => simp [Prim.apply, volumeOf, Prim.dVol]
  | createPool pl => simp [Prim.apply, volumeOf, Prim.dVol]
  | addRewards v => simp [Prim.apply, volumeOf, Prim.dVol]
  | addSlashed v => simp [Prim.apply, volumeOf, Prim.dVol]
  | addAccum pk v => simp [Prim.apply, volumeOf, Prim.dVol]
  | addEmission v => simp [Prim.apply, volumeOf, Prim.dVol]
  | addStake cand owner coin v => simp [Prim.apply, volumeOf, Prim.dVol]
  | newStake cand st => simp [Prim.apply, volumeOf, Prim.dVol]
  | delStake cand st => simp [Prim.apply, volumeOf, Prim.dVol]
  | pushUpdate cand st => simp [Prim.apply, volumeOf, Prim.dVol]
  | addWait w => simp [Prim.apply, volumeOf, Prim.dVol]
  | delWait w => simp [Prim.apply, volumeOf, Prim.dVol]
  | addFrozen f => simp [Prim.apply, volumeOf, Prim.dVol]
  | delFrozen f => simp [Prim.apply, volumeOf, Prim.dVol]
  | addOrder o => simp [Prim.apply, volumeOf, Prim.dVol]
  | delOrder o => simp [Prim.apply, volumeOf, Prim.dVol]
  | fillOrder o d0 d1 => simp [Prim.apply, volumeOf, Prim.dVol]
  | useCheck h => simp [Prim.apply, volumeOf, Prim.dVol]
  | bumpVersion c' v =>
    simp only [Prim.apply, volumeOf, Prim.dVol, sumBy_updFirst, updDelta]
    cases findFirst (fun x => x.id == c') s.coins with
    | none => simp
    | some ci => simp
  | note t => simp [Prim.apply, volumeOf, Prim.dVol]
  | setLockStake a h => simp [Prim.apply, volumeOf, Prim.dVol]
  | setMultisig a ms => simp [Prim.apply, volumeOf, Prim.dVol]
  | addCandidate cd => simp [Prim.apply, volumeOf, Prim.dVol]
  | setCandStatus id st => simp [Prim.apply, volumeOf, Prim.dVol]
  | setToDrop pk => simp [Prim.apply, volumeOf, Prim.dVol]
  | editCandidate id ow rw ct => simp [Prim.apply, volumeOf, Prim.dVol]
  | setCandPubKey id old new => simp [Prim.apply, volumeOf, Prim.dVol]
  | setCandCommission id cm h => simp [Prim.apply, volumeOf, Prim.dVol]
  | addHalt h pk => simp [Prim.apply, volumeOf, Prim.dVol]
  | addCVote h pk dg => simp [Prim.apply, volumeOf, Prim.dVol]
  | addUVote h pk v => simp [Prim.apply, volumeOf, Prim.dVol]
  | setNextOrder n => simp [Prim.apply, volumeOf, Prim.dVol]

theorem apply_side (s : State) (p : Prim) (hok : p.ok s = true) :
    sideTotal (p.apply s) = sideTotal s + p.dSide := by
  cases p with
  | addVolume c' v =>
    simp only [Prim.apply, sideTotal, totalReserve, totalAccum, Prim.dSide, sumBy_updFirst, updDelta]
    cases findFirst (fun x => x.id == c') s.coins with
    | none => simp
    | some ci => simp
  | addReserve c' v =>
    simp only [Prim.ok] at hok
    obtain ⟨ci, hf⟩ := findFirst_isSome_of_any _ _ hok
    simp only [Prim.apply, sideTotal, totalReserve, totalAccum, Prim.dSide, sumBy_updFirst, updDelta, hf]; omega
  | createCoin ci => simp only [Prim.apply, sideTotal, totalReserve, totalAccum, Prim.dSide, sumBy_append, sumBy_single]; omega
  | setCoinOwner sym a =>
    simp only [Prim.apply, sideTotal, totalReserve, totalAccum, Prim.dSide]
    rw [sumBy_map_eq]
    · omega
    · intro x; split <;> rfl
  | addAccum pk v =>
    simp only [Prim.ok] at hok
    obtain ⟨vl, hf⟩ := findFirst_isSome_of_any _ _ hok
    simp only [Prim.apply, sideTotal, totalReserve, totalAccum, Prim.dSide, sumBy_updFirst, updDelta, hf]; omega
  | addRewards v => simp only [Prim.apply, sideTotal, totalReserve, totalAccum, Prim.dSide]; omega
  | addSlashed v => simp only [Prim.apply, sideTotal, totalReserve, totalAccum, Prim.dSide]; omega
  | addBal a c' v => simp [Prim.apply, sideTotal, totalReserve, totalAccum, Prim.dSide]
  | setNonce a n => simp [Prim.apply, sideTotal, totalReserve, totalAccum, Prim.dSide]
  | addPool c0 c1 d0 d1 => simp [Prim.apply, sideTotal, totalReserve, totalAccum, Prim.dSide]
  | createPool pl => simp [Prim.apply, sideTotal, totalReserve, totalAccum, Prim.dSide]
  | addEmission v => simp [Prim.apply, sideTotal, totalReserve, totalAccum, Prim.dSide]
  | addStake cand owner coin v => simp [Prim.apply, sideTotal, totalReserve, totalAccum, Prim.dSide]
  | newStake cand st => simp [Prim.apply, sideTotal, totalReserve, totalAccum, Prim.dSide]
  | delStake cand st => simp [Prim.apply, sideTotal, totalReserve, totalAccum, Prim.dSide]
  | pushUpdate cand st => simp [Prim.apply, sideTotal, totalReserve, totalAccum, Prim.dSide]
  | addWait w => simp [Prim.apply, sideTotal, totalReserve, totalAccum, Prim.dSide]
  | delWait w => simp [Prim.apply, sideTotal, totalReserve, totalAccum, Prim.dSide]
  | addFrozen f => simp [Prim.apply, sideTotal, totalReserve, totalAccum, Prim.dSide]
  | delFrozen f => simp [Prim.apply, sideTotal, totalReserve, totalAccum, Prim.dSide]
  | addOrder o => simp [Prim.apply, sideTotal, totalReserve, totalAccum, Prim.dSide]
  | delOrder o => simp [Prim.apply, sideTotal, totalReserve, totalAccum, Prim.dSide]
  | fillOrder o d0 d1 => simp [Prim.apply, sideTotal, totalReserve, totalAccum, Prim.dSide]
  | useCheck h => simp [Prim.apply, sideTotal, totalReserve, totalAccum, Prim.dSide]
  | bumpVersion c' v =>
    simp only [Prim.apply, sideTotal, totalReserve, totalAccum, Prim.dSide, sumBy_updFirst, updDelta]
    cases findFirst (fun x => x.id == c') s.coins with
    | none => simp
    | some ci => simp
  | note t => simp [Prim.apply, sideTotal, totalReserve, totalAccum, Prim.dSide]
  | setLockStake a h => simp [Prim.apply, sideTotal, totalReserve, totalAccum, Prim.dSide]
  | setMultisig a ms => simp [Prim.apply, sideTotal, totalReserve, totalAccum, Prim.dSide]
  | addCandidate cd => simp [Prim.apply, sideTotal, totalReserve, totalAccum, Prim.dSide]
  | setCandStatus id st => simp [Prim.apply, sideTotal, totalReserve, totalAccum, Prim.dSide]
  | setToDrop pk =>
    simp only [Prim.apply, sideTotal, totalReserve, totalAccum, Prim.dSide]
    have := sumBy_updFirst_inv (fun v : Validator => v.accum) (fun x => x.pubkey == pk) (fun v => { v with toDrop := true }) s.validators (fun _ => rfl)
    rw [this]; omega
  | editCandidate id ow rw ct => simp [Prim.apply, sideTotal, totalReserve, totalAccum, Prim.dSide]
  | setCandPubKey id old new => simp [Prim.apply, sideTotal, totalReserve, totalAccum, Prim.dSide]
  | setCandCommission id cm h => simp [Prim.apply, sideTotal, totalReserve, totalAccum, Prim.dSide]
  | addHalt h pk => simp [Prim.apply, sideTotal, totalReserve, totalAccum, Prim.dSide]
  | addCVote h pk dg => simp [Prim.apply, sideTotal, totalReserve, totalAccum, Prim.dSide]
  | addUVote h pk v => simp [Prim.apply, sideTotal, totalReserve, totalAccum, Prim.dSide]
  | setNextOrder n => simp [Prim.apply, sideTotal, totalReserve, totalAccum, Prim.dSide]

theorem apply_emission (s : State) (p : Prim) : (p.apply s).emission = s.emission + p.dEmission := by
  cases p <;> simp [Prim.apply, Prim.dEmission]

/-! ### Plans -/

theorem applyChecked_cons (s s' : State) (p : Prim) (t : List Prim) (h : applyChecked s (p :: t) = some s') :
    p.ok s = true ∧ applyChecked (p.apply s) t = some s' := by
  simp only [applyChecked] at h
  split at h
  · next hok => exact ⟨hok, h⟩
  · cases h

theorem checked_holdings (s s' : State) (ps : List Prim) (c : Coin) (h : applyChecked s ps = some s') :
    holdings s' c = holdings s c + sumHold c ps := by
  induction ps generalizing s with
  | nil => simp [applyChecked] at h; subst h; simp [sumHold, sumBy]
  | cons p t ih =>
    obtain ⟨hok, ht⟩ := applyChecked_cons _ _ _ _ h
    rw [ih _ ht, apply_holdings _ _ _ hok]; simp only [sumHold, sumBy]; omega

theorem checked_volume (s s' : State) (ps : List Prim) (c : Coin) (h : applyChecked s ps = some s') :
    volumeOf s' c = volumeOf s c + sumVol c ps := by
  induction ps generalizing s with
  | nil => simp [applyChecked] at h; subst h; simp [sumVol, sumBy]
  | cons p t ih =>
    obtain ⟨hok, ht⟩ := applyChecked_cons _ _ _ _ h
    rw [ih _ ht, apply_volume _ _ _ hok]; simp only [sumVol, sumBy]; omega

theorem checked_side (s s' : State) (ps : List Prim) (h : applyChecked s ps = some s') :
    sideTotal s' = sideTotal s + sumSide ps := by
  induction ps generalizing s with
  | nil => simp [applyChecked] at h; subst h; simp [sumSide, sumBy]
  | cons p t ih =>
    obtain ⟨hok, ht⟩ := applyChecked_cons _ _ _ _ h
    rw [ih _ ht, apply_side _ _ hok]; simp only [sumSide, sumBy]; omega

theorem checked_emission (s s' : State) (ps : List Prim) (h : applyChecked s ps = some s') :
    s'.emission = s.emission + sumEmission ps := by
  induction ps generalizing s with
  | nil => simp [applyChecked] at h; subst h; simp [sumEmission, sumBy]
  | cons p t ih =>
    obtain ⟨_, ht⟩ := applyChecked_cons _ _ _ _ h
    rw [ih _ ht, apply_emission]; simp only [sumEmission, sumBy]; omega

theorem baseTotalP_eq (s : State) : baseTotalP s = holdings s 0 + sideTotal s := by
  simp only [baseTotalP, baseTotal, sideTotal]; omega

/-- A plan is *balanced* when, for every custom coin, the holdings it moves equal the volume it mints/burns,
    and the base-coin books (holdings + reserves + accumulated rewards + slashed + fee pool) change by exactly
    the emission it records. -/
def Balanced (ps : List Prim) : Prop :=
  (∀ c, c ≠ 0 → sumHold c ps = sumVol c ps) ∧ sumHold 0 ps + sumSide ps = sumEmission ps

/-- The conservation invariant of C01 for custom coins. -/
def Conserved (s : State) : Prop := ∀ c, c ≠ 0 → volumeOf s c = holdings s c

/-- **Ledger conservation.** Executing a balanced plan keeps every custom coin's volume equal to its holdings and
    changes the base-coin total by exactly the recorded emission. -/
theorem balanced_preserves (s s' : State) (ps : List Prim) (hb : Balanced ps)
    (h : applyChecked s ps = some s') (hc : Conserved s) :
    Conserved s' ∧ baseTotalP s' - baseTotalP s = s'.emission - s.emission := by
  constructor
  · intro c hc0
    rw [checked_holdings _ _ _ c h, checked_volume _ _ _ c h, hc c hc0, hb.1 c hc0]
  · rw [baseTotalP_eq, baseTotalP_eq, checked_holdings _ _ _ 0 h, checked_side _ _ _ h, checked_emission _ _ _ h]
    have := hb.2
    omega

theorem balanced_append (p q : List Prim) (hp : Balanced p) (hq : Balanced q) : Balanced (p ++ q) := by
  constructor
  · intro c hc
    simp only [sumHold, sumVol, sumBy_append]
    have := hp.1 c hc; have := hq.1 c hc
    simp only [sumHold, sumVol] at *; omega
  · have := hp.2; have := hq.2
    simp only [sumHold, sumSide, sumEmission, sumBy_append] at *; omega

theorem balanced_nil : Balanced [] := by
  constructor <;> simp [sumHold, sumVol, sumSide, sumEmission, sumBy]

end Minter
