import MinterProofs.C07Handlers2
/-
  C07 helper lemmas, part 5: swap pools — the simulated commission swap (`simRes`), limit-order placement, liquidity and the three
  route transactions on pools without orders.
-/
namespace Minter

/-! ### `simRes` -/

theorem simRes_noPanic {P : Params} {s : State} (hinv : TxInv P s) (gas : Coin) (com : Com) (a b : Coin)
    (hex : poolExists s a b = true) (hcom : com.fromPool = true → 0 < com.commission) : NoPanic (simRes s gas com a b) := by
  unfold simRes
  cases hp : poolRes s a b with
  | none => unfold poolExists at hex; rw [hp] at hex; simp at hex
  | some rr =>
    obtain ⟨ra, rb⟩ := rr
    have hpos := poolRes_pos s hinv.poolsOk a b ra rb hp
    simp only
    by_cases hcp : isComPool gas com a b = true
    · have hf : com.fromPool = true := by
        unfold isComPool at hcp
        simp only [Bool.and_eq_true] at hcp
        exact hcp.1
      have hc := hcom hf
      simp only [hcp, Bool.not_true, Bool.false_eq_true, if_false]
      split
      · exact NoPanic_unmodelled _
      · have hrg : 0 < (if (a == gas) = true then ra else rb) := by split <;> omega
        have hr0 : 0 < (if (a == gas) = true then rb else ra) := by split <;> omega
        generalize (if (a == gas) = true then ra else rb) = rg at hrg ⊢
        generalize (if (a == gas) = true then rb else ra) = r0 at hr0 ⊢
        have hq := (C07_quote_no_panic rg r0 com.commission hrg hr0 (by omega)).1
        split
        · rename_i w hw; exact absurd hw (hq w)
        · rename_i hn; exact absurd hn (quoteBFS_ne_nil _ _ _)
        · have hnet := net_nonneg com.commission (by omega)
          split
          · rename_i w hw; exact absurd hw (C07_bfs_no_panic rg r0 _ hrg hr0 hnet w)
          · split <;> exact NoPanic_pure _
    · have hcp' : isComPool gas com a b = false := by simpa using hcp
      simp only [hcp', Bool.not_false, if_true]
      exact NoPanic_pure _

theorem ComGood.comPos {s : State} {gas : Coin} {price : Int} {com : Com} (h : ComGood s gas price com) :
    com.fromPool = true → 0 < com.commission := fun hf => (h.pool hf).2.2.1

/-! ### LP tokens -/

theorem poolId_mem (s : State) (a b : Coin) (h : poolExists s a b = true) : ∃ p ∈ s.pools, poolId s a b = p.id := by
  unfold poolExists poolRes at h
  unfold poolId
  cases h1 : getPool s a b with
  | some p => exact ⟨p, (getPool_mem s a b p h1).1, rfl⟩
  | none =>
    rw [h1] at h
    simp only at h ⊢
    cases h2 : getPool s b a with
    | some p => exact ⟨p, (getPool_mem s b a p h2).1, rfl⟩
    | none => rw [h2] at h; simp at h

theorem lpCoin_of_exists {P : Params} {s : State} (hinv : TxInv P s) (a b : Coin) (h : poolExists s a b = true) :
    ∃ lp, lpCoin s a b = some lp ∧ 0 < lp.volume := by
  obtain ⟨p, hp, hid⟩ := poolId_mem s a b h
  have := hinv.lp
  unfold lpOk at this
  rw [List.all_eq_true] at this
  have hpp := this p hp
  unfold lpCoin
  rw [hid]
  split at hpp
  · rename_i lp hlp
    exact ⟨lp, hlp, by simpa using hpp⟩
  · cases hpp

/-! ### AddLimitOrder -/

section
variable {P : Params} {s : State} (hinv : TxInv P s) (o : Oracle) (t : TxIn) (price : Int) (hp : 0 ≤ price) (b : Nat)
include hinv hp

theorem runAddOrder_good : HGood (ReadyGood P o s price) (runAddOrder P o s b t price) := by
  unfold runAddOrder
  simp only
  hautoWith hinv, o, hp,
    (refine HGood_sub' _ _ _ (by assumption) ?_
     exact simRes_noPanic hinv _ _ _ _ (of_not_not_b (by assumption)) (ComGood.comPos (by assumption)))

/-! ### Liquidity -/

theorem runAddLiquidity_good : HGood (ReadyGood P o s price) (runAddLiquidity P o s t price) := by
  unfold runAddLiquidity
  simp only
  apply HGood_ite <;> intro _
  · exact HGood_reject _ _
  apply HGood_ite <;> intro hex
  · exact HGood_reject _ _
  have hex' := of_not_not_b hex
  apply HGood_ite <;> intro _
  · exact HGood_reject _ _
  apply HGood_ite <;> intro _
  · exact HGood_reject _ _
  apply HGood_withCom hinv o _ _ _ hp
  intro com hc hcg
  obtain ⟨paid, hpay⟩ := payCommission_total hinv t.sender t.gasCoin price com 0 hcg hp
  apply HGood_ite <;> intro _
  · exact HGood_reject _ _
  cases hsim : simRes s t.gasCoin com (t.nat "d.Coin0") (t.nat "d.Coin1") with
  | error e => exact HGood_sub' _ _ _ hsim (simRes_noPanic hinv _ _ _ _ hex' hcg.comPos)
  | ok r =>
    obtain ⟨r0, r1⟩ := r
    obtain ⟨_, hr0, _⟩ := sim_eq_real s hinv.poolsOk t.sender t.gasCoin com 0 paid hpay _ _ _ hsim
    obtain ⟨lp, hlp, hlpv⟩ := lpCoin_of_exists hinv _ _ hex'
    simp only [hlp]
    have hne : ¬ ((r0 == 0) = true) := by
      simp only [beq_iff_eq]; simp only at hr0; omega
    rw [if_neg hne]
    apply HGood_ite <;> intro _
    · exact HGood_reject _ _
    apply HGood_ite <;> intro hliq
    · exact HGood_reject _ _
    apply HGood_ite <;> intro _
    · exact HGood_reject _ _
    apply HGood_ite <;> intro _
    · exact HGood_reject _ _
    refine HGood_pure _ _ ⟨hc, hp, fun paid' hpay' => ?_⟩
    obtain ⟨hreal, _, _⟩ := sim_eq_real s hinv.poolsOk t.sender t.gasCoin com 0 paid' hpay' _ _ _ hsim
    simp only
    rw [addLiquidityExec_ok s _ _ _ _ lp paid'.adj r0 r1 hreal (by simp only at hr0; omega) (by omega)]
    exact NoPanic_ok _

theorem runRemoveLiquidity_good : HGood (ReadyGood P o s price) (runRemoveLiquidity P o s t price) := by
  unfold runRemoveLiquidity
  simp only
  apply HGood_ite <;> intro _
  · exact HGood_reject _ _
  apply HGood_ite <;> intro _
  · exact HGood_reject _ _
  apply HGood_withCom hinv o _ _ _ hp
  intro com hc hcg
  obtain ⟨paid, hpay⟩ := payCommission_total hinv t.sender t.gasCoin price com 0 hcg hp
  apply HGood_ite <;> intro hex
  · exact HGood_reject _ _
  have hex' := of_not_not_b hex
  cases hsim : simRes s t.gasCoin com (t.nat "d.Coin0") (t.nat "d.Coin1") with
  | error e => exact HGood_sub' _ _ _ hsim (simRes_noPanic hinv _ _ _ _ hex' hcg.comPos)
  | ok r =>
    obtain ⟨r0, r1⟩ := r
    obtain ⟨lp, hlp, hlpv⟩ := lpCoin_of_exists hinv _ _ hex'
    simp only [hlp]
    apply HGood_ite <;> intro _
    · exact HGood_reject _ _
    apply HGood_ite <;> intro _
    · exact HGood_reject _ _
    have hne : ¬ ((lp.volume == 0) = true) := by
      simp only [beq_iff_eq]; omega
    rw [if_neg hne]
    apply HGood_ite <;> intro hmins
    · exact HGood_reject _ _
    simp only [Bool.or_eq_true, decide_eq_true_eq, not_or, Int.not_lt] at hmins
    refine HGood_pure _ _ ⟨hc, hp, fun paid' hpay' => ?_⟩
    obtain ⟨hreal, _, _⟩ := sim_eq_real s hinv.poolsOk t.sender t.gasCoin com 0 paid' hpay' _ _ _ hsim
    simp only
    rw [removeLiquidityExec_ok s _ _ _ _ _ _ lp paid'.adj r0 r1 hreal hmins.1 hmins.2]
    exact NoPanic_ok _

end

end Minter
