import MinterProofs.AmountsCore
import MinterProofs.Props.C13
import MinterProofs.Props.C15
/-
  C02, commission payments.  For each of the three routes of `payCommission`
    base coin  — `feeBase`,
    bancor coin — `feeBancor`, under the oracle envelope `OracleSound` (Props/C02.lean),
    swap pool  — `poolSell … toRewards`, by the kernel theorem `buyForSell_K` (Props/C13.lean),
  the fee moves preserve `AmountsOk` given the balance check the handler made (`com.commission ≤ balanceOf s payer gas`),
  and the state after the fee is related to the state before it by `FeeFrame` (what a handler's own moves may rely on).
-/
namespace Minter

/-! ### Lookups through `updFirst` -/

theorem findFirst_updFirst_same {α : Type} (p : α → Bool) (g : α → α) (l : List α) (hg : ∀ x, p (g x) = p x) :
    findFirst p (updFirst p g l) = (findFirst p l).map g := by
  induction l with
  | nil => rfl
  | cons x t ih =>
    simp only [updFirst, findFirst]
    split
    · next hx => simp only [findFirst, hg, hx, if_true, Option.map]
    · next hx => simp only [findFirst, hx, ih]; rfl

theorem findFirst_updFirst_disjoint {α : Type} (p q : α → Bool) (g : α → α) (l : List α)
    (h : ∀ x, p x = true → q x = false ∧ q (g x) = false) : findFirst q (updFirst p g l) = findFirst q l := by
  induction l with
  | nil => rfl
  | cons x t ih =>
    simp only [updFirst]
    split
    · next hx => simp only [findFirst, (h x hx).1, (h x hx).2]; rfl
    · simp only [findFirst, ih]

theorem findFirst_append_single_ne {α : Type} (q : α → Bool) (l : List α) (y : α) (h : q y = false) :
    findFirst q (l ++ [y]) = findFirst q l := by
  induction l with
  | nil => simp [findFirst, h]
  | cons x t ih => simp only [List.cons_append, findFirst, ih]

/-- Primitives that leave the coin registry alone. -/
def Prim.keepsCoins : Prim → Bool
  | .addVolume _ _ | .addReserve _ _ | .createCoin _ | .setCoinOwner _ _ | .bumpVersion _ _ => false
  | _ => true

def Prim.keepsPools : Prim → Bool
  | .addPool _ _ _ _ | .createPool _ => false
  | _ => true

def Prim.keepsCands : Prim → Bool
  | .addStake _ _ _ _ | .newStake _ _ | .delStake _ _ | .pushUpdate _ _ | .addCandidate _ | .setCandStatus _ _
  | .editCandidate _ _ _ _ | .setCandPubKey _ _ _ | .setCandCommission _ _ _ => false
  | _ => true

theorem apply_coins (s : State) (p : Prim) (h : p.keepsCoins = true) : (p.apply s).coins = s.coins := by
  cases p <;> first | rfl | cases h
theorem apply_pools (s : State) (p : Prim) (h : p.keepsPools = true) : (p.apply s).pools = s.pools := by
  cases p <;> first | rfl | cases h
theorem apply_cands (s : State) (p : Prim) (h : p.keepsCands = true) : (p.apply s).candidates = s.candidates := by
  cases p <;> first | rfl | cases h

theorem getCoin_apply (s : State) (p : Prim) (c : Coin) (h : p.keepsCoins = true) : getCoin (p.apply s) c = getCoin s c := by
  unfold getCoin; rw [apply_coins s p h]
theorem getPool_apply (s : State) (p : Prim) (a b : Coin) (h : p.keepsPools = true) : getPool (p.apply s) a b = getPool s a b := by
  unfold getPool; rw [apply_pools s p h]
theorem getCand_apply (s : State) (p : Prim) (id : Nat) (h : p.keepsCands = true) : getCand (p.apply s) id = getCand s id := by
  unfold getCand; rw [apply_cands s p h]

theorem getCoin_addVolume_same (s : State) (c : Coin) (v : Int) :
    getCoin ((Prim.addVolume c v).apply s) c = (getCoin s c).map fun ci => { ci with volume := ci.volume + v } := by
  unfold getCoin
  exact findFirst_updFirst_same _ _ _ (fun _ => rfl)

theorem getCoin_addReserve_same (s : State) (c : Coin) (v : Int) :
    getCoin ((Prim.addReserve c v).apply s) c = (getCoin s c).map fun ci => { ci with reserve := ci.reserve + v } := by
  unfold getCoin
  exact findFirst_updFirst_same _ _ _ (fun _ => rfl)

theorem coin_other_aux (c c' : Coin) (hne : c' ≠ c) (g : CoinInfo → CoinInfo) (hg : ∀ x, (g x).id = x.id) (l : List CoinInfo) :
    findFirst (fun ci => ci.id == c') (updFirst (fun ci => ci.id == c) g l) = findFirst (fun ci => ci.id == c') l := by
  apply findFirst_updFirst_disjoint
  intro x hx
  simp only [beq_iff_eq] at hx
  simp only [hg, hx, beq_eq_false_iff_ne, ne_eq]
  exact ⟨fun e => hne e.symm, fun e => hne e.symm⟩

theorem getCoin_addVolume_ne (s : State) (c c' : Coin) (v : Int) (hne : c' ≠ c) :
    getCoin ((Prim.addVolume c v).apply s) c' = getCoin s c' := by
  unfold getCoin
  exact coin_other_aux c c' hne (fun ci => { ci with volume := ci.volume + v }) (fun _ => rfl) s.coins

theorem getCoin_addReserve_ne (s : State) (c c' : Coin) (v : Int) (hne : c' ≠ c) :
    getCoin ((Prim.addReserve c v).apply s) c' = getCoin s c' := by
  unfold getCoin
  exact coin_other_aux c c' hne (fun ci => { ci with reserve := ci.reserve + v }) (fun _ => rfl) s.coins

theorem ask_ok (o : Oracle) (q : OQ) (v : Int) (h : ask o q = .ok v) : o q = some v := by
  unfold ask at h
  cases ho : o q with
  | none => rw [ho] at h; cases h
  | some x => rw [ho] at h; cases h; rfl

/-! ### The oracle envelope gives a sound commission -/

/-- What the fee moves need to know about a commission that is paid in a bancor coin: it does not exceed the coin's volume, its base
    value does not exceed the coin's reserve, neither is negative. -/
def ComSound (s : State) (gas : Coin) (com : Com) : Prop :=
  com.fromPool = false → gas ≠ 0 →
    optProp (getCoin s gas) fun ci => 0 ≤ com.commission ∧ com.commission ≤ ci.volume ∧ 0 ≤ com.inBase ∧ com.inBase ≤ ci.reserve

theorem comFromReserve_sound (P : Params) (o : Oracle) (s : State) (gas : Coin) (inBase r : Int)
    (ho : OracleSound o) (hP : 0 ≤ P.minReserve) (hb : 0 ≤ inBase)
    (h : comFromReserve P o s gas inBase = .ok (.ok r)) :
    ∃ ci, getCoin s gas = some ci ∧ hasReserve ci = true ∧ 0 ≤ r ∧ r ≤ ci.volume ∧ inBase ≤ ci.reserve ∧
      P.minReserve ≤ ci.reserve - inBase := by
  unfold comFromReserve at h
  split at h
  · cases h
  · next ci hci =>
    split at h
    · cases h
    · next hres =>
      split at h
      · cases h
      · next hmin =>
        cases ha : ask o (.saleAmount ci.volume ci.reserve ci.crr inBase) with
        | error e => rw [ha] at h; cases h
        | ok v =>
          rw [ha] at h
          cases h
          have hv := ask_ok _ _ _ ha
          exact ⟨ci, hci, by simpa using hres, ho.nonneg _ _ hv, ho.saleAmountLeVolume _ _ _ _ _ hv hb (by omega), by omega, by omega⟩

/-- `CalculateCommission` under the oracle envelope. -/
theorem calcCommission_sound (P : Params) (o : Oracle) (s : State) (gas : Coin) (price : Int) (com : Com)
    (ho : OracleSound o) (hP : 0 ≤ P.minReserve) (hok : AmountsOk s) (hp : 0 ≤ price)
    (h : calcCommission P o s gas price = .ok (.ok com)) : ComSound s gas com ∧ com.inBase = price := by
  unfold calcCommission at h
  split at h
  · next hg => cases h; exact ⟨fun _ hne => absurd (by simpa using hg) hne, rfl⟩
  · split at h
    · next hz =>
      cases h
      refine ⟨?_, rfl⟩
      intro _ _
      have hz' : price = 0 := by simpa using hz
      cases hc : getCoin s gas with
      | none => trivial
      | some ci =>
        have := hok.coins ci (findFirst_mem _ _ _ hc).1
        simp only [optProp_some]; omega
    · cases hfp : comFromPool P s gas price with
      | error e => rw [hfp] at h; cases h
      | ok fp =>
        rw [hfp] at h
        simp only at h
        cases hfr : comFromReserve P o s gas price with
        | error e => rw [hfr] at h; cases h
        | ok fr =>
          rw [hfr] at h
          simp only at h
          have key : ∀ r, fr = .ok r → ComSound s gas ⟨r, price, false⟩ := by
            intro r hr
            subst hr
            obtain ⟨ci, hci, _, h0, hv, hres, _⟩ := comFromReserve_sound P o s gas price r ho hP hp hfr
            intro _ _
            simp only [hci, optProp_some]
            exact ⟨h0, hv, hp, hres⟩
          cases fp with
          | error c1 =>
            cases fr with
            | error c2 => cases h
            | ok r => cases h; exact ⟨key r rfl, rfl⟩
          | ok p =>
            cases fr with
            | error c2 => cases h; exact ⟨fun hf => (by simp at hf), rfl⟩
            | ok r =>
              simp only at h
              split at h
              · cases h; exact ⟨key r rfl, rfl⟩
              · cases h; exact ⟨fun hf => (by simp at hf), rfl⟩

/-! ### The state after the fee -/

/-- How the state after the commission payment relates to the state before it. -/
structure FeeFrame (s s1 : State) (payer : Addr) (gas : Coin) (com : Com) (adj : Option PoolAdj) : Prop where
  /-- nobody but the payer loses anything, and the payer loses the commission in the gas coin. -/
  bal : ∀ a c, balanceOf s a c - (if a = payer ∧ c = gas then com.commission else 0) ≤ balanceOf s1 a c
  cands : s1.candidates = s.candidates
  wait : s1.waitlist = s.waitlist
  frozen : s1.frozen = s.frozen
  orders : s1.orders = s.orders
  /-- coins other than a bancor-paid gas coin are as before. -/
  coinOther : ∀ c, (c ≠ gas ∨ com.fromPool = true ∨ gas = 0) → getCoin s1 c = getCoin s c
  /-- a bancor-paid gas coin lost the commission from its volume and the base value from its reserve. -/
  coinGas : com.fromPool = false → gas ≠ 0 →
    getCoin s1 gas = (getCoin s gas).map fun ci => { ci with volume := ci.volume - com.commission, reserve := ci.reserve - com.inBase }
  /-- pools are as before unless the commission went through one … -/
  pools : adj = none → s1.pools = s.pools
  /-- … in which case the stored entry of that pool changed by exactly the reported adjustment. -/
  poolsAdj : ∀ j, adj = some j →
    ((getPool s j.a j.b).isSome = true ∧
      s1.pools = updFirst (fun p => p.c0 == j.a && p.c1 == j.b) (fun p => { p with r0 := p.r0 + j.da, r1 := p.r1 + j.db }) s.pools) ∨
    ((getPool s j.a j.b).isSome = false ∧
      s1.pools = updFirst (fun p => p.c0 == j.b && p.c1 == j.a) (fun p => { p with r0 := p.r0 + j.db, r1 := p.r1 + j.da }) s.pools)
  adjNone : com.fromPool = false → adj = none
  ncoins : s1.ncoins = s.ncoins

theorem sub_eq_add_neg' (a b : Int) : a - b = a + -b := by omega

/-- **Commission in the base coin.** -/
theorem fee_base (s s1 : State) (payer : Addr) (v : Int) (hok : AmountsOk s) (hf : v ≤ balanceOf s payer 0)
    (h : applyChecked s (planOf [.feeBase payer v]) = some s1) :
    AmountsOk s1 ∧ FeeFrame s s1 payer 0 ⟨v, v, false⟩ none := by
  have hplan : planOf [.feeBase payer v] = [.addBal payer 0 (-v), .addRewards v] := rfl
  rw [hplan] at h
  constructor
  · apply planSafe_preserves s s1 _ _ hok h
    simp only [PlanSafe, PrimSafe, and_true]
    omega
  · have he := applyChecked_eq_applyAll s s1 _ h
    subst he
    refine ⟨?_, rfl, rfl, rfl, rfl, fun _ _ => rfl, fun _ hne => absurd rfl hne, fun _ => rfl, fun _ hj => (by cases hj), fun _ => rfl, rfl⟩
    intro a c
    simp only [applyAll, List.foldl, apply_balance', Prim.balDelta']
    split <;> split <;> omega

/-- **Commission in a bancor coin** (under the envelope: `ComSound`). -/
theorem fee_bancor (s s1 : State) (payer : Addr) (gas : Coin) (com : Com) (hok : AmountsOk s)
    (hfp : com.fromPool = false) (hg : gas ≠ 0) (hsound : ComSound s gas com) (hf : com.commission ≤ balanceOf s payer gas)
    (h : applyChecked s (planOf [.feeBancor payer gas com.commission com.inBase]) = some s1) :
    AmountsOk s1 ∧ FeeFrame s s1 payer gas com none := by
  have hplan : planOf [.feeBancor payer gas com.commission com.inBase] =
      [.addVolume gas (-com.commission), .addReserve gas (-com.inBase), .addBal payer gas (-com.commission), .addRewards com.inBase] := by
    simp [planOf, Move.prims, hg]
  rw [hplan] at h
  have hs := hsound hfp hg
  constructor
  · apply planSafe_preserves s s1 _ _ hok h
    simp only [PlanSafe, PrimSafe, and_true, apply_balance', Prim.balDelta', getCoin_addVolume_same]
    cases hc : getCoin s gas with
    | none => simp only [optProp_none, Option.map, true_and]; omega
    | some ci =>
      have hci := hok.coins ci (findFirst_mem _ _ _ hc).1
      simp only [hc, optProp_some] at hs
      simp only [optProp_some, Option.map]
      refine ⟨⟨by omega, by omega⟩, by omega, by omega⟩
  · have he := applyChecked_eq_applyAll s s1 _ h
    subst he
    refine ⟨?_, rfl, rfl, rfl, rfl, ?_, ?_, fun _ => rfl, fun _ hj => (by cases hj), fun _ => rfl, rfl⟩
    · intro a c
      simp only [applyAll, List.foldl, apply_balance', Prim.balDelta']
      split <;> split <;> omega
    · intro c hc
      rcases hc with hc | hc | hc
      · simp only [applyAll, List.foldl]
        rw [getCoin_apply _ _ _ rfl, getCoin_apply _ _ _ rfl, getCoin_addReserve_ne _ _ _ _ hc, getCoin_addVolume_ne _ _ _ _ hc]
      · rw [hfp] at hc; cases hc
      · exact absurd hc hg
    · intro _ _
      simp only [applyAll, List.foldl]
      rw [getCoin_apply _ _ _ rfl, getCoin_apply _ _ _ rfl, getCoin_addReserve_same, getCoin_addVolume_same]
      cases getCoin s gas with
      | none => rfl
      | some ci => simp only [Option.map, sub_eq_add_neg']

/-! ### Commission through a swap pool -/

/-- Splits the `if a = x ∧ c' = c` of balance deltas, substitutes the equalities and closes the goal with `omega`. -/
macro "bal_omega" : tactic =>
  `(tactic| ((repeat' (split <;> try (rename_i hh; first | (obtain ⟨hh1, hh2⟩ := hh; (first | subst hh1 | skip); (first | subst hh2 | skip)) | skip))) <;> omega))


/-- `pairSellMove` with the branch it took (which stored orientation the pool has). -/
theorem pairSellMove_shape2 (s : State) (adj : Option PoolAdj) (payer : Addr) (a b : Coin) (amountIn minOut : Int) (toRewards : Bool) (dest : Addr)
    (mv : Move) (out : Int) (j : PoolAdj) (h : pairSellMove s adj payer a b amountIn minOut toRewards dest = .ok (mv, out, j)) :
    0 < amountIn ∧ 0 < out ∧ minOut ≤ out ∧ 0 < amountIn - com1000 amountIn ∧
    (((getPool s a b).isSome = true ∧ mv = .poolSell payer a b true (amountIn - com1000 amountIn) out (com1000 amountIn) toRewards dest) ∨
     ((getPool s a b).isSome = false ∧ mv = .poolSell payer b a false (amountIn - com1000 amountIn) out (com1000 amountIn) toRewards dest)) ∧
    j = ⟨a, b, amountIn - com1000 amountIn, -out⟩ ∧ pairHasOrders s a b = false ∧
    ∃ r0 r1, poolResAdj s adj a b = some (r0, r1) ∧ bfsNoOrders r0 r1 (amountIn - com1000 amountIn) = .val out := by
  unfold pairSellMove at h
  split at h
  · cases h
  · rename_i r0 r1 hres
    split at h
    · cases h
    · rename_i hord
      split at h
      · cases h
      · next hin =>
        simp only at h
        split at h
        · cases h
        · next hnet =>
          split at h
          · cases h
          · cases h
          · next o' hq =>
            split at h
            · cases h
            · next hout =>
              split at h
              · cases h
              · next hmin =>
                have hord' : pairHasOrders s a b = false := by simpa using hord
                split at h
                · next hsome => cases h; exact ⟨by omega, by omega, by omega, by omega, Or.inl ⟨hsome, rfl⟩, rfl, hord', r0, r1, hres, hq⟩
                · next hnone => cases h; exact ⟨by omega, by omega, by omega, by omega, Or.inr ⟨by simpa using hnone, rfl⟩, rfl, hord', r0, r1, hres, hq⟩

theorem getPool_addPool_same (s : State) (a b : Coin) (d0 d1 : Int) :
    getPool ((Prim.addPool a b d0 d1).apply s) a b = (getPool s a b).map fun p => { p with r0 := p.r0 + d0, r1 := p.r1 + d1 } := by
  unfold getPool
  exact findFirst_updFirst_same _ _ _ (fun _ => rfl)

/-- The primitives of a pool sale are safe when the pool entry they update has positive reserves, the output is below the reserve it
    leaves, and the payer holds input + burn. -/
theorem poolSell_planSafe (s : State) (hok : AmountsOk s) (payer : Addr) (c0 c1 : Coin) (sellsC0 : Bool) (net out burn : Int)
    (toRewards : Bool) (dest : Addr) (p : Pool) (hp : getPool s c0 c1 = some p)
    (hnet : 0 < net) (hout : 0 < out) (hlt : out < (if sellsC0 then p.r1 else p.r0)) (hburn : 0 ≤ burn)
    (hbal : net + burn ≤ balanceOf s payer (if sellsC0 then c0 else c1)) :
    PlanSafe s (Move.poolSell payer c0 c1 sellsC0 net out burn toRewards dest).prims := by
  have hpp := hok.pools p (findFirst_mem _ _ _ hp).1
  have hb1 := hok.balances Move.prims.burnAddressM
  have hb2 := hok.balances payer
  have hb3 := hok.balances dest
  cases sellsC0 <;> cases toRewards <;> simp only [Move.prims, Bool.false_eq_true, if_false, if_true] at hlt hbal ⊢
  · simp only [PlanSafe, PrimSafe, hp, optProp_some, apply_balance', Prim.balDelta', and_true]
    have := hb1 c1; have := hb2 c1; have := hb3 c0; have := hb3 c1; have := hb2 c0
    refine ⟨⟨by omega, by omega⟩, by omega, ?_, ?_⟩ <;> bal_omega
  · split
    · simp only [PlanSafe, PrimSafe, hp, optProp_some, apply_balance', Prim.balDelta', and_true]
      have := hb1 c1; have := hb2 c1
      refine ⟨⟨by omega, by omega⟩, by omega, ?_⟩
      bal_omega
    · trivial
  · simp only [PlanSafe, PrimSafe, hp, optProp_some, apply_balance', Prim.balDelta', and_true]
    have := hb1 c0; have := hb2 c0; have := hb3 c1; have := hb3 c0; have := hb2 c1
    refine ⟨⟨by omega, by omega⟩, by omega, ?_, ?_⟩ <;> bal_omega
  · split
    · simp only [PlanSafe, PrimSafe, hp, optProp_some, apply_balance', Prim.balDelta', and_true]
      have := hb1 c0; have := hb2 c0
      refine ⟨⟨by omega, by omega⟩, by omega, ?_⟩
      bal_omega
    · trivial

theorem poolRes_of_getPool (s : State) (a b : Coin) (p : Pool) (h : getPool s a b = some p) : poolRes s a b = some (p.r0, p.r1) := by
  unfold poolRes; rw [h]

theorem poolRes_of_getPool_flip (s : State) (a b : Coin) (p : Pool) (h0 : (getPool s a b).isSome = false) (h : getPool s b a = some p) :
    poolRes s a b = some (p.r1, p.r0) := by
  unfold poolRes
  cases hg : getPool s a b with
  | some q => rw [hg] at h0; cases h0
  | none => simp only [h]

/-- A pool sale as `pairSellMove` builds it on the pools as they are stored (no earlier adjustment) is safe when the payer holds the amount sold. -/
theorem pairSell_planSafe (s : State) (hok : AmountsOk s) (payer : Addr) (a b : Coin) (amountIn minOut : Int) (toRewards : Bool) (dest : Addr)
    (mv : Move) (out : Int) (j : PoolAdj) (h : pairSellMove s none payer a b amountIn minOut toRewards dest = .ok (mv, out, j))
    (hbal : amountIn ≤ balanceOf s payer a) : PlanSafe s mv.prims := by
  obtain ⟨hin, hout, _, hnet, hmv, _, _, r0, r1, hres, hq⟩ := pairSellMove_shape2 s none payer a b amountIn minOut toRewards dest mv out j h
  have hres' : poolRes s a b = some (r0, r1) := by
    unfold poolResAdj at hres
    cases hp : poolRes s a b with
    | none => rw [hp] at hres; cases hres
    | some r => rw [hp] at hres; simpa using hres
  obtain ⟨_, hbs⟩ := bfs_val_pos _ _ _ _ hq hout
  have hburn := com1000_bounds amountIn (by omega)
  rcases hmv with ⟨hsome, rfl⟩ | ⟨hnone, rfl⟩
  · obtain ⟨p, hp⟩ := Option.isSome_iff_exists.mp hsome
    rw [poolRes_of_getPool s a b p hp] at hres'
    injection hres' with hres'; injection hres' with e0 e1
    have hpp := hok.pools p (findFirst_mem _ _ _ hp).1
    subst e0; subst e1
    obtain ⟨_, hlt, _, _⟩ := buyForSell_K _ _ _ _ hpp.1 hpp.2 hnet hbs
    exact poolSell_planSafe s hok payer a b true _ _ _ toRewards dest p hp hnet hout (by simpa using hlt) hburn.1 (by simp only [if_true]; omega)
  · cases hp : getPool s b a with
    | none =>
      unfold poolRes at hres'
      have hn : getPool s a b = none := by
        cases hg : getPool s a b with
        | none => rfl
        | some q => rw [hg] at hnone; cases hnone
      rw [hn, hp] at hres'; cases hres'
    | some p =>
      rw [poolRes_of_getPool_flip s a b p hnone hp] at hres'
      injection hres' with hres'; injection hres' with e0 e1
      have hpp := hok.pools p (findFirst_mem _ _ _ hp).1
      subst e0; subst e1
      obtain ⟨_, hlt, _, _⟩ := buyForSell_K _ _ _ _ hpp.2 hpp.1 hnet hbs
      exact poolSell_planSafe s hok payer b a false _ _ _ toRewards dest p hp hnet hout (by simpa using hlt) hburn.1
        (by simp only [Bool.false_eq_true, if_false]; omega)

/-- **Commission through the pool `{gas, base}`.** -/
theorem fee_pool (s s1 : State) (payer : Addr) (gas : Coin) (com : Com) (minOut : Int) (paid : Paid) (hok : AmountsOk s)
    (hfp : com.fromPool = true) (hf : com.commission ≤ balanceOf s payer gas)
    (hpay : payCommission s payer gas com minOut = .ok paid)
    (h : applyChecked s (planOf paid.moves) = some s1) :
    AmountsOk s1 ∧ FeeFrame s s1 payer gas com paid.adj := by
  rcases (payCommission_shape s payer gas com minOut paid hpay).2 with ⟨_, mv, out, adj, hm, hmoves, _, hadj⟩ | ⟨hf', _⟩ | ⟨hf', _⟩
  rotate_left
  · rw [hfp] at hf'; cases hf'
  · rw [hfp] at hf'; cases hf'
  have hplan : planOf paid.moves = mv.prims := by rw [hmoves]; simp [planOf]
  rw [hplan] at h
  refine ⟨planSafe_preserves s s1 _ (pairSell_planSafe s hok payer gas 0 _ minOut true 0 mv out adj hm hf) hok h, ?_⟩
  obtain ⟨hin, hout, _, hnet, hmv, hj, _, _⟩ := pairSellMove_shape2 s none payer gas 0 _ minOut true 0 mv out adj hm
  have hburn := com1000_bounds com.commission (by omega)
  have he := applyChecked_eq_applyAll s s1 _ h
  subst he
  rw [hadj]
  rcases hmv with ⟨hsome, rfl⟩ | ⟨hnone, rfl⟩
  · simp only [Move.prims, if_true]
    refine ⟨?_, rfl, rfl, rfl, rfl, fun _ _ => rfl, fun hx => (by rw [hfp] at hx; cases hx), fun hx => (by cases hx), ?_,
      fun hx => (by rw [hfp] at hx; cases hx), rfl⟩
    · intro a c
      simp only [applyAll, List.foldl, apply_balance', Prim.balDelta']
      bal_omega
    · intro j hjj
      injection hjj with hjj
      subst hjj; subst hj
      exact Or.inl ⟨hsome, rfl⟩
  · simp only [Move.prims, Bool.false_eq_true, if_false, if_true]
    refine ⟨?_, rfl, rfl, rfl, rfl, fun _ _ => rfl, fun hx => (by rw [hfp] at hx; cases hx), fun hx => (by cases hx), ?_,
      fun hx => (by rw [hfp] at hx; cases hx), rfl⟩
    · intro a c
      simp only [applyAll, List.foldl, apply_balance', Prim.balDelta']
      bal_omega
    · intro j hjj
      injection hjj with hjj
      subst hjj; subst hj
      exact Or.inr ⟨hnone, rfl⟩

/-- **All three routes of `payCommission`.**  Given the balance check the handler made and a sound commission, paying the commission
    preserves `AmountsOk` and leaves the state described by `FeeFrame`. -/
theorem fee_preserves (s s1 : State) (payer : Addr) (gas : Coin) (com : Com) (minOut : Int) (paid : Paid) (hok : AmountsOk s)
    (hsound : ComSound s gas com) (hf : com.commission ≤ balanceOf s payer gas)
    (hpay : payCommission s payer gas com minOut = .ok paid)
    (h : applyChecked s (planOf paid.moves) = some s1) :
    AmountsOk s1 ∧ FeeFrame s s1 payer gas com paid.adj := by
  rcases (payCommission_shape s payer gas com minOut paid hpay).2 with ⟨hfp, _⟩ | ⟨hfp, hg, hm, _, hadj⟩ | ⟨hfp, hg, hc, hm, _, hadj⟩
  · exact fee_pool s s1 payer gas com minOut paid hok hfp hf hpay h
  · rw [hm] at h; rw [hadj]
    exact fee_bancor s s1 payer gas com hok hfp hg hsound hf h
  · rw [hm] at h; rw [hadj]
    subst hg
    obtain ⟨c, ib, fp⟩ := com
    simp only at hfp hc hf h
    subst hfp; subst hc
    exact fee_base s s1 payer c hok hf h

end Minter
