import MinterModel.Orders
import Mathlib.Tactic.Linarith
import Mathlib.Tactic.Ring
/-
  The `big.Float` detour of a partial fill is exact:  `new(big.Float).SetRat(n/d).Int(nil) = ⌊n/d⌋`.

  The receiver has precision 0, so `SetRat` rounds the quotient (to nearest even) to max(64, bitLen n, bitLen d) bits.
  That is enough bits for the rounding never to reach the next integer: `ratInt_eq_ediv`.
-/
namespace Minter.Lob

theorem bitLen_lt (n : Nat) : n < 2 ^ bitLen n := by
  unfold bitLen
  split
  · next h => subst h; decide
  · exact Nat.lt_log2_self

theorem bitLen_le (n : Nat) (h : n ≠ 0) : 2 ^ (bitLen n - 1) ≤ n := by
  unfold bitLen
  rw [if_neg h]
  simpa using Nat.log2_self_le h

theorem bitLen_ge_two (d : Nat) (h : 2 ≤ d) : 2 ≤ bitLen d := by
  by_contra hc
  have h1 : bitLen d ≤ 1 := by omega
  have h2 := bitLen_lt d
  have h3 : 2 ^ bitLen d ≤ 2 ^ 1 := Nat.pow_le_pow_right (by decide) h1
  omega

/-- Rounding `n·2^k / d` to the nearest integer and dropping the `k` fraction bits again gives `⌊n/d⌋`, as long as
    `d` does not divide `n` and `2^(k+1) > d`. -/
theorem roundDiv_shift (n d k : Nat) (hd : 0 < d) (hnd : n % d ≠ 0) (hk : d < 2 ^ (k + 1)) :
    roundDiv (n * 2 ^ k) d / 2 ^ k = n / d := by
  have hT : 0 < 2 ^ k := Nat.pos_of_ne_zero (by simp)
  generalize hTe : 2 ^ k = T at *
  have hk' : d < 2 * T := by rw [Nat.pow_succ] at hk; omega
  set q := n / d with hq
  set r := n % d with hr
  have hn : n = d * q + r := (Nat.div_add_mod n d).symm
  have hrd : r < d := Nat.mod_lt _ hd
  have hr1 : 1 ≤ r := Nat.pos_of_ne_zero hnd
  set x := n * T with hx
  set y := x / d with hy
  set z := x % d with hz
  have hxy : x = d * y + z := (Nat.div_add_mod x d).symm
  have hzd : z < d := Nat.mod_lt _ hd
  -- q*T ≤ y
  have hlo : q * T ≤ y := by
    rw [hy, Nat.le_div_iff_mul_le hd]
    have : x = (d * q + r) * T := by rw [hx, hn]
    rw [this]
    nlinarith
  -- (n+1) ≤ (q+1) d, so x + T ≤ (q+1) T d
  have hA : x + T ≤ (q + 1) * T * d := by
    have h1 : n + 1 ≤ (q + 1) * d := by nlinarith
    have h2 : (n + 1) * T ≤ (q + 1) * d * T := Nat.mul_le_mul_right T h1
    have : x + T = (n + 1) * T := by rw [hx]; ring
    rw [this]
    nlinarith
  have hy_lt : y < (q + 1) * T := by
    by_contra hc
    have hc' : (q + 1) * T ≤ y := by omega
    have : (q + 1) * T * d ≤ y * d := Nat.mul_le_mul_right d hc'
    nlinarith
  unfold roundDiv
  simp only
  rw [← hy, ← hz]
  split
  · next hup =>
    -- rounding up: 2 z ≥ d
    have h2z : d ≤ 2 * z := by
      rcases hup with h | ⟨h, _⟩ <;> omega
    apply Nat.div_eq_of_lt_le
    · omega
    · by_contra hc
      have hc' : (q + 1) * T ≤ y + 1 := by omega
      have h3 : (q + 1) * T * d ≤ (y + 1) * d := Nat.mul_le_mul_right d hc'
      -- d*y + d ≥ A ≥ x + T = d*y + z + T
      have h4 : z + T ≤ d := by nlinarith
      omega
  · apply Nat.div_eq_of_lt_le hlo hy_lt

theorem scaleQuot_neg (n d k : Nat) : scaleQuot n d (-(k : Int)) = (n * 2 ^ k, d) := by
  unfold scaleQuot
  have h : (-(k : Int)) ≤ 0 := by omega
  rw [if_pos h]
  simp

/-- Truncation of the rounded quotient. -/
def truncF (f : BFloat) : Nat := if f.exp ≥ 0 then f.mant * 2 ^ f.exp.toNat else f.mant / 2 ^ f.exp.natAbs

theorem truncF_neg (m k : Nat) (hk : 1 ≤ k) : truncF ⟨m, -(k : Int)⟩ = m / 2 ^ k := by
  unfold truncF
  have h : ¬ (-(k : Int)) ≥ 0 := by omega
  simp only [h, if_false]
  simp

/-- The value of `⟨2^(p-1), -(k-1)⟩` truncated is `2^p / 2^k`. -/
theorem truncF_renorm (p k : Nat) (hp : 1 ≤ p) (hk : 1 ≤ k) :
    truncF ⟨2 ^ (p - 1), -(k : Int) + 1⟩ = 2 ^ p / 2 ^ k := by
  have e1 : 2 ^ p = 2 * 2 ^ (p - 1) := by
    have : p = (p - 1) + 1 := by omega
    conv_lhs => rw [this, Nat.pow_succ]
    ring
  have e2 : 2 ^ k = 2 * 2 ^ (k - 1) := by
    have : k = (k - 1) + 1 := by omega
    conv_lhs => rw [this, Nat.pow_succ]
    ring
  rw [e1, e2, Nat.mul_div_mul_left _ _ (by decide : 0 < 2)]
  by_cases h1 : k = 1
  · subst h1
    unfold truncF
    simp
  · have hk2 : 2 ≤ k := by omega
    have : (-(k : Int) + 1) = -((k - 1 : Nat) : Int) := by omega
    rw [this, truncF_neg _ _ (by omega)]

theorem rnQuot_trunc (p n d : Nat) (hn : 0 < n) (hd : 2 ≤ d) (hnd : n % d ≠ 0)
    (hpn : bitLen n ≤ p) : truncF (rnQuot p n d) = n / d := by
  have hbd := bitLen_ge_two d hd
  have hbn : 1 ≤ bitLen n := by
    unfold bitLen; rw [if_neg (by omega)]; omega
  unfold rnQuot
  have hne : ¬ (n = 0 ∨ d = 0) := by omega
  rw [if_neg hne]
  simp only
  -- e0 = -(k) with k = p + bd - bn ≥ bd
  obtain ⟨k, hk⟩ : ∃ k : Nat, k = p + bitLen d - bitLen n := ⟨_, rfl⟩
  have hkge : bitLen d ≤ k := by omega
  have he0 : ((bitLen n : Int) - (bitLen d : Int) - (p : Int)) = -(k : Int) := by omega
  rw [he0, scaleQuot_neg]
  simp only
  have hdlt := bitLen_lt d
  by_cases hbig : n * 2 ^ k / d ≥ 2 ^ p
  · -- one more bit: exponent -(k-1)
    rw [if_pos hbig]
    have hk1 : (-(k : Int) + 1) = -((k - 1 : Nat) : Int) := by omega
    rw [hk1, scaleQuot_neg]
    simp only
    have hpow : d < 2 ^ (k - 1 + 1) := by
      have : k - 1 + 1 = k := by omega
      rw [this]
      exact Nat.lt_of_lt_of_le hdlt (Nat.pow_le_pow_right (by decide) hkge)
    have hmain := roundDiv_shift n d (k - 1) (by omega) hnd hpow
    split
    · next hm =>
      have : (-((k - 1 : Nat) : Int) + 1) = -(((k - 1 : Nat)) : Int) + 1 := rfl
      rw [truncF_renorm p (k - 1) (by omega) (by omega)]
      rw [← hm]; exact hmain
    · rw [truncF_neg _ _ (by omega)]; exact hmain
  · rw [if_neg hbig, scaleQuot_neg]
    simp only
    have hpow : d < 2 ^ (k + 1) :=
      Nat.lt_of_lt_of_le hdlt (Nat.pow_le_pow_right (by decide) (by omega))
    have hmain := roundDiv_shift n d k (by omega) hnd hpow
    split
    · next hm =>
      rw [truncF_renorm p k (by omega) (by omega)]
      rw [← hm]; exact hmain
    · rw [truncF_neg _ _ (by omega)]; exact hmain

/-- **`new(big.Float).SetRat(num/den).Int(nil)` is the floor of the quotient.** -/
theorem ratIntNat_eq (num den : Nat) (hden : 0 < den) : ratIntNat num den = num / den := by
  unfold ratIntNat
  rw [if_neg (by omega)]
  simp only
  have hg : 0 < Nat.gcd num den := Nat.gcd_pos_of_pos_right _ hden
  have hn : num / Nat.gcd num den * Nat.gcd num den = num := Nat.div_mul_cancel (Nat.gcd_dvd_left _ _)
  have hd : den / Nat.gcd num den * Nat.gcd num den = den := Nat.div_mul_cancel (Nat.gcd_dvd_right _ _)
  have hco : Nat.Coprime (num / Nat.gcd num den) (den / Nat.gcd num den) := Nat.coprime_div_gcd_div_gcd hg
  generalize hN : num / Nat.gcd num den = n at *
  generalize hD : den / Nat.gcd num den = d at *
  generalize Nat.gcd num den = g at *
  have hquot : num / den = n / d := by
    rw [← hn, ← hd, Nat.mul_div_mul_right _ _ hg]
  rw [hquot]
  have hdpos : 0 < d := by
    rcases Nat.eq_zero_or_pos d with h | h
    · subst h; simp at hd; omega
    · exact h
  split
  · next h1 => subst h1; simp
  · next h1 =>
    have hd2 : 2 ≤ d := by omega
    have hnd : n % d ≠ 0 := by
      intro h
      have hdvd : d ∣ n := Nat.dvd_of_mod_eq_zero h
      have := Nat.Coprime.eq_one_of_dvd hco.symm hdvd
      exact h1 this
    have hnpos : 0 < n := by
      rcases Nat.eq_zero_or_pos n with h | h
      · subst h; simp at hnd
      · exact h
    have := rnQuot_trunc (max 64 (max (bitLen n) (bitLen d))) n d hnpos hd2 hnd (by omega)
    unfold truncF at this
    exact this

theorem ratInt_eq_ediv (n d : Int) (hn : 0 ≤ n) (hd : 0 < d) : ratInt n d = n / d := by
  unfold ratInt
  have h2 : d.sign = 1 := Int.sign_eq_one_of_pos hd
  rw [h2, ratIntNat_eq _ _ (by omega)]
  rcases Int.eq_ofNat_of_zero_le hn with ⟨a, rfl⟩
  rcases Int.eq_ofNat_of_zero_le (le_of_lt hd) with ⟨b, rfl⟩
  simp only [Int.natAbs_natCast, mul_one]
  rcases Nat.eq_zero_or_pos a with h | h
  · subst h; simp
  · have : (a : Int).sign = 1 := Int.sign_eq_one_of_pos (by exact_mod_cast h)
    rw [this, one_mul]
    exact_mod_cast rfl

end Minter.Lob
