import MinterProofs.AmountsCore
import MinterProofs.Begin
/-
  C02 for BeginBlock (`beginBlock`, MinterModel/BeginBlock.lean): absence accounting moves nothing, a byzantine slash keeps 95 % (≥ 0) of
  every frozen fund and stake and takes the cut out of the coin's volume and — under `OracleSound` — its sale return out of the reserve,
  matured funds are credited / delegated / re-frozen with their (non-negative) value.
-/
namespace Minter

/-! ### Absence accounting -/

theorem setPresent_ok (h a : Nat) (s : State) (hok : AmountsOk s) : AmountsOk (setPresent h a s) := by
  refine { hok with balances := hok.balances, validators := ?_ }
  apply all_updFirst (fun x : Validator => 0 ≤ x.accum) _ _ s.validators hok.validators
  intro y hy
  exact hok.validators y (findFirst_mem _ _ _ hy).1

theorem setAbsent_ok (P : Params) (h : Nat) (g : Bool) (a : Nat) (s s' : State) (ev : List BEvent)
    (hr : setAbsent P h g a s = .ok (s', ev)) (hok : AmountsOk s) : AmountsOk s' := by
  unfold setAbsent at hr
  split at hr
  · cases hr; exact hok
  · split at hr
    · split at hr
      · cases hr
      · cases hr
        refine { hok with balances := hok.balances, stakes := cands_setting s hok _ _ (fun _ => ⟨rfl, rfl⟩), validators := ?_ }
        apply all_updFirst (fun x : Validator => 0 ≤ x.accum) _ _ s.validators hok.validators
        intro y hy
        exact hok.validators y (findFirst_mem _ _ _ hy).1
    · cases hr
      refine { hok with balances := hok.balances, validators := ?_ }
      apply all_updFirst (fun x : Validator => 0 ≤ x.accum) _ _ s.validators hok.validators
      intro y hy
      exact hok.validators y (findFirst_mem _ _ _ hy).1

theorem absencePhase_ok (P : Params) (h : Nat) (g : Bool) (vs : List (Nat × Bool)) :
    ∀ (s s' : State) (ev : List BEvent), absencePhase P h g vs s = .ok (s', ev) → AmountsOk s → AmountsOk s' := by
  induction vs with
  | nil => intro s s' ev hr hok; simp only [absencePhase] at hr; cases hr; exact hok
  | cons v t ih =>
    intro s s' ev hr hok
    obtain ⟨a, b⟩ := v
    cases b with
    | true =>
      simp only [absencePhase] at hr
      exact ih _ _ _ hr (setPresent_ok h a s hok)
    | false =>
      simp only [absencePhase] at hr
      split at hr
      · cases hr
      · next s1 e1 h1 =>
        split at hr
        · cases hr
        · next s2 e2 h2 =>
          cases hr
          exact ih _ _ _ h2 (setAbsent_ok P h g a s s1 e1 h1 hok)

/-! ### Byzantine punishment -/

/-- The pots a slash touches are in range. -/
def PotsOk (p : ByzPots) : Prop := (∀ ci ∈ p.coins, CoinOk ci) ∧ 0 ≤ p.slashed

/-- The cut of a slash is covered by the volume of the coin (base coin: nothing to cover). -/
def slashFits (coin : Coin) (v : Int) (p : ByzPots) : Prop :=
  coin = 0 ∨ optProp (findFirst (coinById coin) p.coins) fun ci => byzCut v ≤ ci.volume

theorem slashPots_ok (o : Oracle) (coin : Coin) (v : Int) (p p' : ByzPots) (ho : OracleSound o) (hv : 0 ≤ v)
    (hfit : slashFits coin v p) (hp : PotsOk p) (h : slashPots o coin v p = .ok p') : PotsOk p' := by
  have hcut := byzCut_nonneg v hv
  have hs0 := hp.2
  unfold slashPots at h
  split at h
  · cases h; exact ⟨hp.1, by simp only; omega⟩
  · next hc =>
    split at h
    · cases h
    · next ci hci =>
      split at h
      · cases h
      · next ret hret =>
        cases h
        have hciok := hp.1 ci (findFirst_mem _ _ _ hci).1
        have hfit' : byzCut v ≤ ci.volume := by
          rcases hfit with h0 | h0
          · exact absurd h0 hc
          · rw [hci] at h0; exact h0
        have hr0 := ho.nonneg _ _ hret
        have hr1 := ho.saleReturnLeReserve _ _ _ _ _ hret hcut hfit'
        refine ⟨?_, by simp only; omega⟩
        apply all_updFirst CoinOk _ _ p.coins hp.1
        intro y hy
        rw [hci] at hy
        injection hy with hy
        subst hy
        exact ⟨by simp only; omega, by simp only; omega, by simp only; omega⟩

/-- Every slash of `PunishFrozenFundsWithID` is covered, in the order the loop takes them. -/
def punishFrozenFits (o : Oracle) (lo hi cid : Nat) : List Frozen → ByzPots → Prop
  | [], _ => True
  | f :: t, p =>
    if inWindow lo hi cid f then
      slashFits f.coin f.value p ∧
        (match slashPots o f.coin f.value p with
         | .ok p1 => punishFrozenFits o lo hi cid t p1
         | .error _ => True)
    else punishFrozenFits o lo hi cid t p

def punishStakesFits (o : Oracle) : List Stake → ByzPots → Prop
  | [], _ => True
  | st :: t, p =>
    slashFits st.coin st.value p ∧
      (match slashPots o st.coin st.value p with
       | .ok p1 => punishStakesFits o t p1
       | .error _ => True)

theorem punishFrozen_ok (o : Oracle) (lo hi cid : Nat) (ho : OracleSound o) (l : List Frozen) :
    ∀ (p : ByzPots) (l' : List Frozen) (p' : ByzPots) (ev : List BEvent), (∀ f ∈ l, 0 ≤ f.value) → PotsOk p →
      punishFrozenFits o lo hi cid l p → punishFrozen o lo hi cid l p = .ok (l', p', ev) → (∀ f ∈ l', 0 ≤ f.value) ∧ PotsOk p' := by
  induction l with
  | nil => intro p l' p' ev _ hp _ h; simp only [punishFrozen] at h; cases h; exact ⟨(by intro f hf; cases hf), hp⟩
  | cons f t ih =>
    intro p l' p' ev hl hp hfit h
    have hf0 := hl f (List.mem_cons_self ..)
    have hlt := fun x hx => hl x (List.mem_cons_of_mem _ hx)
    simp only [punishFrozen] at h
    simp only [punishFrozenFits] at hfit
    split at h
    · next hw =>
      rw [if_pos hw] at hfit
      split at h
      · cases h
      · split at h
        · cases h
        · next p1 hp1 =>
          rw [hp1] at hfit
          cases hrec : punishFrozen o lo hi cid t p1 with
          | error e => rw [hrec] at h; cases h
          | ok res =>
            obtain ⟨t', p2, ev2⟩ := res
            rw [hrec] at h
            simp only at h
            cases h
            have hp1ok := slashPots_ok o f.coin f.value p p1 ho hf0 hfit.1 hp hp1
            obtain ⟨h1, h2⟩ := ih p1 t' p' _ hlt hp1ok hfit.2 hrec
            refine ⟨?_, h2⟩
            intro x hx
            rw [List.mem_cons] at hx
            rcases hx with rfl | hx
            · exact byzKeep_nonneg _ hf0
            · exact h1 x hx
    · next hw =>
      rw [if_neg hw] at hfit
      cases hrec : punishFrozen o lo hi cid t p with
      | error e => rw [hrec] at h; cases h
      | ok res =>
        obtain ⟨t', p2, ev2⟩ := res
        rw [hrec] at h
        simp only at h
        cases h
        obtain ⟨h1, h2⟩ := ih p t' p' _ hlt hp hfit hrec
        refine ⟨?_, h2⟩
        intro x hx
        rw [List.mem_cons] at hx
        rcases hx with rfl | hx
        · exact hf0
        · exact h1 x hx

theorem punishStakes_ok (o : Oracle) (ho : OracleSound o) (l : List Stake) :
    ∀ (p p' : ByzPots), (∀ st ∈ l, 0 ≤ st.value) → PotsOk p → punishStakesFits o l p → punishStakes o l p = .ok p' → PotsOk p' := by
  induction l with
  | nil => intro p p' _ hp _ h; simp only [punishStakes] at h; cases h; exact hp
  | cons st t ih =>
    intro p p' hl hp hfit h
    simp only [punishStakes] at h
    simp only [punishStakesFits] at hfit
    split at h
    · cases h
    · next p1 hp1 =>
      rw [hp1] at hfit
      exact ih p1 p' (fun x hx => hl x (List.mem_cons_of_mem _ hx))
        (slashPots_ok o st.coin st.value p p1 ho (hl st (List.mem_cons_self ..)) hfit.1 hp hp1) hfit.2 h

/-- Every slash one evidence entry causes is covered. -/
def byzStepFits (P : Params) (o : Oracle) (h a : Nat) (s : State) : Prop :=
  match byzTarget a s with
  | none => True
  | some (_, c) =>
    punishFrozenFits o h (h + P.unbond) c.id s.frozen ⟨s.coins, s.slashed⟩ ∧
      (match punishFrozen o h (h + P.unbond) c.id s.frozen ⟨s.coins, s.slashed⟩ with
       | .ok (_, p1, _) => punishStakesFits o c.stakes p1
       | .error _ => True)

def byzPhaseFits (P : Params) (o : Oracle) (h : Nat) : List Nat → State → Prop
  | [], _ => True
  | a :: t, s =>
    byzStepFits P o h a s ∧
      (match byzStep P o h a s with
       | .ok (s1, _) => byzPhaseFits P o h t s1
       | .error _ => True)

theorem byzStep_ok (P : Params) (o : Oracle) (h a : Nat) (s s' : State) (ev : List BEvent) (ho : OracleSound o)
    (hfit : byzStepFits P o h a s) (hr : byzStep P o h a s = .ok (s', ev)) (hok : AmountsOk s) : AmountsOk s' := by
  unfold byzStep at hr
  unfold byzStepFits at hfit
  split at hr
  · cases hr; exact hok
  · next v c ht =>
    rw [ht] at hfit
    simp only at hfit
    obtain ⟨_, _, hcand, _⟩ := byzTarget_some a s v c ht
    have hcmem := (findFirst_mem _ _ _ hcand).1
    have hstk := (hok.stakes c hcmem).1
    cases hpf : punishFrozen o h (h + P.unbond) c.id s.frozen ⟨s.coins, s.slashed⟩ with
    | error e => rw [hpf] at hr; cases hr
    | ok res =>
      obtain ⟨fr, p1, ev1⟩ := res
      rw [hpf] at hr hfit
      simp only at hr hfit
      cases hps : punishStakes o c.stakes p1 with
      | error e => rw [hps] at hr; cases hr
      | ok p2 =>
        rw [hps] at hr
        simp only at hr
        cases hr
        obtain ⟨hfr, hp1⟩ := punishFrozen_ok o h (h + P.unbond) c.id ho s.frozen ⟨s.coins, s.slashed⟩ fr p1 ev1 hok.frozen
          ⟨hok.coins, hok.slashed⟩ hfit.1 hpf
        have hp2 := punishStakes_ok o ho c.stakes p1 p2 hstk hp1 hfit.2 hps
        refine { hok with balances := hok.balances, coins := hp2.1, slashed := hp2.2, frozen := ?_, validators := ?_, stakes := ?_ }
        · apply all_updFirst StakesOk _ _ s.candidates hok.stakes
          intro y hy
          have hyok := hok.stakes y (findFirst_mem _ _ _ hy).1
          refine ⟨?_, hyok.2⟩
          intro st hst
          simp only [List.mem_map] at hst
          obtain ⟨st0, _, rfl⟩ := hst
          simp [zeroStake]
        · intro f hf
          rw [List.mem_append] at hf
          rcases hf with hf | hf
          · exact hfr f hf
          · simp only [List.mem_map] at hf
            obtain ⟨st, hst, rfl⟩ := hf
            exact byzKeep_nonneg _ (hstk st hst)
        · apply all_updFirst (fun x : Validator => 0 ≤ x.accum) _ _ s.validators hok.validators
          intro y hy
          exact hok.validators y (findFirst_mem _ _ _ hy).1

theorem byzPhase_ok (P : Params) (o : Oracle) (h : Nat) (ho : OracleSound o) (l : List Nat) :
    ∀ (s s' : State) (ev : List BEvent), byzPhaseFits P o h l s → byzPhase P o h l s = .ok (s', ev) → AmountsOk s → AmountsOk s' := by
  induction l with
  | nil => intro s s' ev _ hr hok; simp only [byzPhase] at hr; cases hr; exact hok
  | cons a t ih =>
    intro s s' ev hfit hr hok
    simp only [byzPhase] at hr
    simp only [byzPhaseFits] at hfit
    split at hr
    · cases hr
    · next s1 e1 h1 =>
      rw [h1] at hfit
      split at hr
      · cases hr
      · next s2 e2 h2 =>
        cases hr
        exact ih s1 _ _ hfit.2 h2 (byzStep_ok P o h a s s1 e1 ho hfit.1 h1 hok)

/-! ### Matured funds -/

theorem matureOne_ok (u h : Nat) (f : Frozen) (s s' : State) (e : List BEvent) (hf : 0 ≤ f.value)
    (hr : matureOne u h f s = .ok (s', e)) (hok : AmountsOk s) : AmountsOk s' := by
  unfold matureOne at hr
  split at hr
  · cases hr
    refine { hok with balances := ?_ }
    intro a c
    have := hok.balances a c
    simp only [balanceOf, Bag.get_add] at this ⊢
    split <;> omega
  · split at hr
    · cases hr
      refine { hok with balances := hok.balances, frozen := ?_ }
      exact all_append_single (fun f : Frozen => 0 ≤ f.value) s.frozen _ hok.frozen hf
    · split at hr
      · cases hr
      · cases hr
        refine { hok with balances := hok.balances, stakes := ?_ }
        apply all_updFirst StakesOk _ _ s.candidates hok.stakes
        intro y hy
        have hyok := hok.stakes y (findFirst_mem _ _ _ hy).1
        exact ⟨hyok.1, all_append_single (fun st : Stake => 0 ≤ st.value) y.updates _ hyok.2 hf⟩

theorem matureAll_ok (u h : Nat) (l : List Frozen) :
    ∀ (s s' : State) (ev : List BEvent), (∀ f ∈ l, 0 ≤ f.value) → matureAll u h l s = .ok (s', ev) → AmountsOk s → AmountsOk s' := by
  induction l with
  | nil => intro s s' ev _ hr hok; simp only [matureAll] at hr; cases hr; exact hok
  | cons f t ih =>
    intro s s' ev hl hr hok
    simp only [matureAll] at hr
    split at hr
    · cases hr
    · next s1 e1 h1 =>
      split at hr
      · cases hr
      · next s2 e2 h2 =>
        cases hr
        exact ih s1 _ _ (fun x hx => hl x (List.mem_cons_of_mem _ hx)) h2
          (matureOne_ok u h f s s1 e1 (hl f (List.mem_cons_self ..)) h1 hok)

theorem maturityPhase_ok (u h : Nat) (s s' : State) (ev : List BEvent) (hr : maturityPhase u h s = .ok (s', ev)) (hok : AmountsOk s) :
    AmountsOk s' := by
  unfold maturityPhase at hr
  cases h1 : matureAll u h (s.frozen.filter (dueAt h)) s with
  | error e => rw [h1] at hr; cases hr
  | ok res =>
    obtain ⟨s1, ev1⟩ := res
    rw [h1] at hr
    simp only at hr
    cases hr
    have hok1 := matureAll_ok u h _ s s1 _ (fun f hf => hok.frozen f (List.mem_filter.mp hf).1) h1 hok
    refine { hok1 with balances := hok1.balances, frozen := ?_ }
    intro f hf
    exact hok1.frozen f (List.mem_filter.mp hf).1

end Minter
