import MinterModel.Validators
import Mathlib.Tactic.Linarith
/-
  Helper lemmas for C17 / C19: the stable insertion sort, sums over lists, floors.
-/
namespace Minter

/-! ### sums -/

theorem sumBy_append_v {α : Type} (f : α → Int) (l₁ l₂ : List α) : sumBy f (l₁ ++ l₂) = sumBy f l₁ + sumBy f l₂ := by
  induction l₁ with
  | nil => simp [sumBy]
  | cons x t ih => simp [sumBy, ih]; omega

theorem sumBy_map_v {α β : Type} (g : α → β) (f : β → Int) (l : List α) : sumBy f (l.map g) = sumBy (fun x => f (g x)) l := by
  induction l with
  | nil => rfl
  | cons x t ih => simp [sumBy, ih]

-- (integration: the four sumBy helper lemmas of this file carry a suffix (_mem, _v): MinterProofs.Begin / MinterProofs.Ledger define lemmas of the same names)
theorem sumBy_congr_mem {α : Type} (f g : α → Int) (l : List α) (h : ∀ x ∈ l, f x = g x) : sumBy f l = sumBy g l := by
  induction l with
  | nil => rfl
  | cons x t ih =>
    simp only [sumBy]
    rw [h x (by simp), ih (fun y hy => h y (by simp [hy]))]

theorem sumBy_add_v {α : Type} (f g : α → Int) (l : List α) : sumBy (fun x => f x + g x) l = sumBy f l + sumBy g l := by
  induction l with
  | nil => rfl
  | cons x t ih => simp only [sumBy, ih]; omega

theorem sumBy_nonneg {α : Type} (f : α → Int) (l : List α) (h : ∀ x ∈ l, 0 ≤ f x) : 0 ≤ sumBy f l := by
  induction l with
  | nil => simp [sumBy]
  | cons x t ih =>
    have := h x (by simp)
    have := ih (fun y hy => h y (by simp [hy]))
    simp only [sumBy]; omega

theorem sumBy_le {α : Type} (f g : α → Int) (l : List α) (h : ∀ x ∈ l, f x ≤ g x) : sumBy f l ≤ sumBy g l := by
  induction l with
  | nil => simp [sumBy]
  | cons x t ih =>
    have := h x (by simp)
    have := ih (fun y hy => h y (by simp [hy]))
    simp only [sumBy]; omega

theorem sumBy_mul_const {α : Type} (f : α → Int) (k : Int) (l : List α) : sumBy (fun x => f x * k) l = sumBy f l * k := by
  induction l with
  | nil => simp [sumBy]
  | cons x t ih => simp only [sumBy, ih]; rw [Int.add_mul]

theorem sumBy_const_mul {α : Type} (f : α → Int) (k : Int) (l : List α) : sumBy (fun x => k * f x) l = k * sumBy f l := by
  induction l with
  | nil => simp [sumBy]
  | cons x t ih => simp only [sumBy, ih]; rw [Int.mul_add]

theorem sumBy_perm {α : Type} (f : α → Int) {l₁ l₂ : List α} (h : l₁.Perm l₂) : sumBy f l₁ = sumBy f l₂ := by
  induction h with
  | nil => rfl
  | cons x _ ih => simp only [sumBy, ih]
  | swap x y l => simp only [sumBy]; omega
  | trans _ _ ih₁ ih₂ => rw [ih₁, ih₂]

theorem sumBy_const_one {α : Type} (l : List α) : sumBy (fun _ => (1 : Int)) l = l.length := by
  induction l with
  | nil => rfl
  | cons x t ih => simp only [sumBy, ih, List.length_cons]; omega

/-- Sum of floors times the divisor is below the sum. -/
theorem sumBy_ediv_mul_le {α : Type} (g : α → Int) (T : Int) (hT : 0 < T) (l : List α) :
    sumBy (fun x => g x / T) l * T ≤ sumBy g l := by
  induction l with
  | nil => simp [sumBy]
  | cons x t ih =>
    simp only [sumBy]
    have h1 : g x / T * T ≤ g x := Int.ediv_mul_le _ (by omega)
    rw [Int.add_mul]; omega

/-- Floors of shares of `K` over weights summing to at most `T` add up to at most `K`. -/
theorem sum_shares_le {α : Type} (f : α → Int) (K T : Int) (hK : 0 ≤ K) (hT : 0 < T) (l : List α)
    (hsum : sumBy f l ≤ T) : sumBy (fun x => K * f x / T) l ≤ K := by
  have h1 := sumBy_ediv_mul_le (fun x => K * f x) T hT l
  rw [sumBy_const_mul] at h1
  have h2 : K * sumBy f l ≤ K * T := Int.mul_le_mul_of_nonneg_left hsum hK
  have h3 : sumBy (fun x => K * f x / T) l * T ≤ K * T := le_trans h1 h2
  exact le_of_mul_le_mul_right h3 hT

/-! ### stable insertion sort -/

variable {α : Type}

theorem insertStable_perm (less : α → α → Bool) (x : α) (l : List α) : (insertStable less x l).Perm (x :: l) := by
  induction l with
  | nil => simp [insertStable]
  | cons y t ih =>
    simp only [insertStable]
    split
    · exact ((List.Perm.cons y ih).trans (List.Perm.swap x y t))
    · exact List.Perm.refl _

theorem sortStable_perm (less : α → α → Bool) (l : List α) : (sortStable less l).Perm l := by
  induction l with
  | nil => simp [sortStable]
  | cons x t ih =>
    simp only [sortStable]
    exact (insertStable_perm less x _).trans (List.Perm.cons x ih)

theorem sortStable_length (less : α → α → Bool) (l : List α) : (sortStable less l).length = l.length :=
  (sortStable_perm less l).length_eq

theorem mem_sortStable (less : α → α → Bool) (l : List α) (a : α) : a ∈ sortStable less l ↔ a ∈ l :=
  (sortStable_perm less l).mem_iff

/-- A strict weak order given as a Boolean `less`. -/
structure StrictWeak (less : α → α → Bool) : Prop where
  asymm : ∀ a b, less a b = true → less b a = false
  /-- transitivity of `¬ less b a` ("a is not after b") -/
  trans : ∀ a b c, less b a = false → less c b = false → less c a = false

theorem insertStable_sorted (less : α → α → Bool) (hw : StrictWeak less) (x : α) (l : List α)
    (hl : l.Pairwise (fun a b => less b a = false)) :
    (insertStable less x l).Pairwise (fun a b => less b a = false) := by
  induction l with
  | nil => simp [insertStable]
  | cons y t ih =>
    simp only [insertStable]
    rw [List.pairwise_cons] at hl
    split
    · next hyx =>
      rw [List.pairwise_cons]
      refine ⟨?_, ih hl.2⟩
      intro z hz
      rw [(insertStable_perm less x t).mem_iff, List.mem_cons] at hz
      cases hz with
      | inl h => subst h; exact hw.asymm _ _ hyx
      | inr h => exact hl.1 z h
    · next hyx =>
      have hyx' : less y x = false := by simpa using hyx
      rw [List.pairwise_cons]
      refine ⟨?_, List.pairwise_cons.mpr hl⟩
      intro z hz
      rw [List.mem_cons] at hz
      cases hz with
      | inl h => subst h; exact hyx'
      | inr h => exact hw.trans x y z hyx' (hl.1 z h)

theorem sortStable_sorted (less : α → α → Bool) (hw : StrictWeak less) (l : List α) :
    (sortStable less l).Pairwise (fun a b => less b a = false) := by
  induction l with
  | nil => simp [sortStable]
  | cons x t ih => exact insertStable_sorted less hw x _ ih

/-! ### the two candidate orders -/

theorem candLess_iff (a b : Candidate) :
    candLess a b = true ↔ (a.totalBip > b.totalBip ∨ (a.totalBip = b.totalBip ∧ a.id > b.id)) := by
  simp [candLess]

theorem candLess_false_iff (a b : Candidate) :
    candLess a b = false ↔ (a.totalBip < b.totalBip ∨ (a.totalBip = b.totalBip ∧ a.id ≤ b.id)) := by
  rw [← Bool.not_eq_true, candLess_iff]; omega

theorem candLessID_iff (a b : Candidate) :
    candLessID a b = true ↔ (a.totalBip > b.totalBip ∨ (a.totalBip = b.totalBip ∧ a.id < b.id)) := by
  simp [candLessID]

theorem candLessID_false_iff (a b : Candidate) :
    candLessID a b = false ↔ (a.totalBip < b.totalBip ∨ (a.totalBip = b.totalBip ∧ b.id ≤ a.id)) := by
  rw [← Bool.not_eq_true, candLessID_iff]; omega

theorem candLess_strictWeak : StrictWeak candLess where
  asymm a b h := by rw [candLess_iff] at h; rw [candLess_false_iff]; omega
  trans a b c h1 h2 := by rw [candLess_false_iff] at *; omega

theorem candLessID_strictWeak : StrictWeak candLessID where
  asymm a b h := by rw [candLessID_iff] at h; rw [candLessID_false_iff]; omega
  trans a b c h1 h2 := by rw [candLessID_false_iff] at *; omega

end Minter
