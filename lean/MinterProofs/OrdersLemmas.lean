import MinterModel.Orders
import MinterProofs.Props.C13
import Mathlib.Tactic.Linarith
import Mathlib.Tactic.Ring
/-
  Helper lemmas for the limit-order theorems (C13Orders, C14): commissions, sums over fills, the sorted book.
-/
namespace Minter.Lob
open Minter

/-! ### commissions on non-negative amounts are ceilings -/

theorem com1000_eq (a : Int) (h : 0 ≤ a) : com1000 a = a / 1000 + (if a % 1000 > 0 then 1 else 0) := by
  unfold com1000
  rw [Int.tdiv_eq_ediv_of_nonneg h, Int.tmod_eq_emod_of_nonneg h]

theorem com1001_eq (a : Int) (h : 0 ≤ a) : com1001 a = a / 1001 + (if a % 1001 > 0 then 1 else 0) := by
  unfold com1001
  rw [Int.tdiv_eq_ediv_of_nonneg h, Int.tmod_eq_emod_of_nonneg h]

theorem com0999_eq (a : Int) (h : 0 ≤ a) : com0999 a = a / 999 + (if a % 999 > 0 then 1 else 0) := by
  unfold com0999
  rw [Int.tdiv_eq_ediv_of_nonneg h, Int.tmod_eq_emod_of_nonneg h]

theorem com1000_nonneg (a : Int) (h : 0 ≤ a) : 0 ≤ com1000 a := by
  rw [com1000_eq a h]; split <;> omega

theorem com1000_le (a : Int) (h : 0 ≤ a) : com1000 a ≤ a := by
  rw [com1000_eq a h]; split <;> omega

theorem com1001_nonneg (a : Int) (h : 0 ≤ a) : 0 ≤ com1001 a := by
  rw [com1001_eq a h]; split <;> omega

theorem com1001_le (a : Int) (h : 0 ≤ a) : com1001 a ≤ a := by
  rw [com1001_eq a h]; split <;> omega

theorem com0999_nonneg (a : Int) (h : 0 ≤ a) : 0 ≤ com0999 a := by
  rw [com0999_eq a h]; split <;> omega

/-- Sell side, order fully consumed: what is left of the input after paying the order and its commission is ≥ 0. -/
theorem full_rest_nonneg (rest w : Int) (hr : 0 ≤ rest) (hw : 0 ≤ w) (h : ¬ rest - com1001 rest ≤ w) :
    0 ≤ rest - (w + com1000 w) := by
  rw [com1001_eq rest hr] at h
  rw [com1000_eq w hw]
  split at h <;> split <;> omega

/-- Sell side, partial fill: the commission charged on the filled amount never exceeds what was set aside for it. -/
theorem partial_commission_le (rest : Int) (hr : 0 ≤ rest) :
    com1000 (rest - com1001 rest) ≤ com1001 rest := by
  have h1 := com1001_le rest hr
  have h2 : 0 ≤ rest - com1001 rest := by omega
  rw [com1000_eq _ h2]
  rw [com1001_eq rest hr] at h2 ⊢
  split <;> split <;> omega

/-- Buy side: grossing the wanted amount up by 1/999 and taking 1/1000 off returns exactly the wanted amount. -/
theorem gross_net (x : Int) (hx : 0 ≤ x) : (x + com0999 x) - com1000 (x + com0999 x) = x := by
  have h0 := com0999_nonneg x hx
  have h1 : 0 ≤ x + com0999 x := by omega
  rw [com1000_eq _ h1]
  rw [com0999_eq x hx] at h1 ⊢
  split <;> split <;> omega

/-- Buy side, order fully consumed: what is still wanted after taking the order's net amount is ≥ 0. -/
theorem full_rest_nonneg_buy (rest s : Int) (hr : 0 ≤ rest) (hs : 0 ≤ s) (h : ¬ rest + com0999 rest ≤ s) :
    0 ≤ rest - (s - com1000 s) := by
  rw [com0999_eq rest hr] at h
  rw [com1000_eq s hs]
  split at h <;> split <;> omega

/-! ### sums over fills -/

@[simp] theorem sumBuy_nil : sumBuy [] = 0 := rfl
@[simp] theorem sumSell_nil : sumSell [] = 0 := rfl
@[simp] theorem sumBuy_cons (f : Fill) (fs : List Fill) : sumBuy (f :: fs) = f.buy + sumBuy fs := by
  simp [sumBuy]
@[simp] theorem sumSell_cons (f : Fill) (fs : List Fill) : sumSell (f :: fs) = f.sell + sumSell fs := by
  simp [sumSell]

/-! ### the sorted book is a permutation of the book -/

theorem mem_sortBook (sorted : Bool) (book : List Order) (o : Order) : o ∈ sortBook sorted book ↔ o ∈ book := by
  unfold sortBook
  simp only [List.mem_map, List.mem_mergeSort]
  constructor
  · rintro ⟨⟨k, o'⟩, ⟨o'', ho'', heq⟩, rfl⟩
    cases heq
    exact ho''
  · intro h
    exact ⟨(sortKey sorted o, o), ⟨o, h, rfl⟩, rfl⟩

theorem sortBook_perm (sorted : Bool) (book : List Order) : (sortBook sorted book).Perm book := by
  unfold sortBook
  have h := (List.mergeSort_perm (book.map fun o => (sortKey sorted o, o)) (better sorted)).map (·.2)
  refine h.trans ?_
  rw [List.map_map]
  have : ((fun x : BFloat × Order => x.2) ∘ fun o => (sortKey sorted o, o)) = id := by
    funext o; rfl
  rw [this, List.map_id]

end Minter.Lob
