import MinterModel.Bancor
import Mathlib.Tactic.Linarith
import Mathlib.Tactic.Ring
/-
  Helper lemmas for C12: monotonicity of `x ↦ x^n` on non-negative integers, cancellation, Bernoulli's inequality in
  integer form, and the Bool certificates of `MinterModel/Bancor.lean` unfolded into propositions.
-/
namespace Minter

theorem ipow_nonneg {a : Int} (ha : 0 ≤ a) (n : Nat) : 0 ≤ a ^ n := pow_nonneg ha n

theorem ipow_pos {a : Int} (ha : 0 < a) (n : Nat) : 0 < a ^ n := pow_pos ha n

/-- `x ↦ x^n` is monotone on non-negative integers. -/
theorem ipow_le {a b : Int} (ha : 0 ≤ a) (hab : a ≤ b) (n : Nat) : a ^ n ≤ b ^ n := by
  induction n with
  | zero => simp
  | succ k ih =>
    rw [pow_succ, pow_succ]
    exact Int.mul_le_mul ih hab ha (le_trans (ipow_nonneg ha k) ih)

/-- … strictly for a positive exponent. -/
theorem ipow_lt {a b : Int} (ha : 0 ≤ a) (hab : a < b) {n : Nat} (hn : 0 < n) : a ^ n < b ^ n := by
  obtain ⟨k, rfl⟩ : ∃ k, n = k + 1 := ⟨n - 1, by omega⟩
  rw [pow_succ, pow_succ]
  have hb : 0 < b := lt_of_le_of_lt ha hab
  have h1 : a ^ k ≤ b ^ k := ipow_le ha (le_of_lt hab) k
  have h2 : 0 < b ^ k := ipow_pos hb k
  calc a ^ k * a ≤ b ^ k * a := Int.mul_le_mul_of_nonneg_right h1 ha
    _ < b ^ k * b := Int.mul_lt_mul_of_pos_left hab h2

/-- Comparing powers compares the bases (the larger side non-negative). -/
theorem lt_of_ipow_lt {a b : Int} {n : Nat} (hb : 0 ≤ b) (h : a ^ n < b ^ n) : a < b := by
  by_contra hc
  have hba : b ≤ a := not_lt.mp hc
  have := ipow_le hb hba n
  omega

theorem le_of_ipow_le {a b : Int} {n : Nat} (hn : 0 < n) (hb : 0 ≤ b) (h : a ^ n ≤ b ^ n) : a ≤ b := by
  by_contra hc
  have hba : b < a := not_le.mp hc
  have := ipow_lt hb hba hn
  omega

/-- `A·V < B·V`, `0 < V` ⇒ `A < B` (and the `≤` form). -/
theorem lt_of_mul_lt_right {A B V : Int} (hV : 0 < V) (h : A * V < B * V) : A < B :=
  Int.lt_of_mul_lt_mul_right h (le_of_lt hV)

theorem le_of_mul_le_right {A B V : Int} (hV : 0 < V) (h : A * V ≤ B * V) : A ≤ B :=
  Int.le_of_mul_le_mul_right h hV

/-- Bernoulli in integer form: `V^n·(V − (n+1)·m) ≤ (V − m)^(n+1)` for `0 ≤ m ≤ V`. -/
theorem bernoulli_int (V m : Int) (hm : 0 ≤ m) (hmV : m ≤ V) (n : Nat) :
    V ^ n * (V - ((n : Int) + 1) * m) ≤ (V - m) ^ (n + 1) := by
  have hV : 0 ≤ V := le_trans hm hmV
  induction n with
  | zero => simp
  | succ k ih =>
    have hd : 0 ≤ V - m := by omega
    have hVk : 0 ≤ V ^ k := ipow_nonneg hV k
    have h1 : V ^ k * (V - ((k : Int) + 1) * m) * (V - m) ≤ (V - m) ^ (k + 1) * (V - m) :=
      Int.mul_le_mul_of_nonneg_right ih hd
    have h2 : V ^ (k + 1) * (V - (((k + 1 : Nat) : Int) + 1) * m)
        = V ^ k * (V - ((k : Int) + 1) * m) * (V - m) - V ^ k * (((k : Int) + 1) * (m * m)) := by
      push_cast; ring
    have h3 : 0 ≤ V ^ k * (((k : Int) + 1) * (m * m)) := by
      apply Int.mul_nonneg hVk
      apply Int.mul_nonneg (by omega) (mul_self_nonneg m)
    rw [pow_succ (V - m) (k + 1), h2]
    omega

/-- `y^(k+1) ≤ y·V^k` for `0 ≤ y ≤ V`. -/
theorem ipow_succ_le_mul {y V : Int} (hy : 0 ≤ y) (hyV : y ≤ V) (k : Nat) : y ^ (k + 1) ≤ y * V ^ k := by
  rw [pow_succ, mul_comm]
  exact Int.mul_le_mul_of_nonneg_left (ipow_le hy hyV k) hy

/-- The inequality behind the buy-then-sell round trip: from `(V − m)^n·R^c ≤ X^c·V^n` (`1 ≤ c ≤ n`) conclude
    `R·(V − n·m) ≤ X·V`: a deficit of `m` coins is worth at most `n·m·R/V` in reserve. -/
theorem roundtrip_key (X V R m : Int) (c n : Nat) (hc1 : 1 ≤ c) (hcn : c ≤ n) (hX : 0 ≤ X) (hV : 0 < V) (hR : 0 < R)
    (hm : 0 ≤ m) (hmV : m ≤ V) (h : (V - m) ^ n * R ^ c ≤ X ^ c * V ^ n) :
    R * (V - (n : Int) * m) ≤ X * V := by
  obtain ⟨k, rfl⟩ : ∃ k, c = k + 1 := ⟨c - 1, by omega⟩
  obtain ⟨j, rfl⟩ : ∃ j, n = k + 1 + j := ⟨n - (k + 1), by omega⟩
  by_contra hcon
  have hlt : X * V < R * (V - ((k + 1 + j : Nat) : Int) * m) := not_le.mp hcon
  set y := V - ((k + 1 + j : Nat) : Int) * m with hy
  have hXV : 0 ≤ X * V := Int.mul_nonneg hX (le_of_lt hV)
  have hRy : 0 < R * y := lt_of_le_of_lt hXV hlt
  have hy0 : 0 < y := by
    by_contra hneg
    have : y ≤ 0 := not_lt.mp hneg
    have : R * y ≤ 0 := Int.mul_nonpos_of_nonneg_of_nonpos (le_of_lt hR) this
    omega
  have hyV : y ≤ V := by
    have : 0 ≤ ((k + 1 + j : Nat) : Int) * m := Int.mul_nonneg (by omega) hm
    omega
  -- (X V)^c < (R y)^c ≤ R^c · y · V^k
  have h1 : (X * V) ^ (k + 1) < (R * y) ^ (k + 1) := ipow_lt hXV hlt (by omega)
  rw [mul_pow, mul_pow] at h1
  have h2 : y ^ (k + 1) ≤ y * V ^ k := ipow_succ_le_mul (le_of_lt hy0) hyV k
  have hRc : 0 < R ^ (k + 1) := ipow_pos hR _
  have h3 : X ^ (k + 1) * V ^ (k + 1) < R ^ (k + 1) * (y * V ^ k) :=
    lt_of_lt_of_le h1 (Int.mul_le_mul_of_nonneg_left h2 (le_of_lt hRc))
  -- multiply by V^j
  have hVj : 0 < V ^ j := ipow_pos hV j
  have h4 : X ^ (k + 1) * V ^ (k + 1) * V ^ j < R ^ (k + 1) * (y * V ^ k) * V ^ j :=
    Int.mul_lt_mul_of_pos_right h3 hVj
  -- Bernoulli: V^(k+j)·y ≤ (V−m)^(k+j+1)
  have hb := bernoulli_int V m hm hmV (k + j)
  have hb' : V ^ (k + j) * y ≤ (V - m) ^ (k + 1 + j) := by
    have e1 : ((k + j : Nat) : Int) + 1 = ((k + 1 + j : Nat) : Int) := by push_cast; ring
    have e2 : k + j + 1 = k + 1 + j := by omega
    rw [e1, e2] at hb
    exact hb
  have h5 : R ^ (k + 1) * (y * V ^ k) * V ^ j = V ^ (k + j) * y * R ^ (k + 1) := by
    rw [pow_add]; ring
  have h6 : X ^ (k + 1) * V ^ (k + 1) * V ^ j = X ^ (k + 1) * V ^ (k + 1 + j) := by
    rw [pow_add V (k + 1) j]; ring
  have h7 : V ^ (k + j) * y * R ^ (k + 1) ≤ (V - m) ^ (k + 1 + j) * R ^ (k + 1) :=
    Int.mul_le_mul_of_nonneg_right hb' (le_of_lt hRc)
  rw [h5, h6] at h4
  omega

/-- Chaining two certificate inequalities that share the factors `a` and `y` (all letters are opaque powers). -/
theorem mul_chain {a b x y u t : Int} (ha : 0 < a) (hb : 0 < b) (hy : 0 < y) (hu : 0 < u)
    (h1 : a * b ≤ x * y) (h2 : y * u < t * a) : b * u < x * t := by
  have hxy : 0 < x * y := lt_of_lt_of_le (Int.mul_pos ha hb) h1
  have e : b * u * (a * y) < x * t * (a * y) :=
    calc b * u * (a * y) = a * b * (y * u) := by ring
      _ ≤ x * y * (y * u) := Int.mul_le_mul_of_nonneg_right h1 (le_of_lt (Int.mul_pos hy hu))
      _ < x * y * (t * a) := Int.mul_lt_mul_of_pos_left h2 hxy
      _ = x * t * (a * y) := by ring
  exact lt_of_mul_lt_right (Int.mul_pos ha hy) e

/-! ### The certificates as propositions -/

theorem saleReturnCert_iff (v R : Int) (c : Nat) (a r δ : Int) :
    saleReturnCert v R c a r δ = true ↔
      ((r - δ ≤ 0 ∨ (r - δ ≤ R ∧ (v - a) ^ 100 * R ^ c ≤ (R - (r - δ)) ^ c * v ^ 100)) ∧
       (R < r + 1 + δ ∨ (R - (r + 1 + δ)) ^ c * v ^ 100 < (v - a) ^ 100 * R ^ c)) := by
  unfold saleReturnCert ipow
  simp only [Bool.and_eq_true, Bool.or_eq_true, decide_eq_true_eq]

theorem purchaseReturnCert_iff (v R : Int) (c : Nat) (d r δ : Int) :
    purchaseReturnCert v R c d r δ = true ↔
      ((r - δ ≤ 0 ∨ (v + (r - δ)) ^ 100 * R ^ c ≤ (R + d) ^ c * v ^ 100) ∧
       (0 ≤ v + (r + 1 + δ) ∧ (R + d) ^ c * v ^ 100 < (v + (r + 1 + δ)) ^ 100 * R ^ c)) := by
  unfold purchaseReturnCert ipow
  simp only [Bool.and_eq_true, Bool.or_eq_true, decide_eq_true_eq]

theorem purchaseAmountCert_iff (v R : Int) (c : Nat) (w r δ : Int) :
    purchaseAmountCert v R c w r δ = true ↔
      ((r - δ ≤ 0 ∨ (R + (r - δ)) ^ c * v ^ 100 ≤ (w + v) ^ 100 * R ^ c) ∧
       (0 ≤ R + (r + 1 + δ) ∧ (w + v) ^ 100 * R ^ c < (R + (r + 1 + δ)) ^ c * v ^ 100)) := by
  unfold purchaseAmountCert ipow
  simp only [Bool.and_eq_true, Bool.or_eq_true, decide_eq_true_eq]

theorem saleAmountCert_iff (v R : Int) (c : Nat) (w r δ : Int) :
    saleAmountCert v R c w r δ = true ↔
      ((r - δ ≤ 0 ∨ (r - δ ≤ v ∧ (R - w) ^ c * v ^ 100 ≤ (v - (r - δ)) ^ 100 * R ^ c)) ∧
       (v < r + 1 + δ ∨ (v - (r + 1 + δ)) ^ 100 * R ^ c < (R - w) ^ c * v ^ 100)) := by
  unfold saleAmountCert ipow
  simp only [Bool.and_eq_true, Bool.or_eq_true, decide_eq_true_eq]

end Minter
