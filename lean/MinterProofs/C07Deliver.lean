import MinterProofs.C07Routes
/-
  C07 helper lemmas, part 7: everything around the handlers — dispatch, the deliver half, the ticker burn, the failure fee.
-/
namespace Minter

/-- The model's own consistency guards (`model: …`).  They are self-checks of the MODEL (an unauthorised debit, a nonce touched by a
    handler, a coin id out of sequence, a failure path that answers OK / moves something else than a fee); no Go `panic`, nil
    dereference or division stands behind them. -/
def modelGuards : List String :=
  ["model: ticker burn touched a nonce", "model: unauthorised debit in a handler", "model: handler touched a nonce",
   "model: new coin without the next coin id", "model: failure path returned OK", "model: failure path made a non-fee move",
   "model: failure fee charged to a third party", "model: handler rejected with code 0"]

/-- The computation stops at no Go panic site (only, possibly, at a model self-check). -/
def GoPanicFree {α : Type} (m : M α) : Prop := ∀ w, m = .error (.panic w) → w ∈ modelGuards

theorem GoPanicFree_of_noPanic {α : Type} {m : M α} (h : NoPanic m) : GoPanicFree m := fun w hw => absurd hw (h w)

/-! ### Dispatch -/

theorem runData_good {P : Params} {s : State} (hinv : TxInv P s) (o : Oracle) (b : Nat) (t : TxIn) (hwf : TxWf t) (price : Int) (hp : 0 ≤ price)
    (hcap : t.typ = 24 → t.int "d.ValueToBuy" ≤ P.maxSupply) : HGood (ReadyGood P o s price) (runData P o s b t price) := by
  unfold runData
  split
  · exact runSend_good hinv o t price hp
  · exact runSellCoin_good hinv o t price hp
  · exact runSellAllCoin_good hinv o t price hp
  · exact runBuyCoin_good hinv o t price hp
  · exact runCreateCoin_good hinv o t price hp
  · exact runDeclare_good hinv o t price hp b hwf
  · exact runDelegate_good hinv o t price hp hwf
  · exact runUnbond_good hinv o t price hp b
  · exact runRedeemCheck_good hinv o t price hp b
  · exact runSetOn_good hinv o t price hp b
  · exact runSetOff_good hinv o t price hp
  · exact runCreateMultisig_good hinv o t price hp
  · exact runMultisend_good hinv o t price hp
  · exact runEditCandidate_good hinv o t price hp
  · exact runSetHalt_good hinv o t price hp b
  · exact runRecreateCoin_good hinv o t price hp
  · exact runEditCoinOwner_good hinv o t price hp
  · exact runEditMultisig_good hinv o t price hp
  · exact runEditPubKey_good hinv o t price hp
  · exact runAddLiquidity_good hinv o t price hp
  · exact runRemoveLiquidity_good hinv o t price hp
  · exact runSellPool_good hinv o t hwf price hp
  · rename_i h24
    exact runBuyPool_good hinv o t hwf price hp (hcap h24)
  · exact runSellAllPool_good hinv o t hwf price hp
  · exact runEditCommission_good hinv o t price hp b
  · exact runMoveStake_good hinv o t price hp b
  · exact runMintToken_good hinv o t price hp
  · exact runBurnToken_good hinv o t price hp
  · exact runCreateToken_good hinv o t price hp
  · exact runRecreateToken_good hinv o t price hp
  · exact runVoteCommission_good hinv o t price hp b
  · exact runVoteUpdate_good hinv o t price hp b
  · exact runCreatePool_good hinv o t price hp
  · exact runAddOrder_good hinv o t price hp b
  · exact runRemoveOrder_good hinv o t price hp b
  · exact runLockStake_good hinv o t price hp b
  · exact runLock_good hinv o t price hp b
  · exact HGood_unmodelled _ _

/-! ### The deliver half -/

theorem execReady_noPanic {P : Params} {s : State} (hinv : TxInv P s) (o : Oracle) (price : Int) (hp : 0 ≤ price) (rd : Ready)
    (hg : ReadyGood P o s price rd) : NoPanic (execReady s rd) := by
  unfold execReady
  have hcg := (calcCommission_spec hinv o rd.coin price hp).2 rd.com hg.com
  obtain ⟨paid, hpay⟩ := payCommission_total hinv rd.payer rd.coin price rd.com rd.minOut hcg hg.minOut
  rw [hpay]
  simp only
  split
  · exact NoPanic_throw_of (hg.exec paid hpay) (by assumption)
  · exact NoPanic_pure _

theorem tickerBurn_noPanic {P : Params} {s : State} (hinv : TxInv P s) (t : TxIn) : NoPanic (tickerBurn s t) := by
  unfold tickerBurn
  apply NoPanic_ite <;> intro _
  · simp only
    apply NoPanic_ite <;> intro hle
    · exact NoPanic_pure _
    · split
      · exact NoPanic_throw_of (toBase_total hinv _ (Int.le_of_lt (Int.not_le.mp hle))) (by assumption)
      · exact NoPanic_pure _
      · split <;> exact NoPanic_pure _
  · exact NoPanic_pure _

theorem successOutcome_free {P : Params} {s : State} (hinv : TxInv P s) (t : TxIn) (r : Outcome) : GoPanicFree (successOutcome s t r) := by
  intro w h
  unfold successOutcome at h
  split at h
  · rename_i e he
    cases h
    exact absurd he (tickerBurn_noPanic hinv t w)
  · split at h
    · cases h; simp [modelGuards]
    · split at h
      · cases h; simp [modelGuards]
      · split at h
        · cases h; simp [modelGuards]
        · split at h
          · cases h; simp [modelGuards]
          · cases h

/-! ### The failure fee -/

def ffTable (s : State) (t : TxIn) : Int :=
  (t.gasPrice : Int) * (priceOf s "failed_tx" + ((t.payLen + t.svcLen : Nat) : Int) * priceOf s "payload_byte")

def ffConv (s : State) (t : TxIn) : M (Except Nat Int) :=
  if priceCoin s == 0 then pure (.ok (ffTable s t)) else
  match toBase s (ffTable s t) with
  | .error e => throw e
  | .ok (.error c) => pure (.error c)
  | .ok (.ok p) => if p ≤ 0 then pure (.error 119) else pure (.ok p)

def ffCapped (P : Params) (o : Oracle) (s : State) (t : TxIn) (com : Com) (bal : Int) : M (Except Nat Com) :=
  if bal < com.commission then
    if com.fromPool then
      match poolRes s t.comCoin 0 with
      | none => throw (.panic "missing commission pool")
      | some (r0, r1) =>
        match checkSwapQuote r0 r1 bal 0 false with
        | .error e => throw e
        | .ok (.error c) => pure (.error c)
        | .ok (.ok x) => if x ≤ 0 then pure (.error 119) else pure (.ok ⟨bal, x, true⟩)
    else if t.comCoin != 0 then
      match getCoin s t.comCoin with
      | none => throw (.panic "missing gas coin")
      | some ci =>
        if hasReserve ci then
          if ci.volume < bal then pure (.error 103) else
          match ask o (.saleReturn ci.volume ci.reserve ci.crr bal) with
          | .error e => throw e
          | .ok r => if ci.reserve - r < P.minReserve then pure (.error 116) else pure (.ok ⟨bal, r, false⟩)
        else pure (.ok ⟨bal, bal, false⟩)
    else pure (.ok ⟨bal, bal, false⟩)
  else pure (.ok com)

def ffPay (P : Params) (o : Oracle) (s : State) (t : TxIn) (code : Nat) (com : Com) (payer : Addr) : M Outcome :=
  if balanceOf s payer t.comCoin ≤ 0 then pure { code := code } else
  match ffCapped P o s t com (balanceOf s payer t.comCoin) with
  | .error e => throw e
  | .ok (.error c) => pure { code := c }
  | .ok (.ok cm) =>
    match payCommission s payer t.comCoin cm with
    | .error e => throw e
    | .ok paid => pure { code := code, moves := paid.moves, tags := [("tx.fail_fee", toString paid.amount)] }

/-- `failFee` in named pieces (definitional unfolding). -/
theorem failFee_eq (P : Params) (o : Oracle) (s : State) (t : TxIn) (code : Nat) :
    failFee P o s t code =
      (match ffConv s t with
       | .error e => throw e
       | .ok (.error c) => pure { code := c }
       | .ok (.ok inBase0) =>
         match calcCommission P o s t.comCoin inBase0 with
         | .error e => throw e
         | .ok (.error c) => pure { code := c }
         | .ok (.ok com) =>
           match (if t.typ == 9 then t.issuer else some t.sender) with
           | none => pure { code := 106 }
           | some payer => ffPay P o s t code com payer) := by
  rfl

theorem ffTable_nonneg (s : State) (hp : PricesOk s) (t : TxIn) : 0 ≤ ffTable s t := by
  unfold ffTable
  apply Int.mul_nonneg (by omega)
  have := hp.nonneg "failed_tx"
  have : 0 ≤ ((t.payLen + t.svcLen : Nat) : Int) * priceOf s "payload_byte" := Int.mul_nonneg (by omega) (hp.nonneg _)
  omega

theorem ffConv_spec {P : Params} {s : State} (hinv : TxInv P s) (t : TxIn) :
    NoPanic (ffConv s t) ∧ ∀ x, ffConv s t = .ok (.ok x) → 0 ≤ x := by
  have hnn := ffTable_nonneg s (priceTableOk_sound s hinv.prices) t
  unfold ffConv
  split
  · exact ⟨NoPanic_pure _, fun x h => by cases h; exact hnn⟩
  · split
    · refine ⟨NoPanic_throw_of (toBase_total hinv _ hnn) (by assumption), fun x h => by cases h⟩
    · exact ⟨NoPanic_pure _, fun x h => by cases h⟩
    · split
      · exact ⟨NoPanic_pure _, fun x h => by cases h⟩
      · exact ⟨NoPanic_pure _, fun x h => by cases h; omega⟩

/-- The fee actually charged (the full commission or the payer's whole balance) can always be paid. -/
theorem ffCapped_spec {P : Params} {s : State} (hinv : TxInv P s) (o : Oracle) (t : TxIn) (inBase : Int) (com : Com) (bal : Int) (payer : Addr)
    (hb : 0 ≤ inBase) (hbal : 0 < bal) (hcoin : coinExists s t.comCoin = true) (hcg : ComGood s t.comCoin inBase com) :
    NoPanic (ffCapped P o s t com bal) ∧
    ∀ cm, ffCapped P o s t com bal = .ok (.ok cm) → ∃ paid, payCommission s payer t.comCoin cm = .ok paid := by
  unfold ffCapped
  split
  · split
    · rename_i hf
      obtain ⟨_, _, _, hord, r0, r1, hres, _⟩ := hcg.pool hf
      rw [hres]
      simp only
      have hpos := poolRes_pos s hinv.poolsOk _ _ r0 r1 hres
      obtain ⟨q, hq⟩ := checkSwapQuote_total r0 r1 bal 0 false hpos.1 hpos.2 (by simp only [Bool.false_eq_true, if_false]; omega)
      rw [hq]
      cases q with
      | error c => exact ⟨NoPanic_pure _, fun cm h => by cases h⟩
      | ok x =>
        simp only
        split
        · exact ⟨NoPanic_pure _, fun cm h => by cases h⟩
        · rename_i hx
          refine ⟨NoPanic_pure _, fun cm h => ?_⟩
          cases h
          have hcq := checkSwapQuote_sell_ok _ _ _ _ _ hq
          obtain ⟨_, hnet, hbfs⟩ := quoteBFS_pos r0 r1 bal x (by omega) hcq (by omega)
          obtain ⟨mv, hm⟩ := pairSellMove_ok s none payer t.comCoin 0 bal 0 true 0 r0 r1 x (by rw [poolResAdj_none]; exact hres) hord
            hbal hnet hbfs (by omega) (by omega)
          unfold payCommission
          simp only [if_true, hm]
          exact ⟨_, rfl⟩
    · split
      · rename_i hne
        have hne' : t.comCoin ≠ 0 := by simpa using hne
        obtain ⟨ci, hci⟩ := getCoin_of_exists s _ hcoin hne'
        rw [hci]
        simp only
        have payOk : ∀ r, ∃ paid, payCommission s payer t.comCoin ⟨bal, r, false⟩ = .ok paid := by
          intro r
          unfold payCommission
          simp only [Bool.false_eq_true, if_false, hne, if_true]
          exact ⟨_, rfl⟩
        split
        · split
          · exact ⟨NoPanic_pure _, fun cm h => by cases h⟩
          · split
            · exact ⟨NoPanic_throw_of (ask_noPanic _ _) (by assumption), fun cm h => by cases h⟩
            · split
              · exact ⟨NoPanic_pure _, fun cm h => by cases h⟩
              · exact ⟨NoPanic_pure _, fun cm h => by cases h; exact payOk _⟩
        · exact ⟨NoPanic_pure _, fun cm h => by cases h; exact payOk _⟩
      · rename_i hz
        refine ⟨NoPanic_pure _, fun cm h => ?_⟩
        cases h
        unfold payCommission
        simp only [Bool.false_eq_true, if_false, hz, bne_self_eq_false]
        exact ⟨_, rfl⟩
  · refine ⟨NoPanic_pure _, fun cm h => ?_⟩
    cases h
    exact payCommission_total hinv payer t.comCoin inBase com 0 hcg (by omega)

theorem ffPay_noPanic {P : Params} {s : State} (hinv : TxInv P s) (o : Oracle) (t : TxIn) (code : Nat) (inBase : Int) (com : Com) (payer : Addr)
    (hb : 0 ≤ inBase) (hcoin : coinExists s t.comCoin = true) (hcg : ComGood s t.comCoin inBase com) :
    NoPanic (ffPay P o s t code com payer) := by
  unfold ffPay
  apply NoPanic_ite <;> intro hbal
  · exact NoPanic_pure _
  · obtain ⟨hnp, hsp⟩ := ffCapped_spec hinv o t inBase com (balanceOf s payer t.comCoin) payer hb (by omega) hcoin hcg
    split
    · exact NoPanic_throw_of hnp (by assumption)
    · exact NoPanic_pure _
    · rename_i cm hcm
      obtain ⟨paid, hpaid⟩ := hsp cm hcm
      rw [hpaid]
      exact NoPanic_pure _

theorem failFee_noPanic {P : Params} {s : State} (hinv : TxInv P s) (o : Oracle) (t : TxIn) (code : Nat)
    (hcoin : coinExists s t.comCoin = true) : NoPanic (failFee P o s t code) := by
  rw [failFee_eq]
  obtain ⟨hcnp, hcsp⟩ := ffConv_spec hinv t
  split
  · exact NoPanic_throw_of hcnp (by assumption)
  · exact NoPanic_pure _
  · rename_i inBase0 hconv
    have hb := hcsp inBase0 hconv
    obtain ⟨hnp, hsp⟩ := calcCommission_spec hinv o t.comCoin inBase0 hb
    split
    · exact NoPanic_throw_of hnp (by assumption)
    · exact NoPanic_pure _
    · rename_i com hcom
      split
      · exact NoPanic_pure _
      · exact ffPay_noPanic hinv o t code inBase0 com _ hb hcoin (hsp com hcom)

theorem failureOutcome_free {P : Params} {s : State} (hinv : TxInv P s) (o : Oracle) (t : TxIn) (code : Nat)
    (hcoin : coinExists s t.comCoin = true) : GoPanicFree (failureOutcome P o s t code) := by
  intro w h
  unfold failureOutcome at h
  split at h
  · split at h
    · cases h; simp [modelGuards]
    · split at h
      · cases h; simp [modelGuards]
      · split at h
        · cases h; simp [modelGuards]
        · cases h
  · rename_i e he
    cases h
    exact absurd he (failFee_noPanic hinv o t code hcoin w)

/-- The prologue has checked that the commission coin exists. -/
theorem prologue_coin (P : Params) (s : State) (b : Nat) (t : TxIn) (fl : Nat) (h : prologueF P s b t fl = none) :
    coinExists s t.comCoin = true := by
  unfold prologueF at h
  split at h
  · cases h
  split at h
  · cases h
  split at h
  · cases h
  split at h
  · cases h
  split at h
  · cases h
  rename_i hc
  exact of_not_not_b hc

end Minter
