import MinterProofs.AmountsFail
/-
  C02, the success path of DeliverTx cut into its stages: commission payment (state `s1`), the handler's own moves (state `s2`),
  the ticker burn and the nonce bump.  The last two never endanger `AmountsOk`; so a type is covered as soon as its own moves are
  shown safe in the state `s1` that `FeeFrame` describes.
-/
namespace Minter

theorem planOf_append (a b : List Move) : planOf (a ++ b) = planOf a ++ planOf b := by
  simp [planOf, List.flatMap_append]

theorem applyChecked_append_some (s s' : State) (p q : List Prim) (h : applyChecked s (p ++ q) = some s') :
    ∃ s1, applyChecked s p = some s1 ∧ applyChecked s1 q = some s' := by
  rw [applyChecked_append] at h
  cases hp : applyChecked s p with
  | none => rw [hp] at h; cases h
  | some s1 => rw [hp] at h; exact ⟨s1, rfl, h⟩

/-- The ticker burn credits the zero address: always safe. -/
theorem tickerBurn_preserves (s : State) (t : TxIn) (burn : List Move) (btags : List (String × String)) (s2 s3 : State)
    (hb : tickerBurn s t = .ok (burn, btags)) (hok : AmountsOk s2) (h : applyChecked s2 (planOf burn) = some s3) : AmountsOk s3 := by
  have key : burn = [] ∨ ∃ v, 0 < v ∧ burn = [.burnTicker v] := by
    unfold tickerBurn at hb
    split at hb
    · simp only at hb
      split at hb
      · cases hb; exact Or.inl rfl
      · split at hb
        · cases hb
        · cases hb; exact Or.inl rfl
        · split at hb
          · cases hb; exact Or.inl rfl
          · next v _ hv => cases hb; exact Or.inr ⟨v, by omega, rfl⟩
    · cases hb; exact Or.inl rfl
  rcases key with rfl | ⟨v, hv, rfl⟩
  · simp only [planOf, List.flatMap_nil, applyChecked] at h; cases h; exact hok
  · apply planSafe_preserves s2 s3 _ _ hok h
    simp only [planOf, List.flatMap_cons, List.flatMap_nil, Move.prims, List.append_nil, PlanSafe, PrimSafe, apply_balance', Prim.balDelta', and_true, true_and]
    have := hok.balances 0 0
    omega

/-- **Stages of an accepted delivery.** -/
theorem deliver_stages (P : Params) (o : Oracle) (s s' : State) (b : Nat) (t : TxIn) (out : Outcome)
    (h : deliverTx P o s b t = .ok out) (h0 : out.code = 0) (ha : applyChecked s out.plan = some s') :
    ∃ price rd paid body tags s1 s2, 0 ≤ price ∧ runData P o s b t price = .ok (.ok rd) ∧
      payCommission s rd.payer rd.coin rd.com rd.minOut = .ok paid ∧ rd.exec paid.adj = .ok (body, tags) ∧
      applyChecked s (planOf paid.moves) = some s1 ∧ applyChecked s1 (planOf body) = some s2 ∧
      (AmountsOk s2 → AmountsOk s') := by
  obtain ⟨_, price, rd, r, hb, hr, hx, hs⟩ := deliver_accepted P o s b t out h h0
  obtain ⟨paid, body, tags, hpay, he, _, hmoves, _⟩ := execReady_ok s rd r hx
  obtain ⟨burn, btags, hbn, _, hm, _⟩ := successOutcome_burn s t r out hs
  rw [Outcome.plan, hm, successMoves, hmoves, planOf_append, planOf_append, planOf_append, List.append_assoc, List.append_assoc] at ha
  obtain ⟨s1, h1, ha⟩ := applyChecked_append_some _ _ _ _ ha
  obtain ⟨s2, h2, ha⟩ := applyChecked_append_some _ _ _ _ ha
  obtain ⟨s3, h3, ha⟩ := applyChecked_append_some _ _ _ _ ha
  refine ⟨price, rd, paid, body, tags, s1, s2, basePrice_nonneg s t price hb, hr, hpay, he, h1, h2, ?_⟩
  intro hok2
  have hok3 := tickerBurn_preserves s t burn btags s2 s3 hbn hok2 h3
  apply planSafe_preserves s3 s' _ _ hok3 ha
  simp [planOf, Move.prims, Prim.isAdmin, PlanSafe, PrimSafe]

end Minter
