import MinterProofs.C07Pools
import Mathlib.Data.List.Chain
/-
  C07 helper lemmas, part 6: the three route transactions (SellSwapPool 23, BuySwapPool 24, SellAllSwapPool 25) on pools without
  orders: the validation loop never faults, and the execution loop repeats the validated computation hop by hop on the real pools
  (`sim_eq_real`), so none of the `PairSellWithOrders` / `PairBuyWithOrders` panics can fire.
-/
namespace Minter

theorem NoPanic_ite {α : Type} (c : Prop) [Decidable c] (a b : M α) (ha : c → NoPanic a) (hb : ¬ c → NoPanic b) :
    NoPanic (if c then a else b) := by
  by_cases h : c
  · rw [if_pos h]; exact ha h
  · rw [if_neg h]; exact hb h

/-! ### The route as a chain of existing pools -/

theorem routeBasicGo_chain (s : State) : ∀ (rest : List Coin) (a : Coin), routeBasicGo s a rest = none →
    (a :: rest).IsChain (fun x y => poolExists s x y = true) := by
  intro rest
  induction rest with
  | nil => intro a _; exact List.IsChain.singleton a
  | cons b t ih =>
    intro a h
    unfold routeBasicGo at h
    split at h
    · cases h
    · split at h
      · cases h
      · rename_i hex
        rw [List.isChain_cons_cons]
        exact ⟨of_not_not_b hex, ih b h⟩

theorem routeBasic_chain (s : State) (coins : List Coin) (h : routeBasic s coins = none) :
    coins = coins.headD 0 :: coins.tail ∧ coins.IsChain (fun x y => poolExists s x y = true) := by
  unfold routeBasic at h
  split at h
  · cases h
  · rename_i hl
    split at h
    · cases h
    · cases coins with
      | nil => simp at hl
      | cons a t =>
        simp only at h
        exact ⟨rfl, routeBasicGo_chain s t a h⟩

theorem reverse_head_tail (coins : List Coin) (h : coins ≠ []) : coins.reverse = coins.reverse.headD 0 :: coins.reverse.tail := by
  have : coins.reverse ≠ [] := by simpa using h
  cases hr : coins.reverse with
  | nil => exact absurd hr this
  | cons a t => rfl

/-! ### Pool purchase on known reserves -/

theorem pairBuyMove_ok (P : Params) (s : State) (adj : Option PoolAdj) (payer : Addr) (a b : Coin) (amountOut : Int) (dest : Addr)
    (r0 r1 y : Int) (hres : poolResAdj s adj a b = some (r0, r1)) (hord : pairHasOrders s a b = false)
    (hout : 0 < amountOut) (hq : sfbNoOrders r0 r1 amountOut = .val y) (hy : 0 < y) (hcap : amountOut ≤ P.maxSupply) :
    ∃ mv, pairBuyMove P s adj payer a b amountOut dest = .ok (mv, y + com0999 y, ⟨a, b, y, -amountOut⟩) := by
  unfold pairBuyMove
  rw [hres]
  simp only [hord, Bool.false_eq_true, if_false]
  have h1 : ¬ (amountOut ≤ 0) := by omega
  simp only [h1, if_false, hq]
  have h2 : ¬ (y ≤ 0) := by omega
  have h3 : ¬ (amountOut > P.maxSupply) := by omega
  have hg := gross_net_cancel y hy
  have e : y + com1000 (y + com0999 y) = y + com0999 y := by omega
  simp only [h2, h3, if_false, e, ne_eq, not_true_eq_false]
  split <;> exact ⟨_, rfl⟩

/-- A positive public purchase quote comes from a positive wanted amount and a positive order-free quote. -/
theorem quoteSFB_pos (r0 r1 w x : Int) (hw : 0 ≤ w) (h : quoteSellForBuy r0 r1 w = .val x) (hx : 0 < x) :
    0 < w ∧ ∃ y, sfbNoOrders r0 r1 w = .val y ∧ 0 < y ∧ x = y + com0999 y := by
  unfold quoteSellForBuy at h
  split at h
  · rename_i y hy
    split at h
    · rename_i hy0
      cases h
      have := (sfb_val_pos _ _ _ _ hy hy0).1
      exact ⟨by omega, y, hy, hy0, rfl⟩
    · cases h; omega
  · rename_i hq
    exact absurd h (hq x)

section
variable {P : Params} {s : State} (hinv : TxInv P s) (payer : Addr) (gas : Coin) (com : Com) (minOut : Int) (paid : Paid)
  (hpay : payCommission s payer gas com minOut = .ok paid) (hcomPos : com.fromPool = true → 0 < com.commission)
include hinv hpay hcomPos

/-! ### Sell routes -/

theorem routeSellCheck_noPanic (minBuy : Int) : ∀ (rest : List Coin) (a : Coin) (v : Int) (used : List Nat),
    (a :: rest).IsChain (fun x y => poolExists s x y = true) → 0 ≤ v →
    NoPanic (routeSellCheck s gas com minBuy a rest v used) := by
  intro rest
  induction rest with
  | nil => intro a v used _ _; unfold routeSellCheck; exact NoPanic_pure _
  | cons b rest ih =>
    intro a v used hch hv
    rw [List.isChain_cons_cons] at hch
    unfold routeSellCheck
    simp only
    apply NoPanic_ite <;> intro _
    · exact NoPanic_pure _
    apply NoPanic_ite <;> intro _
    · exact NoPanic_unmodelled _
    cases hsim : simRes s gas com a b with
    | error e => exact NoPanic_throw_of (simRes_noPanic hinv _ _ _ _ hch.1 hcomPos) hsim
    | ok r =>
      obtain ⟨r0, r1⟩ := r
      obtain ⟨_, h0, h1⟩ := sim_eq_real s hinv.poolsOk payer gas com minOut paid hpay _ _ _ hsim
      obtain ⟨q, hq⟩ := checkSwapQuote_total r0 r1 v (if rest.isEmpty then minBuy else 0) false h0 h1 (by simpa using hv)
      simp only [hq]
      cases q with
      | error c => exact NoPanic_pure _
      | ok x =>
        simp only
        apply NoPanic_ite <;> intro hx
        · exact NoPanic_pure _
        · exact ih b x _ hch.2 (by omega)

theorem routeSellExec_noPanic (minBuy : Int) (who : Addr) : ∀ (rest : List Coin) (a : Coin) (v : Int) (used : List Nat) (x : Int),
    0 ≤ v → routeSellCheck s gas com minBuy a rest v used = .ok (.ok x) →
    NoPanic (routeSellExec s paid.adj who a rest v) := by
  intro rest
  induction rest with
  | nil => intro a v used x _ _; unfold routeSellExec; exact NoPanic_pure _
  | cons b rest ih =>
    intro a v used x hv hc
    unfold routeSellCheck at hc
    simp only at hc
    split at hc
    · cases hc
    split at hc
    · cases hc
    rename_i hord
    split at hc
    · cases hc
    rename_i r0 r1 hsim
    split at hc
    · cases hc
    · cases hc
    rename_i x1 hq
    split at hc
    · cases hc
    rename_i hx1
    obtain ⟨hreal, h0, h1⟩ := sim_eq_real s hinv.poolsOk payer gas com minOut paid hpay _ _ _ hsim
    have hcq := checkSwapQuote_sell_ok _ _ _ _ _ hq
    obtain ⟨hvpos, hnet, hbfs⟩ := quoteBFS_pos r0 r1 v x1 hv hcq (by omega)
    obtain ⟨mv, hm⟩ := pairSellMove_ok s paid.adj who a b v 0 false who r0 r1 x1 hreal (by simpa using hord) hvpos hnet hbfs
      (by omega) (by omega)
    unfold routeSellExec
    rw [hm]
    simp only
    have hrec := ih b x1 _ x (by omega) hc
    split
    · exact NoPanic_throw_of hrec (by assumption)
    · exact NoPanic_pure _

/-! ### Buy routes -/

theorem routeBuyCheck_noPanic (maxSell : Int) : ∀ (rest : List Coin) (b : Coin) (w : Int) (used : List Nat),
    (b :: rest).IsChain (fun x y => poolExists s y x = true) → 0 ≤ w →
    NoPanic (routeBuyCheck P s gas com maxSell b rest w used) := by
  intro rest
  induction rest with
  | nil => intro b w used _ _; unfold routeBuyCheck; exact NoPanic_pure _
  | cons a rest ih =>
    intro b w used hch hw
    rw [List.isChain_cons_cons] at hch
    unfold routeBuyCheck
    simp only
    apply NoPanic_ite <;> intro _
    · exact NoPanic_pure _
    apply NoPanic_ite <;> intro _
    · exact NoPanic_unmodelled _
    cases hsim : simRes s gas com a b with
    | error e => exact NoPanic_throw_of (simRes_noPanic hinv _ _ _ _ hch.1 hcomPos) hsim
    | ok r =>
      obtain ⟨r0, r1⟩ := r
      obtain ⟨_, h0, h1⟩ := sim_eq_real s hinv.poolsOk payer gas com minOut paid hpay _ _ _ hsim
      obtain ⟨q, hq⟩ := checkSwapQuote_total r0 r1 (if rest.isEmpty then maxSell else P.maxSupply) w true h0 h1 (by simpa using hw)
      simp only [hq]
      cases q with
      | error c => exact NoPanic_pure _
      | ok x =>
        simp only
        apply NoPanic_ite <;> intro hx
        · exact NoPanic_pure _
        · exact ih a x _ hch.2 (by omega)

theorem routeBuyExec_noPanic (maxSell : Int) (who : Addr) : ∀ (rest : List Coin) (b : Coin) (w : Int) (used : List Nat) (x : Int),
    0 ≤ w → w ≤ P.maxSupply → routeBuyCheck P s gas com maxSell b rest w used = .ok (.ok x) →
    NoPanic (routeBuyExec P s paid.adj who b rest w) := by
  intro rest
  induction rest with
  | nil => intro b w used x _ _ _; unfold routeBuyExec; exact NoPanic_pure _
  | cons a rest ih =>
    intro b w used x hw hcap hc
    unfold routeBuyCheck at hc
    simp only at hc
    split at hc
    · cases hc
    split at hc
    · cases hc
    rename_i hord
    split at hc
    · cases hc
    rename_i r0 r1 hsim
    split at hc
    · cases hc
    · cases hc
    rename_i x1 hq
    split at hc
    · cases hc
    rename_i hx1
    obtain ⟨hreal, h0, h1⟩ := sim_eq_real s hinv.poolsOk payer gas com minOut paid hpay _ _ _ hsim
    obtain ⟨hcq, hlim⟩ := checkSwapQuote_buy_ok _ _ _ _ _ hq
    obtain ⟨hwpos, y, hsfb, hy, hxy⟩ := quoteSFB_pos r0 r1 w x1 hw hcq (by omega)
    obtain ⟨mv, hm⟩ := pairBuyMove_ok P s paid.adj who a b w who r0 r1 y hreal (by simpa using hord) hwpos hsfb hy hcap
    unfold routeBuyExec
    rw [hm]
    simp only
    have hrec : NoPanic (routeBuyExec P s paid.adj who a rest (y + com0999 y)) := by
      cases rest with
      | nil => unfold routeBuyExec; exact NoPanic_pure _
      | cons c rest' =>
        simp only [List.isEmpty_cons, Bool.false_eq_true, if_false] at hlim
        rw [← hxy]
        exact ih a x1 _ x (by omega) hlim hc
    split
    · exact NoPanic_throw_of hrec (by assumption)
    · exact NoPanic_pure _

end

/-! ### The three handlers -/

section
variable {P : Params} {s : State} (hinv : TxInv P s) (o : Oracle) (t : TxIn) (hwf : TxWf t) (price : Int) (hp : 0 ≤ price)
include hinv hp hwf

theorem runSellPool_good : HGood (ReadyGood P o s price) (runSellPool P o s t price) := by
  unfold runSellPool
  simp only
  cases hrb : routeBasic s (coinList (t.str "d.Coins")) with
  | some c => exact HGood_reject _ _
  | none =>
    obtain ⟨hco, hch⟩ := routeBasic_chain s _ hrb
    rw [hco] at hch
    simp only
    apply HGood_withCom hinv o _ _ _ hp
    intro com hc hcg
    obtain ⟨paid, hpay⟩ := payCommission_total hinv t.sender t.gasCoin price com 0 hcg hp
    cases hchk : routeSellCheck s t.gasCoin com (t.int "d.MinimumValueToBuy") ((coinList (t.str "d.Coins")).headD 0)
        (coinList (t.str "d.Coins")).tail (t.int "d.ValueToSell") [] with
    | error e =>
      exact HGood_sub' _ _ _ hchk (routeSellCheck_noPanic hinv t.sender t.gasCoin com 0 paid hpay hcg.comPos _ _ _ _ _ hch (hwf.ints _))
    | ok r =>
      cases r with
      | error c => exact HGood_reject _ _
      | ok x =>
        simp only
        apply HGood_ite <;> intro _
        · exact HGood_reject _ _
        apply HGood_ite <;> intro _
        · exact HGood_reject _ _
        refine HGood_pure _ _ ⟨hc, hp, fun paid' hpay' => ?_⟩
        simp only
        have hex := routeSellExec_noPanic hinv t.sender t.gasCoin com 0 paid' hpay' hcg.comPos (t.int "d.MinimumValueToBuy") t.sender
          _ _ _ _ _ (hwf.ints _) hchk
        split
        · exact NoPanic_throw_of hex (by assumption)
        · exact NoPanic_pure _

theorem runSellAllPool_good : HGood (ReadyGood P o s price) (runSellAllPool P o s t price) := by
  unfold runSellAllPool
  simp only
  cases hrb : routeBasic s (coinList (t.str "d.Coins")) with
  | some c => exact HGood_reject _ _
  | none =>
    obtain ⟨hco, hch⟩ := routeBasic_chain s _ hrb
    rw [hco] at hch
    simp only
    apply HGood_withCom hinv o _ _ _ hp
    intro com hc hcg
    obtain ⟨paid, hpay⟩ := payCommission_total hinv t.sender ((coinList (t.str "d.Coins")).headD 0) price com 0 hcg hp
    apply HGood_ite <;> intro hval
    · exact HGood_reject _ _
    cases hchk : routeSellCheck s ((coinList (t.str "d.Coins")).headD 0) com (t.int "d.MinimumValueToBuy") ((coinList (t.str "d.Coins")).headD 0)
        (coinList (t.str "d.Coins")).tail (balanceOf s t.sender ((coinList (t.str "d.Coins")).headD 0) - com.commission) [] with
    | error e =>
      exact HGood_sub' _ _ _ hchk (routeSellCheck_noPanic hinv t.sender _ com 0 paid hpay hcg.comPos _ _ _ _ _ hch (by omega))
    | ok r =>
      cases r with
      | error c => exact HGood_reject _ _
      | ok x =>
        simp only
        refine HGood_pure _ _ ⟨hc, hp, fun paid' hpay' => ?_⟩
        simp only
        have hex := routeSellExec_noPanic hinv t.sender _ com 0 paid' hpay' hcg.comPos (t.int "d.MinimumValueToBuy") t.sender
          _ _ _ _ _ (by omega) hchk
        split
        · exact NoPanic_throw_of hex (by assumption)
        · exact NoPanic_pure _

theorem runBuyPool_good (hcap : t.int "d.ValueToBuy" ≤ P.maxSupply) : HGood (ReadyGood P o s price) (runBuyPool P o s t price) := by
  unfold runBuyPool
  simp only
  cases hrb : routeBasic s (coinList (t.str "d.Coins")) with
  | some c => exact HGood_reject _ _
  | none =>
    obtain ⟨hco, hch⟩ := routeBasic_chain s _ hrb
    have hne : coinList (t.str "d.Coins") ≠ [] := by rw [hco]; simp
    have hrev := reverse_head_tail _ hne
    have hch' : ((coinList (t.str "d.Coins")).reverse.headD 0 :: (coinList (t.str "d.Coins")).reverse.tail).IsChain
        (fun x y => poolExists s y x = true) := by
      rw [← hrev, List.isChain_reverse]
      exact hch
    simp only
    apply HGood_withCom hinv o _ _ _ hp
    intro com hc hcg
    obtain ⟨paid, hpay⟩ := payCommission_total hinv t.sender t.gasCoin price com 0 hcg hp
    cases hchk : routeBuyCheck P s t.gasCoin com (t.int "d.MaximumValueToSell") ((coinList (t.str "d.Coins")).reverse.headD 0)
        (coinList (t.str "d.Coins")).reverse.tail (t.int "d.ValueToBuy") [] with
    | error e =>
      exact HGood_sub' _ _ _ hchk (routeBuyCheck_noPanic hinv t.sender t.gasCoin com 0 paid hpay hcg.comPos _ _ _ _ _ hch' (hwf.ints _))
    | ok r =>
      cases r with
      | error c => exact HGood_reject _ _
      | ok x =>
        simp only
        apply HGood_ite <;> intro _
        · exact HGood_reject _ _
        apply HGood_ite <;> intro _
        · exact HGood_reject _ _
        refine HGood_pure _ _ ⟨hc, hp, fun paid' hpay' => ?_⟩
        simp only
        have hex := routeBuyExec_noPanic hinv t.sender t.gasCoin com 0 paid' hpay' hcg.comPos (t.int "d.MaximumValueToSell") t.sender
          _ _ _ _ _ (hwf.ints _) hcap hchk
        split
        · exact NoPanic_throw_of hex (by assumption)
        · exact NoPanic_pure _

end

end Minter
