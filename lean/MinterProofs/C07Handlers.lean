import MinterProofs.C07Com
/-
  C07 helper lemmas, part 3: every handler (validation half of `Data.Run`) is fault-free on states satisfying `TxInv`, and what it
  validates (`Ready`) can be executed without a fault.
-/
namespace Minter

/-- Decoded integers are never negative (RLP has no encoding for a negative `big.Int`). -/
structure TxWf (t : TxIn) : Prop where
  ints : ∀ k, 0 ≤ t.int k

/-- What a validated transaction guarantees for its deliver half. -/
structure ReadyGood (P : Params) (o : Oracle) (s : State) (price : Int) (rd : Ready) : Prop where
  com : calcCommission P o s rd.coin price = .ok (.ok rd.com)
  minOut : rd.minOut ≤ price
  exec : ∀ paid, payCommission s rd.payer rd.coin rd.com rd.minOut = .ok paid → NoPanic (rd.exec paid.adj)

/-- A handler that does not fault and whose validated result satisfies `G`. -/
def HGood (G : Ready → Prop) (h : Handler) : Prop := NoPanic h ∧ ∀ rd, h = .ok (.ok rd) → G rd

theorem HGood_reject (G : Ready → Prop) (c : Nat) : HGood G (reject c) :=
  ⟨NoPanic_pure _, fun rd h => by cases h⟩

theorem HGood_throw (G : Ready → Prop) (e : Stop) (he : ∀ w, e ≠ .panic w) : HGood G (throw e : Handler) :=
  ⟨fun w h => by cases h; exact he w rfl, fun rd h => by cases h⟩

theorem HGood_unmodelled (G : Ready → Prop) (why : String) : HGood G (throw (.unmodelled why) : Handler) :=
  HGood_throw G _ (fun w h => by cases h)

theorem HGood_pure (G : Ready → Prop) (rd : Ready) (h : G rd) : HGood G (pure (.ok rd) : Handler) :=
  ⟨NoPanic_pure _, fun rd' h' => by cases h'; exact h⟩

theorem HGood_ready (P : Params) (o : Oracle) (s : State) (price : Int) (t : TxIn) (com : Com) (body : List Move) (tags : List (String × String))
    (hp : 0 ≤ price) (hc : calcCommission P o s t.gasCoin price = .ok (.ok com)) :
    HGood (ReadyGood P o s price) (ready t com body tags) := by
  unfold ready
  exact HGood_pure _ _ ⟨hc, hp, fun paid _ => NoPanic_pure _⟩

theorem HGood_withCom {P : Params} {s : State} (hinv : TxInv P s) (o : Oracle) (G : Ready → Prop) (gas : Coin) (price : Int) (hp : 0 ≤ price)
    (k : Com → Handler)
    (hk : ∀ com, calcCommission P o s gas price = .ok (.ok com) → ComGood s gas price com → HGood G (k com)) :
    HGood G (withCom P o s gas price k) := by
  obtain ⟨hnp, hsp⟩ := calcCommission_spec hinv o gas price hp
  unfold withCom
  split
  · rename_i e he
    exact HGood_throw G e (fun w hw => by subst hw; exact hnp w he)
  · exact HGood_reject G _
  · rename_i com hc
    exact hk com hc (hsp com hc)

/-- A sub-computation that faulted without a panic. -/
theorem HGood_sub {α : Type} (G : Ready → Prop) (m : M α) (e : Stop) (hm : NoPanic m) (he : m = .error e) : HGood G (throw e : Handler) :=
  HGood_throw G e (fun w hw => by subst hw; exact hm w he)

/-- Walks through a handler: rejections, `withCom`, `ready`; splits everything else. -/
macro "hauto" hinv:term "," o:term "," hp:term : tactic =>
  `(tactic| (repeat' (first
      | exact HGood_reject _ _
      | exact HGood_unmodelled _ _
      | exact HGood_ready _ _ _ _ _ _ _ _ $hp (by assumption)
      | (apply HGood_withCom $hinv $o _ _ _ $hp; intro _ _ _)
      | split)))

section
variable {P : Params} {s : State} (hinv : TxInv P s) (o : Oracle) (t : TxIn) (price : Int) (hp : 0 ≤ price) (b : Nat)
include hinv hp

theorem runSend_good : HGood (ReadyGood P o s price) (runSend P o s t price) := by
  unfold runSend; simp only; hauto hinv, o, hp
theorem runMultisend_good : HGood (ReadyGood P o s price) (runMultisend P o s t price) := by
  unfold runMultisend; simp only; hauto hinv, o, hp
theorem runCreateCoin_good : HGood (ReadyGood P o s price) (runCreateCoin P o s t price) := by
  unfold runCreateCoin; simp only; hauto hinv, o, hp
theorem runCreateToken_good : HGood (ReadyGood P o s price) (runCreateToken P o s t price) := by
  unfold runCreateToken; simp only; hauto hinv, o, hp
theorem runRecreateCoin_good : HGood (ReadyGood P o s price) (runRecreateCoin P o s t price) := by
  unfold runRecreateCoin; simp only; hauto hinv, o, hp
theorem runRecreateToken_good : HGood (ReadyGood P o s price) (runRecreateToken P o s t price) := by
  unfold runRecreateToken; simp only; hauto hinv, o, hp
theorem runEditCoinOwner_good : HGood (ReadyGood P o s price) (runEditCoinOwner P o s t price) := by
  unfold runEditCoinOwner; simp only; hauto hinv, o, hp
theorem runMintToken_good : HGood (ReadyGood P o s price) (runMintToken P o s t price) := by
  unfold runMintToken; simp only; hauto hinv, o, hp
theorem runBurnToken_good : HGood (ReadyGood P o s price) (runBurnToken P o s t price) := by
  unfold runBurnToken; simp only; hauto hinv, o, hp
theorem runLock_good : HGood (ReadyGood P o s price) (runLock P o s b t price) := by
  unfold runLock; simp only; hauto hinv, o, hp
theorem runLockStake_good : HGood (ReadyGood P o s price) (runLockStake P o s b t price) := by
  unfold runLockStake; hauto hinv, o, hp
theorem runSetOn_good : HGood (ReadyGood P o s price) (runSetOn P o s b t price) := by
  unfold runSetOn; hauto hinv, o, hp
theorem runSetOff_good : HGood (ReadyGood P o s price) (runSetOff P o s t price) := by
  unfold runSetOff; hauto hinv, o, hp
theorem runEditCandidate_good : HGood (ReadyGood P o s price) (runEditCandidate P o s t price) := by
  unfold runEditCandidate; hauto hinv, o, hp
theorem runEditPubKey_good : HGood (ReadyGood P o s price) (runEditPubKey P o s t price) := by
  unfold runEditPubKey; simp only; hauto hinv, o, hp
theorem runEditCommission_good : HGood (ReadyGood P o s price) (runEditCommission P o s b t price) := by
  unfold runEditCommission
  dsimp only
  cases hco : candOwnership s t.sender (t.hex "d.PubKey") with
  | error c => exact HGood_reject _ _
  | ok cd =>
    dsimp only
    generalize (if cd.commission + 10 > 100 then 100 else cd.commission + 10) = maxNew
    generalize (if (cd.commission + 4294967296 - 10) % 4294967296 > 100 then 0 else (cd.commission + 4294967296 - 10) % 4294967296) = minNew
    hauto hinv, o, hp
theorem runCreateMultisig_good : HGood (ReadyGood P o s price) (runCreateMultisig P o s t price) := by
  unfold runCreateMultisig; simp only; hauto hinv, o, hp
theorem runEditMultisig_good : HGood (ReadyGood P o s price) (runEditMultisig P o s t price) := by
  unfold runEditMultisig; simp only; hauto hinv, o, hp
theorem runSetHalt_good : HGood (ReadyGood P o s price) (runSetHalt P o s b t price) := by
  unfold runSetHalt; simp only; hauto hinv, o, hp
theorem runVoteCommission_good : HGood (ReadyGood P o s price) (runVoteCommission P o s b t price) := by
  unfold runVoteCommission; simp only; hauto hinv, o, hp
theorem runVoteUpdate_good : HGood (ReadyGood P o s price) (runVoteUpdate P o s b t price) := by
  unfold runVoteUpdate; simp only; hauto hinv, o, hp
theorem runCreatePool_good : HGood (ReadyGood P o s price) (runCreatePool P o s t price) := by
  unfold runCreatePool; simp only; hauto hinv, o, hp
theorem runRemoveOrder_good : HGood (ReadyGood P o s price) (runRemoveOrder P o s b t price) := by
  unfold runRemoveOrder; simp only; hauto hinv, o, hp

end

end Minter
