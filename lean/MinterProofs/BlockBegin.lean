import MinterModel.Block
import MinterProofs.Begin
/-
  BeginBlock leaves the emission counter alone and ends with the fee pool it started the block with (zero).
  (The value side of BeginBlock is `begin_conserves`, Props/C18.lean.)
-/
namespace Minter

/-- What no phase of BeginBlock touches. -/
structure MintFrame (s s' : State) : Prop where
  emission : s'.emission = s.emission
  pool : s'.rewardsPool = s.rewardsPool

theorem MintFrame.refl (s : State) : MintFrame s s := ⟨rfl, rfl⟩

theorem MintFrame.trans {a b c : State} (h1 : MintFrame a b) (h2 : MintFrame b c) : MintFrame a c :=
  ⟨h2.emission.trans h1.emission, h2.pool.trans h1.pool⟩

theorem setAbsent_mint (P : Params) (h : Nat) (g : Bool) (a : Nat) (s s' : State) (ev : List BEvent)
    (hr : setAbsent P h g a s = .ok (s', ev)) : MintFrame s s' := by
  unfold setAbsent at hr
  cases hv : findFirst (valByTm a) s.validators with
  | none => simp only [hv] at hr; cases hr; exact MintFrame.refl _
  | some v =>
    simp only [hv] at hr
    by_cases hc : crossedAbsent h v = true
    · simp only [hc, if_true] at hr
      cases hcd : findFirst (candByPub v.pubkey) s.candidates with
      | none => simp only [hcd] at hr; cases hr
      | some c => simp only [hcd] at hr; cases hr; exact ⟨rfl, rfl⟩
    · simp only [hc] at hr
      cases hr
      exact ⟨rfl, rfl⟩

theorem absencePhase_mint (P : Params) (h : Nat) (g : Bool) (vs : List (Nat × Bool)) (s s' : State) (ev : List BEvent)
    (hr : absencePhase P h g vs s = .ok (s', ev)) : MintFrame s s' := by
  induction vs generalizing s ev with
  | nil => simp only [absencePhase] at hr; cases hr; exact MintFrame.refl _
  | cons x t ih =>
    obtain ⟨a, b⟩ := x
    cases b with
    | true =>
      simp only [absencePhase] at hr
      exact (⟨rfl, rfl⟩ : MintFrame s (setPresent h a s)).trans (ih _ _ hr)
    | false =>
      simp only [absencePhase] at hr
      split at hr
      · cases hr
      · next s1 e1 h1 =>
        split at hr
        · cases hr
        · next s2 e2 h2 =>
          cases hr
          exact (setAbsent_mint P h g a s s1 e1 h1).trans (ih _ _ h2)

theorem byzStep_mint (P : Params) (o : Oracle) (h a : Nat) (s s' : State) (ev : List BEvent)
    (hr : byzStep P o h a s = .ok (s', ev)) : MintFrame s s' := by
  cases ht : byzTarget a s with
  | none => rw [byzStep_skip P o h a s ht] at hr; cases hr; exact MintFrame.refl _
  | some vc =>
    obtain ⟨v, c⟩ := vc
    simp only [byzStep, ht] at hr
    cases h1 : punishFrozen o h (h + P.unbond) c.id s.frozen ⟨s.coins, s.slashed⟩ with
    | error e => simp only [h1] at hr; cases hr
    | ok r =>
      obtain ⟨fr, p1, ev1⟩ := r
      simp only [h1] at hr
      cases h2 : punishStakes o c.stakes p1 with
      | error e => simp only [h2] at hr; cases hr
      | ok p2 => simp only [h2] at hr; cases hr; exact ⟨rfl, rfl⟩

theorem byzPhase_mint (P : Params) (o : Oracle) (h : Nat) (l : List Nat) (s s' : State) (ev : List BEvent)
    (hr : byzPhase P o h l s = .ok (s', ev)) : MintFrame s s' := by
  induction l generalizing s ev with
  | nil => simp only [byzPhase] at hr; cases hr; exact MintFrame.refl _
  | cons a t ih =>
    simp only [byzPhase] at hr
    cases h1 : byzStep P o h a s with
    | error e => simp only [h1] at hr; cases hr
    | ok r1 =>
      obtain ⟨s1, e1⟩ := r1
      simp only [h1] at hr
      cases h2 : byzPhase P o h t s1 with
      | error e => simp only [h2] at hr; cases hr
      | ok r2 =>
        obtain ⟨s2, e2⟩ := r2
        simp only [h2] at hr
        cases hr
        exact (byzStep_mint P o h a s s1 e1 h1).trans (ih _ _ h2)

theorem matureOne_mint (u h : Nat) (f : Frozen) (s s' : State) (e : List BEvent) (hr : matureOne u h f s = .ok (s', e)) :
    MintFrame s s' := by
  unfold matureOne at hr
  split at hr
  · cases hr; exact ⟨rfl, rfl⟩
  · split at hr
    · cases hr; exact ⟨rfl, rfl⟩
    · split at hr
      · cases hr
      · cases hr; exact ⟨rfl, rfl⟩

theorem matureAll_mint (u h : Nat) (l : List Frozen) (s s' : State) (ev : List BEvent) (hr : matureAll u h l s = .ok (s', ev)) :
    MintFrame s s' := by
  induction l generalizing s ev with
  | nil => simp only [matureAll] at hr; cases hr; exact MintFrame.refl _
  | cons f t ih =>
    simp only [matureAll] at hr
    cases h1 : matureOne u h f s with
    | error e => simp only [h1] at hr; cases hr
    | ok r1 =>
      obtain ⟨s1, e1⟩ := r1
      simp only [h1] at hr
      cases h2 : matureAll u h t s1 with
      | error e => simp only [h2] at hr; cases hr
      | ok r2 =>
        obtain ⟨s2, e2⟩ := r2
        simp only [h2] at hr
        cases hr
        exact (matureOne_mint u h f s s1 e1 h1).trans (ih _ _ h2)

theorem maturityPhase_mint (u h : Nat) (s s' : State) (ev : List BEvent) (hr : maturityPhase u h s = .ok (s', ev)) :
    MintFrame s s' := by
  simp only [maturityPhase] at hr
  cases h1 : matureAll u h (s.frozen.filter (dueAt h)) s with
  | error e => simp only [h1] at hr; cases hr
  | ok r1 =>
    obtain ⟨s1, e1⟩ := r1
    simp only [h1] at hr
    cases hr
    exact (matureAll_mint _ _ _ _ _ _ h1).trans ⟨rfl, rfl⟩

/-- **BeginBlock mints nothing**: the emission counter is untouched and the fee pool of the new block is empty. -/
theorem beginBlock_mint (P : Params) (o : Oracle) (s s' : State) (r : BeginReq) (grace : Bool) (ev : List BEvent)
    (hr : beginBlock P o s r grace = .ok (s', ev)) : s'.emission = s.emission ∧ s'.rewardsPool = 0 := by
  simp only [beginBlock] at hr
  cases hA : absencePhase P r.height grace r.votes { s with rewardsPool := 0 } with
  | error e => simp only [hA] at hr; cases hr
  | ok rA =>
    obtain ⟨sA, evA⟩ := rA
    simp only [hA] at hr
    cases hB : byzPhase P o r.height r.byz sA with
    | error e => simp only [hB] at hr; cases hr
    | ok rB =>
      obtain ⟨sB, evB⟩ := rB
      simp only [hB] at hr
      cases hC : maturityPhase P.unbond r.height sB with
      | error e => simp only [hC] at hr; cases hr
      | ok rC =>
        obtain ⟨sC, evC⟩ := rC
        simp only [hC] at hr
        cases hr
        have f := ((absencePhase_mint _ _ _ _ _ _ _ hA).trans (byzPhase_mint _ _ _ _ _ _ _ hB)).trans
          (maturityPhase_mint _ _ _ _ _ hC)
        exact ⟨f.emission, f.pool⟩

end Minter
