import MinterProofs.AmountsValue2
import Mathlib.Tactic.Linarith
/-
  C02: AddLimitOrder (35), RemoveLimitOrder (36), CreateSwapPool (34) — every commission route.
-/
namespace Minter

theorem planSafe_snoc_admin (s : State) (ps : List Prim) (p : Prim) (hp : p.isAdmin = true) (h : PlanSafe s ps) : PlanSafe s (ps ++ [p]) := by
  rw [planSafe_append]
  exact ⟨h, admin_prim_safe _ p hp, trivial⟩

theorem planOf_pair_admin (m : Move) (p : Prim) (hp : p.isAdmin = true) : planOf [m, Move.admin p] = m.prims ++ [p] := by
  simp [planOf, Move.prims, hp]

/-! ### AddLimitOrder (35) -/

theorem addOrder_typed (P : Params) (o : Oracle) (s : State) (block : Nat) (t : TxIn) (price : Int) (rd : Ready) (hP : 0 ≤ P.minOrderVolume)
    (h : runAddOrder P o s block t price = .ok (.ok rd)) : Checked P o s price rd ∧ BodySafe s rd := by
  unfold runAddOrder at h
  peel h
  all_goals (obtain ⟨com, hcom, hk⟩ := withCom_ready _ _ _ _ _ _ _ h; peel hk)
  all_goals (
    have hf : com.commission ≤ balanceOf s t.sender t.gasCoin ∧
        t.int "d.ValueToSell" + (if t.nat "d.CoinToSell" = t.gasCoin then com.commission else 0) ≤ balanceOf s t.sender (t.nat "d.CoinToSell") ∧
        0 ≤ t.int "d.ValueToSell" ∧ 0 ≤ t.int "d.ValueToBuy" := by
      norm_checks
      refine ⟨?_, ?_, ?_, ?_⟩ <;> funds_omega (t.nat "d.CoinToSell"), t.gasCoin
    obtain ⟨hck, _⟩ := ready_checked P o s price t com _ _ rd hcom hf.1 hk
    refine ⟨hck, bodySafe_ready s t com _ _ rd hk ?_⟩
    intro s1 adj hfr hok1
    rw [planOf_pair_admin _ _ rfl]
    apply planSafe_snoc_admin _ _ _ rfl
    have hb := spend_after_fee s s1 t.sender t.gasCoin _ com adj _ hfr hf.2.1
    first
      | exact orderAdd_safe s1 _ _ hf.2.2.2 hf.2.2.1 hb
      | exact orderAdd_safe s1 _ _ hf.2.2.1 hf.2.2.2 hb)

/-! ### RemoveLimitOrder (36) -/

theorem removeOrder_typed (P : Params) (o : Oracle) (s : State) (block : Nat) (t : TxIn) (price : Int) (rd : Ready) (hok : AmountsOk s)
    (h : runRemoveOrder P o s block t price = .ok (.ok rd)) : Checked P o s price rd ∧ BodySafe s rd := by
  unfold runRemoveOrder at h
  peel h
  all_goals (obtain ⟨com, hcom, hk⟩ := withCom_ready _ _ _ _ _ _ _ h; peel hk)
  all_goals (
    rename_i ord hord _ _
    have hf : com.commission ≤ balanceOf s t.sender t.gasCoin := by norm_checks; omega
    obtain ⟨hck, _⟩ := ready_checked P o s price t com _ _ rd hcom hf hk
    refine ⟨hck, bodySafe_ready s t com _ _ rd hk ?_⟩
    intro s1 adj hfr hok1
    rw [planOf_single]
    have hv := hok.orders ord (findFirst_mem _ _ _ hord).1
    apply orderRemove_safe s1 hok1
    unfold Order.escrowValue
    split <;> omega)

/-! ### CreateSwapPool (34) -/

theorem startingSupply_pos (a b : Int) (h : 0 < startingSupply a b) : 0 < a * b := by
  unfold startingSupply at h
  by_contra hc
  have : (a * b).toNat = 0 := by omega
  rw [this] at h
  simp at h

theorem pos_of_mul_pos (a b : Int) (ha : 0 ≤ a) (hb : 0 ≤ b) (h : 0 < a * b) : 0 < a ∧ 0 < b := by
  constructor
  · by_contra hc
    have : a = 0 := by omega
    rw [this] at h; simp at h
  · by_contra hc
    have : b = 0 := by omega
    rw [this] at h; simp at h

/-- A new pool: both deposits are positive and covered, the pool token's supply is within its maximum. -/
theorem poolCreate_safe (s : State) (hok : AmountsOk s) (a : Addr) (p : Pool) (lp : CoinInfo)
    (h0 : 0 < p.r0) (h1 : 0 < p.r1) (hne : p.c0 ≠ p.c1) (hb0 : p.r0 ≤ balanceOf s a p.c0) (hb1 : p.r1 ≤ balanceOf s a p.c1)
    (hl : minLiquidity ≤ lp.volume) (hmax : lp.volume ≤ lp.maxSupply) (hr : lp.reserve = 0) :
    PlanSafe s (Move.poolCreate a p lp).prims := by
  have hm : minLiquidity = 1000 := rfl
  obtain ⟨c0, c1, pid, r0, r1⟩ := p
  obtain ⟨lid, lsym, lver, lvol, lres, lcrr, lmax, lown, lmint, lburn⟩ := lp
  simp only at h0 h1 hne hb0 hb1 hl hmax hr
  have := hok.balances a lid
  have := hok.balances 0 lid
  have := hok.balances a c0
  have := hok.balances a c1
  simp only [Move.prims]
  split
  · trivial
  · simp only [PlanSafe, PrimSafe, apply_balance', Prim.balDelta', and_true]
    refine ⟨⟨h0, h1⟩, by omega, ?_, ⟨by omega, by omega, hmax⟩, ?_, ?_⟩ <;> bal_omega

theorem createPool_typed (P : Params) (o : Oracle) (s : State) (t : TxIn) (price : Int) (rd : Ready)
    (hv0 : 0 ≤ t.int "d.Volume0") (hv1 : 0 ≤ t.int "d.Volume1")
    (hmax : startingSupply (t.int "d.Volume0") (t.int "d.Volume1") ≤ P.maxSupply)
    (h : runCreatePool P o s t price = .ok (.ok rd)) : Checked P o s price rd ∧ BodySafe s rd := by
  unfold runCreatePool at h
  peel h
  all_goals (obtain ⟨com, hcom, hk⟩ := withCom_ready _ _ _ _ _ _ _ h; peel hk)
  all_goals (
    have hm : minLiquidity = 1000 := rfl
    have hf : com.commission ≤ balanceOf s t.sender t.gasCoin ∧
        t.int "d.Volume0" + (if t.nat "d.Coin0" = t.gasCoin then com.commission else 0) ≤ balanceOf s t.sender (t.nat "d.Coin0") ∧
        t.int "d.Volume1" + (if t.nat "d.Coin1" = t.gasCoin then com.commission else 0) ≤ balanceOf s t.sender (t.nat "d.Coin1") ∧
        minLiquidity ≤ startingSupply (t.int "d.Volume0") (t.int "d.Volume1") ∧ t.nat "d.Coin0" ≠ t.nat "d.Coin1" := by
      norm_checks
      refine ⟨?_, ?_, ?_, ?_, ?_⟩
      · omega
      · funds_omega (t.nat "d.Coin0"), t.gasCoin
      · funds_omega (t.nat "d.Coin1"), t.gasCoin
      · omega
      · assumption
    obtain ⟨hck, _⟩ := ready_checked P o s price t com _ _ rd hcom hf.1 hk
    refine ⟨hck, bodySafe_ready s t com _ _ rd hk ?_⟩
    intro s1 adj hfr hok1
    rw [planOf_single]
    have hpos := pos_of_mul_pos _ _ hv0 hv1 (startingSupply_pos _ _ (by omega))
    have hb0 := spend_after_fee s s1 t.sender t.gasCoin _ com adj _ hfr hf.2.1
    have hb1 := spend_after_fee s s1 t.sender t.gasCoin _ com adj _ hfr hf.2.2.1
    have hne := hf.2.2.2.2
    unfold sorted2
    split
    · exact poolCreate_safe s1 hok1 _ _ _ hpos.1 hpos.2 hne hb0 hb1 hf.2.2.2.1 hmax rfl
    · exact poolCreate_safe s1 hok1 _ _ _ hpos.2 hpos.1 (fun e => hne e.symm) hb1 hb0 hf.2.2.2.1 hmax rfl)

end Minter
