import MinterModel.Genesis
import MinterProofs.Ledger
/-
  Helper lemmas for C11 (MinterProofs/Props/C11.lean): the check list of `verifyState`, the volume sum of `Verify()` against
  `holdings`, insertion sort on sorted input.
-/
namespace Minter
namespace Genesis

/-! ### `firstFail` / `verifyState` -/

theorem firstFail_none_iff (l : List Check) : firstFail l = none ↔ ∀ c ∈ l, c.2 = true := by
  induction l with
  | nil => simp [firstFail]
  | cons c t ih =>
    obtain ⟨n, ok⟩ := c
    cases ok <;> simp [firstFail, ih]

theorem firstFail_some (l : List Check) (n : String) (h : firstFail l = some n) : ∃ c ∈ l, c.1 = n ∧ c.2 = false := by
  induction l with
  | nil => simp [firstFail] at h
  | cons c t ih =>
    obtain ⟨m, ok⟩ := c
    cases ok
    · simp only [firstFail, Bool.false_eq_true, if_false, Option.some.injEq] at h
      exact ⟨(m, false), List.mem_cons_self, h, rfl⟩
    · simp only [firstFail, if_true] at h
      obtain ⟨c, hc, h1, h2⟩ := ih h
      exact ⟨c, List.mem_cons_of_mem _ hc, h1, h2⟩

/-- The validator accepts exactly when every check of the list holds. -/
theorem verifyState_ok_iff (base : String) (s : State) :
    verifyState base s = .ok () ↔ ∀ c ∈ allChecks base s, c.2 = true := by
  unfold verifyState
  rw [← firstFail_none_iff]
  split
  · next h => simp [h]
  · next n h => simp [h]

/-- A rejection names a check of the list that fails. -/
theorem verifyState_error (base : String) (s : State) (n : String) (h : verifyState base s = .error n) :
    ∃ c ∈ allChecks base s, c.1 = n ∧ c.2 = false := by
  unfold verifyState at h
  split at h
  · cases h
  · next m hm =>
    cases h
    exact firstFail_some _ _ hm

/-! ### The "seen" recursions -/

theorem not_contains_of_not_mem {α : Type} [BEq α] [LawfulBEq α] (l : List α) (x : α) (h : x ∉ l) : (!l.contains x) = true := by
  simp [h]

theorem valChecks_ok (s : State) (vs : List Validator) (seen : List Nat)
    (hd : ∀ v ∈ vs, v.pubkey ∉ seen) (hn : (vs.map (·.pubkey)).Nodup)
    (hc : ∀ v ∈ vs, s.candidates.any (fun c => c.pubkey == v.pubkey) = true)
    (ht : ∀ v ∈ vs, 0 ≤ v.totalBip) (ha : ∀ v ∈ vs, 0 ≤ v.accum) :
    ∀ c ∈ valChecks s seen vs, c.2 = true := by
  induction vs generalizing seen with
  | nil => simp [valChecks]
  | cons v t ih =>
    intro c hm
    simp only [valChecks, List.mem_cons] at hm
    have hv : v ∈ v :: t := List.mem_cons_self
    rcases hm with rfl | rfl | rfl | rfl | hm
    · exact not_contains_of_not_mem _ _ (hd v hv)
    · exact hc v hv
    · simpa using ht v hv
    · simpa using ha v hv
    · simp only [List.map_cons, List.nodup_cons] at hn
      refine ih (v.pubkey :: seen) ?_ hn.2 (fun w hw => hc w (List.mem_cons_of_mem _ hw))
        (fun w hw => ht w (List.mem_cons_of_mem _ hw)) (fun w hw => ha w (List.mem_cons_of_mem _ hw)) c hm
      intro w hw hmem
      rcases List.mem_cons.mp hmem with e | e
      · exact hn.1 (e ▸ List.mem_map.mpr ⟨w, hw, rfl⟩)
      · exact hd w (List.mem_cons_of_mem _ hw) e

theorem accountChecks_ok (l : List (Nat × Nat)) (seen : List Nat)
    (hd : ∀ a ∈ l, a.1 ∉ seen) (hn : (l.map (·.1)).Nodup) :
    ∀ c ∈ accountChecks seen l, c.2 = true := by
  induction l generalizing seen with
  | nil => simp [accountChecks]
  | cons a t ih =>
    intro c hm
    simp only [accountChecks, List.mem_cons] at hm
    rcases hm with rfl | hm
    · exact not_contains_of_not_mem _ _ (hd a List.mem_cons_self)
    · simp only [List.map_cons, List.nodup_cons] at hn
      refine ih (a.1 :: seen) ?_ hn.2 c hm
      intro w hw hmem
      rcases List.mem_cons.mp hmem with e | e
      · exact hn.1 (e ▸ List.mem_map.mpr ⟨w, hw, rfl⟩)
      · exact hd w (List.mem_cons_of_mem _ hw) e

theorem stakeChecks_ok (s : State) (l : List Stake) (seen : List (Nat × Nat))
    (hd : ∀ st ∈ l, (st.owner, st.coin) ∉ seen) (hn : (l.map (fun st => (st.owner, st.coin))).Nodup)
    (hc : ∀ st ∈ l, coinExists s st.coin = true) :
    ∀ c ∈ stakeChecks s seen l, c.2 = true := by
  induction l generalizing seen with
  | nil => simp [stakeChecks]
  | cons a t ih =>
    intro c hm
    simp only [stakeChecks, List.mem_cons] at hm
    rcases hm with rfl | rfl | hm
    · exact not_contains_of_not_mem _ _ (hd a List.mem_cons_self)
    · exact hc a List.mem_cons_self
    · simp only [List.map_cons, List.nodup_cons] at hn
      refine ih ((a.owner, a.coin) :: seen) ?_ hn.2 (fun w hw => hc w (List.mem_cons_of_mem _ hw)) c hm
      intro w hw hmem
      rcases List.mem_cons.mp hmem with e | e
      · exact hn.1 (e ▸ List.mem_map.mpr ⟨w, hw, rfl⟩)
      · exact hd w (List.mem_cons_of_mem _ hw) e

theorem coinChecks_ok (base : String) (s : State) (l : List CoinInfo) (seen : List Nat)
    (hd : ∀ ci ∈ l, ci.id ∉ seen) (hn : (l.map (·.id)).Nodup)
    (hb : ∀ ci ∈ l, ci.symbol ≠ base)
    (hv : ∀ ci ∈ l, goVolume s ci = ci.volume) :
    ∀ c ∈ coinChecks base s seen l, c.2 = true := by
  induction l generalizing seen with
  | nil => simp [coinChecks]
  | cons a t ih =>
    intro c hm
    simp only [coinChecks, List.mem_cons] at hm
    rcases hm with rfl | rfl | rfl | hm
    · simpa using hb a List.mem_cons_self
    · exact not_contains_of_not_mem _ _ (hd a List.mem_cons_self)
    · simpa using hv a List.mem_cons_self
    · simp only [List.map_cons, List.nodup_cons] at hn
      refine ih (a.id :: seen) ?_ hn.2 (fun w hw => hb w (List.mem_cons_of_mem _ hw)) (fun w hw => hv w (List.mem_cons_of_mem _ hw)) c hm
      intro w hw hmem
      rcases List.mem_cons.mp hmem with e | e
      · exact hn.1 (e ▸ List.mem_map.mpr ⟨w, hw, rfl⟩)
      · exact hd w (List.mem_cons_of_mem _ hw) e

/-- Conversely: every volume comparison is one of the checks (so an accepted genesis has `goVolume = volume` for every coin). -/
theorem coinChecks_volume (base : String) (s : State) (l : List CoinInfo) (seen : List Nat) (ci : CoinInfo) (h : ci ∈ l) :
    (volumeName ci, decide (goVolume s ci = ci.volume)) ∈ coinChecks base s seen l := by
  induction l generalizing seen with
  | nil => cases h
  | cons a t ih =>
    simp only [coinChecks, List.mem_cons]
    rcases List.mem_cons.mp h with e | e
    · subst e; right; right; left; rfl
    · right; right; right; exact ih _ e

/-! ### Volumes -/

theorem sumBy_zero {α : Type} (f : α → Int) (l : List α) (h : ∀ x ∈ l, f x = 0) : sumBy f l = 0 := by
  induction l with
  | nil => rfl
  | cons x t ih =>
    simp only [sumBy, h x List.mem_cons_self, ih (fun y hy => h y (List.mem_cons_of_mem _ hy))]
    rfl

/-- With distinct ids the recorded volume of an id is the volume of its registry entry. -/
theorem volumeOf_unique (l : List CoinInfo) (ci : CoinInfo) (hm : ci ∈ l) (hn : (l.map (·.id)).Nodup) :
    sumBy (fun x => if x.id = ci.id then x.volume else 0) l = ci.volume := by
  induction l with
  | nil => cases hm
  | cons x t ih =>
    simp only [List.map_cons, List.nodup_cons] at hn
    simp only [sumBy]
    rcases List.mem_cons.mp hm with e | e
    · subst e
      have : sumBy (fun x => if x.id = ci.id then x.volume else 0) t = 0 := by
        apply sumBy_zero
        intro y hy
        have : y.id ≠ ci.id := fun e => hn.1 (e ▸ List.mem_map.mpr ⟨y, hy, rfl⟩)
        simp [this]
      simp [this]
    · have hne : x.id ≠ ci.id := fun e' => hn.1 (e' ▸ List.mem_map.mpr ⟨ci, e, rfl⟩)
      rw [ih e hn.2]
      simp [hne]

theorem stakes_zero (c : Nat) (l : List Stake) (h : ∀ st ∈ l, st.coin ≠ c) : sumBy (stakeOf c) l = 0 := by
  apply sumBy_zero
  intro st hst
  simp [stakeOf, h st hst]

/-- A token nobody stakes has no stake, update or waitlist holdings. -/
theorem unstaked_zero (s : State) (ci : CoinInfo) (hm : ci ∈ s.coins) (h0 : ci.crr = 0) (ht : tokensUnstaked s = true) :
    sumBy (candHoldings ci.id) s.candidates = 0 ∧ sumBy (fun w => if w.coin = ci.id then w.value else 0) s.waitlist = 0 := by
  unfold tokensUnstaked at ht
  rw [List.all_eq_true] at ht
  have h := ht ci hm
  simp only [h0, bne_self_eq_false, Bool.false_or, Bool.and_eq_true, List.all_eq_true, bne_iff_ne, ne_eq] at h
  constructor
  · apply sumBy_zero
    intro cd hcd
    have hs := h.1 cd hcd
    unfold stakeCoins at hs
    have h1 : sumBy (stakeOf ci.id) cd.stakes = 0 :=
      stakes_zero _ _ (fun st hst => hs st.coin (List.mem_append_left _ (List.mem_map.mpr ⟨st, hst, rfl⟩)))
    have h2 : sumBy (stakeOf ci.id) cd.updates = 0 :=
      stakes_zero _ _ (fun st hst => hs st.coin (List.mem_append_right _ (List.mem_map.mpr ⟨st, hst, rfl⟩)))
    simp [candHoldings, h1, h2]
  · apply sumBy_zero
    intro w hw
    simp [h.2 w hw]

/-- The sum `Verify()` builds is the coin's holdings: always for a coin with reserve, for a token when nobody stakes it. -/
theorem goVolume_eq_holdings (s : State) (ci : CoinInfo) (hm : ci ∈ s.coins) (ht : tokensUnstaked s = true) :
    goVolume s ci = holdings s ci.id := by
  unfold goVolume holdings
  by_cases h0 : ci.crr = 0
  · obtain ⟨h1, h2⟩ := unstaked_zero s ci hm h0 ht
    simp only [h0, if_true]
    omega
  · simp only [h0, if_false]
    omega

/-! ### `amountsOk` unpacked -/

theorem bag_nonneg_mem {κ : Type} [DecidableEq κ] (m : Bag κ) (h : Bag.nonneg m = true) : ∀ e ∈ m, 0 ≤ e.2 := by
  induction m with
  | nil => intro e he; cases he
  | cons x t ih =>
    obtain ⟨k, v⟩ := x
    simp only [Bag.nonneg, Bool.and_eq_true, decide_eq_true_eq] at h
    intro e he
    rcases List.mem_cons.mp he with rfl | he
    · exact h.1
    · exact ih h.2 e he

/-! ### Insertion sort on sorted input, lengths -/

theorem insertSorted_length {α : Type} (lt : α → α → Bool) (x : α) (l : List α) : (insertSorted lt x l).length = l.length + 1 := by
  induction l with
  | nil => rfl
  | cons y t ih =>
    simp only [insertSorted]
    split
    · rfl
    · simp [ih]

theorem sortBy_length {α : Type} (lt : α → α → Bool) (l : List α) : (sortBy lt l).length = l.length := by
  unfold sortBy
  suffices h : ∀ acc : List α, (l.foldl (fun acc x => insertSorted lt x acc) acc).length = acc.length + l.length by
    simpa using h []
  induction l with
  | nil => intro acc; rfl
  | cons x t ih =>
    intro acc
    simp only [List.foldl_cons, ih, insertSorted_length, List.length_cons]
    omega

theorem sortBy_eq_nil {α : Type} (lt : α → α → Bool) (l : List α) : sortBy lt l = [] ↔ l = [] := by
  rw [← List.length_eq_zero_iff, sortBy_length, List.length_eq_zero_iff]

theorem insertSorted_last {α : Type} (lt : α → α → Bool) (x : α) (l : List α) (h : ∀ y ∈ l, lt x y = false) :
    insertSorted lt x l = l ++ [x] := by
  induction l with
  | nil => rfl
  | cons y t ih =>
    simp only [insertSorted, h y List.mem_cons_self, Bool.false_eq_true, if_false, List.cons_append]
    rw [ih (fun z hz => h z (List.mem_cons_of_mem _ hz))]

/-- Insertion sort leaves a list alone in which no element is `lt` an earlier one (a sorted list). -/
theorem sortBy_sorted {α : Type} (lt : α → α → Bool) (l : List α) (h : l.Pairwise (fun a b => lt b a = false)) : sortBy lt l = l := by
  unfold sortBy
  suffices hs : ∀ acc : List α, (∀ a ∈ acc, ∀ b ∈ l, lt b a = false) →
      l.foldl (fun acc x => insertSorted lt x acc) acc = acc ++ l by
    simpa using hs [] (by intro a ha; cases ha)
  induction l with
  | nil => intro acc _; simp
  | cons x t ih =>
    intro acc hacc
    rw [List.pairwise_cons] at h
    simp only [List.foldl_cons]
    rw [insertSorted_last lt x acc (fun y hy => hacc y hy x List.mem_cons_self)]
    rw [ih h.2 (acc ++ [x])]
    · simp
    · intro a ha b hb
      rcases List.mem_append.mp ha with ha | ha
      · exact hacc a ha b (List.mem_cons_of_mem _ hb)
      · rw [List.mem_singleton] at ha
        subst ha
        exact h.1 b hb

/-! ### `nodupB` -/

theorem nodupB_iff {α : Type} [BEq α] [LawfulBEq α] (l : List α) : nodupB l = true ↔ l.Nodup := by
  induction l with
  | nil => simp [nodupB]
  | cons x t ih => simp [nodupB, ih]

theorem wellFormed_ok_iff (s : State) : wellFormed s = .ok () ↔ ∀ c ∈ exportInvariants s, c.2 = true := by
  unfold wellFormed
  rw [← firstFail_none_iff]
  split
  · next h => simp [h]
  · next n h => simp [h]

end Genesis
end Minter
