import MinterProofs.AmountsRouteBuy
/-
  C02, routes: the handlers' duplicate-pool check (code 710) makes the pools of a route pairwise distinct (`RouteDistinct`):
  the same pair of coins has the same pool id, and the validation loops refuse an id they have seen.
-/
namespace Minter

theorem poolId_flip (s : State) (hs : PoolsSorted s) (a b : Coin) : poolId s a b = poolId s b a := by
  unfold poolId
  cases h1 : getPool s a b with
  | none =>
    cases h2 : getPool s b a with
    | none => simp only
    | some q => simp only
  | some p =>
    cases h2 : getPool s b a with
    | none => simp only
    | some q =>
      have hp := getPool_key s a b p h1
      have hq := getPool_key s b a q h2
      have l1 := hs p hp.2.2
      have l2 := hs q hq.2.2
      omega

theorem samePair_poolId (s : State) (hs : PoolsSorted s) (p q : Coin × Coin) (h : samePair p q) :
    poolId s p.1 p.2 = poolId s q.1 q.2 := by
  rcases h with ⟨h1, h2⟩ | ⟨h1, h2⟩
  · rw [h1, h2]
  · rw [h1, h2]; exact poolId_flip s hs _ _

/-- Distinct pool ids along the route ⇒ no pool crossed twice. -/
theorem routeDistinct_of_ids (s : State) (hs : PoolsSorted s) (a : Coin) (rest : List Coin)
    (h : ((pairsOf a rest).map fun pr => poolId s pr.1 pr.2).Nodup) : RouteDistinct a rest := by
  unfold RouteDistinct
  rw [List.Nodup, List.pairwise_map] at h
  exact h.imp (fun hne hsp => hne (samePair_poolId s hs _ _ hsp))

theorem routeDistinct_of_ids_rev (s : State) (hs : PoolsSorted s) (a : Coin) (rest : List Coin)
    (h : ((pairsOf a rest).map fun pr => poolId s pr.2 pr.1).Nodup) : RouteDistinct a rest := by
  unfold RouteDistinct
  rw [List.Nodup, List.pairwise_map] at h
  refine h.imp (fun hne hsp => hne ?_)
  rename_i p q
  have := samePair_poolId s hs p q hsp
  rw [poolId_flip s hs p.2 p.1, poolId_flip s hs q.2 q.1]; exact this

/-- A sell route that passed validation crossed pools with pairwise distinct ids, none of them in `used`. -/
theorem routeSellCheck_ids (s : State) (gas : Coin) (com : Com) (minBuy : Int) :
    ∀ (rest : List Coin) (a : Coin) (value : Int) (used : List Nat) (x : Int),
      routeSellCheck s gas com minBuy a rest value used = .ok (.ok x) →
      ((pairsOf a rest).map fun pr => poolId s pr.1 pr.2).Nodup ∧ ∀ i ∈ used, i ∉ (pairsOf a rest).map fun pr => poolId s pr.1 pr.2 := by
  intro rest
  induction rest with
  | nil => intro a value used x _; simp [pairsOf]
  | cons b t ih =>
    intro a value used x h
    unfold routeSellCheck at h
    simp only at h
    split at h
    · cases h
    · next hused =>
      split at h
      · cases h
      · split at h
        · cases h
        · split at h
          · cases h
          · cases h
          · split at h
            · cases h
            · obtain ⟨hnd, hnot⟩ := ih b _ _ _ h
              have hu : poolId s a b ∉ used := by simpa using hused
              simp only [pairsOf, List.map_cons, List.nodup_cons, List.mem_cons, not_or]
              refine ⟨⟨hnot _ (List.mem_cons_self ..), hnd⟩, ?_⟩
              intro i hi
              exact ⟨fun e => hu (e ▸ hi), hnot i (List.mem_cons_of_mem _ hi)⟩

theorem routeBuyCheck_ids (P : Params) (s : State) (gas : Coin) (com : Com) (maxSell : Int) :
    ∀ (rest : List Coin) (b : Coin) (want : Int) (used : List Nat) (x : Int),
      routeBuyCheck P s gas com maxSell b rest want used = .ok (.ok x) →
      ((pairsOf b rest).map fun pr => poolId s pr.2 pr.1).Nodup ∧ ∀ i ∈ used, i ∉ (pairsOf b rest).map fun pr => poolId s pr.2 pr.1 := by
  intro rest
  induction rest with
  | nil => intro b want used x _; simp [pairsOf]
  | cons a t ih =>
    intro b want used x h
    unfold routeBuyCheck at h
    simp only at h
    split at h
    · cases h
    · next hused =>
      split at h
      · cases h
      · split at h
        · cases h
        · split at h
          · cases h
          · cases h
          · split at h
            · cases h
            · obtain ⟨hnd, hnot⟩ := ih a _ _ _ h
              have hu : poolId s a b ∉ used := by simpa using hused
              simp only [pairsOf, List.map_cons, List.nodup_cons, List.mem_cons, not_or]
              refine ⟨⟨hnot _ (List.mem_cons_self ..), hnd⟩, ?_⟩
              intro i hi
              exact ⟨fun e => hu (e ▸ hi), hnot i (List.mem_cons_of_mem _ hi)⟩

end Minter
