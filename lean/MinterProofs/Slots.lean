import MinterProofs.Validators
/-
  The scan of `recalculateStakes` over the 1000 delegation slots (`findSlot`) and the replacement step.
-/
namespace Minter

/-- A free slot after `pre` occupied ones is always chosen, with `smallestStake = 0`. -/
theorem findSlotAux_free (pre : List Stake) (rest : Slots) (i : Nat) (best : Option (Nat × Int)) :
    findSlotAux (pre.map some ++ none :: rest) i best = some (i + pre.length, 0) := by
  induction pre generalizing i best with
  | nil => cases best <;> simp [findSlotAux]
  | cons s t ih =>
    cases best with
    | none =>
      simp only [List.map_cons, List.cons_append, findSlotAux, List.length_cons]
      rw [ih]; congr 2; omega
    | some b =>
      obtain ⟨j, m⟩ := b
      simp only [List.map_cons, List.cons_append, findSlotAux, List.length_cons]
      split <;> (rw [ih]; congr 2; omega)

/-- The index answered lies inside the array (or is the running best). -/
theorem findSlotAux_range (slots : Slots) (i : Nat) (best : Option (Nat × Int)) (j : Nat) (m : Int)
    (h : findSlotAux slots i best = some (j, m)) : best = some (j, m) ∨ (i ≤ j ∧ j < i + slots.length) := by
  induction slots generalizing i best with
  | nil => left; simpa [findSlotAux] using h
  | cons o t ih =>
    cases o with
    | none =>
      simp only [findSlotAux, Option.some.injEq, Prod.mk.injEq] at h
      right; simp only [List.length_cons]; omega
    | some s =>
      cases best with
      | none =>
        simp only [findSlotAux] at h
        right
        rcases ih _ _ h with h' | h'
        · simp only [Option.some.injEq, Prod.mk.injEq] at h'; simp only [List.length_cons]; omega
        · simp only [List.length_cons]; omega
      | some b =>
        obtain ⟨bj, bm⟩ := b
        simp only [findSlotAux] at h
        split at h
        · right
          rcases ih _ _ h with h' | h'
          · simp only [Option.some.injEq, Prod.mk.injEq] at h'; simp only [List.length_cons]; omega
          · simp only [List.length_cons]; omega
        · rcases ih _ _ h with h' | h'
          · left; exact h'
          · right; simp only [List.length_cons]; omega

theorem findSlotAux_some (slots : Slots) (i : Nat) (b : Nat × Int) : ∃ r, findSlotAux slots i (some b) = some r := by
  induction slots generalizing i b with
  | nil => exact ⟨b, by simp [findSlotAux]⟩
  | cons o t ih =>
    obtain ⟨bj, bm⟩ := b
    cases o with
    | none => exact ⟨(i, 0), by simp [findSlotAux]⟩
    | some s =>
      simp only [findSlotAux]
      split
      · exact ih _ _
      · exact ih _ _

/-- Only an array without slots has no answer (the node's array has 1000). -/
theorem findSlot_some (slots : Slots) (h : slots ≠ []) : ∃ j m, findSlot slots = some (j, m) ∧ j < slots.length := by
  unfold findSlot
  cases slots with
  | nil => exact absurd rfl h
  | cons o t =>
    have : ∃ r, findSlotAux (o :: t) 0 none = some r := by
      cases o with
      | none => exact ⟨(0, 0), by simp [findSlotAux]⟩
      | some s => simp only [findSlotAux]; exact findSlotAux_some _ _ _
    obtain ⟨⟨j, m⟩, hr⟩ := this
    refine ⟨j, m, hr, ?_⟩
    rcases findSlotAux_range _ _ _ _ _ hr with h' | h'
    · simp at h'
    · omega

/-- All slots occupied: the answer is the **first** slot with the **smallest** bip value. -/
theorem findSlotAux_full (l : List Stake) (i : Nat) (best : Option (Nat × Int)) (j : Nat) (m : Int)
    (h : findSlotAux (l.map some) i best = some (j, m)) :
    (∀ s ∈ l, m ≤ s.bip) ∧ (∀ bj bm, best = some (bj, bm) → m ≤ bm) ∧
    (best = some (j, m) ∨
      ∃ k s, l[k]? = some s ∧ j = i + k ∧ s.bip = m ∧ (∀ k' s', k' < k → l[k']? = some s' → m < s'.bip) ∧
        (∀ bj bm, best = some (bj, bm) → m < bm)) := by
  induction l generalizing i best with
  | nil =>
    simp only [List.map_nil, findSlotAux] at h
    subst h
    refine ⟨by simp, ?_, Or.inl rfl⟩
    intro bj bm hb
    simp only [Option.some.injEq, Prod.mk.injEq] at hb
    omega
  | cons s t ih =>
    -- common step: the scan continues with `(i, s.bip)` as the running best
    have step : ∀ (hcont : findSlotAux (t.map some) (i + 1) (some (i, s.bip)) = some (j, m)),
        (∀ x ∈ s :: t, m ≤ x.bip) ∧ m ≤ s.bip ∧
        ∃ k s0, (s :: t)[k]? = some s0 ∧ j = i + k ∧ s0.bip = m ∧
          (∀ k' s', k' < k → (s :: t)[k']? = some s' → m < s'.bip) := by
      intro hcont
      obtain ⟨h1, h2, h3⟩ := ih _ _ hcont
      have hms : m ≤ s.bip := h2 i s.bip rfl
      refine ⟨?_, hms, ?_⟩
      · intro x hx
        rw [List.mem_cons] at hx
        rcases hx with rfl | hx
        · exact hms
        · exact h1 x hx
      · rcases h3 with h3 | ⟨k, s0, hk, hj, hb, hfirst, hlt⟩
        · simp only [Option.some.injEq, Prod.mk.injEq] at h3
          refine ⟨0, s, by simp, by omega, by omega, ?_⟩
          intro k' s' hk'; omega
        · refine ⟨k + 1, s0, by simpa using hk, by omega, hb, ?_⟩
          intro k' s' hk' hget
          cases k' with
          | zero =>
            simp only [List.getElem?_cons_zero, Option.some.injEq] at hget
            subst hget
            exact hlt i _ rfl
          | succ k'' =>
            simp only [List.getElem?_cons_succ] at hget
            exact hfirst k'' s' (by omega) hget
    cases best with
    | none =>
      simp only [List.map_cons, findSlotAux] at h
      obtain ⟨a, _, k, s0, hk, hj, hb, hfirst⟩ := step h
      exact ⟨a, by simp, Or.inr ⟨k, s0, hk, hj, hb, hfirst, by simp⟩⟩
    | some b =>
      obtain ⟨bj, bm⟩ := b
      simp only [List.map_cons, findSlotAux] at h
      split at h
      · next hgt =>
        obtain ⟨a, hms, k, s0, hk, hj, hb, hfirst⟩ := step h
        refine ⟨a, ?_, Or.inr ⟨k, s0, hk, hj, hb, hfirst, ?_⟩⟩
        · intro bj' bm' hb'
          simp only [Option.some.injEq, Prod.mk.injEq] at hb'
          omega
        · intro bj' bm' hb'
          simp only [Option.some.injEq, Prod.mk.injEq] at hb'
          omega
      · next hle =>
        obtain ⟨h1, h2, h3⟩ := ih _ _ h
        have hmb : m ≤ bm := h2 bj bm rfl
        refine ⟨?_, ?_, ?_⟩
        · intro x hx
          rw [List.mem_cons] at hx
          rcases hx with rfl | hx
          · omega
          · exact h1 x hx
        · intro bj' bm' hb'
          simp only [Option.some.injEq, Prod.mk.injEq] at hb'
          omega
        · rcases h3 with h3 | ⟨k, s0, hk, hj, hb, hfirst, hlt⟩
          · exact Or.inl h3
          · right
            have hlt' : m < bm := hlt bj bm rfl
            refine ⟨k + 1, s0, by simpa using hk, by omega, hb, ?_, ?_⟩
            · intro k' s' hk' hget
              cases k' with
              | zero =>
                simp only [List.getElem?_cons_zero, Option.some.injEq] at hget
                subst hget
                omega
              | succ k'' =>
                simp only [List.getElem?_cons_succ] at hget
                exact hfirst k'' s' (by omega) hget
            · intro bj' bm' hb'
              simp only [Option.some.injEq, Prod.mk.injEq] at hb'
              omega

/-- `findSlot` on fully occupied slots. -/
theorem findSlot_full (l : List Stake) (j : Nat) (m : Int) (h : findSlot (l.map some) = some (j, m)) :
    ∃ s, l[j]? = some s ∧ s.bip = m ∧ (∀ x ∈ l, m ≤ x.bip) ∧ (∀ k' s', k' < j → l[k']? = some s' → m < s'.bip) := by
  obtain ⟨h1, _, h3⟩ := findSlotAux_full l 0 none j m h
  rcases h3 with h3 | ⟨k, s, hk, hj, hb, hfirst, _⟩
  · simp at h3
  · have : j = k := by omega
    subst this
    exact ⟨s, hk, hb, h1, hfirst⟩

/-! ### value held in slots -/

def optHold (coin : Coin) (o : Option Stake) : Int := match o with | some s => stakeOf coin s | none => 0

def slotsHold (coin : Coin) (slots : Slots) : Int := sumBy (optHold coin) slots

theorem sumBy_set {α : Type} (f : α → Int) (d : α) (l : List α) (i : Nat) (x : α) (h : i < l.length) :
    sumBy f (l.set i x) + f (l.getD i d) = sumBy f l + f x := by
  induction l generalizing i with
  | nil => simp at h
  | cons y t ih =>
    cases i with
    | zero => simp [sumBy]; omega
    | succ k =>
      have := ih k (by simpa using h)
      simp only [List.set_cons_succ, sumBy, List.getD_cons_succ]
      omega

theorem set_append_length {α : Type} (a : List α) (x y : α) (b : List α) : (a ++ x :: b).set a.length y = a ++ y :: b := by
  induction a with
  | nil => rfl
  | cons z t ih => simp [ih]

theorem getD_append_length {α : Type} (a : List α) (x d : α) (b : List α) : (a ++ x :: b).getD a.length d = x := by
  induction a with
  | nil => rfl
  | cons z t ih => simpa using ih

end Minter
