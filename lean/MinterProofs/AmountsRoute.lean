import MinterProofs.AmountsPool
/-
  C02: SellSwapPool (23) and SellAllSwapPool (25) over routes of pools without orders — every commission route.
  Each hop runs on reserves nobody touched before it (the pools of a route are pairwise distinct: `RouteDistinct`, which the handler's
  `used.contains id` check enforces for pools with distinct ids) and is paid from what the previous hop credited.
-/
namespace Minter

/-- The handler's own moves, executed after the commission, lead to a state in range. -/
def BodyKeeps (s : State) (rd : Ready) : Prop :=
  ∀ s1 paid body tags s2, payCommission s rd.payer rd.coin rd.com rd.minOut = .ok paid →
    FeeFrame s s1 rd.payer rd.coin rd.com paid.adj → AmountsOk s1 → rd.exec paid.adj = .ok (body, tags) →
    applyChecked s1 (planOf body) = some s2 → AmountsOk s2

theorem typed_preservesK (P : Params) (o : Oracle) (s s' : State) (b : Nat) (t : TxIn) (out : Outcome)
    (ho : OracleSound o) (hP : 0 ≤ P.minReserve)
    (hspec : ∀ price rd, 0 ≤ price → runData P o s b t price = .ok (.ok rd) → Checked P o s price rd ∧ BodyKeeps s rd)
    (h : deliverTx P o s b t = .ok out) (h0 : out.code = 0) (ha : applyChecked s out.plan = some s')
    (hok : AmountsOk s) : AmountsOk s' := by
  obtain ⟨price, rd, paid, body, tags, s1, s2, hp, hr, hpay, he, h1, h2, hfin⟩ := deliver_stages P o s s' b t out h h0 ha
  obtain ⟨hck, hbody⟩ := hspec price rd hp hr
  obtain ⟨hok1, hfr⟩ := fee_stage P o s s1 price rd paid ho hP hok hp hck hpay h1
  exact hfin (hbody s1 paid body tags s2 hpay hfr hok1 he h2)

/-! ### Pool keys never change -/

theorem isSome_findFirst_updFirst {α : Type} (p q : α → Bool) (g : α → α) (l : List α) (hg : ∀ x, q (g x) = q x) :
    (findFirst q (updFirst p g l)).isSome = (findFirst q l).isSome := by
  induction l with
  | nil => rfl
  | cons x t ih =>
    simp only [updFirst]
    split
    · simp only [findFirst, hg]
      split <;> rfl
    · simp only [findFirst]
      split
      · rfl
      · exact ih

theorem frame_keys (s s1 : State) (payer : Addr) (gas : Coin) (com : Com) (adj : Option PoolAdj)
    (hfr : FeeFrame s s1 payer gas com adj) (x y : Coin) : (getPool s1 x y).isSome = (getPool s x y).isSome := by
  unfold getPool
  cases adj with
  | none => rw [hfr.pools rfl]
  | some j =>
    rcases hfr.poolsAdj j rfl with ⟨_, hp⟩ | ⟨_, hp⟩
    · rw [hp]; exact isSome_findFirst_updFirst _ _ _ _ (fun _ => rfl)
    · rw [hp]; exact isSome_findFirst_updFirst _ _ _ _ (fun _ => rfl)

/-- The stored entry of pool `(x, y)` in `σ` carries the reserves the execution computes with. -/
def PoolView (s : State) (adj : Option PoolAdj) (σ : State) (x y : Coin) : Prop :=
  ∀ p, getPool σ x y = some p → poolResAdj s adj x y = some (p.r0, p.r1)

theorem poolSell_pools (σ : State) (payer : Addr) (c0 c1 : Coin) (sellsC0 : Bool) (net out burn : Int) (dest : Addr) :
    (applyAll σ (Move.poolSell payer c0 c1 sellsC0 net out burn false dest).prims).pools =
      updFirst (fun p => p.c0 == c0 && p.c1 == c1)
        (fun p => { p with r0 := p.r0 + (if sellsC0 then net else -out), r1 := p.r1 + (if sellsC0 then -out else net) }) σ.pools := by
  cases sellsC0 <;> rfl

theorem poolResAdj_some_poolRes (s : State) (adj : Option PoolAdj) (x y : Coin) (r : Int × Int) (h : poolResAdj s adj x y = some r) :
    ∃ r', poolRes s x y = some r' := by
  unfold poolResAdj at h
  cases hp : poolRes s x y with
  | none => rw [hp] at h; cases h
  | some r' => exact ⟨r', rfl⟩

/-- **One hop of a sell route.** -/
theorem sellHop (s : State) (adj : Option PoolAdj) (hpok : PoolsOk s) (σ σ' : State) (who : Addr) (a b : Coin) (amt out : Int) (mv : Move)
    (j : PoolAdj) (hmv : pairSellMove s adj who a b amt 0 false who = .ok (mv, out, j)) (hok : AmountsOk σ)
    (hkeys : ∀ x y, (getPool σ x y).isSome = (getPool s x y).isSome)
    (hv1 : PoolView s adj σ a b) (hv2 : PoolView s adj σ b a) (hbal : amt ≤ balanceOf σ who a)
    (happ : applyChecked σ mv.prims = some σ') :
    AmountsOk σ' ∧ out ≤ balanceOf σ' who b ∧ (∀ x y, (getPool σ' x y).isSome = (getPool s x y).isSome) ∧
    (∀ x y, ¬((x = a ∧ y = b) ∨ (x = b ∧ y = a)) → getPool σ' x y = getPool σ x y) := by
  obtain ⟨hin, hout, _, hnet, hshape, _, _, r0, r1, hres, hq⟩ := pairSellMove_shape2 s adj who a b amt 0 false who mv out j hmv
  obtain ⟨_, hbs⟩ := bfs_val_pos _ _ _ _ hq hout
  have hburn := com1000_bounds amt (by omega)
  obtain ⟨r', hr'⟩ := poolResAdj_some_poolRes s adj a b _ hres
  have hne : a ≠ b := poolRes_ne s hpok a b r' hr'
  have hσ := applyChecked_eq_applyAll σ σ' _ happ
  have hbw := hok.balances who b
  rcases hshape with ⟨hsome, rfl⟩ | ⟨hnone, rfl⟩
  · -- stored as (a, b)
    have hs' : (getPool σ a b).isSome = true := by rw [hkeys]; exact hsome
    obtain ⟨p, hp⟩ := Option.isSome_iff_exists.mp hs'
    have hv := hv1 p hp
    rw [hres] at hv
    injection hv with hv; injection hv with e0 e1
    have hpp := hok.pools p (findFirst_mem _ _ _ hp).1
    subst e0; subst e1
    obtain ⟨_, hlt, _, _⟩ := buyForSell_K _ _ _ _ hpp.1 hpp.2 hnet hbs
    have hsafe := poolSell_planSafe σ hok who a b true _ _ _ false who p hp hnet hout (by simpa using hlt) hburn.1 (by simp only [if_true]; omega)
    refine ⟨planSafe_preserves σ σ' _ hsafe hok happ, ?_, ?_, ?_⟩
    · rw [hσ]
      simp only [Move.prims, Bool.false_eq_true, if_false, if_true, applyAll, List.foldl, apply_balance', Prim.balDelta', hne, and_false, and_true]
      omega
    · intro x y
      rw [← hkeys x y, hσ]
      unfold getPool
      rw [poolSell_pools]
      exact isSome_findFirst_updFirst _ _ _ _ (fun _ => rfl)
    · intro x y hxy
      rw [hσ]
      unfold getPool
      rw [poolSell_pools]
      apply pool_other_aux a b x y (fun h => hxy (Or.inl h))
      intro _; exact ⟨rfl, rfl⟩
  · -- stored as (b, a)
    have hn' : (getPool σ a b).isSome = false := by rw [hkeys]; exact hnone
    have hflip := poolResAdj_flip s hpok adj a b r0 r1 hres
    obtain ⟨rf, hrf⟩ := poolResAdj_some_poolRes s adj b a _ hflip
    have hsb : (getPool s b a).isSome = true := by
      unfold poolRes at hrf
      cases h1 : getPool s b a with
      | some q => rfl
      | none =>
        rw [h1] at hrf
        simp only at hrf
        cases h2 : getPool s a b with
        | some q => rw [h2] at hnone; cases hnone
        | none => rw [h2] at hrf; cases hrf
    have hs' : (getPool σ b a).isSome = true := by rw [hkeys]; exact hsb
    obtain ⟨p, hp⟩ := Option.isSome_iff_exists.mp hs'
    have hv := hv2 p hp
    rw [hflip] at hv
    injection hv with hv; injection hv with e0 e1
    have hpp := hok.pools p (findFirst_mem _ _ _ hp).1
    subst e0; subst e1
    obtain ⟨_, hlt, _, _⟩ := buyForSell_K _ _ _ _ hpp.2 hpp.1 hnet hbs
    have hsafe := poolSell_planSafe σ hok who b a false _ _ _ false who p hp hnet hout (by simpa using hlt) hburn.1
      (by simp only [Bool.false_eq_true, if_false]; omega)
    refine ⟨planSafe_preserves σ σ' _ hsafe hok happ, ?_, ?_, ?_⟩
    · rw [hσ]
      simp only [Move.prims, Bool.false_eq_true, if_false, if_true, applyAll, List.foldl, apply_balance', Prim.balDelta', hne, and_false, and_true]
      omega
    · intro x y
      rw [← hkeys x y, hσ]
      unfold getPool
      rw [poolSell_pools]
      exact isSome_findFirst_updFirst _ _ _ _ (fun _ => rfl)
    · intro x y hxy
      rw [hσ]
      unfold getPool
      rw [poolSell_pools]
      apply pool_other_aux b a x y (fun h => hxy (Or.inr h))
      intro _; exact ⟨rfl, rfl⟩

/-! ### Routes -/

def pairsOf : Coin → List Coin → List (Coin × Coin)
  | _, [] => []
  | a, b :: t => (a, b) :: pairsOf b t

def samePair (p q : Coin × Coin) : Prop := (p.1 = q.1 ∧ p.2 = q.2) ∨ (p.1 = q.2 ∧ p.2 = q.1)

/-- No pool is crossed twice. -/
def RouteDistinct (a : Coin) (rest : List Coin) : Prop := (pairsOf a rest).Pairwise (fun p q => ¬ samePair p q)

theorem routeSell_keeps (s : State) (adj : Option PoolAdj) (who : Addr) (hpok : PoolsOk s) :
    ∀ (rest : List Coin) (a : Coin) (value : Int) (ms : List Move) (out : Int) (σ σ' : State),
      routeSellExec s adj who a rest value = .ok (ms, out) → AmountsOk σ →
      (∀ x y, (getPool σ x y).isSome = (getPool s x y).isSome) →
      (∀ pr ∈ pairsOf a rest, PoolView s adj σ pr.1 pr.2 ∧ PoolView s adj σ pr.2 pr.1) →
      value ≤ balanceOf σ who a → RouteDistinct a rest →
      applyChecked σ (planOf ms) = some σ' → AmountsOk σ' := by
  intro rest
  induction rest with
  | nil =>
    intro a value ms out σ σ' h hok _ _ _ _ happ
    simp only [routeSellExec] at h
    cases h
    simp only [planOf, List.flatMap_nil, applyChecked] at happ
    cases happ; exact hok
  | cons b t ih =>
    intro a value ms out σ σ' h hok hkeys hviews hbal hdist happ
    simp only [routeSellExec] at h
    cases hm : pairSellMove s adj who a b value 0 false who with
    | error e => rw [hm] at h; cases h
    | ok res =>
      obtain ⟨mv, out1, j⟩ := res
      rw [hm] at h
      simp only at h
      cases hrec : routeSellExec s adj who b t out1 with
      | error e => rw [hrec] at h; cases h
      | ok res2 =>
        obtain ⟨ms', final⟩ := res2
        rw [hrec] at h
        simp only at h
        cases h
        rw [planOf_cons] at happ
        obtain ⟨σ1, h1, h2⟩ := applyChecked_append_some _ _ _ _ happ
        have hv := hviews (a, b) (List.mem_cons_self ..)
        obtain ⟨hok1, hb1, hk1, hoth⟩ := sellHop s adj hpok σ σ1 who a b value out1 mv j hm hok hkeys hv.1 hv.2 hbal h1
        have hd := List.pairwise_cons.mp hdist
        apply ih b out1 ms' _ σ1 σ' hrec hok1 hk1 _ hb1 hd.2 h2
        intro pr hpr
        have hns := hd.1 pr hpr
        have hv' := hviews pr (List.mem_cons_of_mem _ hpr)
        have e1 : getPool σ1 pr.1 pr.2 = getPool σ pr.1 pr.2 := by
          apply hoth
          intro hc
          apply hns
          rcases hc with hc | hc
          · exact Or.inl ⟨hc.1.symm, hc.2.symm⟩
          · exact Or.inr ⟨hc.2.symm, hc.1.symm⟩
        have e2 : getPool σ1 pr.2 pr.1 = getPool σ pr.2 pr.1 := by
          apply hoth
          intro hc
          apply hns
          rcases hc with hc | hc
          · exact Or.inr ⟨hc.1.symm, hc.2.symm⟩
          · exact Or.inl ⟨hc.2.symm, hc.1.symm⟩
        unfold PoolView
        rw [e1, e2]
        exact hv'

theorem frame_views (s s1 : State) (payer : Addr) (gas : Coin) (com : Com) (adj : Option PoolAdj)
    (hfr : FeeFrame s s1 payer gas com adj) (hs : PoolsSorted s) (x y : Coin) : PoolView s adj s1 x y :=
  fun p hp => getPool_frame s s1 payer gas com adj hfr hs x y p hp

/-! ### SellSwapPool (23) -/

theorem sellPool_typed (P : Params) (o : Oracle) (s : State) (t : TxIn) (price : Int) (rd : Ready)
    (hok : AmountsOk s) (hsorted : PoolsSorted s) (hv : 0 ≤ t.int "d.ValueToSell")
    (hdist : RouteDistinct ((coinList (t.str "d.Coins")).headD 0) (coinList (t.str "d.Coins")).tail)
    (h : runSellPool P o s t price = .ok (.ok rd)) : Checked P o s price rd ∧ BodyKeeps s rd := by
  unfold runSellPool at h
  peel h
  all_goals (obtain ⟨com, hcom, hk⟩ := withCom_ready _ _ _ _ _ _ _ h; peel hk)
  all_goals (
    have hf : com.commission ≤ balanceOf s t.sender t.gasCoin ∧
        t.int "d.ValueToSell" + (if (coinList (t.str "d.Coins")).headD 0 = t.gasCoin then com.commission else 0) ≤
          balanceOf s t.sender ((coinList (t.str "d.Coins")).headD 0) := by
      norm_checks
      constructor <;> funds_omega ((coinList (t.str "d.Coins")).headD 0), t.gasCoin
    cases hk
    refine ⟨⟨hcom, hf.1⟩, ?_⟩
    intro s1 paid body tags s2 hpay hfr hok1 he h2
    simp only at hpay hfr he
    cases hx : routeSellExec s paid.adj t.sender ((coinList (t.str "d.Coins")).headD 0) (coinList (t.str "d.Coins")).tail (t.int "d.ValueToSell") with
    | error e => rw [hx] at he; cases he
    | ok res =>
      obtain ⟨ms, out⟩ := res
      rw [hx] at he
      simp only at he
      cases he
      exact routeSell_keeps s paid.adj t.sender (poolsOk_of s hsorted hok) _ _ _ _ _ s1 s2 hx hok1
        (frame_keys s s1 t.sender t.gasCoin com paid.adj hfr)
        (fun pr _ => ⟨frame_views s s1 t.sender t.gasCoin com paid.adj hfr hsorted _ _, frame_views s s1 t.sender t.gasCoin com paid.adj hfr hsorted _ _⟩)
        (spend_after_fee s s1 t.sender t.gasCoin _ com paid.adj _ hfr hf.2) hdist h2)

/-! ### SellAllSwapPool (25) -/

theorem sellAllPool_typed (P : Params) (o : Oracle) (s : State) (t : TxIn) (price : Int) (rd : Ready)
    (hok : AmountsOk s) (hsorted : PoolsSorted s)
    (hdist : RouteDistinct ((coinList (t.str "d.Coins")).headD 0) (coinList (t.str "d.Coins")).tail)
    (h : runSellAllPool P o s t price = .ok (.ok rd)) : Checked P o s price rd ∧ BodyKeeps s rd := by
  unfold runSellAllPool at h
  peel h
  all_goals (obtain ⟨com, hcom, hk⟩ := withCom_ready _ _ _ _ _ _ _ h; peel hk)
  all_goals (
    have hf : com.commission < balanceOf s t.sender ((coinList (t.str "d.Coins")).headD 0) := by norm_checks; omega
    cases hk
    refine ⟨⟨hcom, by simp only; omega⟩, ?_⟩
    intro s1 paid body tags s2 hpay hfr hok1 he h2
    simp only at hpay hfr he
    cases hx : routeSellExec s paid.adj t.sender ((coinList (t.str "d.Coins")).headD 0) (coinList (t.str "d.Coins")).tail
        (balanceOf s t.sender ((coinList (t.str "d.Coins")).headD 0) - com.commission) with
    | error e => rw [hx] at he; cases he
    | ok res =>
      obtain ⟨ms, out⟩ := res
      rw [hx] at he
      simp only at he
      cases he
      have hbal := hfr.bal t.sender ((coinList (t.str "d.Coins")).headD 0)
      simp only [and_self, if_true] at hbal
      exact routeSell_keeps s paid.adj t.sender (poolsOk_of s hsorted hok) _ _ _ _ _ s1 s2 hx hok1
        (frame_keys s s1 t.sender _ com paid.adj hfr)
        (fun pr _ => ⟨frame_views s s1 t.sender _ com paid.adj hfr hsorted _ _, frame_views s s1 t.sender _ com paid.adj hfr hsorted _ _⟩)
        hbal hdist h2)

end Minter
