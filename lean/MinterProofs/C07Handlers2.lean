import MinterProofs.C07Handlers
/-
  C07 helper lemmas, part 4: handlers with sub-computations (bancor conversions, staking, limit orders, check redemption).
-/
namespace Minter

theorem NoPanic_throw_of {α β : Type} {m : M β} {e : Stop} (hm : NoPanic m) (he : m = .error e) : NoPanic (throw e : M α) := by
  intro w h; cases h; exact hm w he

/-- Closes goals `NoPanic (…)` of computations whose only faults come from the oracle. -/
macro "askonly" : tactic =>
  `(tactic| (repeat' (first
      | exact NoPanic_pure _
      | exact NoPanic_throw_of (ask_noPanic _ _) (by assumption)
      | split)))

/-! ### Bancor -/

theorem saleReturnAndCheck_noPanic (P : Params) (o : Oracle) (v : BView) (x : Int) : NoPanic (saleReturnAndCheck P o v x) := by
  unfold saleReturnAndCheck; askonly
theorem saleAmountAndCheck_noPanic (P : Params) (o : Oracle) (v : BView) (x : Int) : NoPanic (saleAmountAndCheck P o v x) := by
  unfold saleAmountAndCheck; askonly
theorem sellStep2_noPanic (o : Oracle) (buy : Coin) (v : BView) (x : Int) : NoPanic (sellStep2 o buy v x) := by
  unfold sellStep2; askonly
theorem buyStep1_noPanic (o : Oracle) (buy : Coin) (v : BView) (x : Int) : NoPanic (buyStep1 o buy v x) := by
  unfold buyStep1; askonly
theorem buyStep2_noPanic (P : Params) (o : Oracle) (sell : Coin) (v : BView) (x : Int) : NoPanic (buyStep2 P o sell v x) := by
  unfold buyStep2
  split
  · exact NoPanic_pure _
  · exact saleAmountAndCheck_noPanic _ _ _ _
theorem sellQuote_noPanic (P : Params) (o : Oracle) (sell buy : Coin) (f t : BView) (x : Int) : NoPanic (sellQuote P o sell buy f t x) := by
  unfold sellQuote
  split
  · exact sellStep2_noPanic _ _ _ _
  · split
    · exact NoPanic_throw_of (saleReturnAndCheck_noPanic _ _ _ _) (by assumption)
    · exact NoPanic_pure _
    · exact sellStep2_noPanic _ _ _ _

section
variable {P : Params} {s : State} (hinv : TxInv P s) (o : Oracle) (t : TxIn) (price : Int) (hp : 0 ≤ price) (b : Nat)
include hinv hp

theorem runSellCoin_good : HGood (ReadyGood P o s price) (runSellCoin P o s t price) := by
  unfold runSellCoin
  simp only
  split
  · exact HGood_reject _ _
  · apply HGood_withCom hinv o _ _ _ hp
    intro com hc _
    split
    · exact HGood_reject _ _
    split
    · exact HGood_reject _ _
    split
    · exact HGood_sub _ _ _ (sellQuote_noPanic _ _ _ _ _ _ _) (by assumption)
    · exact HGood_reject _ _
    · hauto hinv, o, hp

theorem runBuyCoin_good : HGood (ReadyGood P o s price) (runBuyCoin P o s t price) := by
  unfold runBuyCoin
  simp only
  split
  · exact HGood_reject _ _
  · apply HGood_withCom hinv o _ _ _ hp
    intro com hc _
    split
    · exact HGood_sub _ _ _ (buyStep1_noPanic _ _ _ _) (by assumption)
    · exact HGood_reject _ _
    · split
      · exact HGood_sub _ _ _ (buyStep2_noPanic _ _ _ _ _) (by assumption)
      · exact HGood_reject _ _
      · hauto hinv, o, hp

theorem runSellAllCoin_good : HGood (ReadyGood P o s price) (runSellAllCoin P o s t price) := by
  unfold runSellAllCoin
  simp only
  split
  · exact HGood_reject _ _
  · apply HGood_withCom hinv o _ _ _ hp
    intro com hc hcg
    split
    · exact HGood_reject _ _
    split
    · exact HGood_reject _ _
    split
    · exact HGood_sub _ _ _ (sellQuote_noPanic _ _ _ _ _ _ _) (by assumption)
    · exact HGood_reject _ _
    · split
      · exact HGood_reject _ _
      · exact HGood_pure _ _ ⟨hc, by have := hcg.inBase_eq; simp only; omega, fun paid _ => NoPanic_pure _⟩

end

/-! ### Staking -/

theorem sumBy_nonneg {α : Type} (f : α → Int) (l : List α) (h : ∀ x ∈ l, 0 ≤ f x) : 0 ≤ sumBy f l := by
  induction l with
  | nil => simp [sumBy]
  | cons x t ih =>
    simp only [sumBy]
    have := h x (List.mem_cons_self ..)
    have := ih (fun y hy => h y (List.mem_cons_of_mem _ hy))
    omega

theorem totalDelegated_nonneg (s : State) (hok : AmountsOk s) (coin : Coin) : 0 ≤ totalDelegated s coin := by
  unfold totalDelegated
  apply sumBy_nonneg
  intro cd hcd
  unfold candHoldings
  have h1 : 0 ≤ sumBy (stakeOf coin) cd.stakes := by
    apply sumBy_nonneg
    intro st hst
    unfold stakeOf
    have := (hok.stakes cd hcd).1 st hst
    split <;> omega
  have h2 : 0 ≤ sumBy (stakeOf coin) cd.updates := by
    apply sumBy_nonneg
    intro st hst
    unfold stakeOf
    have := (hok.stakes cd hcd).2 st hst
    split <;> omega
  omega

/-- `calculateBipValue` neither misses the coin nor divides by zero for an existing coin and a non-negative amount. -/
theorem bipValue_noPanic (o : Oracle) (s : State) (hok : AmountsOk s) (coin : Coin) (amount : Int)
    (hex : coinExists s coin = true) (ha : 0 ≤ amount) : NoPanic (bipValue o s coin amount) := by
  unfold bipValue
  split
  · exact NoPanic_pure _
  · rename_i hc
    have hc' : coin ≠ 0 := by simpa using hc
    split
    · exact NoPanic_pure _
    · rename_i hz
      have hz' : amount ≠ 0 := by simpa using hz
      obtain ⟨ci, hci⟩ := getCoin_of_exists s coin hex hc'
      rw [hci]
      simp only
      split
      · exact NoPanic_throw_of (ask_noPanic _ _) (by assumption)
      · have := totalDelegated_nonneg s hok coin
        have hne : ¬ ((amount + totalDelegated s coin == 0) = true) := by
          simp only [beq_iff_eq]; omega
        simp only [hne, if_false]
        exact NoPanic_pure _

theorem stakeAllowed_noPanic (P : Params) (o : Oracle) (s : State) (hok : AmountsOk s) (a : Addr) (cd : Candidate) (coin : Coin) (amount : Int)
    (hex : coinExists s coin = true) (ha : 0 ≤ amount) : NoPanic (stakeAllowed P o s a cd coin amount) := by
  unfold stakeAllowed
  split
  · exact NoPanic_throw_of (bipValue_noPanic o s hok coin amount hex ha) (by assumption)
  · simp only
    repeat' (first | exact NoPanic_pure _ | split)

theorem newCandidateStakeOk_noPanic (o : Oracle) (s : State) (hok : AmountsOk s) (coin : Coin) (stake : Int) (limit : Nat)
    (hex : coinExists s coin = true) (ha : 0 ≤ stake) : NoPanic (newCandidateStakeOk o s coin stake limit) := by
  unfold newCandidateStakeOk
  split
  · exact NoPanic_throw_of (bipValue_noPanic o s hok coin stake hex ha) (by assumption)
  · exact NoPanic_pure _

/-! ### More automation -/

theorem HGood_ite (G : Ready → Prop) (c : Prop) [Decidable c] (a b : Handler) (ha : c → HGood G a) (hb : ¬ c → HGood G b) :
    HGood G (if c then a else b) := by
  by_cases h : c
  · rw [if_pos h]; exact ha h
  · rw [if_neg h]; exact hb h

theorem HGood_pure_exec (P : Params) (o : Oracle) (s : State) (price : Int) (payer : Addr) (coin : Coin) (com : Com) (minOut : Int)
    (body : List Move) (tags : List (String × String))
    (hc : calcCommission P o s coin price = .ok (.ok com)) (hm : minOut ≤ price) :
    HGood (ReadyGood P o s price)
      (pure (.ok { payer := payer, coin := coin, com := com, minOut := minOut, exec := fun _ => pure (body, tags) }) : Handler) :=
  HGood_pure _ _ ⟨hc, hm, fun _ _ => NoPanic_pure _⟩

theorem HGood_sub' {α : Type} (G : Ready → Prop) (m : M α) (e : Stop) (he : m = .error e) (hm : NoPanic m) : HGood G (throw e : Handler) :=
  HGood_sub G m e hm he

theorem of_not_not_b {b : Bool} (h : ¬ (!b) = true) : b = true := by simpa using h

/-- Like `hauto`, with `if` handled without `split` and one more closing tactic for the sub-computations of the handler. -/
macro "hautoWith" hinv:term "," o:term "," hp:term "," sub:tacticSeq : tactic =>
  `(tactic| (repeat' (first
      | exact HGood_reject _ _
      | exact HGood_unmodelled _ _
      | exact HGood_ready _ _ _ _ _ _ _ _ $hp (by assumption)
      | (apply HGood_withCom $hinv $o _ _ _ $hp; intro _ _ _)
      | (apply HGood_ite <;> intro _)
      | $sub
      | split)))

section
variable {P : Params} {s : State} (hinv : TxInv P s) (o : Oracle) (t : TxIn) (price : Int) (hp : 0 ≤ price) (b : Nat)
include hinv hp

theorem runRedeemCheck_good : HGood (ReadyGood P o s price) (runRedeemCheck P o s b t price) := by
  unfold runRedeemCheck
  hautoWith hinv, o, hp, (exact HGood_pure_exec _ _ _ _ _ _ _ _ _ _ (by assumption) hp)

variable (hwf : TxWf t)
include hwf

theorem runDelegate_good : HGood (ReadyGood P o s price) (runDelegate P o s t price) := by
  unfold runDelegate
  simp only
  split
  · exact HGood_reject _ _
  rename_i hex
  have hv := hwf.ints "d.Value"
  hautoWith hinv, o, hp,
    (refine HGood_sub' _ _ _ (by assumption) ?_
     exact stakeAllowed_noPanic P o s hinv.amountsOk' _ _ _ _ (by simpa using hex) (by omega))

theorem runDeclare_good : HGood (ReadyGood P o s price) (runDeclare P o s b t price) := by
  unfold runDeclare
  simp only
  split
  · exact HGood_reject _ _
  rename_i hex
  have hfull : NoPanic (if s.candidates.length ≥ P.maxCandidates then
      (match newCandidateStakeOk o s (t.nat "d.Coin") (t.int "d.Stake") P.maxCandidates with
       | .error e => throw e
       | .ok ok => pure (!ok))
    else pure false : M Bool) := by
    split
    · split
      · exact NoPanic_throw_of (newCandidateStakeOk_noPanic o s hinv.amountsOk' _ _ _ (by simpa using hex) (hwf.ints _)) (by assumption)
      · exact NoPanic_pure _
    · exact NoPanic_pure _
  hautoWith hinv, o, hp, (exact HGood_sub _ _ _ hfull (by assumption))

end

/-! ### Unbond / MoveStake -/

/-- A passed stake / waitlist check (since /repo abd6676): either the waitlist entry covers the value, or the sender has a
    (positive) stake at the candidate. -/
theorem unbondCheck_none (s : State) (a : Addr) (pk : PubKey) (coin : Coin) (value : Int) (h : unbondCheck s a pk coin value = none) :
    (∃ w, waitGet s a pk coin = some w ∧ value ≤ w.value) ∨
    (∃ cd, candByKey s pk = some cd ∧ cd.stakes.any (stakeKey a coin) = true) := by
  unfold unbondCheck at h
  simp only at h
  cases hwl : waitGet s a pk coin with
  | some w =>
    rw [hwl] at h
    simp only at h
    by_cases hv : value ≤ w.value
    · exact Or.inl ⟨w, rfl, hv⟩
    · right
      simp only [hv, decide_false, Bool.false_eq_true, if_false] at h
      cases hcd : candByKey s pk with
      | none => rw [hcd] at h; cases h
      | some cd =>
        rw [hcd] at h
        simp only at h
        cases hst : findFirst (stakeKey a coin) cd.stakes with
        | some st => exact ⟨cd, rfl, any_of_findFirst _ _ _ hst⟩
        | none =>
          rw [hst] at h
          simp only [Bool.false_eq_true, if_false] at h
          split at h
          · split at h <;> cases h
          · rename_i hc
            simp only [Bool.or_eq_true, decide_eq_true_eq, not_or] at hc
            omega
  | none =>
    right
    rw [hwl] at h
    simp only [Bool.false_eq_true, if_false] at h
    cases hcd : candByKey s pk with
    | none => rw [hcd] at h; cases h
    | some cd =>
      rw [hcd] at h
      simp only at h
      cases hst : findFirst (stakeKey a coin) cd.stakes with
      | some st => exact ⟨cd, rfl, any_of_findFirst _ _ _ hst⟩
      | none =>
        rw [hst] at h
        simp only [Bool.false_eq_true, if_false] at h
        split at h
        · split at h <;> cases h
        · rename_i hc
          simp only [Bool.or_eq_true, decide_eq_true_eq, not_or] at hc
          omega

/-- **`SubStake` never meets a missing stake or candidate** after a passed check. -/
theorem unbondMoves_noPanic (s : State) (a : Addr) (pk : PubKey) (coin : Coin) (value : Int) (height moveTo : Nat)
    (h : unbondCheck s a pk coin value = none) : NoPanic (unbondMoves s a pk coin value height moveTo) := by
  unfold unbondMoves
  simp only
  rcases unbondCheck_none s a pk coin value h with ⟨w, hw, hv⟩ | ⟨cd, hcd, hany⟩
  · rw [hw]
    have : ¬ (w.value < value) := by omega
    simp only [this, decide_false, Bool.false_and, Bool.false_eq_true, if_false]
    split <;> exact NoPanic_pure _
  · rw [hcd]
    simp only [hany, Bool.not_true, Bool.and_false, Bool.false_eq_true, if_false]
    exact NoPanic_pure _

section
variable {P : Params} {s : State} (hinv : TxInv P s) (o : Oracle) (t : TxIn) (price : Int) (hp : 0 ≤ price) (b : Nat)
include hinv hp

theorem runUnbond_good : HGood (ReadyGood P o s price) (runUnbond P o s b t price) := by
  unfold runUnbond
  simp only
  hautoWith hinv, o, hp,
    (refine HGood_pure _ _ ⟨by assumption, hp, fun _ _ => ?_⟩
     simp only
     have hm := unbondMoves_noPanic s t.sender (t.hex "d.PubKey") (t.nat "d.Coin") (t.int "d.Value") (b + P.unbond) 0 (by assumption)
     split
     · exact NoPanic_throw_of hm (by assumption)
     · exact NoPanic_pure _)

theorem runMoveStake_good : HGood (ReadyGood P o s price) (runMoveStake P o s b t price) := by
  unfold runMoveStake
  simp only
  hautoWith hinv, o, hp,
    (refine HGood_pure _ _ ⟨by assumption, hp, fun _ _ => ?_⟩
     simp only
     have hm := unbondMoves_noPanic s t.sender (t.hex "d.FromPubKey") (t.nat "d.Coin") (t.int "d.Value") (b + P.move)
       (candIdOf s (t.hex "d.ToPubKey")) (by assumption)
     split
     · exact NoPanic_throw_of hm (by assumption)
     · exact NoPanic_pure _)

end

end Minter
