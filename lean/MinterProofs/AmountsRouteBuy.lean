import MinterProofs.AmountsRoute
/-
  C02: BuySwapPool (24).  The moves of a buy route are computed from the last pool backwards and executed in that order: the buyer
  pays for a hop with coins the *next* move will hand him.  In between, one balance may therefore be "in debt"; the invariant carried
  along the route is `AmountsOk` of the state with that debt credited back (`credit`), and the debt after the last move — the amount
  of the first coin of the route — is what the handler checked the sender's balance against.
-/
namespace Minter

/-- `σ` with `g` of coin `c` credited to `who`. -/
def credit (σ : State) (who : Addr) (c : Coin) (g : Int) : State := (Prim.addBal who c g).apply σ

theorem balanceOf_credit (σ : State) (who : Addr) (c : Coin) (g : Int) (x : Addr) (c' : Coin) :
    balanceOf (credit σ who c g) x c' = balanceOf σ x c' + (if who = x ∧ c = c' then g else 0) := by
  unfold credit; rw [apply_balance']; rfl

/-- `AmountsOk` only looks at balances through `balanceOf` and at the other components as they are. -/
theorem amountsOk_transfer (τ ρ : State) (hb : ∀ x c, balanceOf ρ x c = balanceOf τ x c) (h1 : ρ.coins = τ.coins)
    (h2 : ρ.candidates = τ.candidates) (h3 : ρ.waitlist = τ.waitlist) (h4 : ρ.frozen = τ.frozen) (h5 : ρ.pools = τ.pools)
    (h6 : ρ.orders = τ.orders) (h7 : ρ.validators = τ.validators) (h8 : ρ.slashed = τ.slashed) (hok : AmountsOk τ) : AmountsOk ρ :=
  { balances := fun a c => by rw [hb]; exact hok.balances a c
    coins := by rw [h1]; exact hok.coins
    stakes := by rw [h2]; exact hok.stakes
    waitlist := by rw [h3]; exact hok.waitlist
    frozen := by rw [h4]; exact hok.frozen
    pools := by rw [h5]; exact hok.pools
    orders := by rw [h6]; exact hok.orders
    validators := by rw [h7]; exact hok.validators
    slashed := by rw [h8]; exact hok.slashed }

/-- A debt that the balance covers can be dropped. -/
theorem amountsOk_uncredit (σ : State) (who : Addr) (c : Coin) (g : Int) (hok : AmountsOk (credit σ who c g))
    (hg : g ≤ balanceOf (credit σ who c g) who c) : AmountsOk σ := by
  refine { hok with balances := ?_ }
  intro x c'
  have h1 := hok.balances x c'
  rw [balanceOf_credit] at h1 hg
  simp only [and_self, if_true] at hg
  split at h1
  · next h => obtain ⟨e1, e2⟩ := h; subst e1; subst e2; omega
  · omega

/-- `pairBuyMove` with the branch it took. -/
theorem pairBuyMove_shape (P : Params) (s : State) (adj : Option PoolAdj) (payer : Addr) (a b : Coin) (amountOut : Int) (dest : Addr)
    (mv : Move) (gross : Int) (j : PoolAdj) (h : pairBuyMove P s adj payer a b amountOut dest = .ok (mv, gross, j)) :
    ∃ net burn, 0 < amountOut ∧ 0 < net ∧ net + burn = gross ∧ burn = com1000 gross ∧ gross = net + com0999 net ∧
    (((getPool s a b).isSome = true ∧ mv = .poolSell payer a b true net amountOut burn false dest) ∨
     ((getPool s a b).isSome = false ∧ mv = .poolSell payer b a false net amountOut burn false dest)) ∧
    ∃ r0 r1, poolResAdj s adj a b = some (r0, r1) ∧ sfbNoOrders r0 r1 amountOut = .val net := by
  unfold pairBuyMove at h
  split at h
  · cases h
  · rename_i r0 r1 hres
    split at h
    · cases h
    · split at h
      · cases h
      · next hout =>
        split at h
        · cases h
        · cases h
        · next net hq =>
          split at h
          · cases h
          · next hnet =>
            split at h
            · cases h
            · simp only at h
              split at h
              · cases h
              · next hb =>
                split at h
                · next hsome =>
                  cases h
                  exact ⟨net, _, by omega, by omega, by omega, rfl, rfl, Or.inl ⟨hsome, rfl⟩, r0, r1, hres, hq⟩
                · next hnone =>
                  cases h
                  exact ⟨net, _, by omega, by omega, by omega, rfl, rfl, Or.inr ⟨by simpa using hnone, rfl⟩, r0, r1, hres, hq⟩

/-- **One hop of a buy route** (the debt moves from the coin bought to the coin paid with). -/
theorem buyHop (P : Params) (s : State) (adj : Option PoolAdj) (hpok : PoolsOk s) (σ σ' : State) (who : Addr) (a b : Coin) (amountOut gross : Int)
    (mv : Move) (j : PoolAdj) (hmv : pairBuyMove P s adj who a b amountOut who = .ok (mv, gross, j))
    (hok : AmountsOk (credit σ who b amountOut))
    (hkeys : ∀ x y, (getPool σ x y).isSome = (getPool s x y).isSome)
    (hv1 : PoolView s adj σ a b) (hv2 : PoolView s adj σ b a)
    (happ : applyChecked σ mv.prims = some σ') :
    AmountsOk (credit σ' who a gross) ∧
    (∀ x c, balanceOf (credit σ who b amountOut) x c ≤ balanceOf (credit σ' who a gross) x c) ∧
    (∀ x y, (getPool σ' x y).isSome = (getPool s x y).isSome) ∧
    (∀ x y, ¬((x = a ∧ y = b) ∨ (x = b ∧ y = a)) → getPool σ' x y = getPool σ x y) := by
  obtain ⟨net, burn, hout, hnet, hsum, hburn, hgross, hshape, r0, r1, hres, hq⟩ := pairBuyMove_shape P s adj who a b amountOut who mv gross j hmv
  obtain ⟨_, hsfb⟩ := sfb_val_pos _ _ _ _ hq hnet
  have hg0 : 0 ≤ gross := by have := com0999_eq net (by omega); have : 0 ≤ net / 999 := Int.ediv_nonneg (by omega) (by omega); split at * <;> omega
  have hb0 : 0 ≤ burn := by rw [hburn]; exact (com1000_bounds gross hg0).1
  have hσ := applyChecked_eq_applyAll σ σ' _ happ
  rcases hshape with ⟨hsome, rfl⟩ | ⟨hnone, rfl⟩
  · have hs' : (getPool σ a b).isSome = true := by rw [hkeys]; exact hsome
    obtain ⟨p, hp⟩ := Option.isSome_iff_exists.mp hs'
    have hv := hv1 p hp
    rw [hres] at hv
    injection hv with hv; injection hv with e0 e1
    have hpp := hok.pools p (findFirst_mem _ _ _ hp).1
    subst e0; subst e1
    obtain ⟨hlt, _, _, _⟩ := sellForBuy_K _ _ _ _ hpp.1 hpp.2 hout hsfb
    -- the pool change and the burn credit, applied to the credited state
    have hq1 : PrimSafe (credit σ who b amountOut) (Prim.addPool a b net (-amountOut)) := by
      have hp' : getPool (credit σ who b amountOut) a b = some p := hp
      simp only [PrimSafe, hp', optProp_some]; omega
    have hside1 : (Prim.addPool a b net (-amountOut)).ok (credit σ who b amountOut) = true := any_of_findFirst _ _ _ hp
    have hok1 := primSafe_preserves _ _ hok hside1 hq1
    have hq2 : PrimSafe ((Prim.addPool a b net (-amountOut)).apply (credit σ who b amountOut)) (Prim.addBal Move.prims.burnAddressM a burn) := by
      have := hok1.balances Move.prims.burnAddressM a
      simp only [PrimSafe]; omega
    have hok2 := primSafe_preserves _ _ hok1 rfl hq2
    have hbaleq : ∀ x c, balanceOf (credit σ' who a gross) x c =
        balanceOf ((Prim.addBal Move.prims.burnAddressM a burn).apply ((Prim.addPool a b net (-amountOut)).apply (credit σ who b amountOut))) x c := by
      intro x c
      rw [hσ]
      simp only [balanceOf_credit, Move.prims, Bool.false_eq_true, if_false, if_true, applyAll, List.foldl, apply_balance', Prim.balDelta']
      bal_omega
    refine ⟨amountsOk_transfer _ _ hbaleq ?_ ?_ ?_ ?_ ?_ ?_ ?_ ?_ hok2, ?_, ?_, ?_⟩
    any_goals (rw [hσ]; rfl)
    · intro x c
      rw [hbaleq]
      simp only [apply_balance', Prim.balDelta']
      split <;> omega
    · intro x y
      rw [← hkeys x y, hσ]
      unfold getPool
      rw [poolSell_pools]
      exact isSome_findFirst_updFirst _ _ _ _ (fun _ => rfl)
    · intro x y hxy
      rw [hσ]
      unfold getPool
      rw [poolSell_pools]
      apply pool_other_aux a b x y (fun h => hxy (Or.inl h))
      intro _; exact ⟨rfl, rfl⟩
  · have hn' : (getPool σ a b).isSome = false := by rw [hkeys]; exact hnone
    have hflip := poolResAdj_flip s hpok adj a b r0 r1 hres
    obtain ⟨rf, hrf⟩ := poolResAdj_some_poolRes s adj b a _ hflip
    have hsb : (getPool s b a).isSome = true := by
      unfold poolRes at hrf
      cases h1 : getPool s b a with
      | some q => rfl
      | none =>
        rw [h1] at hrf
        simp only at hrf
        cases h2 : getPool s a b with
        | some q => rw [h2] at hnone; cases hnone
        | none => rw [h2] at hrf; cases hrf
    have hs' : (getPool σ b a).isSome = true := by rw [hkeys]; exact hsb
    obtain ⟨p, hp⟩ := Option.isSome_iff_exists.mp hs'
    have hv := hv2 p hp
    rw [hflip] at hv
    injection hv with hv; injection hv with e0 e1
    have hpp := hok.pools p (findFirst_mem _ _ _ hp).1
    subst e0; subst e1
    obtain ⟨hlt, _, _, _⟩ := sellForBuy_K _ _ _ _ hpp.2 hpp.1 hout hsfb
    have hq1 : PrimSafe (credit σ who b amountOut) (Prim.addPool b a (-amountOut) net) := by
      have hp' : getPool (credit σ who b amountOut) b a = some p := hp
      simp only [PrimSafe, hp', optProp_some]; omega
    have hside1 : (Prim.addPool b a (-amountOut) net).ok (credit σ who b amountOut) = true := any_of_findFirst _ _ _ hp
    have hok1 := primSafe_preserves _ _ hok hside1 hq1
    have hq2 : PrimSafe ((Prim.addPool b a (-amountOut) net).apply (credit σ who b amountOut)) (Prim.addBal Move.prims.burnAddressM a burn) := by
      have := hok1.balances Move.prims.burnAddressM a
      simp only [PrimSafe]; omega
    have hok2 := primSafe_preserves _ _ hok1 rfl hq2
    have hbaleq : ∀ x c, balanceOf (credit σ' who a gross) x c =
        balanceOf ((Prim.addBal Move.prims.burnAddressM a burn).apply ((Prim.addPool b a (-amountOut) net).apply (credit σ who b amountOut))) x c := by
      intro x c
      rw [hσ]
      simp only [balanceOf_credit, Move.prims, Bool.false_eq_true, if_false, if_true, applyAll, List.foldl, apply_balance', Prim.balDelta']
      bal_omega
    refine ⟨amountsOk_transfer _ _ hbaleq ?_ ?_ ?_ ?_ ?_ ?_ ?_ ?_ hok2, ?_, ?_, ?_⟩
    any_goals (rw [hσ]; rfl)
    · intro x c
      rw [hbaleq]
      simp only [apply_balance', Prim.balDelta']
      split <;> omega
    · intro x y
      rw [← hkeys x y, hσ]
      unfold getPool
      rw [poolSell_pools]
      exact isSome_findFirst_updFirst _ _ _ _ (fun _ => rfl)
    · intro x y hxy
      rw [hσ]
      unfold getPool
      rw [poolSell_pools]
      apply pool_other_aux b a x y (fun h => hxy (Or.inr h))
      intro _; exact ⟨rfl, rfl⟩

/-! ### The route -/

/-- The coin the buyer finally pays with: the last coin of the reversed route. -/
def lastCoin : Coin → List Coin → Coin
  | b, [] => b
  | _, a :: t => lastCoin a t

theorem lastCoin_append_single (l : List Coin) (b z : Coin) : lastCoin b (l ++ [z]) = z := by
  induction l generalizing b with
  | nil => rfl
  | cons a t ih => simp only [List.cons_append, lastCoin]; exact ih a

theorem lastCoin_reverse (coins : List Coin) (h : coins ≠ []) : lastCoin (coins.reverse.headD 0) coins.reverse.tail = coins.headD 0 := by
  cases coins with
  | nil => exact absurd rfl h
  | cons c cs =>
    simp only [List.reverse_cons, List.headD_cons]
    cases hr : cs.reverse with
    | nil => simp [lastCoin]
    | cons d ds => simp only [List.cons_append, List.headD_cons, List.tail_cons]; exact lastCoin_append_single ds d c

theorem routeBuy_keeps (P : Params) (s : State) (adj : Option PoolAdj) (who : Addr) (hpok : PoolsOk s) :
    ∀ (rest : List Coin) (b : Coin) (want : Int) (ms : List Move) (paid : Int) (σ σ' : State),
      routeBuyExec P s adj who b rest want = .ok (ms, paid) → AmountsOk (credit σ who b want) →
      (∀ x y, (getPool σ x y).isSome = (getPool s x y).isSome) →
      (∀ pr ∈ pairsOf b rest, PoolView s adj σ pr.1 pr.2 ∧ PoolView s adj σ pr.2 pr.1) →
      RouteDistinct b rest → applyChecked σ (planOf ms) = some σ' →
      AmountsOk (credit σ' who (lastCoin b rest) paid) ∧
        ∀ x c, balanceOf (credit σ who b want) x c ≤ balanceOf (credit σ' who (lastCoin b rest) paid) x c := by
  intro rest
  induction rest with
  | nil =>
    intro b want ms paid σ σ' h hok _ _ _ happ
    simp only [routeBuyExec] at h
    cases h
    simp only [planOf, List.flatMap_nil, applyChecked] at happ
    cases happ
    exact ⟨hok, fun _ _ => Int.le_refl _⟩
  | cons a t ih =>
    intro b want ms paid σ σ' h hok hkeys hviews hdist happ
    simp only [routeBuyExec] at h
    cases hm : pairBuyMove P s adj who a b want who with
    | error e => rw [hm] at h; cases h
    | ok res =>
      obtain ⟨mv, gross, j⟩ := res
      rw [hm] at h
      simp only at h
      cases hrec : routeBuyExec P s adj who a t gross with
      | error e => rw [hrec] at h; cases h
      | ok res2 =>
        obtain ⟨ms', final⟩ := res2
        rw [hrec] at h
        simp only at h
        cases h
        rw [planOf_cons] at happ
        obtain ⟨σ1, h1, h2⟩ := applyChecked_append_some _ _ _ _ happ
        have hv := hviews (b, a) (List.mem_cons_self ..)
        obtain ⟨hok1, hmono, hk1, hoth⟩ := buyHop P s adj hpok σ σ1 who a b want gross mv j hm hok hkeys hv.2 hv.1 h1
        have hd := List.pairwise_cons.mp hdist
        have hviews1 : ∀ pr ∈ pairsOf a t, PoolView s adj σ1 pr.1 pr.2 ∧ PoolView s adj σ1 pr.2 pr.1 := by
          intro pr hpr
          have hns := hd.1 pr hpr
          have hv' := hviews pr (List.mem_cons_of_mem _ hpr)
          have e1 : getPool σ1 pr.1 pr.2 = getPool σ pr.1 pr.2 := by
            apply hoth
            intro hc
            apply hns
            rcases hc with hc | hc
            · exact Or.inr ⟨hc.2.symm, hc.1.symm⟩
            · exact Or.inl ⟨hc.1.symm, hc.2.symm⟩
          have e2 : getPool σ1 pr.2 pr.1 = getPool σ pr.2 pr.1 := by
            apply hoth
            intro hc
            apply hns
            rcases hc with hc | hc
            · exact Or.inl ⟨hc.2.symm, hc.1.symm⟩
            · exact Or.inr ⟨hc.1.symm, hc.2.symm⟩
          unfold PoolView
          rw [e1, e2]
          exact hv'
        obtain ⟨hokf, hmonof⟩ := ih a gross ms' _ σ1 σ' hrec hok1 hk1 hviews1 hd.2 h2
        exact ⟨hokf, fun x c => Int.le_trans (hmono x c) (hmonof x c)⟩

/-! ### BuySwapPool (24) -/

theorem buyPool_typed (P : Params) (o : Oracle) (s : State) (t : TxIn) (price : Int) (rd : Ready)
    (hok : AmountsOk s) (hsorted : PoolsSorted s)
    (hdist : RouteDistinct ((coinList (t.str "d.Coins")).reverse.headD 0) (coinList (t.str "d.Coins")).reverse.tail)
    (h : runBuyPool P o s t price = .ok (.ok rd)) : Checked P o s price rd ∧ BodyKeeps s rd := by
  unfold runBuyPool at h
  peel h
  all_goals (obtain ⟨com, hcom, hk⟩ := withCom_ready _ _ _ _ _ _ _ h; peel hk)
  all_goals (
    have hbasic := ‹routeBasic s (coinList (t.str "d.Coins")) = none›
    have hcheck := ‹routeBuyCheck P s t.gasCoin com _ _ _ _ _ = Except.ok (Except.ok _)›
    have hne : coinList (t.str "d.Coins") ≠ [] := by
      intro e
      rw [e] at hbasic
      simp [routeBasic] at hbasic
    have hf : com.commission ≤ balanceOf s t.sender t.gasCoin := by norm_checks; omega
    cases hk
    refine ⟨⟨hcom, hf⟩, ?_⟩
    intro s1 paid body tags s2 hpay hfr hok1 he h2
    simp only at hpay hfr he
    have hpok := poolsOk_of s hsorted hok
    cases hx : routeBuyExec P s paid.adj t.sender ((coinList (t.str "d.Coins")).reverse.headD 0) (coinList (t.str "d.Coins")).reverse.tail (t.int "d.ValueToBuy") with
    | error e => rw [hx] at he; cases he
    | ok res =>
      obtain ⟨ms, payd⟩ := res
      rw [hx] at he
      simp only at he
      cases he
      have hv := routeBuyExec_pos P s paid.adj t.sender _ _ _ _ _ (reverse_tail_ne _ (routeBasic_tail s _ hbasic)) hx
      have hle := routeBuyExec_le_check P s t.gasCoin com _ paid.adj t.sender
        (fun a b r hsim => sim_vs_real s hpok t.sender t.gasCoin com 0 paid hpay a b r hsim) _ _ _ _ _ _ _ _ hv (Int.le_refl _) hcheck hx
      have hok0 : AmountsOk (credit s1 t.sender ((coinList (t.str "d.Coins")).reverse.headD 0) (t.int "d.ValueToBuy")) := by
        apply primSafe_preserves s1 _ hok1 rfl
        have := hok1.balances t.sender ((coinList (t.str "d.Coins")).reverse.headD 0)
        simp only [PrimSafe]; omega
      obtain ⟨hokf, hmono⟩ := routeBuy_keeps P s paid.adj t.sender hpok _ _ _ _ _ s1 s2 hx hok0
        (frame_keys s s1 t.sender t.gasCoin com paid.adj hfr)
        (fun pr _ => ⟨frame_views s s1 t.sender t.gasCoin com paid.adj hfr hsorted _ _, frame_views s s1 t.sender t.gasCoin com paid.adj hfr hsorted _ _⟩)
        hdist h2
      rw [lastCoin_reverse _ hne] at hokf hmono
      apply amountsOk_uncredit s2 t.sender _ payd hokf
      have hm := hmono t.sender ((coinList (t.str "d.Coins")).headD 0)
      have hfee : payd + (if (coinList (t.str "d.Coins")).headD 0 = t.gasCoin then com.commission else 0) ≤
          balanceOf s t.sender ((coinList (t.str "d.Coins")).headD 0) := by
        norm_checks
        funds_omega ((coinList (t.str "d.Coins")).headD 0), t.gasCoin
      have hb1 := spend_after_fee s s1 t.sender t.gasCoin _ com paid.adj _ hfr hfee
      rw [balanceOf_credit] at hm
      split at hm <;> omega)

end Minter
