import MinterProofs.AmountsValue
/-
  C02, staking types that take value out of a stake: Unbond (8) and MoveStake (27) — every commission route.
-/
namespace Minter

/-- Candidate ids identify candidates: looking a listed candidate up by its id finds it (ids are unique in every exported state). -/
def CandIdsWf (s : State) : Prop := ∀ cd ∈ s.candidates, getCand s cd.id = some cd

/-- What has to come out of the stake: the part of `value` the waitlist entry does not cover. -/
def unbondNeed (value : Int) (wl : Option WaitEntry) : Int :=
  match wl with
  | some w => value - w.value
  | none => value

theorem unbond_safe (s : State) (a : Addr) (stakeCand : Nat) (coin : Coin) (value : Int) (wl : Option WaitEntry) (f : Frozen)
    (hv : 0 ≤ value)
    (hst : (0 < unbondNeed value wl ∨ wl = none) →
      optProp (getCand s stakeCand) fun cd => optProp (findFirst (stakeKey a coin) cd.stakes) fun st => unbondNeed value wl ≤ st.value) :
    PlanSafe s (Move.unbond a stakeCand coin value wl f).prims := by
  cases wl with
  | none =>
    have h := hst (Or.inr rfl)
    simp only [unbondNeed] at h
    simp only [Move.prims, PlanSafe, PrimSafe, and_true]
    refine ⟨?_, hv⟩
    cases hc : getCand s stakeCand with
    | none => trivial
    | some cd =>
      rw [hc] at h
      simp only [optProp_some] at h ⊢
      cases hs : findFirst (stakeKey a coin) cd.stakes with
      | none => trivial
      | some st => rw [hs] at h; simp only [optProp_some] at h ⊢; omega
  | some w =>
    simp only [Move.prims]
    split
    · simp only [PlanSafe, PrimSafe, and_true, true_and]; exact ⟨by omega, hv⟩
    · split
      · next hd =>
        have h := hst (Or.inl (by simp only [unbondNeed]; omega))
        simp only [unbondNeed] at h
        simp only [PlanSafe, PrimSafe, and_true, true_and]
        refine ⟨?_, hv⟩
        rw [getCand_apply _ _ _ rfl]
        cases hc : getCand s stakeCand with
        | none => trivial
        | some cd =>
          rw [hc] at h
          simp only [optProp_some] at h ⊢
          cases hs : findFirst (stakeKey a coin) cd.stakes with
          | none => trivial
          | some st => rw [hs] at h; simp only [optProp_some] at h ⊢; omega
      · simp only [PlanSafe, PrimSafe, and_true, true_and]; exact hv

/-- What a passed `unbondCheck` and a successful `unbondMoves` give: one `unbond` move, and the stake covers what is taken from it. -/
theorem unbond_moves_spec (s : State) (a : Addr) (pk : PubKey) (coin : Coin) (value : Int) (height moveTo : Nat) (ms : List Move)
    (hok : AmountsOk s) (hwf : CandIdsWf s) (hv : 0 ≤ value)
    (hc : unbondCheck s a pk coin value = none) (hm : unbondMoves s a pk coin value height moveTo = .ok ms) :
    ∃ cid f, ms = [.unbond a cid coin value (waitGet s a pk coin) f] ∧
      ((0 < unbondNeed value (waitGet s a pk coin) ∨ waitGet s a pk coin = none) →
        optProp (getCand s cid) fun cd => optProp (findFirst (stakeKey a coin) cd.stakes) fun st =>
          unbondNeed value (waitGet s a pk coin) ≤ st.value) := by
  unfold unbondCheck at hc
  unfold unbondMoves at hm
  simp only at hc hm
  cases hw : waitGet s a pk coin with
  | some w =>
    rw [hw] at hc hm
    simp only at hc hm
    cases hcd : candByKey s pk with
    | none =>
      rw [hcd] at hc hm
      simp only at hc hm
      split at hm
      · cases hm
      · next hns =>
        cases hm
        refine ⟨0, _, rfl, ?_⟩
        intro hneed
        simp only [unbondNeed] at hneed
        simp only [Bool.not_eq_true, decide_eq_false_iff_not, Int.not_lt] at hns
        rcases hneed with h | h
        · omega
        · cases h
    | some cd =>
      rw [hcd] at hc hm
      simp only at hc hm
      have hmem := (findFirst_mem _ _ _ hcd).1
      have hget := hwf cd hmem
      split at hm
      · cases hm
      · cases hm
        refine ⟨cd.id, _, rfl, ?_⟩
        intro hneed
        simp only [unbondNeed] at hneed ⊢
        rw [hget]
        simp only [optProp_some]
        rcases hneed with hpos | h
        swap
        · cases h
        have hne : ¬ (value ≤ w.value) := by omega
        simp only [hne, decide_false, Bool.false_eq_true, if_false] at hc
        cases hs : findFirst (stakeKey a coin) cd.stakes with
        | none => trivial
        | some st =>
          rw [hs] at hc
          simp only [optProp_some, Option.getD] at hc ⊢
          split at hc
          · split at hc
            · cases hc
            · omega
          · split at hc
            · split at hc <;> cases hc
            · next hb =>
              -- (integration) /repo abd6676: the rejection condition is `wlStake < value || wlStake ≤ 0`
              simp only [Bool.or_eq_true, decide_eq_true_eq, not_or, Int.not_lt, Int.not_le] at hb
              omega
  | none =>
    rw [hw] at hc hm
    simp only [Bool.false_eq_true, if_false, Bool.true_and] at hc hm
    cases hcd : candByKey s pk with
    | none => rw [hcd] at hc; cases hc
    | some cd =>
      rw [hcd] at hc hm
      simp only at hc hm
      have hmem := (findFirst_mem _ _ _ hcd).1
      have hget := hwf cd hmem
      split at hm
      · cases hm
      · cases hm
        refine ⟨cd.id, _, rfl, ?_⟩
        intro _
        simp only [unbondNeed]
        rw [hget]
        simp only [optProp_some]
        cases hs : findFirst (stakeKey a coin) cd.stakes with
        | none => trivial
        | some st =>
          have hstok := (hok.stakes cd hmem).1 st (findFirst_mem _ _ _ hs).1
          rw [hs] at hc
          simp only [optProp_some, Option.getD] at hc ⊢
          split at hc
          · split at hc
            · cases hc
            · omega
          · split at hc
            · split at hc <;> cases hc
            · next hb =>
              -- (integration) /repo abd6676: the rejection condition is `wlStake < value || wlStake ≤ 0`
              simp only [Bool.or_eq_true, decide_eq_true_eq, not_or, Int.not_lt, Int.not_le] at hb
              omega

/-- The body of Unbond / MoveStake is safe after the commission. -/
theorem unbond_body_safe (s s1 : State) (payer : Addr) (gas : Coin) (com : Com) (adj : Option PoolAdj)
    (a : Addr) (pk : PubKey) (coin : Coin) (value : Int) (height moveTo : Nat) (ms : List Move)
    (hok : AmountsOk s) (hwf : CandIdsWf s) (hv : 0 ≤ value) (hfr : FeeFrame s s1 payer gas com adj)
    (hc : unbondCheck s a pk coin value = none) (hm : unbondMoves s a pk coin value height moveTo = .ok ms) :
    PlanSafe s1 (planOf ms) := by
  obtain ⟨cid, f, rfl, hst⟩ := unbond_moves_spec s a pk coin value height moveTo ms hok hwf hv hc hm
  rw [planOf_single]
  apply unbond_safe s1 _ _ _ _ _ _ hv
  intro hneed
  have := hst hneed
  unfold getCand at this ⊢
  rw [hfr.cands]
  exact this

theorem unbond_typed (P : Params) (o : Oracle) (s : State) (block : Nat) (t : TxIn) (price : Int) (rd : Ready)
    (hok : AmountsOk s) (hwf : CandIdsWf s) (hv : 0 ≤ t.int "d.Value")
    (h : runUnbond P o s block t price = .ok (.ok rd)) : Checked P o s price rd ∧ BodySafe s rd := by
  unfold runUnbond at h
  peel h
  all_goals (obtain ⟨com, hcom, hk⟩ := withCom_ready _ _ _ _ _ _ _ h; peel hk)
  all_goals (
    have hchk := ‹unbondCheck s _ _ _ _ = none›
    have hf : com.commission ≤ balanceOf s t.sender t.gasCoin := by norm_checks; omega
    cases hk
    refine ⟨⟨hcom, hf⟩, ?_⟩
    intro s1 adj body tags hfr hok1 he
    simp only at he hfr
    first
      | (cases he; done)
      | (cases he
         exact unbond_body_safe s s1 _ _ _ adj _ _ _ _ _ _ _ hok hwf hv hfr hchk ‹unbondMoves s _ _ _ _ _ _ = Except.ok _›))

theorem moveStake_typed (P : Params) (o : Oracle) (s : State) (block : Nat) (t : TxIn) (price : Int) (rd : Ready)
    (hok : AmountsOk s) (hwf : CandIdsWf s) (hv : 0 ≤ t.int "d.Value")
    (h : runMoveStake P o s block t price = .ok (.ok rd)) : Checked P o s price rd ∧ BodySafe s rd := by
  unfold runMoveStake at h
  peel h
  all_goals (obtain ⟨com, hcom, hk⟩ := withCom_ready _ _ _ _ _ _ _ h; peel hk)
  all_goals (
    have hchk := ‹unbondCheck s _ _ _ _ = none›
    have hf : com.commission ≤ balanceOf s t.sender t.gasCoin := by norm_checks; omega
    cases hk
    refine ⟨⟨hcom, hf⟩, ?_⟩
    intro s1 adj body tags hfr hok1 he
    simp only at he hfr
    first
      | (cases he; done)
      | (cases he
         exact unbond_body_safe s s1 _ _ _ adj _ _ _ _ _ _ _ hok hwf hv hfr hchk ‹unbondMoves s _ _ _ _ _ _ = Except.ok _›))

end Minter
