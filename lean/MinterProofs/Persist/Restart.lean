import MinterProofs.Persist.Commit
/-
  Persistence layer, helper lemmas (3): restart, whole blocks.
-/
namespace Minter
namespace Persist

theorem fresh_coherent (d : Disk) : Coherent { mem := {}, disk := d } := by
  refine ⟨?_, ?_, ?_, ?_, ?_, ?_, ?_, ?_, ?_⟩ <;> simp

/-- **Restart reads back exactly the disk**: the new memory is coherent and shows the disk's logical content. -/
theorem restart_ok (d : Disk) (n' : Node) (hr : restart d = some n') :
    logical n' = logicalOfDisk d ∧ Coherent n' ∧ n'.disk = d := by
  unfold restart at hr
  simp only at hr
  have c0 := fresh_coherent d
  obtain ⟨l1, c1, d1⟩ := qStart_ok _ c0
  obtain ⟨l2, c2, d2⟩ := qHeight_ok _ c1
  obtain ⟨l3, c3, d3, _⟩ := qVersions_ok _ c2
  split at hr
  · cases hr; exact ⟨l1, c1, d1⟩
  · split at hr
    · cases hr
      refine ⟨?_, c3, ?_⟩
      · rw [l3, l2, l1]; rfl
      · rw [d3, d2, d1]
    · cases hr

theorem restart_flushed (d : Disk) (n' : Node) (hr : restart d = some n') : Flushed n' := by
  obtain ⟨h1, _, h3⟩ := restart_ok d n' hr
  unfold Flushed; rw [h3, h1]

theorem treeLookup_erase_ne (v w : Nat) (t : Tree) (h : v ≠ w) : treeLookup v (treeErase w t) = treeLookup v t := by
  induction t with
  | nil => rfl
  | cons p t ih =>
    obtain ⟨x, y⟩ := p
    simp only [treeErase]
    by_cases hx : x = w
    · simp only [hx, ↓reduceIte, treeLookup]
      rw [ih]
      have : ¬ w = v := fun e => h e.symm
      simp [this]
    · simp only [hx, ↓reduceIte, treeLookup]
      rw [ih]

theorem treeAfter_lookup (cfg : Cfg) (start : Nat) (t : Tree) (h : Nat) (hash : Hash)
    (hl : treeLookup h t = none ∨ treeLookup h t = some hash) :
    treeLookup h (treeAfter cfg start t h hash) = some hash := by
  unfold treeAfter
  have base : treeLookup h (match treeLookup h t with | none => (h, hash) :: t | some _ => t) = some hash := by
    rcases hl with hl | hl <;> simp [hl, treeLookup]
  simp only
  split
  · next hc =>
    rw [treeLookup_erase_ne _ _ _ (by omega)]
    exact base
  · exact base

/-- restart succeeds when the tree has the version of the recorded height. -/
theorem restart_some (d : Disk) (h : Nat) (hh : d.app.height = some h) (ht : (treeLookup h d.tree).isSome) :
    ∃ r, restart d = some r := by
  unfold restart
  simp only
  split
  · exact ⟨_, rfl⟩
  · have hv : (getLastHeight (getStartHeight { mem := {}, disk := d }).2).1 = h := by
      obtain ⟨_, c1, d1⟩ := qStart_ok _ (fresh_coherent d)
      have := observe_eq _ c1
      have h2 := congrArg Obs.infoHeight this
      simp only [observe, obsL, logical] at h2
      rw [h2, d1]; simp [hh]
    rw [hv]
    simp [ht]

theorem getStartHeight_val (n : Node) (hc : Coherent n) : (getStartHeight n).1 = (logical n).startHeight.getD 0 := by
  have := congrArg Obs.startHeight (observe_eq n hc)
  simpa [observe, obsL] using this

theorem opL_fixed (l : Logical) (o : MemOp) :
    (opL l o).hash = l.hash ∧ (opL l o).height = l.height ∧ (opL l o).startHeight = l.startHeight := by
  cases o <;> simp [opL]

theorem runOpsL_fixed (os : List MemOp) : ∀ l : Logical,
    (runOpsL l os).hash = l.hash ∧ (runOpsL l os).height = l.height ∧ (runOpsL l os).startHeight = l.startHeight := by
  induction os with
  | nil => intro l; exact ⟨rfl, rfl, rfl⟩
  | cons o os ih =>
    intro l
    obtain ⟨a, b, c⟩ := ih (opL l o)
    obtain ⟨a', b', c'⟩ := opL_fixed l o
    simp only [runOpsL]
    exact ⟨a.trans a', b.trans b', c.trans c'⟩

/-- operations never empty a non-empty block-time cache. -/
theorem memOp_times_ne (n : Node) (o : MemOp) (h : n.mem.lastTimeBlocks ≠ []) : (memOp n o).mem.lastTimeBlocks ≠ [] := by
  have hE : n.mem.lastTimeBlocks.isEmpty = false := by
    cases hx : n.mem.lastTimeBlocks with
    | nil => exact absurd hx h
    | cons _ _ => rfl
  cases o with
  | qHeight => simp only [memOp, getLastHeight]; split <;> (try split) <;> exact h
  | qStart => simp only [memOp, getStartHeight]; split <;> (try split) <;> exact h
  | qDelta => simp only [memOp, getLastBlockTimeDelta, hE]; exact h
  | qVersions => simp only [memOp, getVersions]; split <;> (try split) <;> exact h
  | qEmission => simp only [memOp, getEmission]; split <;> (try split) <;> exact h
  | qPrice => simp only [memOp, getPrice]; split <;> (try split) <;> exact h
  | addBlockTime t => simp only [memOp]; exact takeLast_append_ne_nil 4 _ t (by decide)
  | setValidators f => exact h
  | addVersion nm hh => simp only [memOp, getVersions]; split <;> (try split) <;> exact h
  | setEmission f => simp only [memOp, getEmission]; split <;> (try split) <;> exact h
  | setPrice f => simp only [memOp, getPrice]; split <;> (try split) <;> exact h

theorem runOps_times_ne (os : List MemOp) : ∀ n : Node, n.mem.lastTimeBlocks ≠ [] → (runOps n os).mem.lastTimeBlocks ≠ [] := by
  induction os with
  | nil => intro n h; exact h
  | cons o os ih => intro n h; exact ih _ (memOp_times_ne n o h)

theorem blockOps_times_ne (n : Node) (b : Block) : (runOps n (blockOps b)).mem.lastTimeBlocks ≠ [] := by
  simp only [blockOps, runOps]
  apply runOps_times_ne
  simp only [memOp]
  exact takeLast_append_ne_nil 4 _ _ (by decide)

theorem blockOps_ok (b : Block) (h : OpsOK b.ops) : OpsOK (blockOps b) := by
  intro o ho
  simp only [blockOps, List.mem_cons] at ho
  rcases ho with rfl | ho
  · trivial
  · exact h o ho

/-- a block on the logical content. -/
def blockL (l : Logical) (h : Nat) (b : Block) : Logical :=
  { runOpsL l (blockOps b) with hash := some b.hash, height := some h }

/-- **One block:** the result is a function of the logical content and the tree; afterwards nothing is pending. -/
theorem runBlock_ok (cfg : Cfg) (n : Node) (hc : Coherent n) (h : Nat) (b : Block) (hok : OpsOK b.ops) (n' : Node)
    (hr : runBlock cfg n h b = some n') :
    logical n' = blockL (logical n) h b ∧ Coherent n' ∧ Clean n' ∧
    n'.disk.tree = treeAfter cfg ((logical n).startHeight.getD 0) n.disk.tree h b.hash ∧
    treeLookup h n'.disk.tree = some b.hash := by
  unfold runBlock at hr
  obtain ⟨l1, c1, d1⟩ := runOps_ok (blockOps b) n hc (blockOps_ok b hok)
  obtain ⟨l2, c2, k2⟩ := commit_ok cfg _ c1 (blockOps_times_ne n b) h b.hash b.nEv n' hr
  obtain ⟨_, _, t3, t4⟩ := commit_some cfg _ h b.hash b.nEv n' hr
  have hs : (getStartHeight (runOps n (blockOps b))).1 = (logical n).startHeight.getD 0 := by
    rw [getStartHeight_val _ c1, l1, (runOpsL_fixed _ _).2.2]
  refine ⟨?_, c2, k2, ?_, ?_⟩
  · rw [l2, l1]; rfl
  · rw [t3, hs, d1]
  · rw [t3]; rw [d1] at t4 ⊢; exact treeAfter_lookup _ _ _ _ _ t4

theorem runBlock_none (cfg : Cfg) (n : Node) (hc : Coherent n) (h : Nat) (b : Block) (hok : OpsOK b.ops) :
    runBlock cfg n h b = none ↔ ∃ old, treeLookup h n.disk.tree = some old ∧ old ≠ b.hash := by
  obtain ⟨_, _, d1⟩ := runOps_ok (blockOps b) n hc (blockOps_ok b hok)
  unfold runBlock commit commitWrites
  rw [← d1, ← preWrites_none cfg _ h b.hash b.nEv]
  cases preWrites cfg (runOps n (blockOps b)) h b.hash b.nEv <;> simp

/-- two nodes with the same logical content and tree answer a block alike. -/
theorem runBlock_congr (cfg : Cfg) (a b : Node) (ha : Coherent a) (hb : Coherent b) (hl : logical a = logical b)
    (ht : a.disk.tree = b.disk.tree) (h : Nat) (blk : Block) (hok : OpsOK blk.ops) :
    (runBlock cfg a h blk = none ∧ runBlock cfg b h blk = none) ∨
    ∃ a' b', runBlock cfg a h blk = some a' ∧ runBlock cfg b h blk = some b' ∧ logical a' = logical b' ∧
      a'.disk.tree = b'.disk.tree := by
  cases hra : runBlock cfg a h blk with
  | none =>
    left
    refine ⟨rfl, ?_⟩
    rw [runBlock_none cfg b hb h blk hok, ← ht, ← runBlock_none cfg a ha h blk hok]; exact hra
  | some a' =>
    cases hrb : runBlock cfg b h blk with
    | none =>
      exfalso
      rw [runBlock_none cfg b hb h blk hok, ← ht, ← runBlock_none cfg a ha h blk hok] at hrb
      rw [hrb] at hra; cases hra
    | some b' =>
      right
      obtain ⟨x1, _, _, x4, _⟩ := runBlock_ok cfg a ha h blk hok a' hra
      obtain ⟨y1, _, _, y4, _⟩ := runBlock_ok cfg b hb h blk hok b' hrb
      exact ⟨a', b', rfl, rfl, by rw [x1, y1, hl], by rw [x4, y4, hl, ht]⟩

end Persist
end Minter
