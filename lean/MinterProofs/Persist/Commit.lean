import MinterProofs.Persist.Basic
/-
  Persistence layer, helper lemmas (2): the writes of `Commit`, what they leave on disk, and that nothing stays pending.
-/
namespace Minter
namespace Persist

theorem applyWrites_append (d : Disk) (a b : List Write) : applyWrites d (a ++ b) = applyWrites (applyWrites d a) b := by
  induction a generalizing d with
  | nil => rfl
  | cons w ws ih => simp only [List.cons_append, applyWrites]; exact ih _

theorem applyWrites_app (d : Disk) (rs : List Rec) :
    applyWrites d (rs.map Write.app) = { d with app := setRecs d.app rs } := by
  induction rs generalizing d with
  | nil => rfl
  | cons r rs ih => simp only [List.map_cons, applyWrites, applyWrite, setRecs]; rw [ih]

theorem applyWrites_events (d : Disk) (h k : Nat) :
    (applyWrites d (eventWrites h k)).app = d.app ∧ (applyWrites d (eventWrites h k)).tree = d.tree := by
  induction k generalizing d with
  | zero => exact ⟨rfl, rfl⟩
  | succ k ih =>
    simp only [eventWrites, applyWrites_append, applyWrites, applyWrite]
    exact ih d

/-- the tree after the state-DB writes of a commit. -/
def treeAfter (cfg : Cfg) (start : Nat) (t : Tree) (h : Nat) (hash : Hash) : Tree :=
  let t1 := match treeLookup h t with | none => (h, hash) :: t | some _ => t
  if start + cfg.keep + 1 ≤ h ∧ (treeLookup (h - cfg.keep - 1) t).isSome then treeErase (h - cfg.keep - 1) t1 else t1

/-- the closed form of the app records after a complete commit. -/
def appAfter (a : AppDisk) (m : AppMem) (h : Nat) (hash : Hash) : AppDisk :=
  { hash := some hash, height := some h, startHeight := a.startHeight,
    validators := match m.validators with | some vs => some vs | none => a.validators,
    blockTimes := some m.lastTimeBlocks,
    versions := if m.isDirtyVersions then some m.versions else a.versions,
    emission := if m.isDirtyEmission then some (m.emission.getD 0) else a.emission,
    price := if m.isDirtyPrice then (match m.price with | some p => some p | none => a.price) else a.price }

theorem setRecs_appRecs (a : AppDisk) (m : AppMem) (h : Nat) (hash : Hash) :
    setRecs a (appRecs m h hash) = appAfter a m h hash := by
  unfold appRecs appAfter
  cases m.validators <;> cases m.isDirtyVersions <;> cases m.isDirtyEmission <;> cases m.isDirtyPrice <;>
    cases m.price <;> simp [setRecs, setRec]

theorem preWrites_some (cfg : Cfg) (n : Node) (h : Nat) (hash : Hash) (nEv : Nat) (pre : List Write)
    (hp : preWrites cfg n h hash nEv = some pre) :
    (treeLookup h n.disk.tree = none ∨ treeLookup h n.disk.tree = some hash) ∧
    (applyWrites n.disk pre).app = n.disk.app ∧
    (applyWrites n.disk pre).tree = treeAfter cfg (getStartHeight n).1 n.disk.tree h hash := by
  unfold preWrites treeWrites at hp
  cases hl : treeLookup h n.disk.tree with
  | none =>
    simp only [hl] at hp
    cases hp
    refine ⟨Or.inl rfl, ?_, ?_⟩
    · simp only [applyWrites_append]
      unfold pruneWrites
      split <;> simp [applyWrites, applyWrite, (applyWrites_events n.disk h nEv).1]
    · simp only [applyWrites_append, treeAfter, hl]
      unfold pruneWrites
      split <;> simp [applyWrites, applyWrite, (applyWrites_events n.disk h nEv).2]
  | some old =>
    simp only [hl] at hp
    by_cases ho : old = hash
    · simp only [ho, ↓reduceIte, Option.some.injEq] at hp
      subst hp
      refine ⟨Or.inr (by rw [ho]), ?_, ?_⟩
      · simp only [applyWrites_append]
        unfold pruneWrites
        split <;> simp [applyWrites, applyWrite, (applyWrites_events n.disk h nEv).1]
      · simp only [applyWrites_append, treeAfter, hl]
        unfold pruneWrites
        split <;> simp [applyWrites, applyWrite, (applyWrites_events n.disk h nEv).2]
    · simp [ho] at hp

theorem preWrites_none (cfg : Cfg) (n : Node) (h : Nat) (hash : Hash) (nEv : Nat) :
    preWrites cfg n h hash nEv = none ↔ ∃ old, treeLookup h n.disk.tree = some old ∧ old ≠ hash := by
  unfold preWrites treeWrites
  cases hl : treeLookup h n.disk.tree with
  | none => simp
  | some old =>
    by_cases ho : old = hash <;> simp [ho]

/-- What a successful `Commit` leaves behind. -/
theorem commit_some (cfg : Cfg) (n : Node) (h : Nat) (hash : Hash) (nEv : Nat) (n' : Node)
    (hcm : commit cfg n h hash nEv = some n') :
    n'.mem = memAfterCommit n.mem h ∧ n'.disk.app = appAfter n.disk.app n.mem h hash ∧
    n'.disk.tree = treeAfter cfg (getStartHeight n).1 n.disk.tree h hash ∧
    (treeLookup h n.disk.tree = none ∨ treeLookup h n.disk.tree = some hash) := by
  unfold commit commitWrites at hcm
  cases hp : preWrites cfg n h hash nEv with
  | none => simp [hp] at hcm
  | some pre =>
    simp only [hp, Option.some.injEq] at hcm
    subst hcm
    obtain ⟨h0, h1, h2⟩ := preWrites_some cfg n h hash nEv pre hp
    refine ⟨rfl, ?_, ?_, h0⟩
    · simp only [applyWrites_append, applyWrites_app, h1, setRecs_appRecs]
    · simp only [applyWrites_append, applyWrites_app, h2]

/-- the repaired order leaves exactly the same disk and memory. -/
theorem commitAtomic_eq (cfg : Cfg) (n : Node) (h : Nat) (hash : Hash) (nEv : Nat) :
    commitAtomic cfg n h hash nEv = commit cfg n h hash nEv := by
  unfold commitAtomic commit commitWritesAtomic commitWrites
  cases hp : preWrites cfg n h hash nEv with
  | none => rfl
  | some pre =>
    simp only [applyWrites_append, applyWrites_app, applyWrites, applyWrite]

/-- nothing is pending. -/
structure Clean (n : Node) : Prop where
  vals : n.mem.validators = none
  versions : n.mem.isDirtyVersions = false
  emission : n.mem.isDirtyEmission = false
  price : n.mem.isDirtyPrice = true → n.disk.app.price = n.mem.price
  times : n.mem.lastTimeBlocks ≠ [] → n.disk.app.blockTimes = some n.mem.lastTimeBlocks

theorem flushed_of_clean (n : Node) (hc : Coherent n) (hk : Clean n) : Flushed n := by
  unfold Flushed logicalOfDisk logical
  simp only [List.isEmpty_nil, ↓reduceIte, Logical.mk.injEq, true_and]
  refine ⟨?_, ?_, ?_, ?_, ?_⟩
  · rw [hk.vals]
  · cases hE : n.mem.lastTimeBlocks with
    | nil => simp
    | cons a l => simp; rw [hk.times (by simp [hE]), hE]
  · cases hE : n.mem.versions with
    | nil => simp
    | cons a l => simp; rw [hc.versions hk.versions (by simp [hE]), hE]
  · cases hE : n.mem.emission with
    | none => rfl
    | some e => exact hc.emission hk.emission e hE
  · cases hE : n.mem.price with
    | none => rfl
    | some p =>
      cases hD : n.mem.isDirtyPrice
      · exact hc.price hD p hE
      · simp only; rw [hk.price hD, hE]

/-- **Commit on the logical content:** only `hash` and `height` change; afterwards the caches are coherent and nothing is
    pending. (`lastTimeBlocks ≠ []`: `BeginBlock` has recorded the block time.) -/
theorem commit_ok (cfg : Cfg) (n : Node) (hc : Coherent n) (ht : n.mem.lastTimeBlocks ≠ []) (h : Nat) (hash : Hash)
    (nEv : Nat) (n' : Node) (hcm : commit cfg n h hash nEv = some n') :
    logical n' = { logical n with hash := some hash, height := some h } ∧ Coherent n' ∧ Clean n' := by
  obtain ⟨hm, ha, _, _⟩ := commit_some cfg n h hash nEv n' hcm
  have hnz := hc.emissionNZ
  have hE : n.mem.lastTimeBlocks.isEmpty = false := by
    cases hx : n.mem.lastTimeBlocks with
    | nil => exact absurd hx ht
    | cons _ _ => rfl
  refine ⟨?_, ?_, ?_⟩
  · simp only [logical, hm, ha, memAfterCommit, appAfter, hE, Logical.mk.injEq, true_and]
    refine ⟨?_, ?_, ?_, ?_, ?_⟩
    · cases n.mem.validators <;> simp
    · simp
    · cases hD : n.mem.isDirtyVersions
      · simp
      · have := hc.versionsD hD
        cases hv : n.mem.versions with
        | nil => exact absurd hv this
        | cons _ _ => simp
    · cases hD : n.mem.isDirtyEmission
      · simp
      · have := hc.emissionD hD
        cases hv : n.mem.emission with
        | none => exact absurd hv this
        | some _ => simp
    · cases hD : n.mem.isDirtyPrice
      · simp
      · have := hc.priceD hD
        cases hv : n.mem.price with
        | none => exact absurd hv this
        | some _ => simp
  · refine ⟨?_, ?_, ?_, ?_, ?_, ?_, ?_, ?_, ?_⟩
    · intro _; rw [ha, hm]; rfl
    · intro hs; rw [ha, hm]; simp only [appAfter, memAfterCommit]; rw [hm] at hs; exact hc.start hs
    · intro _ hv
      rw [hm] at hv; simp only [memAfterCommit] at hv
      rw [ha, hm]; simp only [appAfter, memAfterCommit]
      cases hD : n.mem.isDirtyVersions
      · simp; exact hc.versions hD hv
      · simp
    · intro hD; rw [hm] at hD; simp [memAfterCommit] at hD
    · intro _ e he
      rw [hm] at he; simp only [memAfterCommit] at he
      rw [ha]; simp only [appAfter]
      cases hD : n.mem.isDirtyEmission
      · simp; exact hc.emission hD e he
      · simp only [↓reduceIte, he, Option.getD_some]
        unfold readEmission
        split
        · next hx => simp at hx; subst hx; exact absurd he hnz
        · rfl
    · intro hD; rw [hm] at hD; simp [memAfterCommit] at hD
    · rw [hm]; exact hnz
    · intro hD p hp
      rw [hm] at hD hp; simp only [memAfterCommit] at hD hp
      rw [ha]; simp only [appAfter, hD]
      exact hc.price hD p hp
    · intro hD; rw [hm] at hD ⊢; exact hc.priceD hD
  · refine ⟨by rw [hm]; rfl, by rw [hm]; rfl, by rw [hm]; rfl, ?_, ?_⟩
    · intro hD
      rw [hm] at hD ⊢; simp only [memAfterCommit] at hD ⊢
      rw [ha]; simp only [appAfter, hD, ↓reduceIte]
      have := hc.priceD hD
      cases hv : n.mem.price with
      | none => exact absurd hv this
      | some _ => rfl
    · intro _; rw [ha, hm]; rfl

end Persist
end Minter
