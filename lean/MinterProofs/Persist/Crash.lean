import MinterProofs.Persist.Restart
/-
  Persistence layer, helper lemmas (4): disks left behind by a crash inside `Commit`, and the replay of the block.
-/
namespace Minter
namespace Persist

theorem treeLookup_erase_self (v : Nat) (t : Tree) : treeLookup v (treeErase v t) = none := by
  induction t with
  | nil => rfl
  | cons p t ih =>
    obtain ⟨x, y⟩ := p
    simp only [treeErase]
    by_cases hx : x = v
    · simp only [hx, ↓reduceIte]; exact ih
    · simp only [hx, ↓reduceIte, treeLookup]; exact ih

/-- the state-DB part of a commit, as the two steps it consists of. -/
def treeIns (t : Tree) (h : Nat) (hash : Hash) : Tree :=
  match treeLookup h t with | none => (h, hash) :: t | some _ => t

def pruneCond (cfg : Cfg) (start : Nat) (t : Tree) (h : Nat) : Prop :=
  start + cfg.keep + 1 ≤ h ∧ (treeLookup (h - cfg.keep - 1) t).isSome

instance (cfg : Cfg) (start : Nat) (t : Tree) (h : Nat) : Decidable (pruneCond cfg start t h) := by
  unfold pruneCond; infer_instance

theorem treeAfter_def (cfg : Cfg) (start : Nat) (t : Tree) (h : Nat) (hash : Hash) :
    treeAfter cfg start t h hash =
      if pruneCond cfg start t h then treeErase (h - cfg.keep - 1) (treeIns t h hash) else treeIns t h hash := rfl

/-- A tree from which re-running the commit of block `h` ends in the same tree as from `t0`. -/
structure TreeMid (cfg : Cfg) (start : Nat) (t0 : Tree) (h : Nat) (hash : Hash) (t : Tree) : Prop where
  same : treeAfter cfg start t h hash = treeAfter cfg start t0 h hash
  look : treeLookup h t = none ∨ treeLookup h t = some hash
  other : ∀ v, v ≠ h → (pruneCond cfg start t0 h → v ≠ h - cfg.keep - 1) → treeLookup v t = treeLookup v t0

theorem treeMid_refl (cfg : Cfg) (start : Nat) (t0 : Tree) (h : Nat) (hash : Hash)
    (hl : treeLookup h t0 = none ∨ treeLookup h t0 = some hash) : TreeMid cfg start t0 h hash t0 :=
  ⟨rfl, hl, fun _ _ _ => rfl⟩

theorem treeIns_lookup_ne (t : Tree) (h : Nat) (hash : Hash) (v : Nat) (hv : v ≠ h) :
    treeLookup v (treeIns t h hash) = treeLookup v t := by
  unfold treeIns
  split
  · simp only [treeLookup]
    have : ¬ h = v := fun e => hv e.symm
    simp [this]
  · rfl

theorem treeIns_lookup (t : Tree) (h : Nat) (hash : Hash) (hl : treeLookup h t = none ∨ treeLookup h t = some hash) :
    treeLookup h (treeIns t h hash) = some hash := by
  unfold treeIns
  rcases hl with hl | hl <;> simp [hl, treeLookup]

theorem treeIns_of_some (t : Tree) (h : Nat) (hash x : Hash) (hx : treeLookup h t = some x) : treeIns t h hash = t := by
  unfold treeIns; simp [hx]

theorem treeIns_idem (t : Tree) (h : Nat) (hash : Hash) (hl : treeLookup h t = none ∨ treeLookup h t = some hash) :
    treeIns (treeIns t h hash) h hash = treeIns t h hash :=
  treeIns_of_some _ _ _ _ (treeIns_lookup t h hash hl)

theorem treeMid_ins (cfg : Cfg) (start : Nat) (t0 : Tree) (h : Nat) (hash : Hash) (hk : 0 < cfg.keep ∨ True)
    (hl : treeLookup h t0 = none ∨ treeLookup h t0 = some hash) :
    TreeMid cfg start t0 h hash (treeIns t0 h hash) := by
  refine ⟨?_, Or.inr (treeIns_lookup t0 h hash hl), fun v hv _ => treeIns_lookup_ne t0 h hash v hv⟩
  rw [treeAfter_def, treeAfter_def, treeIns_idem t0 h hash hl]
  by_cases hc : pruneCond cfg start t0 h
  · have hc' : pruneCond cfg start (treeIns t0 h hash) h := by
      refine ⟨hc.1, ?_⟩
      rw [treeIns_lookup_ne _ _ _ _ (by have := hc.1; omega)]; exact hc.2
    simp [hc, hc']
  · have hc' : ¬ pruneCond cfg start (treeIns t0 h hash) h := by
      intro hx
      apply hc
      refine ⟨hx.1, ?_⟩
      have := hx.2
      rw [treeIns_lookup_ne _ _ _ _ (by have := hx.1; omega)] at this; exact this
    simp [hc, hc']

theorem treeMid_after (cfg : Cfg) (start : Nat) (t0 : Tree) (h : Nat) (hash : Hash)
    (hl : treeLookup h t0 = none ∨ treeLookup h t0 = some hash) :
    TreeMid cfg start t0 h hash (treeAfter cfg start t0 h hash) := by
  by_cases hc : pruneCond cfg start t0 h
  · have hne : h ≠ h - cfg.keep - 1 := by have := hc.1; omega
    have e : treeAfter cfg start t0 h hash = treeErase (h - cfg.keep - 1) (treeIns t0 h hash) := by
      rw [treeAfter_def]; simp [hc]
    have hlook : treeLookup h (treeErase (h - cfg.keep - 1) (treeIns t0 h hash)) = some hash := by
      rw [treeLookup_erase_ne _ _ _ hne]; exact treeIns_lookup t0 h hash hl
    rw [e]
    refine ⟨?_, Or.inr hlook, ?_⟩
    · rw [treeAfter_def]
      have hc' : ¬ pruneCond cfg start (treeErase (h - cfg.keep - 1) (treeIns t0 h hash)) h := by
        intro hx
        have := hx.2
        rw [treeLookup_erase_self] at this
        simp at this
      simp only [hc', ↓reduceIte]
      rw [treeIns_of_some _ _ _ _ hlook, e]
    · intro v hv hv2
      rw [treeLookup_erase_ne _ _ _ (hv2 hc), treeIns_lookup_ne _ _ _ _ hv]
  · have e : treeAfter cfg start t0 h hash = treeIns t0 h hash := by
      rw [treeAfter_def]; simp [hc]
    rw [e]
    exact treeMid_ins cfg start t0 h hash (Or.inr trivial) hl

/-! ### prefixes of the write list -/

theorem take_two_short {α : Type} (a b : List α) (ha : a.length ≤ 1) (hb : b.length ≤ 1) (j : Nat) :
    (a ++ b).take j = [] ∨ (a ++ b).take j = a ∨ (a ++ b).take j = a ++ b := by
  match a, b, j with
  | [], [], _ => simp
  | [], [y], 0 => simp
  | [], [y], j + 1 => simp
  | [x], [], 0 => simp
  | [x], [], j + 1 => simp
  | [x], [y], 0 => simp
  | [x], [y], 1 => simp
  | [x], [y], j + 2 => simp
  | _ :: _ :: _, _, _ => simp at ha
  | _, _ :: _ :: _, _ => simp at hb

def isEvent : Write → Prop
  | .events _ _ => True
  | _ => False

theorem eventWrites_all (h k : Nat) : ∀ w ∈ eventWrites h k, isEvent w := by
  induction k with
  | zero => intro w hw; simp [eventWrites] at hw
  | succ k ih =>
    intro w hw
    simp only [eventWrites, List.mem_append, List.mem_singleton] at hw
    rcases hw with hw | rfl
    · exact ih w hw
    · trivial

theorem applyWrites_onlyEvents (l : List Write) : ∀ (d : Disk), (∀ w ∈ l, isEvent w) →
    (applyWrites d l).app = d.app ∧ (applyWrites d l).tree = d.tree := by
  induction l with
  | nil => intro d _; exact ⟨rfl, rfl⟩
  | cons w l ih =>
    intro d hw
    have h1 : isEvent w := hw w (by simp)
    obtain ⟨a, b⟩ := ih (applyWrite d w) (fun x hx => hw x (by simp [hx]))
    simp only [applyWrites]
    cases w with
    | events _ _ => exact ⟨a, b⟩
    | treeVersion _ _ => exact absurd h1 (by simp [isEvent])
    | treePrune _ => exact absurd h1 (by simp [isEvent])
    | app _ => exact absurd h1 (by simp [isEvent])
    | appBatch _ => exact absurd h1 (by simp [isEvent])

/-- the disk after any prefix of the writes that precede the application DB: records untouched, tree in a mid state. -/
theorem pre_prefix (cfg : Cfg) (n : Node) (h : Nat) (hash : Hash) (nEv : Nat) (pre : List Write)
    (hp : preWrites cfg n h hash nEv = some pre) (k : Nat) :
    (applyWrites n.disk (pre.take k)).app = n.disk.app ∧
    TreeMid cfg (getStartHeight n).1 n.disk.tree h hash (applyWrites n.disk (pre.take k)).tree := by
  obtain ⟨hl, _, _⟩ := preWrites_some cfg n h hash nEv pre hp
  unfold preWrites at hp
  cases htw : treeWrites n.disk.tree h hash with
  | none => simp [htw] at hp
  | some tw =>
    simp only [htw, Option.some.injEq] at hp
    subst hp
    rw [List.take_append, applyWrites_append]
    have hev := applyWrites_onlyEvents ((eventWrites h nEv).take k) n.disk
      (fun w hw => eventWrites_all h nEv w (List.mem_of_mem_take hw))
    generalize applyWrites n.disk ((eventWrites h nEv).take k) = d1 at hev ⊢
    have htwl : tw.length ≤ 1 ∧ (applyWrites d1 tw).app = n.disk.app ∧
        (applyWrites d1 tw).tree = treeIns n.disk.tree h hash := by
      unfold treeWrites at htw
      unfold treeIns
      cases hlk : treeLookup h n.disk.tree with
      | none => simp [hlk] at htw; subst htw; simp [applyWrites, applyWrite, hev.1, hev.2]
      | some old =>
        simp only [hlk] at htw
        by_cases ho : old = hash
        · simp [ho] at htw; subst htw; simp [applyWrites, hev.1, hev.2]
        · simp [ho] at htw
    have hpwl : (pruneWrites cfg (getStartHeight n).1 n.disk.tree h).length ≤ 1 := by
      unfold pruneWrites; split <;> simp
    rcases take_two_short tw (pruneWrites cfg (getStartHeight n).1 n.disk.tree h) htwl.1 hpwl
      (k - (eventWrites h nEv).length) with e | e | e
    · rw [e]; simp only [applyWrites]
      exact ⟨hev.1, by rw [hev.2]; exact treeMid_refl _ _ _ _ _ hl⟩
    · rw [e]
      exact ⟨htwl.2.1, by rw [htwl.2.2]; exact treeMid_ins _ _ _ _ _ (Or.inr trivial) hl⟩
    · rw [e, applyWrites_append]
      have hfull : (applyWrites (applyWrites d1 tw) (pruneWrites cfg (getStartHeight n).1 n.disk.tree h)).app = n.disk.app ∧
          (applyWrites (applyWrites d1 tw) (pruneWrites cfg (getStartHeight n).1 n.disk.tree h)).tree =
            treeAfter cfg (getStartHeight n).1 n.disk.tree h hash := by
        rw [treeAfter_def]
        unfold pruneWrites pruneCond
        split
        · next hc => simp [applyWrites, applyWrite, htwl.2.1, htwl.2.2, hc]
        · next hc => simp [applyWrites, htwl.2.1, htwl.2.2, hc]
      exact ⟨hfull.1, by rw [hfull.2]; exact treeMid_after _ _ _ _ _ hl⟩

/-! ### replaying the block on a disk left by a crash before the height record -/

theorem opL_hash (l : Logical) (x : Option Hash) (o : MemOp) :
    opL { l with hash := x } o = { opL l o with hash := x } := by
  cases o <;> rfl

theorem runOpsL_hash (os : List MemOp) : ∀ (l : Logical) (x : Option Hash),
    runOpsL { l with hash := x } os = { runOpsL l os with hash := x } := by
  induction os with
  | nil => intro l x; rfl
  | cons o os ih => intro l x; simp only [runOpsL]; rw [opL_hash, ih]

theorem blockL_hash (l : Logical) (x : Option Hash) (h : Nat) (b : Block) :
    blockL { l with hash := x } h b = blockL l h b := by
  unfold blockL; rw [runOpsL_hash]

/-- A disk on which the commit of block `h` was interrupted before the `height` record was written:
    the records are those before the block (possibly with the new `hash`), the tree is in a mid state. -/
structure MidDisk (cfg : Cfg) (start : Nat) (d0 : Disk) (h : Nat) (hash : Hash) (d : Disk) : Prop where
  app : d.app = d0.app ∨ d.app = { d0.app with hash := some hash }
  tree : TreeMid cfg start d0.tree h hash d.tree

theorem logicalOfDisk_app (d d' : Disk) (h : d.app = d'.app) : logicalOfDisk d = logicalOfDisk d' := by
  unfold logicalOfDisk logical; simp [h]

/-- the standing assumptions about the node at the block boundary before block `h`. -/
structure Boundary (cfg : Cfg) (n0 : Node) (h : Nat) : Prop where
  coh : Coherent n0
  flushed : Flushed n0
  height : n0.disk.app.height = some (h - 1)
  hpos : 0 < h
  prev : (treeLookup (h - 1) n0.disk.tree).isSome
  keep : 0 < cfg.keep

theorem replay_mid (cfg : Cfg) (n0 : Node) (h : Nat) (b : Block) (hb : Boundary cfg n0 h) (hok : OpsOK b.ops)
    (nc : Node) (hr : runBlock cfg n0 h b = some nc) (d : Disk)
    (hm : MidDisk cfg ((logical n0).startHeight.getD 0) n0.disk h b.hash d) :
    ∃ r rc, restart d = some r ∧ replayFrom d h b.hash = some [h] ∧ runBlock cfg r h b = some rc ∧
      logical rc = logical nc ∧ rc.disk.tree = nc.disk.tree ∧ Coherent rc := by
  have hpos := hb.hpos
  have hkeep := hb.keep
  -- the height record is the old one
  have hdh : d.app.height = some (h - 1) := by
    rcases hm.app with e | e <;> rw [e] <;> exact hb.height
  -- the previous version is still there
  have hprev : (treeLookup (h - 1) d.tree).isSome := by
    rw [hm.tree.other (h - 1) (by omega) (fun hc => by have := hc.1; omega)]; exact hb.prev
  obtain ⟨r, hrs⟩ := restart_some d (h - 1) hdh hprev
  obtain ⟨lr, cr, dr⟩ := restart_ok d r hrs
  -- what the restarted node shows
  have hlog : logical r = logical n0 ∨ logical r = { logical n0 with hash := some b.hash } := by
    rcases hm.app with e | e
    · left; rw [lr, logicalOfDisk_app d n0.disk e]; exact hb.flushed
    · right
      rw [lr, ← hb.flushed]
      unfold logicalOfDisk logical
      simp [e]
  have hstart : (logical r).startHeight = (logical n0).startHeight := by
    rcases hlog with e | e <;> rw [e]
  have hheight : (getLastHeight r).1 = h - 1 := by
    have := congrArg Obs.infoHeight (observe_eq r cr)
    simp only [observe, obsL] at this
    rw [this, lr]; simp [logicalOfDisk, logical, hdh]
  have hreplay : replayFrom d h b.hash = some [h] := by
    unfold replayFrom
    simp only [hrs, info, hheight]
    have h1 : ¬ h < h - 1 := by omega
    have h2 : ¬ h - 1 = h := by omega
    simp only [h1, h2, ↓reduceIte]
    have : h - (h - 1) = 1 := by omega
    rw [this]
    simp [List.range_succ]
    omega
  -- the block runs again
  have hnone : ¬ runBlock cfg r h b = none := by
    rw [runBlock_none cfg r cr h b hok, dr]
    rintro ⟨old, ho, hne⟩
    rcases hm.tree.look with e | e <;> rw [e] at ho
    · cases ho
    · cases ho; exact hne rfl
  cases hrc : runBlock cfg r h b with
  | none => exact absurd hrc hnone
  | some rc =>
    obtain ⟨l1, c1, _, t1, _⟩ := runBlock_ok cfg r cr h b hok rc hrc
    obtain ⟨l2, _, _, t2, _⟩ := runBlock_ok cfg n0 hb.coh h b hok nc hr
    refine ⟨r, rc, hrs, hreplay, hrc, ?_, ?_, c1⟩
    · rw [l1, l2]
      rcases hlog with e | e <;> rw [e]
      rw [blockL_hash]
    · rw [t1, t2, hstart, dr]; exact hm.tree.same

end Persist
end Minter
