import MinterProofs.Persist.Crash
import MinterProofs.Props.C09
/-
  Persistence layer, helper lemmas (5): bisimulation up to old tree versions (a state-synced node has only the snapshot's
  version of the tree; the producer also has older ones).
-/
namespace Minter
namespace Persist

/-- the two trees have the same versions from `lo` upwards. -/
def TreeAgree (lo : Nat) (t1 t2 : Tree) : Prop := ∀ v, lo ≤ v → treeLookup v t1 = treeLookup v t2

theorem treeAfter_lookup_full (cfg : Cfg) (start : Nat) (t : Tree) (h : Nat) (hash : Hash) (v : Nat)
    (hl : treeLookup h t = none ∨ treeLookup h t = some hash) :
    treeLookup v (treeAfter cfg start t h hash) =
      if v = h then some hash else if pruneCond cfg start t h ∧ v = h - cfg.keep - 1 then none else treeLookup v t := by
  rw [treeAfter_def]
  by_cases hc : pruneCond cfg start t h
  · have hne : h ≠ h - cfg.keep - 1 := by have := hc.1; omega
    simp only [hc, ↓reduceIte, true_and]
    by_cases hv : v = h
    · subst hv
      simp only [↓reduceIte]
      rw [treeLookup_erase_ne _ _ _ hne]; exact treeIns_lookup t v hash hl
    · simp only [hv, ↓reduceIte]
      by_cases hp : v = h - cfg.keep - 1
      · simp only [hp, ↓reduceIte]; exact treeLookup_erase_self _ _
      · simp only [hp, ↓reduceIte]
        rw [treeLookup_erase_ne _ _ _ hp, treeIns_lookup_ne _ _ _ _ hv]
  · simp only [hc, ↓reduceIte, false_and]
    by_cases hv : v = h
    · subst hv; simp only [↓reduceIte]; exact treeIns_lookup t v hash hl
    · simp only [hv, ↓reduceIte]; exact treeIns_lookup_ne _ _ _ _ hv

theorem runBlock_look (cfg : Cfg) (n : Node) (hc : Coherent n) (h : Nat) (b : Block) (hok : OpsOK b.ops) (n' : Node)
    (hr : runBlock cfg n h b = some n') : treeLookup h n.disk.tree = none ∨ treeLookup h n.disk.tree = some b.hash := by
  have hnn : ¬ runBlock cfg n h b = none := by rw [hr]; simp
  rw [runBlock_none cfg n hc h b hok] at hnn
  cases hl : treeLookup h n.disk.tree with
  | none => exact Or.inl rfl
  | some old =>
    right
    by_cases ho : old = b.hash
    · rw [ho]
    · exact absurd ⟨old, hl, ho⟩ hnn

theorem runBlock_congr_agree (cfg : Cfg) (lo : Nat) (a b : Node) (ha : Coherent a) (hb : Coherent b)
    (hl : logical a = logical b) (ht : TreeAgree lo a.disk.tree b.disk.tree) (h : Nat) (hlo : lo ≤ h) (blk : Block)
    (hok : OpsOK blk.ops) :
    (runBlock cfg a h blk = none ∧ runBlock cfg b h blk = none) ∨
    ∃ a' b', runBlock cfg a h blk = some a' ∧ runBlock cfg b h blk = some b' ∧ logical a' = logical b' ∧
      TreeAgree lo a'.disk.tree b'.disk.tree := by
  have hnone : runBlock cfg a h blk = none ↔ runBlock cfg b h blk = none := by
    rw [runBlock_none cfg a ha h blk hok, runBlock_none cfg b hb h blk hok, ht h hlo]
  cases hra : runBlock cfg a h blk with
  | none => left; exact ⟨rfl, hnone.mp hra⟩
  | some a' =>
    cases hrb : runBlock cfg b h blk with
    | none => rw [hnone.mpr hrb] at hra; cases hra
    | some b' =>
      right
      obtain ⟨x1, _, _, x4, _⟩ := runBlock_ok cfg a ha h blk hok a' hra
      obtain ⟨y1, _, _, y4, _⟩ := runBlock_ok cfg b hb h blk hok b' hrb
      have la := runBlock_look cfg a ha h blk hok a' hra
      have lb := runBlock_look cfg b hb h blk hok b' hrb
      refine ⟨a', b', rfl, rfl, by rw [x1, y1, hl], ?_⟩
      intro v hv
      rw [x4, y4, treeAfter_lookup_full _ _ _ _ _ _ la, treeAfter_lookup_full _ _ _ _ _ _ lb, hl]
      by_cases hvh : v = h
      · simp [hvh]
      · simp only [hvh, ↓reduceIte]
        by_cases hp : v = h - cfg.keep - 1
        · have hpc : pruneCond cfg ((logical b).startHeight.getD 0) a.disk.tree h ↔
              pruneCond cfg ((logical b).startHeight.getD 0) b.disk.tree h := by
            unfold pruneCond
            rw [ht (h - cfg.keep - 1) (by omega)]
          by_cases hc : pruneCond cfg ((logical b).startHeight.getD 0) a.disk.tree h
          · simp [hc, hpc.mp hc, hp]
          · have hc' : ¬ pruneCond cfg ((logical b).startHeight.getD 0) b.disk.tree h := fun x => hc (hpc.mpr x)
            simp only [hc, hc', false_and, ↓reduceIte]
            exact ht v hv
        · simp only [hp, and_false, ↓reduceIte]
          exact ht v hv

/-- final node of a history (blocks `h, h+1, …`, each followed by `k` restarts). -/
def runNodes (cfg : Cfg) : Node → Nat → List (Block × Nat) → Option Node
  | n, _, [] => some n
  | n, h, (b, k) :: rest =>
    match runBlock cfg n h b with
    | none => none
    | some n1 =>
      match restarts k n1 with
      | none => none
      | some n2 => runNodes cfg n2 (h + 1) rest

/-- Two coherent nodes with the same logical content whose trees agree from `lo ≤ h` upwards produce the same
    observations on every history, whatever restarts either of them performs. -/
theorem runSteps_congr_agree (cfg : Cfg) (lo : Nat) (steps : List (Block × Nat)) : ∀ (a b : Node) (h : Nat), lo ≤ h →
    Coherent a → Coherent b → logical a = logical b → TreeAgree lo a.disk.tree b.disk.tree → StepsOK steps →
    runSteps cfg a h steps = runSteps cfg b h (steps.map (fun s => (s.1, 0))) := by
  induction steps with
  | nil => intro a b h _ _ _ _ _ _; rfl
  | cons s rest ih =>
    intro a b h hlo ha hb hl ht hok
    obtain ⟨blk, k⟩ := s
    have hokb : OpsOK blk.ops := hok (blk, k) (by simp)
    have hokr : StepsOK rest := fun x hx => hok x (by simp [hx])
    rcases runBlock_congr_agree cfg lo a b ha hb hl ht h hlo blk hokb with ⟨e1, e2⟩ | ⟨a', b', e1, e2, hl', ht'⟩
    · simp only [runSteps, List.map_cons, e1, e2]
    · obtain ⟨la, ca, ka, _, ta⟩ := runBlock_ok cfg a ha h blk hokb a' e1
      obtain ⟨_, cb, _, _, _⟩ := runBlock_ok cfg b hb h blk hokb b' e2
      have hh : a'.disk.app.height = some h := by
        have := congrArg Logical.height la
        simpa [logical, blockL] using this
      obtain ⟨r, hr, lr, cr, dr⟩ := restarts_ok k a' h ca (flushed_of_clean a' ca ka) hh (by simp [ta])
      simp only [runSteps, List.map_cons, e1, e2, hr, restarts]
      have hobs : observe r = observe b' := by
        rw [observe_eq r cr, observe_eq b' cb, lr, hl']
      rw [hobs, ih r b' (h + 1) (by omega) cr cb (by rw [lr, hl']) (by rw [dr]; exact ht') hokr]

/-- the same for the final nodes: both histories halt together or end in coherent, flushed nodes with the same logical
    content and agreeing trees. -/
theorem runNodes_congr_agree (cfg : Cfg) (lo : Nat) (steps : List (Block × Nat)) : ∀ (a b : Node) (h : Nat), lo ≤ h →
    Coherent a → Coherent b → Flushed a → Flushed b → logical a = logical b →
    TreeAgree lo a.disk.tree b.disk.tree → StepsOK steps →
    (runNodes cfg a h steps = none ∧ runNodes cfg b h (steps.map (fun s => (s.1, 0))) = none) ∨
    ∃ a' b', runNodes cfg a h steps = some a' ∧ runNodes cfg b h (steps.map (fun s => (s.1, 0))) = some b' ∧
      Coherent a' ∧ Coherent b' ∧ Flushed a' ∧ Flushed b' ∧ logical a' = logical b' ∧
      TreeAgree lo a'.disk.tree b'.disk.tree := by
  induction steps with
  | nil => intro a b h _ ha hb fa fb hl ht _; right; exact ⟨a, b, rfl, rfl, ha, hb, fa, fb, hl, ht⟩
  | cons s rest ih =>
    intro a b h hlo ha hb _ _ hl ht hok
    obtain ⟨blk, k⟩ := s
    have hokb : OpsOK blk.ops := hok (blk, k) (by simp)
    have hokr : StepsOK rest := fun x hx => hok x (by simp [hx])
    rcases runBlock_congr_agree cfg lo a b ha hb hl ht h hlo blk hokb with ⟨e1, e2⟩ | ⟨a', b', e1, e2, hl', ht'⟩
    · left; simp only [runNodes, List.map_cons, e1, e2, and_self]
    · obtain ⟨la, ca, ka, _, ta⟩ := runBlock_ok cfg a ha h blk hokb a' e1
      obtain ⟨_, cb, kb, _, _⟩ := runBlock_ok cfg b hb h blk hokb b' e2
      have hh : a'.disk.app.height = some h := by
        have := congrArg Logical.height la
        simpa [logical, blockL] using this
      obtain ⟨r, hr, lr, cr, dr⟩ := restarts_ok k a' h ca (flushed_of_clean a' ca ka) hh (by simp [ta])
      have fr : Flushed r := by
        unfold Flushed; rw [dr, lr]; exact flushed_of_clean a' ca ka
      simp only [runNodes, List.map_cons, e1, e2, hr, restarts]
      exact ih r b' (h + 1) (by omega) cr cb fr (flushed_of_clean b' cb kb) (by rw [lr, hl']) (by rw [dr]; exact ht') hokr

end Persist
end Minter
