import MinterModel.Persist
/-
  Persistence layer, helper lemmas (1): getters, memory operations and `Commit` as functions of the logical content.
-/
namespace Minter
namespace Persist

/-! ### the logical (record-level) semantics -/

/-- a memory operation on the logical content. -/
def opL (l : Logical) : MemOp → Logical
  | .addBlockTime t => { l with times := some (takeLast 4 (l.times.getD [] ++ [t])) }
  | .setValidators f => { l with validators := some (f (l.validators.getD [])) }
  | .addVersion name h => { l with versions := some (l.versions.getD [] ++ [⟨name, h⟩]) }
  | .setEmission f => { l with emission := some (f l.emission) }
  | .setPrice f => { l with price := some (f l.price) }
  | _ => l

def runOpsL (l : Logical) : List MemOp → Logical
  | [] => l
  | o :: os => runOpsL (opL l o) os

theorem readEmission_ne_zero (o : Option Nat) : readEmission o ≠ some 0 := by
  unfold readEmission
  split <;> simp_all

theorem takeLast_append_ne_nil (k : Nat) (l : List Nat) (t : Nat) (hk : 0 < k) : takeLast k (l ++ [t]) ≠ [] := by
  unfold takeLast
  intro h
  have := congrArg List.length h
  simp at this
  omega

/-- **Every getter answers from the logical content.** -/
theorem observe_eq (n : Node) (hc : Coherent n) : observe n = obsL (logical n) := by
  have h1 := hc.height
  have h2 := hc.start
  unfold observe obsL logical getLastHeight getStartHeight getLastBlockHash getValidators getLastBlockTimeDelta getVersions
    getEmission getPrice
  congr 1
  · by_cases h : n.mem.lastHeight = 0
    · simp [h]; cases n.disk.app.height <;> simp
    · simp [h, h1 h]
  · by_cases h : n.mem.startHeight = 0
    · simp [h]; cases n.disk.app.startHeight <;> simp
    · simp [h, h2 h]
  · cases n.mem.validators <;> simp
  · cases hE : n.mem.lastTimeBlocks.isEmpty <;> simp [hE]
    cases n.disk.app.blockTimes <;> simp
  · cases hE : n.mem.versions.isEmpty <;> simp [hE]
    cases n.disk.app.versions <;> simp
  · cases n.mem.emission <;> simp
    cases readEmission n.disk.app.emission <;> simp
  · cases n.mem.price <;> simp
    cases n.disk.app.price <;> simp

theorem opOK_of_mem {o : MemOp} {os : List MemOp} (h : ∀ x ∈ os, OpOK x) (ho : o ∈ os) : OpOK o := h o ho

/-! ### queries only fill caches -/

theorem qHeight_ok (n : Node) (hc : Coherent n) :
    logical (getLastHeight n).2 = logical n ∧ Coherent (getLastHeight n).2 ∧ (getLastHeight n).2.disk = n.disk := by
  unfold getLastHeight
  by_cases h : n.mem.lastHeight = 0
  · simp only [h, ne_eq, not_true_eq_false, ↓reduceIte]
    cases hd : n.disk.app.height with
    | none => exact ⟨(by trivial), hc, (by trivial)⟩
    | some v =>
      refine ⟨(by trivial), ?_, (by trivial)⟩
      exact { hc with height := by intro _; simpa using hd }
  · simp only [ne_eq, h, not_false_eq_true, ↓reduceIte]; exact ⟨(by trivial), hc, (by trivial)⟩

theorem qStart_ok (n : Node) (hc : Coherent n) :
    logical (getStartHeight n).2 = logical n ∧ Coherent (getStartHeight n).2 ∧ (getStartHeight n).2.disk = n.disk := by
  unfold getStartHeight
  by_cases h : n.mem.startHeight = 0
  · simp only [h, ne_eq, not_true_eq_false, ↓reduceIte]
    cases hd : n.disk.app.startHeight with
    | none => exact ⟨(by trivial), hc, (by trivial)⟩
    | some v =>
      refine ⟨(by trivial), ?_, (by trivial)⟩
      exact { hc with start := by intro _; simpa using hd }
  · simp only [ne_eq, h, not_false_eq_true, ↓reduceIte]; exact ⟨(by trivial), hc, (by trivial)⟩

theorem qDelta_ok (n : Node) (hc : Coherent n) :
    logical (getLastBlockTimeDelta n).2 = logical n ∧ Coherent (getLastBlockTimeDelta n).2 ∧
      (getLastBlockTimeDelta n).2.disk = n.disk := by
  unfold getLastBlockTimeDelta
  cases hE : n.mem.lastTimeBlocks.isEmpty
  · simp only [Bool.false_eq_true, ↓reduceIte]; exact ⟨(by trivial), hc, (by trivial)⟩
  · simp only [↓reduceIte]
    cases hd : n.disk.app.blockTimes with
    | none => exact ⟨(by trivial), hc, (by trivial)⟩
    | some l =>
      refine ⟨?_, ?_, (by trivial)⟩
      · simp only [logical, hE, hd, ↓reduceIte]
        cases l <;> simp
      · exact { hc with }

theorem loadTimes_ok (n : Node) (hc : Coherent n) :
    logical (loadTimes n) = logical n ∧ Coherent (loadTimes n) ∧ (loadTimes n).disk = n.disk ∧
      (loadTimes n).mem.lastTimeBlocks = (logical n).times.getD [] := by
  unfold loadTimes
  cases hE : n.mem.lastTimeBlocks.isEmpty
  · simp only [Bool.false_eq_true, ↓reduceIte]
    refine ⟨(by trivial), hc, (by trivial), ?_⟩
    simp [logical, hE]
  · simp only [↓reduceIte]
    cases hd : n.disk.app.blockTimes with
    | none =>
      refine ⟨(by trivial), hc, (by trivial), ?_⟩
      simp only [logical, hE, hd, ↓reduceIte, Option.getD_none]
      simpa using hE
    | some l =>
      refine ⟨?_, ?_, (by trivial), ?_⟩
      · simp only [logical, hE, hd, ↓reduceIte]
        cases l <;> simp
      · exact { hc with }
      · simp [logical, hE, hd]

theorem qVersions_ok (n : Node) (hc : Coherent n) :
    logical (getVersions n).2 = logical n ∧ Coherent (getVersions n).2 ∧ (getVersions n).2.disk = n.disk ∧
      (getVersions n).2.mem.versions = (logical n).versions.getD [] ∧
      (getVersions n).2.mem.isDirtyVersions = n.mem.isDirtyVersions := by
  unfold getVersions
  cases hE : n.mem.versions.isEmpty
  · simp only [Bool.false_eq_true, ↓reduceIte]
    refine ⟨(by trivial), hc, (by trivial), ?_, (by trivial)⟩
    simp [logical, hE]
  · simp only [↓reduceIte]
    have hnil : n.mem.versions = [] := by simpa using hE
    have hdirty : n.mem.isDirtyVersions = false := by
      cases hD : n.mem.isDirtyVersions
      · rfl
      · exact absurd hnil (hc.versionsD hD)
    cases hd : n.disk.app.versions with
    | none =>
      refine ⟨(by trivial), hc, (by trivial), ?_, (by trivial)⟩
      simp [logical, hE, hd, hnil]
    | some l =>
      refine ⟨?_, ?_, (by trivial), ?_, (by trivial)⟩
      · simp only [logical, hE, hd, ↓reduceIte]
        cases l <;> simp
      · exact { hc with
          versions := by intro _ _; simpa using hd
          versionsD := by intro h; simp [hdirty] at h }
      · simp [logical, hE, hd]

theorem qEmission_ok (n : Node) (hc : Coherent n) :
    logical (getEmission n).2 = logical n ∧ Coherent (getEmission n).2 ∧ (getEmission n).2.disk = n.disk ∧
      (getEmission n).1 = (logical n).emission ∧
      (getEmission n).2.mem.isDirtyEmission = n.mem.isDirtyEmission := by
  unfold getEmission
  cases hm : n.mem.emission with
  | some e =>
    refine ⟨(by trivial), hc, (by trivial), ?_, (by trivial)⟩
    simp [logical, hm]
  | none =>
    cases hd : readEmission n.disk.app.emission with
    | none =>
      refine ⟨(by trivial), hc, (by trivial), ?_, (by trivial)⟩
      simp [logical, hm, hd]
    | some e =>
      have he : e ≠ 0 := by
        intro h0; subst h0; exact readEmission_ne_zero _ hd
      refine ⟨?_, ?_, (by trivial), ?_, (by trivial)⟩
      · simp [logical, hm, hd]
      · exact { hc with
          emission := by intro _ e' he'; simp at he'; subst he'; exact hd
          emissionD := by intro _; simp
          emissionNZ := by simp; exact he }
      · simp [logical, hm, hd]

theorem qPrice_ok (n : Node) (hc : Coherent n) :
    logical (getPrice n).2 = logical n ∧ Coherent (getPrice n).2 ∧ (getPrice n).2.disk = n.disk ∧
      (getPrice n).1 = (logical n).price ∧ (getPrice n).2.mem.isDirtyPrice = n.mem.isDirtyPrice := by
  unfold getPrice
  cases hm : n.mem.price with
  | some e =>
    refine ⟨(by trivial), hc, (by trivial), ?_, (by trivial)⟩
    simp [logical, hm]
  | none =>
    cases hd : n.disk.app.price with
    | none =>
      refine ⟨(by trivial), hc, (by trivial), ?_, (by trivial)⟩
      simp [logical, hm, hd]
    | some e =>
      refine ⟨?_, ?_, (by trivial), ?_, (by trivial)⟩
      · simp [logical, hm, hd]
      · exact { hc with
          price := by intro _ e' he'; simp at he'; subst he'; exact hd
          priceD := by intro _; simp }
      · simp [logical, hm, hd]

/-! ### memory operations -/

/-- **A memory operation acts on the logical content only, keeps the caches coherent and never touches the disk.** -/
theorem memOp_ok (n : Node) (hc : Coherent n) (op : MemOp) (hok : OpOK op) :
    logical (memOp n op) = opL (logical n) op ∧ Coherent (memOp n op) ∧ (memOp n op).disk = n.disk := by
  cases op with
  | qHeight => exact qHeight_ok n hc
  | qStart => exact qStart_ok n hc
  | qDelta => exact qDelta_ok n hc
  | qVersions => obtain ⟨a, b, c, _⟩ := qVersions_ok n hc; exact ⟨a, b, c⟩
  | qEmission => obtain ⟨a, b, c, _⟩ := qEmission_ok n hc; exact ⟨a, b, c⟩
  | qPrice => obtain ⟨a, b, c, _⟩ := qPrice_ok n hc; exact ⟨a, b, c⟩
  | addBlockTime t =>
    obtain ⟨hl, hc1, hd, ht⟩ := loadTimes_ok n hc
    have hne := takeLast_append_ne_nil 4 ((loadTimes n).mem.lastTimeBlocks) t (by decide)
    refine ⟨?_, ?_, ?_⟩
    · simp only [memOp, opL]
      rw [← ht]
      have : (takeLast 4 ((loadTimes n).mem.lastTimeBlocks ++ [t])).isEmpty = false := by
        cases hx : takeLast 4 ((loadTimes n).mem.lastTimeBlocks ++ [t]) with
        | nil => exact absurd hx hne
        | cons _ _ => rfl
      have hl' := hl
      simp only [logical] at hl' ⊢
      simp only [this, hd]
      simp only [Logical.mk.injEq] at hl' ⊢
      obtain ⟨h1, h2, h3, h4, _, h6, h7, h8⟩ := hl'
      rw [hd] at h1 h2 h3 h4 h6 h7 h8
      exact ⟨trivial, trivial, trivial, h4, by simp, h6, h7, h8⟩
    · exact { hc1 with }
    · simpa [memOp] using hd
  | setValidators f =>
    refine ⟨?_, { hc with }, (by trivial)⟩
    simp only [memOp, opL, logical, getValidators]
    cases n.mem.validators <;> simp
  | addVersion name h =>
    obtain ⟨hl, hc1, hd, hv, _⟩ := qVersions_ok n hc
    refine ⟨?_, ?_, ?_⟩
    · simp only [memOp, opL]
      rw [← hv]
      have hl' := hl
      simp only [logical] at hl' ⊢
      simp only [Logical.mk.injEq] at hl' ⊢
      obtain ⟨h1, h2, h3, h4, h5, _, h7, h8⟩ := hl'
      refine ⟨h1, h2, h3, h4, h5, by simp, h7, h8⟩
    · exact { hc1 with
        versions := by intro h; simp [memOp] at h
        versionsD := by intro _; simp [memOp] }
    · simpa [memOp] using hd
  | setEmission f =>
    obtain ⟨hl, hc1, hd, hv, _⟩ := qEmission_ok n hc
    refine ⟨?_, ?_, ?_⟩
    · simp only [memOp, opL]
      rw [← hv]
      have hl' := hl
      simp only [logical] at hl' ⊢
      simp only [Logical.mk.injEq] at hl' ⊢
      obtain ⟨h1, h2, h3, h4, h5, h6, _, h8⟩ := hl'
      exact ⟨h1, h2, h3, h4, h5, h6, trivial, h8⟩
    · exact { hc1 with
        emission := by intro h; simp [memOp] at h
        emissionD := by intro _; simp [memOp]
        emissionNZ := by simp only [memOp]; intro h; exact hok _ (Option.some.inj h) }
    · simpa [memOp] using hd
  | setPrice f =>
    obtain ⟨hl, hc1, hd, hv, _⟩ := qPrice_ok n hc
    refine ⟨?_, ?_, ?_⟩
    · simp only [memOp, opL]
      rw [← hv]
      have hl' := hl
      simp only [logical] at hl' ⊢
      simp only [Logical.mk.injEq] at hl' ⊢
      obtain ⟨h1, h2, h3, h4, h5, h6, h7, _⟩ := hl'
      exact ⟨h1, h2, h3, h4, h5, h6, h7, trivial⟩
    · exact { hc1 with
        price := by intro h; simp [memOp] at h
        priceD := by intro _; simp [memOp] }
    · simpa [memOp] using hd

def OpsOK (os : List MemOp) : Prop := ∀ o ∈ os, OpOK o

theorem runOps_ok (os : List MemOp) : ∀ (n : Node), Coherent n → OpsOK os →
    logical (runOps n os) = runOpsL (logical n) os ∧ Coherent (runOps n os) ∧ (runOps n os).disk = n.disk := by
  induction os with
  | nil => intro n hc _; exact ⟨rfl, hc, rfl⟩
  | cons o os ih =>
    intro n hc hok
    obtain ⟨h1, h2, h3⟩ := memOp_ok n hc o (hok o (by simp))
    obtain ⟨g1, g2, g3⟩ := ih (memOp n o) h2 (fun x hx => hok x (by simp [hx]))
    refine ⟨?_, g2, ?_⟩
    · simp only [runOps, runOpsL]; rw [g1, h1]
    · simp only [runOps]; rw [g3, h3]

end Persist
end Minter
