import MinterModel.TxInv
import MinterProofs.C07Kernels
import MinterProofs.Props.C02
/-
  C07 helper lemmas, part 2: the state invariant `TxInv`, the price of a transaction, `CalculateCommission`, the deliver-side
  commission payment and the failure fee never fault.
-/
namespace Minter

/-! ### The invariant -/

/-- The same as a structure of propositions. -/
structure TxInv (P : Params) (s : State) : Prop where
  /-- C02: no negative amount, volume ≤ max supply, pool reserves positive -/
  amounts : amountsOk s = true
  /-- pools are stored with sorted coin ids, and no reserve exceeds the global supply cap (a reserve is part of a coin's volume) -/
  pools : ∀ p ∈ s.pools, p.c0 < p.c1 ∧ p.r0 ≤ P.maxSupply ∧ p.r1 ≤ P.maxSupply
  prices : priceTableOk s = true
  /-- a price table denominated in a custom coin has its pool with the base coin (checked by VoteCommission) -/
  priceCoinPool : priceCoin s = 0 ∨ poolExists s (priceCoin s) 0 = true
  lp : lpOk s = true

theorem txInv_iff (P : Params) (s : State) : TxInv P s ↔ txInvB P s = true := by
  simp only [txInvB, poolsShapeOk, priceCoinOk, Bool.and_eq_true, Bool.or_eq_true, beq_iff_eq, List.all_eq_true, decide_eq_true_eq]
  constructor
  · intro h
    exact ⟨⟨⟨⟨h.amounts, fun p hp => ⟨⟨(h.pools p hp).1, (h.pools p hp).2.1⟩, (h.pools p hp).2.2⟩⟩, h.prices⟩, h.priceCoinPool⟩, h.lp⟩
  · rintro ⟨⟨⟨⟨h1, h2⟩, h3⟩, h4⟩, h5⟩
    exact ⟨h1, fun p hp => ⟨(h2 p hp).1.1, (h2 p hp).1.2, (h2 p hp).2⟩, h3, h4, h5⟩

theorem TxInv.amountsOk' {P : Params} {s : State} (h : TxInv P s) : AmountsOk s := amountsOk_sound s h.amounts

theorem TxInv.poolsOk {P : Params} {s : State} (h : TxInv P s) : PoolsOk s := by
  intro p hp
  have := h.amountsOk'.pools p hp
  exact ⟨(h.pools p hp).1, this.1, this.2⟩

theorem poolRes_cap {P : Params} {s : State} (h : TxInv P s) (a b : Coin) (x y : Int) (hr : poolRes s a b = some (x, y)) :
    x ≤ P.maxSupply ∧ y ≤ P.maxSupply := by
  unfold poolRes at hr
  split at hr
  · rename_i p hp
    cases hr
    have := h.pools p (getPool_mem s a b p hp).1
    exact ⟨this.2.1, this.2.2⟩
  · split at hr
    · rename_i p hp
      cases hr
      have := h.pools p (getPool_mem s b a p hp).1
      exact ⟨this.2.2, this.2.1⟩
    · cases hr

/-! ### Prices -/

theorem lookup_getD_nonneg (l : List (String × Int)) (h : l.all (fun e => decide (0 ≤ e.2)) = true) (k : String) :
    0 ≤ (l.lookup k).getD 0 := by
  induction l with
  | nil => simp [List.lookup]
  | cons e t ih =>
    obtain ⟨k', v⟩ := e
    simp only [List.all_cons, Bool.and_eq_true, decide_eq_true_eq] at h
    simp only [List.lookup]
    split
    · simpa using h.1
    · exact ih h.2

structure PricesOk (s : State) : Prop where
  nonneg : ∀ k, 0 ≤ priceOf s k

theorem priceTableOk_sound (s : State) (h : priceTableOk s = true) : PricesOk s :=
  ⟨fun k => lookup_getD_nonneg _ h k⟩

/-! ### No-fault predicates -/

/-- The computation does not stop at a Go panic site. -/
def NoPanic {α : Type} (m : M α) : Prop := ∀ w, m ≠ .error (.panic w)

theorem NoPanic_ok {α : Type} (x : α) : NoPanic (.ok x : M α) := by intro w h; cases h
theorem NoPanic_pure {α : Type} (x : α) : NoPanic (pure x : M α) := by intro w h; cases h
theorem NoPanic_of_ok {α : Type} {m : M α} {x : α} (h : m = .ok x) : NoPanic m := by rw [h]; exact NoPanic_ok x
theorem NoPanic_need {α : Type} (q : OQ) : NoPanic (throw (.need q) : M α) := by intro w h; cases h
theorem NoPanic_unmodelled {α : Type} (why : String) : NoPanic (throw (.unmodelled why) : M α) := by intro w h; cases h

theorem ask_noPanic (o : Oracle) (q : OQ) : NoPanic (ask o q) := by
  unfold ask
  split
  · exact NoPanic_pure _
  · exact NoPanic_need _

theorem ask_error (o : Oracle) (q : OQ) (e : Stop) (h : ask o q = .error e) : ∀ w, e ≠ .panic w := by
  intro w hw
  subst hw
  exact ask_noPanic o q w h

/-! ### `toBase` / `basePrice` -/

theorem toBase_total {P : Params} {s : State} (hinv : TxInv P s) (amount : Int) (ha : 0 ≤ amount) :
    NoPanic (toBase s amount) := by
  unfold toBase
  split
  · exact NoPanic_pure _
  · rename_i hpc
    split
    · rename_i hnone
      rcases hinv.priceCoinPool with h | h
      · rw [h] at hpc; simp at hpc
      · unfold poolExists at h; rw [hnone] at h; simp at h
    · rename_i r0 r1 hres
      split
      · exact NoPanic_unmodelled _
      · have hpos := poolRes_pos s hinv.poolsOk _ _ r0 r1 hres
        obtain ⟨r, hr⟩ := checkSwapQuote_total r0 r1 amount 0 false hpos.1 hpos.2 (by simpa using ha)
        exact NoPanic_of_ok hr

theorem basePrice_noPanic {P : Params} {s : State} (hinv : TxInv P s) (t : TxIn) : NoPanic (basePrice s t) := by
  unfold basePrice
  simp only
  split
  · exact NoPanic_pure _
  rename_i hneg
  split
  · exact NoPanic_pure _
  · split
    · rename_i e he
      intro w hw
      cases hw
      exact toBase_total hinv _ (by omega) w he
    · exact NoPanic_pure _
    · split <;> exact NoPanic_pure _

/-! ### `CalculateCommission` -/

/-- What a computed commission satisfies. -/
structure ComGood (s : State) (gas : Coin) (inBase : Int) (com : Com) : Prop where
  inBase_eq : com.inBase = inBase
  base : gas = 0 → com.commission = com.inBase ∧ com.fromPool = false
  pool : com.fromPool = true → gas ≠ 0 ∧ 0 < inBase ∧ 0 < com.commission ∧ pairHasOrders s gas 0 = false ∧
    ∃ r0 r1, poolRes s gas 0 = some (r0, r1) ∧ quoteSellForBuy r0 r1 inBase = .val com.commission

theorem comFromPool_spec {P : Params} {s : State} (hinv : TxInv P s) (gas : Coin) (inBase : Int) (hb : 0 ≤ inBase) :
    NoPanic (comFromPool P s gas inBase) ∧
    ∀ x, comFromPool P s gas inBase = .ok (.ok x) → 0 < x ∧ pairHasOrders s gas 0 = false ∧
      ∃ r0 r1, poolRes s gas 0 = some (r0, r1) ∧ quoteSellForBuy r0 r1 inBase = .val x := by
  unfold comFromPool
  split
  · exact ⟨NoPanic_pure _, fun x h => by cases h⟩
  · rename_i r0 r1 hres
    have hpos := poolRes_pos s hinv.poolsOk _ _ r0 r1 hres
    split
    · exact ⟨NoPanic_unmodelled _, fun x h => by cases h⟩
    · rename_i hord
      have hord' : pairHasOrders s gas 0 = false := by simpa using hord
      obtain ⟨r, hr⟩ := checkSwapQuote_total r0 r1 P.maxSupply inBase true hpos.1 hpos.2 (by simpa using hb)
      rw [hr]
      cases r with
      | error c => exact ⟨NoPanic_pure _, fun x h => by cases h⟩
      | ok x =>
        simp only
        split
        · exact ⟨NoPanic_pure _, fun x h => by cases h⟩
        · rename_i hx
          refine ⟨NoPanic_pure _, fun x' h => ?_⟩
          cases h
          exact ⟨by omega, hord', r0, r1, hres, (checkSwapQuote_buy_ok _ _ _ _ _ hr).1⟩

theorem comFromReserve_noPanic (P : Params) (o : Oracle) (s : State) (gas : Coin) (inBase : Int) :
    NoPanic (comFromReserve P o s gas inBase) := by
  unfold comFromReserve
  split
  · exact NoPanic_pure _
  · split
    · exact NoPanic_pure _
    · split
      · exact NoPanic_pure _
      · split
        · rename_i e he
          intro w hw; cases hw
          exact ask_noPanic _ _ w he
        · exact NoPanic_pure _

theorem calcCommission_spec {P : Params} {s : State} (hinv : TxInv P s) (o : Oracle) (gas : Coin) (inBase : Int) (hb : 0 ≤ inBase) :
    NoPanic (calcCommission P o s gas inBase) ∧
    ∀ com, calcCommission P o s gas inBase = .ok (.ok com) → ComGood s gas inBase com := by
  unfold calcCommission
  split
  · rename_i hg
    have hg' : gas = 0 := by simpa using hg
    refine ⟨NoPanic_pure _, fun com h => ?_⟩
    cases h
    exact ⟨rfl, fun _ => ⟨rfl, rfl⟩, fun h => by cases h⟩
  · rename_i hg
    have hg' : gas ≠ 0 := by simpa using hg
    split
    · refine ⟨NoPanic_pure _, fun com h => ?_⟩
      cases h
      exact ⟨rfl, fun h => absurd h hg', fun h => by cases h⟩
    · rename_i hz
      have hz' : inBase ≠ 0 := by simpa using hz
      obtain ⟨hnp, hsp⟩ := comFromPool_spec (P := P) hinv gas inBase hb
      split
      · rename_i e he
        refine ⟨?_, fun com h => by cases h⟩
        intro w hw; cases hw; exact hnp w he
      · rename_i fp hfp
        split
        · rename_i e he
          refine ⟨?_, fun com h => by cases h⟩
          intro w hw; cases hw; exact comFromReserve_noPanic P o s gas inBase w he
        · rename_i fr hfr
          have poolCase : ∀ p, fp = .ok p → ComGood s gas inBase ⟨p, inBase, true⟩ := by
            intro p hp
            subst hp
            obtain ⟨hx, hord, r0, r1, hres, hq⟩ := hsp p hfp
            exact ⟨rfl, fun h => absurd h hg', fun _ => ⟨hg', by omega, hx, hord, r0, r1, hres, hq⟩⟩
          have resCase : ∀ r, ComGood s gas inBase ⟨r, inBase, false⟩ := by
            intro r
            exact ⟨rfl, fun h => absurd h hg', fun h => by cases h⟩
          split
          · exact ⟨NoPanic_pure _, fun com h => by cases h⟩
          · rename_i p r
            split
            · refine ⟨NoPanic_pure _, fun com h => ?_⟩
              cases h; exact resCase r
            · refine ⟨NoPanic_pure _, fun com h => ?_⟩
              cases h; exact poolCase p rfl
          · rename_i p _
            refine ⟨NoPanic_pure _, fun com h => ?_⟩
            cases h; exact poolCase p rfl
          · rename_i _ r
            refine ⟨NoPanic_pure _, fun com h => ?_⟩
            cases h; exact resCase r

/-! ### The deliver-side payment -/

theorem poolResAdj_none (s : State) (a b : Coin) : poolResAdj s none a b = poolRes s a b := by
  unfold poolResAdj
  split
  · rename_i h; rw [h]
  · rename_i rx ry h; rw [h]

/-- A pool sale whose quote is known succeeds. -/
theorem pairSellMove_ok (s : State) (adj : Option PoolAdj) (payer : Addr) (a b : Coin) (amountIn minOut : Int) (toRewards : Bool) (dest : Addr)
    (r0 r1 out : Int) (hres : poolResAdj s adj a b = some (r0, r1)) (hord : pairHasOrders s a b = false)
    (hin : 0 < amountIn) (hnet : 0 < amountIn - com1000 amountIn)
    (hq : bfsNoOrders r0 r1 (amountIn - com1000 amountIn) = .val out) (hout : 0 < out) (hmin : minOut ≤ out) :
    ∃ mv, pairSellMove s adj payer a b amountIn minOut toRewards dest = .ok (mv, out, ⟨a, b, amountIn - com1000 amountIn, -out⟩) := by
  unfold pairSellMove
  rw [hres]
  simp only [hord, Bool.false_eq_true, if_false]
  have h1 : ¬ (amountIn ≤ 0) := by omega
  have h2 : ¬ (amountIn - com1000 amountIn ≤ 0) := by omega
  simp only [h1, h2, if_false, hq]
  have h3 : ¬ (out ≤ 0) := by omega
  have h4 : ¬ (out < minOut) := by omega
  simp only [h3, h4, if_false]
  split <;> exact ⟨_, rfl⟩

/-- **The commission payment of a validated transaction never faults** (it always succeeds): the commission computed by
    `CalculateCommission` through the pool is exactly what has to be sold to obtain the base-coin price, so the sale yields
    at least `minOut ≤ inBase`. -/
theorem payCommission_total {P : Params} {s : State} (hinv : TxInv P s) (payer : Addr) (gas : Coin) (inBase : Int) (com : Com) (minOut : Int)
    (hc : ComGood s gas inBase com) (hmin : minOut ≤ inBase) : ∃ paid, payCommission s payer gas com minOut = .ok paid := by
  unfold payCommission
  split
  · rename_i hf
    obtain ⟨_, hpos, hcpos, hord, r0, r1, hres, hq⟩ := hc.pool hf
    have hrp := poolRes_pos s hinv.poolsOk _ _ r0 r1 hres
    obtain ⟨_, _, hnet, o, hbfs, hle⟩ := quote_round_trip r0 r1 inBase com.commission hrp.1 hrp.2 (by omega) hq hcpos
    obtain ⟨mv, hm⟩ := pairSellMove_ok s none payer gas 0 com.commission minOut true 0 r0 r1 o
      (by rw [poolResAdj_none]; exact hres) hord hcpos hnet hbfs (by omega) (by omega)
    rw [hm]
    exact ⟨_, rfl⟩
  · split
    · exact ⟨_, rfl⟩
    · rename_i hg
      have hg' : gas = 0 := by simpa using hg
      have := (hc.base hg').1
      split
      · rename_i hne
        simp only [bne_iff_ne, ne_eq] at hne
        exact absurd this hne
      · exact ⟨_, rfl⟩

/-! ### `coinExists` / `getCoin` -/

theorem getCoin_of_exists (s : State) (c : Coin) (h : coinExists s c = true) (hc : c ≠ 0) : ∃ ci, getCoin s c = some ci := by
  unfold coinExists at h
  simp only [Bool.or_eq_true, beq_iff_eq] at h
  rcases h with h | h
  · exact absurd h hc
  · exact findFirst_isSome_of_any _ _ h

end Minter
