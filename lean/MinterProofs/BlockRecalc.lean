import MinterModel.Block
import MinterProofs.Begin
import MinterProofs.Props.C17
import MinterProofs.BlockPlans
/-
  `updateValidators` (step 8 of EndBlock) moves no value except for the named defects: recalculation of the stakes (merge of the
  pending updates, kicks to the waitlist), deletion of the candidates beyond rank 100 (everything they hold becomes frozen
  funds) and replacement of the validator set (accumulated rewards of leaving validators go to the slashed total).
-/
namespace Minter

/-! ### slots -/

theorem slotsHold_append (c : Coin) (a b : Slots) : slotsHold c (a ++ b) = slotsHold c a + slotsHold c b :=
  sumBy_append _ _ _

theorem slotsHold_replicate_none (c : Coin) (n : Nat) : slotsHold c (List.replicate n none) = 0 := by
  induction n with
  | zero => rfl
  | succ k ih => simp only [List.replicate_succ, slotsHold, sumBy, optHold] at *; omega

theorem slotsHold_map_some (c : Coin) (l : List Stake) : slotsHold c (l.map some) = sumBy (stakeOf c) l := by
  simp only [slotsHold, sumBy_map]; rfl

theorem slotsHold_toSlots (c : Coin) (st : List Stake) : slotsHold c (toSlots st) = sumBy (stakeOf c) st := by
  unfold toSlots
  rw [slotsHold_append, slotsHold_replicate_none, slotsHold_map_some]; omega

theorem toSlots_ne_nil (st : List Stake) : toSlots st ≠ [] := by
  intro h
  have := congrArg List.length h
  simp only [toSlots, List.length_append, List.length_map, List.length_replicate, List.length_nil] at this
  unfold maxDelegators at this
  omega

theorem slotsHold_rebip (b : Coin → Int → Int) (c : Coin) (sl : Slots) : slotsHold c (rebip b sl) = slotsHold c sl := by
  unfold rebip
  simp only [slotsHold, sumBy_map]
  apply sumBy_congr
  intro o
  cases o <;> rfl

theorem rebip_length (b : Coin → Int → Int) (sl : Slots) : (rebip b sl).length = sl.length := by simp [rebip]

theorem sumBy_filterMap_id (c : Coin) (sl : Slots) : sumBy (stakeOf c) (sl.filterMap id) = slotsHold c sl := by
  induction sl with
  | nil => rfl
  | cons o t ih =>
    cases o with
    | none => simp only [List.filterMap_cons, id, slotsHold, sumBy, optHold] at *; omega
    | some s => simp only [List.filterMap_cons, id, slotsHold, sumBy, optHold] at *; omega

/-! ### merging updates into existing stakes -/

theorem mergeIntoSlots_spec (b : Coin → Int → Int) (sl sl' : Slots) (u : Stake) (h : mergeIntoSlots b sl u = some sl') (c : Coin) :
    slotsHold c sl' = slotsHold c sl + stakeOf c u ∧ sl'.length = sl.length := by
  induction sl generalizing sl' with
  | nil => simp [mergeIntoSlots] at h
  | cons o t ih =>
    cases o with
    | none =>
      simp only [mergeIntoSlots, Option.map_eq_some_iff] at h
      obtain ⟨t', ht, rfl⟩ := h
      obtain ⟨i1, i2⟩ := ih t' ht
      simp only [slotsHold, sumBy, optHold, List.length_cons] at *
      omega
    | some s =>
      simp only [mergeIntoSlots] at h
      split at h
      · next hm =>
        cases h
        simp only [slotsHold, sumBy, optHold, stakeOf, List.length_cons, hm.2]
        refine ⟨?_, trivial⟩
        split <;> omega
      · simp only [Option.map_eq_some_iff] at h
        obtain ⟨t', ht, rfl⟩ := h
        obtain ⟨i1, i2⟩ := ih t' ht
        simp only [slotsHold, sumBy, optHold, List.length_cons] at *
        omega

/-- Updates merged into an existing stake add their full value to it; the others are handed on untouched. -/
theorem mergeExisting_spec (b : Coin → Int → Int) (sl : Slots) (us : List Stake) (c : Coin) :
    slotsHold c (mergeExisting b sl us).1 + sumBy (stakeOf c) (mergeExisting b sl us).2 = slotsHold c sl + sumBy (stakeOf c) us
    ∧ (mergeExisting b sl us).1.length = sl.length := by
  induction us generalizing sl with
  | nil => simp [mergeExisting, sumBy]
  | cons u t ih =>
    simp only [mergeExisting]
    cases hm : mergeIntoSlots b sl u with
    | some sl' =>
      obtain ⟨m1, m2⟩ := mergeIntoSlots_spec b sl sl' u hm c
      obtain ⟨i1, i2⟩ := ih sl'
      simp only [sumBy]
      exact ⟨by omega, by omega⟩
    | none =>
      obtain ⟨i1, i2⟩ := ih sl
      simp only [sumBy]
      exact ⟨by omega, i2⟩

/-! ### `getFilteredUpdates` -/

theorem mergeUpdate_hold (c : Coin) (acc : List Stake) (u : Stake) :
    sumBy (stakeOf c) (mergeUpdate acc u) = sumBy (stakeOf c) acc + stakeOf c u := by
  induction acc with
  | nil => simp [mergeUpdate, sumBy]
  | cons a t ih =>
    simp only [mergeUpdate]
    split
    · next h =>
      simp only [sumBy, stakeOf, h.1]
      split <;> omega
    · simp only [sumBy, ih]; omega

theorem filteredUpdates_fold (c : Coin) (us acc : List Stake) :
    sumBy (stakeOf c) (us.foldl (fun acc u => if u.value > 0 then mergeUpdate acc u else acc) acc)
      = sumBy (stakeOf c) acc + sumBy (stakeOf c) (us.filter (fun u => decide (u.value > 0))) := by
  induction us generalizing acc with
  | nil => simp [sumBy]
  | cons u t ih =>
    simp only [List.foldl_cons, ih, List.filter_cons]
    by_cases h : u.value > 0
    · simp only [h, if_true, decide_true, mergeUpdate_hold, sumBy]; omega
    · simp only [h, if_false, decide_false, Bool.false_eq_true]

/-- The filtered updates carry exactly the value of the updates with a positive value. -/
theorem filteredUpdates_hold (c : Coin) (us : List Stake) :
    sumBy (stakeOf c) (filteredUpdates us) = sumBy (stakeOf c) (us.filter (fun u => decide (u.value > 0))) := by
  unfold filteredUpdates
  rw [filteredUpdates_fold]; simp [sumBy]

/-! ### one candidate -/

theorem recalcCandidate_eq (b : Coin → Int → Int) (sl : Slots) (us : List Stake) :
    recalcCandidate b sl us =
      ((applyUpdates (mergeExisting b (rebip b sl) us).1
          ((sortStable (fun x y => decide (x.bip > y.bip)) (filteredUpdates (mergeExisting b (rebip b sl) us).2)).map
            (fun u => { u with bip := b u.coin u.value }))).1,
       (applyUpdates (mergeExisting b (rebip b sl) us).1
          ((sortStable (fun x y => decide (x.bip > y.bip)) (filteredUpdates (mergeExisting b (rebip b sl) us).2)).map
            (fun u => { u with bip := b u.coin u.value }))).2,
       sumBy (fun o => match o with | some s => s.bip | none => 0)
        (applyUpdates (mergeExisting b (rebip b sl) us).1
          ((sortStable (fun x y => decide (x.bip > y.bip)) (filteredUpdates (mergeExisting b (rebip b sl) us).2)).map
            (fun u => { u with bip := b u.coin u.value }))).1) := rfl

/-- **Recalculation of one candidate, coin by coin**: the new slots plus what is kicked to the waitlist hold what the slots and
    the pending updates held, minus the updates dropped by `getFilteredUpdates` (value ≤ 0, no stake to merge into). -/
theorem recalcCandidate_hold (b : Coin → Int → Int) (sl : Slots) (hne : sl ≠ []) (us : List Stake) (c : Coin) :
    slotsHold c (recalcCandidate b sl us).1 + sumBy (stakeOf c) (recalcCandidate b sl us).2.1
      = slotsHold c sl + sumBy (stakeOf c) us - sumBy (stakeOf c) (droppedUpdates b sl us) := by
  rw [recalcCandidate_eq]
  simp only [droppedUpdates]
  obtain ⟨m1, m2⟩ := mergeExisting_spec b (rebip b sl) us c
  have hne2 : (mergeExisting b (rebip b sl) us).1 ≠ [] := by
    intro h
    rw [h, rebip_length] at m2
    exact hne (List.eq_nil_of_length_eq_zero m2.symm)
  have ha := applyUpdates_conserves (mergeExisting b (rebip b sl) us).1 hne2
    ((sortStable (fun x y => decide (x.bip > y.bip)) (filteredUpdates (mergeExisting b (rebip b sl) us).2)).map
      (fun u => { u with bip := b u.coin u.value })) c
  rw [ha, sumBy_map]
  have hbip : sumBy (fun u : Stake => stakeOf c { u with bip := b u.coin u.value })
        (sortStable (fun x y => decide (x.bip > y.bip)) (filteredUpdates (mergeExisting b (rebip b sl) us).2))
      = sumBy (stakeOf c) (sortStable (fun x y => decide (x.bip > y.bip)) (filteredUpdates (mergeExisting b (rebip b sl) us).2)) :=
    sumBy_congr _ _ _ (fun _ => rfl)
  rw [hbip, sumBy_perm _ (sortStable_perm _ _), filteredUpdates_hold]
  have hs := sumBy_filter_split (stakeOf c) (fun u => decide (u.value > 0)) (mergeExisting b (rebip b sl) us).2
  rw [slotsHold_rebip] at m1
  omega

theorem recalcCand_hold (b : Coin → Int → Int) (cd : Candidate) (c : Coin) :
    candHoldings c (recalcCand b cd).cand + sumBy (stakeOf c) (recalcCand b cd).kicked
      = candHoldings c cd - sumBy (stakeOf c) (recalcCand b cd).dropped := by
  have h := recalcCandidate_hold b (toSlots cd.stakes) (toSlots_ne_nil _) cd.updates c
  simp only [recalcCand, candHoldings, sumBy, sumBy_filterMap_id]
  rw [slotsHold_toSlots] at h
  omega

/-! ### all candidates -/

theorem kickEntry_value (c : Coin) (cd : Candidate) (l : List Stake) :
    sumBy (fun w : WaitEntry => if w.coin = c then w.value else 0) (l.map (kickEntry cd)) = sumBy (stakeOf c) l := by
  rw [sumBy_map]; rfl

/-- `recalculateStakes` over all candidates: candidates + new waitlist entries hold what the candidates held minus the drops. -/
theorem recalc_all_hold (b : Coin → Int → Int) (cands : List Candidate) (c : Coin) :
    sumBy (candHoldings c) (recalcedCands b cands)
      + sumBy (fun w : WaitEntry => if w.coin = c then w.value else 0) (kickedEntries b cands)
      = sumBy (candHoldings c) cands - sumBy (stakeOf c) (droppedAll b cands) := by
  unfold recalcedCands kickedEntries droppedAll
  rw [sumBy_map, sumBy_flatMap, sumBy_flatMap, sumBy_perm _ (sortStable_perm candLess cands)]
  rw [sumBy_congr (fun cd => sumBy (fun w : WaitEntry => if w.coin = c then w.value else 0) ((recalcCand b cd).kicked.map (kickEntry cd)))
    (fun cd => sumBy (stakeOf c) (recalcCand b cd).kicked) cands (fun cd => kickEntry_value c cd _)]
  rw [← sumBy_add, ← sumBy_sub]
  exact sumBy_congr _ _ _ (fun cd => recalcCand_hold b cd c)

/-- Deleting the candidates beyond rank 100: what they held is in the frozen funds created for them. -/
theorem prune_hold (vals : List Validator) (cands1 : List Candidate) (due : Nat) (c : Coin) :
    sumBy (candHoldings c) (keptCands vals cands1)
      + sumBy (fun f : Frozen => if f.coin = c then f.value else 0) ((removedCands vals cands1).flatMap (unbondAll due))
      = sumBy (candHoldings c) cands1 := by
  unfold keptCands removedCands
  rw [sumBy_flatMap, sumBy_perm _ (sortStable_perm candLessID _)]
  rw [sumBy_congr (fun x => sumBy (fun f : Frozen => if f.coin = c then f.value else 0) (unbondAll due x)) (candHoldings c) _
    (fun x => unbondAll_value due x c)]
  have := sumBy_filter_split (candHoldings c) (isGone vals cands1) cands1
  omega

/-- `keptCands` is `pruneBeyond` of C17. -/
theorem keptCands_eq_pruneBeyond (vals : List Validator) (cands1 : List Candidate) :
    keptCands vals cands1 = pruneBeyond candidatesLimit (fun pk => vals.any (fun v => v.pubkey == pk)) cands1 := rfl

/-! ### the validator set -/

/-- `SetNewValidators`: new accumulated rewards + what goes to the slashed total = old accumulated rewards minus the two defects. -/
theorem setNewValidators_books (old : List Validator) (sel : List Candidate) :
    sumBy (fun v => v.accum) (setNewValidators old sel).1 + (setNewValidators old sel).2
      = sumBy (fun v => v.accum) old
        - sumBy (fun v => if v.accum > 0 then 0 else v.accum) (goneValidators old sel)
        - (sumBy (fun v => v.accum) old - sumBy (fun v => v.accum) (setNewValidators old sel).1
            - sumBy (fun v => v.accum) (goneValidators old sel)) := by
  have h2 : (setNewValidators old sel).2 = sumBy (fun v => if v.accum > 0 then v.accum else 0) (goneValidators old sel) := rfl
  rw [h2]
  have : sumBy (fun v : Validator => v.accum) (goneValidators old sel)
      = sumBy (fun v => if v.accum > 0 then v.accum else 0) (goneValidators old sel)
        + sumBy (fun v => if v.accum > 0 then 0 else v.accum) (goneValidators old sel) := by
    rw [← sumBy_add]
    apply sumBy_congr
    intro v
    split <;> omega
  omega

/-- **`updateValidators` and the books of C01.** -/
theorem valUpdateStep_books (P : Params) (b : Coin → Int → Int) (height : Nat) (s : State) :
    (∀ c, holdings (valUpdateStep P b height s).state c = holdings s c - sumBy (stakeOf c) (valUpdateStep P b height s).dropped) ∧
    (∀ c, volumeOf (valUpdateStep P b height s).state c = volumeOf s c) ∧
    totalReserve (valUpdateStep P b height s).state = totalReserve s ∧
    totalAccum (valUpdateStep P b height s).state + (valUpdateStep P b height s).state.slashed
      = totalAccum s + s.slashed - (valUpdateStep P b height s).goneNonPos - (valUpdateStep P b height s).carry ∧
    (valUpdateStep P b height s).state.emission = s.emission := by
  refine ⟨fun c => ?_, fun _ => rfl, rfl, ?_, rfl⟩
  · have h1 := recalc_all_hold b s.candidates c
    have h2 := prune_hold s.validators (recalcedCands b s.candidates) (height + P.unbond) c
    simp only [valUpdateStep, holdings_def, sumBy_append]
    omega
  · have h := setNewValidators_books s.validators
      (selectValidators validatorsLimit minValidatorBipStake (keptCands s.validators (recalcedCands b s.candidates)))
    simp only [valUpdateStep, totalAccum]
    omega

/-! ### when the defects vanish -/

/-- No pending update is negative ⇒ what `getFilteredUpdates` drops is worth nothing. -/
theorem mergeExisting_rest_mem (b : Coin → Int → Int) (sl : Slots) (us : List Stake) :
    ∀ u ∈ (mergeExisting b sl us).2, u ∈ us := by
  induction us generalizing sl with
  | nil => intro u hu; simp [mergeExisting] at hu
  | cons x t ih =>
    intro u hu
    simp only [mergeExisting] at hu
    split at hu
    · exact List.mem_cons_of_mem _ (ih _ u hu)
    · simp only [List.mem_cons] at hu
      rcases hu with rfl | hu
      · exact List.mem_cons_self
      · exact List.mem_cons_of_mem _ (ih _ u hu)

theorem droppedAll_zero (b : Coin → Int → Int) (cands : List Candidate)
    (h : ∀ cd ∈ cands, ∀ u ∈ cd.updates, 0 ≤ u.value) :
    ∀ u ∈ droppedAll b cands, u.value = 0 := by
  intro u hu
  simp only [droppedAll, List.mem_flatMap] at hu
  obtain ⟨cd, hcd, hu⟩ := hu
  simp only [recalcCand, droppedUpdates, List.mem_filter, Bool.not_eq_true', decide_eq_false_iff_not] at hu
  have := h cd hcd u (mergeExisting_rest_mem b _ _ u hu.1)
  omega

theorem dropped_value_zero (c : Coin) (l : List Stake) (h : ∀ u ∈ l, u.value = 0) : sumBy (stakeOf c) l = 0 := by
  induction l with
  | nil => rfl
  | cons x t ih =>
    have hx := h x List.mem_cons_self
    have := ih (fun u hu => h u (List.mem_cons_of_mem _ hu))
    simp only [sumBy, stakeOf, hx] at *
    split <;> omega

theorem goneNonPos_zero (old : List Validator) (sel : List Candidate) (h : ∀ v ∈ old, 0 ≤ v.accum) :
    sumBy (fun v : Validator => if v.accum > 0 then 0 else v.accum) (goneValidators old sel) = 0 := by
  have : ∀ v ∈ goneValidators old sel, (if v.accum > 0 then 0 else v.accum) = (0 : Int) := by
    intro v hv
    have := h v (List.mem_filter.mp hv).1
    split <;> omega
  rw [sumBy_congr_mem _ (fun _ => 0) _ this, sumBy_zero]

/-! #### carry: every accumulated reward is carried over exactly once when the public keys are pairwise different -/

def keyIn (sel : List Candidate) (v : Validator) : Bool := sel.any (fun c => c.pubkey == v.pubkey)

theorem sumBy_filter_key_none (old : List Validator) (k : PubKey) (h : ∀ v ∈ old, v.pubkey ≠ k) :
    old.filter (fun v => v.pubkey == k) = [] := by
  apply List.filter_eq_nil_iff.mpr
  intro v hv
  simp [h v hv]

/-- With pairwise different keys at most one validator matches a key; `getLast?` finds it. -/
theorem carried_accum (old : List Validator) (hnd : (old.map (·.pubkey)).Nodup) (c : Candidate) :
    (match (old.filter (fun v => v.pubkey == c.pubkey)).getLast? with
      | some v => v.accum
      | none => (0 : Int))
      = sumBy (fun v => v.accum) (old.filter (fun v => v.pubkey == c.pubkey)) := by
  induction old with
  | nil => rfl
  | cons x t ih =>
    simp only [List.map_cons, List.nodup_cons] at hnd
    by_cases hx : x.pubkey = c.pubkey
    · have ht : t.filter (fun v => v.pubkey == c.pubkey) = [] := by
        apply sumBy_filter_key_none
        intro v hv he
        exact hnd.1 (List.mem_map.mpr ⟨v, hv, by rw [he, hx]⟩)
      simp [List.filter_cons, hx, ht, sumBy]
    · simp only [List.filter_cons, beq_iff_eq, hx, if_false]
      exact ih hnd.2

theorem newVals_accum (old : List Validator) (sel : List Candidate) :
    sumBy (fun v => v.accum) (setNewValidators old sel).1
      = sumBy (fun c : Candidate => match (old.filter (fun v => v.pubkey == c.pubkey)).getLast? with
          | some v => v.accum
          | none => (0 : Int)) sel := by
  simp only [setNewValidators, sumBy_map]
  apply sumBy_congr
  intro c
  generalize (old.filter (fun v => v.pubkey == c.pubkey)).getLast? = X
  cases X <;> rfl

theorem keyIn_cons (c : Candidate) (t : List Candidate) (v : Validator) :
    keyIn (c :: t) v = (c.pubkey == v.pubkey || keyIn t v) := rfl

theorem filter_keys_cons (old : List Validator) (c : Candidate) (t : List Candidate) (hc : ∀ c' ∈ t, c'.pubkey ≠ c.pubkey) :
    sumBy (fun v => v.accum) (old.filter (keyIn (c :: t)))
      = sumBy (fun v => v.accum) (old.filter (fun v => v.pubkey == c.pubkey)) + sumBy (fun v => v.accum) (old.filter (keyIn t)) := by
  induction old with
  | nil => rfl
  | cons v r ih =>
    simp only [List.filter_cons, keyIn_cons]
    by_cases h1 : v.pubkey = c.pubkey
    · have h2 : keyIn t v = false := by
        apply Bool.eq_false_iff.mpr
        intro ha
        obtain ⟨c', hc', he⟩ := List.any_eq_true.mp ha
        simp only [beq_iff_eq] at he
        exact hc c' hc' (by rw [he, h1])
      have h3 : (c.pubkey == v.pubkey) = true := by simp [h1]
      have h1' : (v.pubkey == c.pubkey) = true := by simp [h1]
      simp only [h1', h2, h3, Bool.true_or, ↓reduceIte, Bool.false_eq_true, sumBy]
      omega
    · have h3 : (c.pubkey == v.pubkey) = false := by
        apply Bool.eq_false_iff.mpr; intro h; simp only [beq_iff_eq] at h; exact h1 h.symm
      have h1' : (v.pubkey == c.pubkey) = false := by
        apply Bool.eq_false_iff.mpr; intro h; simp only [beq_iff_eq] at h; exact h1 h
      by_cases h4 : keyIn t v = true
      · simp only [h1', h3, h4, Bool.false_or, Bool.false_eq_true, ↓reduceIte, sumBy]; omega
      · have h4' : keyIn t v = false := by simpa using h4
        simp only [h1', h3, h4', Bool.false_or, Bool.false_eq_true, ↓reduceIte]; exact ih

theorem sumBy_filter_keys (old : List Validator) (sel : List Candidate) (hsel : (sel.map (·.pubkey)).Nodup) :
    sumBy (fun c : Candidate => sumBy (fun v => v.accum) (old.filter (fun v => v.pubkey == c.pubkey))) sel
      = sumBy (fun v => v.accum) (old.filter (keyIn sel)) := by
  induction sel with
  | nil =>
    have : old.filter (keyIn []) = [] := List.filter_eq_nil_iff.mpr (by intro v _; simp [keyIn])
    rw [this]; rfl
  | cons c t ih =>
    simp only [List.map_cons, List.nodup_cons] at hsel
    have hc : ∀ c' ∈ t, c'.pubkey ≠ c.pubkey := by
      intro c' hc' he
      exact hsel.1 (List.mem_map.mpr ⟨c', hc', he⟩)
    rw [filter_keys_cons old c t hc]
    simp only [sumBy, ih hsel.2]

/-- **Nothing is carried twice or forgotten** when validators and selected candidates have pairwise different public keys. -/
theorem carry_zero (old : List Validator) (sel : List Candidate)
    (hold : (old.map (·.pubkey)).Nodup) (hsel : (sel.map (·.pubkey)).Nodup) :
    sumBy (fun v => v.accum) old - sumBy (fun v => v.accum) (setNewValidators old sel).1
      - sumBy (fun v => v.accum) (goneValidators old sel) = 0 := by
  rw [newVals_accum]
  rw [sumBy_congr _ _ _ (fun c => carried_accum old hold c), sumBy_filter_keys old sel hsel]
  have := sumBy_filter_split (fun v : Validator => v.accum) (keyIn sel) old
  have e : goneValidators old sel = old.filter (fun v => !keyIn sel v) := rfl
  rw [e]
  omega

end Minter
