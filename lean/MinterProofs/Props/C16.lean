import MinterProofs.Begin
/-
  C16 — "Coins leaving a stake (by unbonding, candidate removal or byzantine unbonding) return to the owner's balance exactly one
  unbond period after leaving, coins locked with a Lock transaction return exactly at their due block, and moved coins reach an
  existing target candidate exactly after the move period; nothing returns such coins earlier. A move is only ever credited to
  a candidate, never to the owner's balance, and it is only accepted towards a candidate that exists. While an account's stake
  is locked by LockStake it cannot be unbonded."

  Two halves:
  * creation — the fund a successful Unbond / MoveStake / Lock transaction, a candidate removal and a byzantine punishment
    create (`unbondFund`, `moveFund`, `lockFund`, `removalFunds`, `remainderFund`) is due exactly `block + period` (or at the
    Lock's due block), and the validations that guard it;
  * release — BeginBlock at height `h` (model `beginBlock`, compared with the node after every BeginBlock of every campaign)
    touches the balances only through the funds stored under exactly `h`, keeps every other fund (up to the byzantine slash),
    and turns a move into an update on its target candidate, never into a balance.
-/
namespace Minter

/-! ### Release: BeginBlock -/

theorem creditAll_get (l : List Frozen) (b : Bag (Addr × Coin)) (k : Addr × Coin) :
    Bag.get (creditAll l b) k
      = Bag.get b k + sumBy (fun f => if f.moveTo = 0 ∧ (f.addr, f.coin) = k then f.value else 0) l := by
  induction l generalizing b with
  | nil => simp [creditAll, sumBy]
  | cons f t ih =>
    simp only [creditAll, sumBy, ih]
    by_cases h0 : f.moveTo = 0
    · simp only [h0, if_true, true_and, Bag.get_add]; omega
    · simp [h0]

/-- The moves stored under `h` whose target id is not the id of a candidate, re-frozen as unbonds due `h + unbond`
    (since fix 0ed8cf3 BeginBlock unbonds such a move instead of dereferencing the missing candidate). -/
def refrozenOf (u h : Nat) (ids : List Nat) (all : List Frozen) : List Frozen :=
  ((all.filter (dueAt h)).filter (targetMissing ids)).map (refreeze u h)

theorem refrozenOf_mem (u h : Nat) (ids : List Nat) (all : List Frozen) (g : Frozen) (hg : g ∈ refrozenOf u h ids all) :
    ∃ f ∈ all, f.height = h ∧ f.moveTo ≠ 0 ∧ ids.contains f.moveTo = false ∧ g = refreeze u h f
      ∧ g.height = h + u ∧ g.moveTo = 0 ∧ g.addr = f.addr ∧ g.coin = f.coin ∧ g.value = f.value
      ∧ g.candKey = f.candKey ∧ g.candId = f.candId := by
  obtain ⟨f, hf, rfl⟩ := List.mem_map.mp hg
  obtain ⟨hf1, hm⟩ := List.mem_filter.mp hf
  obtain ⟨hf2, hd⟩ := List.mem_filter.mp hf1
  simp only [targetMissing, Bool.and_eq_true, bne_iff_ne, Bool.not_eq_true'] at hm
  exact ⟨f, hf2, by simpa [dueAt] using hd, hm.1, hm.2, rfl, rfl, rfl, rfl, rfl, rfl, rfl, rfl⟩

/-- **frozen_released_only_when_due.** After BeginBlock at height `h` the frozen funds are: the old ones, each with every
    field unchanged except that the value was cut once per byzantine punishment matching it (`slashBy` over the candidate ids
    punished in this block), followed by the remainder funds of punished stakes (all due `h + unbond`, none a move) — minus
    exactly the funds stored under `h` — plus, for every move stored under `h` whose target candidate is gone, an unbond fund
    of the same owner, coin, value and origin due `h + unbond`.
    The balances are the old balances plus, in order, the non-move funds stored under `h`.
    (`0 < unbond`: the real period is the constant 518400 resp. 531.) -/
theorem frozen_released_only_when_due (P : Params) (o : Oracle) (s s' : State) (r : BeginReq) (grace : Bool) (ev : List BEvent)
    (hu : 0 < P.unbond) (hr : beginBlock P o s r grace = .ok (s', ev)) :
    ∃ sA evA new, absencePhase P r.height grace r.votes { s with rewardsPool := 0 } = .ok (sA, evA) ∧
      let ids := byzPunishedIds P o r.height r.byz sA
      let all := s.frozen.map (slashBy r.height (r.height + P.unbond) ids) ++ new
      s'.frozen = all.filter (fun f => !dueAt r.height f) ++ refrozenOf P.unbond r.height (s.candidates.map (·.id)) all
      ∧ s'.balances = creditAll (all.filter (dueAt r.height)) s.balances
      ∧ (∀ f ∈ new, f.height = r.height + P.unbond ∧ f.moveTo = 0) := by
  simp only [beginBlock] at hr
  cases hA : absencePhase P r.height grace r.votes { s with rewardsPool := 0 } with
  | error e => simp only [hA] at hr; cases hr
  | ok rA =>
    obtain ⟨sA, evA⟩ := rA
    simp only [hA] at hr
    cases hB : byzPhase P o r.height r.byz sA with
    | error e => simp only [hB] at hr; cases hr
    | ok rB =>
      obtain ⟨sB, evB⟩ := rB
      simp only [hB] at hr
      cases hC : maturityPhase P.unbond r.height sB with
      | error e => simp only [hC] at hr; cases hr
      | ok rC =>
        obtain ⟨sC, evC⟩ := rC
        simp only [hC] at hr
        cases hr
        have fA := absencePhase_sameValue P r.height grace r.votes _ sA evA hA
        have idA := absencePhase_ids P r.height grace r.votes _ sA evA hA
        have idB := byzPhase_ids P o r.height r.byz sA sB evB hB
        obtain ⟨new, hfr, hnew⟩ := byzPhase_frozen P o r.height r.byz sA sB evB hB
        obtain ⟨hbal, _⟩ := byzPhase_frame P o r.height r.byz sA sB evB hB
        obtain ⟨hf', hb', _⟩ := maturityPhase_effect P.unbond r.height hu sB s' evC hC
        refine ⟨sA, evA, new, rfl, ?_, ?_, hnew⟩
        · rw [hf', hfr, fA.frozen, idB, idA]; rfl
        · rw [hb', hfr, fA.frozen, hbal, fA.balances]

/-- **Nothing returns earlier, nothing stays longer.** A fund that is not due at this height is still there afterwards: same
    owner, coin, due height, origin and move target; its value is between 0 and the old value, and it is untouched unless a
    candidate id punished in this block matches it inside the punishment window.  No fund stored under `h` is left. -/
theorem not_due_survives (P : Params) (o : Oracle) (s s' : State) (r : BeginReq) (grace : Bool) (ev : List BEvent)
    (hu : 0 < P.unbond) (hr : beginBlock P o s r grace = .ok (s', ev)) :
    (∀ f ∈ s'.frozen, f.height ≠ r.height) ∧
    ∃ sA evA, absencePhase P r.height grace r.votes { s with rewardsPool := 0 } = .ok (sA, evA) ∧
    ∀ f ∈ s.frozen, f.height ≠ r.height →
      ∃ f' ∈ s'.frozen, f'.height = f.height ∧ f'.addr = f.addr ∧ f'.candKey = f.candKey ∧ f'.candId = f.candId
        ∧ f'.coin = f.coin ∧ f'.moveTo = f.moveTo
        ∧ (0 ≤ f.value → 0 ≤ f'.value ∧ f'.value ≤ f.value)
        ∧ ((∀ cid ∈ byzPunishedIds P o r.height r.byz sA, inWindow r.height (r.height + P.unbond) cid f = false) → f' = f) := by
  obtain ⟨sA, evA, new, hA, hfr, _, _⟩ := frozen_released_only_when_due P o s s' r grace ev hu hr
  constructor
  · intro f hf
    rw [hfr] at hf
    rcases List.mem_append.mp hf with hf | hf
    · have := (List.mem_filter.mp hf).2
      simpa [dueAt] using this
    · obtain ⟨_, _, _, _, _, _, hh, _⟩ := refrozenOf_mem _ _ _ _ f hf
      omega
  · refine ⟨sA, evA, hA, fun f hf hd => ?_⟩
    obtain ⟨a1, a2, a3, a4, a5, a6⟩ := slashBy_fields r.height (r.height + P.unbond) (byzPunishedIds P o r.height r.byz sA) f
    refine ⟨slashBy r.height (r.height + P.unbond) (byzPunishedIds P o r.height r.byz sA) f, ?_, a1, a2, a3, a4, a5, a6,
      slashBy_value_le _ _ _ _, slashBy_untouched _ _ _ _⟩
    rw [hfr]
    apply List.mem_append_left
    apply List.mem_filter.mpr
    refine ⟨List.mem_append_left _ (List.mem_map.mpr ⟨f, hf, rfl⟩), ?_⟩
    simp [dueAt, a1, hd]

/-- Without evidence in the block every fund that is not due stays exactly as it is; the only new funds are the re-frozen
    moves towards candidates that no longer exist. -/
theorem no_evidence_funds_untouched (P : Params) (o : Oracle) (s s' : State) (r : BeginReq) (grace : Bool) (ev : List BEvent)
    (hu : 0 < P.unbond) (hr : beginBlock P o s r grace = .ok (s', ev)) (hb : r.byz = []) :
    s'.frozen = s.frozen.filter (fun f => !dueAt r.height f) ++ refrozenOf P.unbond r.height (s.candidates.map (·.id)) s.frozen
    ∧ s'.balances = creditAll (s.frozen.filter (dueAt r.height)) s.balances := by
  obtain ⟨sA, evA, new, hA, _, _, _⟩ := frozen_released_only_when_due P o s s' r grace ev hu hr
  simp only [beginBlock, hA, hb, byzPhase] at hr
  cases hC : maturityPhase P.unbond r.height sA with
  | error e => simp only [hC] at hr; cases hr
  | ok rC =>
    obtain ⟨sC, evC⟩ := rC
    simp only [hC] at hr
    cases hr
    obtain ⟨hf', hbal, _⟩ := maturityPhase_effect P.unbond r.height hu sA s' evC hC
    have fA := absencePhase_sameValue P r.height grace r.votes _ sA evA hA
    have idA := absencePhase_ids P r.height grace r.votes _ sA evA hA
    constructor
    · rw [hf', fA.frozen, idA]; rfl
    · rw [hbal, fA.frozen, fA.balances]

/-- **Balances change only by matured non-move funds.** The balance of `(owner, coin)` after BeginBlock at `h` is the balance
    before plus the (possibly slashed) values of the funds of that owner and coin stored under `h` that are not moves.  In
    particular a balance none of whose owner's funds is due does not change at all. -/
theorem balances_only_matured (P : Params) (o : Oracle) (s s' : State) (r : BeginReq) (grace : Bool) (ev : List BEvent)
    (hu : 0 < P.unbond) (hr : beginBlock P o s r grace = .ok (s', ev)) :
    ∃ due : List Frozen, (∀ f ∈ due, f.height = r.height ∧ ∃ g, (g ∈ s.frozen ∨ g.height = r.height + P.unbond) ∧ g.height = f.height
                            ∧ g.addr = f.addr ∧ g.coin = f.coin ∧ g.moveTo = f.moveTo)
      ∧ ∀ k, Bag.get s'.balances k
          = Bag.get s.balances k + sumBy (fun f => if f.moveTo = 0 ∧ (f.addr, f.coin) = k then f.value else 0) due := by
  obtain ⟨sA, evA, new, hA, hfr, hb, hnew⟩ := frozen_released_only_when_due P o s s' r grace ev hu hr
  refine ⟨_, ?_, fun k => by rw [hb, creditAll_get]⟩
  intro f hf
  obtain ⟨hmem, hdue⟩ := List.mem_filter.mp hf
  refine ⟨by simpa [dueAt] using hdue, ?_⟩
  rcases List.mem_append.mp hmem with h1 | h1
  · obtain ⟨g, hg, rfl⟩ := List.mem_map.mp h1
    obtain ⟨a1, a2, _, _, a5, a6⟩ := slashBy_fields r.height (r.height + P.unbond) (byzPunishedIds P o r.height r.byz sA) g
    exact ⟨g, Or.inl hg, a1.symm, a2.symm, a5.symm, a6.symm⟩
  · exact ⟨f, Or.inr (hnew f h1).1, rfl, rfl, rfl, rfl⟩

theorem balance_unchanged_without_due_fund (P : Params) (o : Oracle) (s s' : State) (r : BeginReq) (grace : Bool) (ev : List BEvent)
    (hr : beginBlock P o s r grace = .ok (s', ev)) (hu : 0 < P.unbond) (k : Addr × Coin)
    (hk : ∀ f ∈ s.frozen, f.height = r.height → f.moveTo = 0 → (f.addr, f.coin) ≠ k) :
    Bag.get s'.balances k = Bag.get s.balances k := by
  obtain ⟨due, hdue, hget⟩ := balances_only_matured P o s s' r grace ev hu hr
  rw [hget k]
  suffices h : sumBy (fun f => if f.moveTo = 0 ∧ (f.addr, f.coin) = k then f.value else 0) due = 0 by omega
  have hz : ∀ f ∈ due, (if f.moveTo = 0 ∧ (f.addr, f.coin) = k then f.value else 0) = 0 := by
    intro f hf
    obtain ⟨hh, g, hg, g1, g2, g3, g4⟩ := hdue f hf
    rcases hg with hg | hg
    · by_cases hm : f.moveTo = 0
      · have := hk g hg (g1.trans hh) (g4.trans hm)
        rw [g2, g3] at this
        simp [this]
      · simp [hm]
    · omega
  clear hget hdue
  induction due with
  | nil => simp [sumBy]
  | cons x t ih =>
    simp only [sumBy]
    rw [hz x (List.mem_cons_self ..), ih (fun f hf => hz f (List.mem_cons_of_mem _ hf))]
    rfl

/-! ### Moves -/

/-- **move_never_to_balance.** A matured move (`MoveToCandidateID ≠ 0`) leaves every balance as it is.  Either its target
    candidate exists and the coins are appended, with bip value 0, to that candidate's updates; or the target is gone and the
    coins are re-frozen as an unbond of the same owner due `h + unbond` (they reach the balance only one unbond period later,
    as any coins leaving a stake). -/
theorem move_never_to_balance (u h : Nat) (f : Frozen) (s s' : State) (e : List BEvent) (hm : f.moveTo ≠ 0)
    (hr : matureOne u h f s = .ok (s', e)) :
    s'.balances = s.balances
    ∧ ((∃ c, findFirst (candById f.moveTo) s.candidates = some c
          ∧ findFirst (candById f.moveTo) s'.candidates
              = some { c with updates := c.updates ++ [{ owner := f.addr, coin := f.coin, value := f.value, bip := 0 }] }
          ∧ s'.frozen = s.frozen)
       ∨ (findFirst (candById f.moveTo) s.candidates = none ∧ s'.candidates = s.candidates
          ∧ s'.frozen = s.frozen ++ [{ f with height := h + u, moveTo := 0 }])) := by
  cases hc : findFirst (candById f.moveTo) s.candidates with
  | none =>
    rw [matureOne_refreeze u h f s hm hc] at hr
    cases hr
    exact ⟨rfl, Or.inr ⟨rfl, rfl, rfl⟩⟩
  | some c =>
    obtain ⟨hb, hf, h2, _, _⟩ := matureOne_move u h f s s' e hm c hc hr
    exact ⟨hb, Or.inl ⟨c, rfl, h2, hf⟩⟩

/-- A non-move fund is credited to its owner and touches no candidate and no fund. -/
theorem unbond_to_balance (u h : Nat) (f : Frozen) (s s' : State) (e : List BEvent) (hm : f.moveTo = 0)
    (hr : matureOne u h f s = .ok (s', e)) :
    s'.balances = Bag.add s.balances (f.addr, f.coin) f.value ∧ s'.candidates = s.candidates ∧ s'.frozen = s.frozen := by
  obtain ⟨hb, hc, hf, _⟩ := matureOne_credit u h f s s' e hm hr
  exact ⟨hb, hc, hf⟩

/-- **A move towards a candidate that no longer exists is unbonded** (fix 0ed8cf3; before it the node dereferenced the missing
    candidate — finding F9): no panic, no balance, no candidate changes; the coins become a fund of the same owner, coin, value
    and origin that is not a move and is due exactly one unbond period after this height. -/
theorem move_to_missing_target_unbonds (u h : Nat) (f : Frozen) (s : State) (hm : f.moveTo ≠ 0)
    (hc : findFirst (candById f.moveTo) s.candidates = none) :
    ∃ g, matureOne u h f s = .ok ({ s with frozen := s.frozen ++ [g] }, [])
      ∧ g.height = h + u ∧ g.moveTo = 0 ∧ g.addr = f.addr ∧ g.coin = f.coin ∧ g.value = f.value
      ∧ g.candKey = f.candKey ∧ g.candId = f.candId :=
  ⟨refreeze u h f, matureOne_refreeze u h f s hm hc, rfl, rfl, rfl, rfl, rfl, rfl, rfl⟩

theorem updates_grow_one (u h : Nat) (g : Frozen) (s s1 : State) (e : List BEvent) (hr : matureOne u h g s = .ok (s1, e))
    (id : Nat) (c : Candidate) (hc : findFirst (candById id) s.candidates = some c) :
    ∃ c1, findFirst (candById id) s1.candidates = some c1 ∧ ∀ x ∈ c.updates, x ∈ c1.updates := by
  by_cases h0 : g.moveTo = 0
  · obtain ⟨_, hcd, _, _⟩ := matureOne_credit u h g s s1 e h0 hr
    exact ⟨c, by rw [hcd]; exact hc, fun x hx => hx⟩
  · cases hg : findFirst (candById g.moveTo) s.candidates with
    | none =>
      rw [matureOne_refreeze u h g s h0 hg] at hr
      cases hr
      exact ⟨c, hc, fun x hx => hx⟩
    | some cg =>
      obtain ⟨_, _, _, hcd, _⟩ := matureOne_move u h g s s1 e h0 cg hg hr
      rcases findFirst_updFirst_cases (candById id) (candById g.moveTo) (addUpdate g) s.candidates (fun _ => rfl) with h' | ⟨x, hx, h'⟩
      · exact ⟨c, by rw [hcd, h']; exact hc, fun x hx => hx⟩
      · rw [hc] at hx; cases hx
        exact ⟨addUpdate g c, by rw [hcd, h'], fun x hx => by simp [addUpdate, hx]⟩

theorem frozen_grows (u h : Nat) (l : List Frozen) (s s' : State) (ev : List BEvent) (hr : matureAll u h l s = .ok (s', ev)) :
    ∀ x ∈ s.frozen, x ∈ s'.frozen := by
  intro x hx
  rw [(matureAll_effect u h l s s' ev hr).2.1]
  exact List.mem_append_left _ hx

theorem updates_grow (u h : Nat) (l : List Frozen) (s s' : State) (ev : List BEvent) (hr : matureAll u h l s = .ok (s', ev))
    (id : Nat) (c : Candidate) (hc : findFirst (candById id) s.candidates = some c) :
    ∃ c1, findFirst (candById id) s'.candidates = some c1 ∧ ∀ x ∈ c.updates, x ∈ c1.updates := by
  induction l generalizing s ev c with
  | nil => simp only [matureAll] at hr; cases hr; exact ⟨c, hc, fun x hx => hx⟩
  | cons g t ih =>
    simp only [matureAll] at hr
    cases h1 : matureOne u h g s with
    | error e => simp only [h1] at hr; cases hr
    | ok r1 =>
      obtain ⟨s1, e1⟩ := r1
      simp only [h1] at hr
      cases h2 : matureAll u h t s1 with
      | error e => simp only [h2] at hr; cases hr
      | ok r2 =>
        obtain ⟨s2, e2⟩ := r2
        simp only [h2] at hr
        cases hr
        obtain ⟨c1, hc1, hs1⟩ := updates_grow_one u h g s s1 e1 h1 id c hc
        obtain ⟨c2, hc2, hs2⟩ := ih s1 e2 h2 c1 hc1
        exact ⟨c2, hc2, fun x hx => hs2 x (hs1 x hx)⟩

/-- **Moved coins reach their target — or are unbonded.** After the funds of a height have been applied, every move among
    them sits in the updates of its target candidate, or (target gone) as an unbond fund due `h + unbond` in the frozen funds. -/
theorem moves_reach_target (u h : Nat) (l : List Frozen) (s s' : State) (ev : List BEvent) (hr : matureAll u h l s = .ok (s', ev)) :
    ∀ f ∈ l, f.moveTo ≠ 0 →
      (∃ c', findFirst (candById f.moveTo) s'.candidates = some c'
        ∧ ({ owner := f.addr, coin := f.coin, value := f.value, bip := 0 } : Stake) ∈ c'.updates)
      ∨ (findFirst (candById f.moveTo) s'.candidates = none ∧ ({ f with height := h + u, moveTo := 0 } : Frozen) ∈ s'.frozen) := by
  induction l generalizing s ev with
  | nil => intro f hf; cases hf
  | cons g t ih =>
    simp only [matureAll] at hr
    cases h1 : matureOne u h g s with
    | error e => simp only [h1] at hr; cases hr
    | ok r1 =>
      obtain ⟨s1, e1⟩ := r1
      simp only [h1] at hr
      cases h2 : matureAll u h t s1 with
      | error e => simp only [h2] at hr; cases hr
      | ok r2 =>
        obtain ⟨s2, e2⟩ := r2
        simp only [h2] at hr
        cases hr
        intro f hf hm
        rcases List.mem_cons.mp hf with rfl | hf
        · obtain ⟨_, hcase⟩ := move_never_to_balance u h f s s1 e1 hm h1
          rcases hcase with ⟨c, _, hc1, _⟩ | ⟨hnone, hcd, hfz⟩
          · obtain ⟨cb, hcb, hsub⟩ := updates_grow u h t s1 s' e2 h2 f.moveTo _ hc1
            exact Or.inl ⟨cb, hcb, hsub _ (by simp)⟩
          · right
            constructor
            · -- the set of candidate ids never changes during maturity
              have hid := (matureAll_effect u h t s1 s' e2 h2).2.2.2.ids
              rw [findFirst_candById_none, hid, hcd, ← findFirst_candById_none]
              exact hnone
            · exact frozen_grows u h t s1 s' e2 h2 _ (by rw [hfz]; simp)
        · exact ih s1 e2 h2 f hf hm

/-! ### Leaving a stake by punishment or removal -/

/-- **leave_creates_frozen (byzantine unbonding).** The rest of every stake of a punished candidate becomes a fund of the
    delegator due exactly `h + unbond` that is not a move; these funds are appended after the existing ones. -/
theorem leave_creates_frozen (P : Params) (o : Oracle) (h a : Nat) (s s' : State) (ev : List BEvent)
    (v : Validator) (c : Candidate) (ht : byzTarget a s = some (v, c)) (hr : byzStep P o h a s = .ok (s', ev)) :
    s'.frozen = s.frozen.map (slashItem h (h + P.unbond) c.id)
        ++ c.stakes.map (fun st => { height := h + P.unbond, addr := st.owner, candKey := some c.pubkey, candId := c.id,
                                      coin := st.coin, value := st.value * 95 / 100, moveTo := 0 }) :=
  (byzStep_hit P o h a s s' ev v c ht hr).1

/-- Candidate removal: every stake and update becomes a fund of its owner due exactly `h + unbond`, in full. -/
theorem removal_funds_due (u h : Nat) (c : Candidate) :
    (∀ f ∈ removalFunds u h c, f.height = h + u ∧ f.moveTo = 0 ∧ f.candId = c.id)
    ∧ (removalFunds u h c).map (fun f => (f.addr, f.coin, f.value)) = (c.stakes ++ c.updates).map (fun st => (st.owner, st.coin, st.value)) := by
  constructor
  · intro f hf
    obtain ⟨st, _, rfl⟩ := List.mem_map.mp hf
    exact ⟨rfl, rfl, rfl⟩
  · simp [removalFunds, List.map_map, Function.comp_def]

/-! ### Creation by transactions -/

/-- An accepted Unbond creates a fund of the sender due exactly one unbond period after the block, not a move. -/
theorem unbond_due (P : Params) (s : State) (sender : Addr) (pk : PubKey) (coin : Coin) (value : Int) (block : Nat) (f : Frozen)
    (h : unbondFund P s sender pk coin value block = .ok f) :
    f.height = block + P.unbond ∧ f.addr = sender ∧ f.coin = coin ∧ f.value = value ∧ f.moveTo = 0 ∧ f.candKey = some pk := by
  unfold unbondFund at h
  split at h
  · cases h
  · split at h
    · cases h
    · cases h; exact ⟨rfl, rfl, rfl, rfl, rfl, rfl⟩

/-- **locked_cannot_unbond.** While the sender's stake is locked (`LockStakeUntilBlock > block`) Unbond is rejected (416). -/
theorem locked_cannot_unbond (P : Params) (s : State) (sender : Addr) (pk : PubKey) (coin : Coin) (value : Int) (block : Nat)
    (h : block < lockStakeUntil s sender) : unbondFund P s sender pk coin value block = .error 416 := by
  unfold unbondFund
  have : lockStakeUntil s sender > block := h
  simp [this]

/-- An accepted MoveStake creates a fund due exactly one move period after the block whose target is an existing candidate's id. -/
theorem move_due_and_target_exists (P : Params) (s : State) (sender : Addr) (fromPk toPk : PubKey) (coin : Coin) (value : Int)
    (block : Nat) (f : Frozen) (h : moveFund P s sender fromPk toPk coin value block = .ok f) :
    f.height = block + P.move ∧ f.addr = sender ∧ f.coin = coin ∧ f.value = value ∧ f.candKey = some fromPk
    ∧ ∃ c, findFirst (candByPub toPk) s.candidates = some c ∧ c.pubkey = toPk ∧ f.moveTo = c.id := by
  unfold moveFund at h
  split at h
  · cases h
  · cases hc : beginCandByKey s toPk with
    | none => simp only [hc] at h; cases h
    | some c =>
      simp only [hc] at h
      split at h
      · cases h
      · cases h
        have hp := findFirst_some _ _ _ hc
        simp only [candByPub, beq_iff_eq] at hp
        exact ⟨rfl, rfl, rfl, rfl, rfl, c, hc, hp, rfl⟩

/-- A move towards a key that is not a candidate is rejected (403). -/
theorem move_to_unknown_rejected (P : Params) (s : State) (sender : Addr) (fromPk toPk : PubKey) (coin : Coin) (value : Int)
    (block : Nat) (hne : fromPk ≠ toPk) (hc : beginCandByKey s toPk = none) :
    moveFund P s sender fromPk toPk coin value block = .error 403 := by
  simp [moveFund, hne, hc]

/-- An accepted Lock creates a fund due exactly at its due block, which lies in the future; it is nobody's stake. -/
theorem lock_due (s : State) (sender : Addr) (due : Nat) (coin : Coin) (value : Int) (block : Nat) (f : Frozen)
    (h : lockFund s sender due coin value block = .ok f) :
    f.height = due ∧ block < due ∧ f.addr = sender ∧ f.coin = coin ∧ f.value = value ∧ f.moveTo = 0 ∧ f.candId = 0 := by
  unfold lockFund at h
  split at h
  · cases h
  · next hd =>
    split at h
    · cases h
    · cases h; exact ⟨rfl, by omega, rfl, rfl, rfl, rfl, rfl, ⟩

/-- **Exactly one period, end to end.** A fund in the state whose due height is not the current height is kept by BeginBlock
    (previous theorems); when the height is its due height it is removed, and — not being a move and with no evidence in the
    block — its full value is part of what the owner's balance gains. -/
theorem due_fund_is_paid (P : Params) (o : Oracle) (s s' : State) (r : BeginReq) (grace : Bool) (ev : List BEvent)
    (hu : 0 < P.unbond) (hr : beginBlock P o s r grace = .ok (s', ev)) (hb : r.byz = []) :
    s'.balances = creditAll (s.frozen.filter (dueAt r.height)) s.balances
    ∧ s'.frozen = s.frozen.filter (fun f => !dueAt r.height f) ++ refrozenOf P.unbond r.height (s.candidates.map (·.id)) s.frozen :=
  let h := no_evidence_funds_untouched P o s s' r grace ev hu hr hb
  ⟨h.2, h.1⟩

-- non-vacuity
private def candEx (id pk : Nat) : Candidate :=
  { id := id, pubkey := pk, owner := 1, reward := 1, control := 2, commission := 10, status := 2, jailedUntil := 0,
    lastEditCommission := 0, totalBip := 100, stakes := [], updates := [] }
private def sFr : State :=
  { candidates := [candEx 1 7, candEx 2 8], lockStake := [(21, 500)],
    coins := [{ id := 5, symbol := "X", version := 0, volume := 1000, reserve := 1000, crr := 100, maxSupply := 10000, owner := none,
                mintable := false, burnable := false }],
    frozen := [{ height := 100, addr := 21, candKey := some 7, candId := 1, coin := 0, value := 40, moveTo := 0 },
               { height := 100, addr := 22, candKey := some 7, candId := 1, coin := 5, value := 50, moveTo := 2 },
               { height := 100, addr := 23, candKey := none, candId := 0, coin := 5, value := 60, moveTo := 0 },
               { height := 101, addr := 21, candKey := some 7, candId := 1, coin := 0, value := 70, moveTo := 0 }] }
private def noOracle : Oracle := fun _ => none
private def viewBal (r : M (State × List BEvent)) : List ((Nat × Nat) × Int) × List Nat :=
  match r with
  | .ok (s', _) => (s'.balances, s'.frozen.map (·.height))
  | .error _ => ([], [])
private def viewUpd (r : M (State × List BEvent)) : List (List (Nat × Nat × Int × Int)) :=
  match r with
  | .ok (s', _) => s'.candidates.map (fun c => c.updates.map (fun u => (u.owner, u.coin, u.value, u.bip)))
  | .error _ => []

-- at height 100: the unbond and the lock are paid, the move becomes an update of candidate 2, the fund due at 101 stays
example : viewBal (beginBlock {} noOracle sFr { height := 100 } false) = ([((21, 0), 40), ((23, 5), 60)], [101]) := by decide
example : viewUpd (beginBlock {} noOracle sFr { height := 100 } false) = [[], [(22, 5, 50, 0)]] := by decide
-- a move towards candidate id 9, which does not exist (any more), is unbonded: due 100 + 531, not a move, no balance
private def sGone : State :=
  { sFr with frozen := [{ height := 100, addr := 22, candKey := some 7, candId := 1, coin := 5, value := 50, moveTo := 9 }] }
private def viewFr (r : M (State × List BEvent)) : List (Nat × Nat × Nat × Int × Nat) :=
  match r with
  | .ok (s', _) => s'.frozen.map (fun f => (f.height, f.addr, f.coin, f.value, f.moveTo))
  | .error _ => []
example : viewFr (beginBlock {} noOracle sGone { height := 100 } false) = [(631, 22, 5, 50, 0)] := by decide
example : viewBal (beginBlock {} noOracle sGone { height := 100 } false) = ([], [631]) := by decide
example : viewUpd (beginBlock {} noOracle sGone { height := 100 } false) = [[], []] := by decide
-- at height 99 nothing happens
example : viewBal (beginBlock {} noOracle sFr { height := 99 } false) = ([], [100, 100, 100, 101]) := by decide
-- transactions: an unbond at block 10 is due at 541, a move at 187 towards candidate id 2, a lock exactly at its due block
example : (unbondFund {} sFr 22 7 0 5 10).toOption.map (fun f => (f.height, f.moveTo)) = some (541, 0) := by decide
example : (moveFund {} sFr 22 7 8 0 5 10).toOption.map (fun f => (f.height, f.moveTo)) = some (187, 2) := by decide
example : (lockFund sFr 22 77 5 9 10).toOption.map (fun f => (f.height, f.moveTo)) = some (77, 0) := by decide
private def errOf (x : Except Nat Frozen) : Option Nat := match x with | .error c => some c | .ok _ => none
example : errOf (unbondFund {} sFr 21 7 0 5 499) = some 416 := by decide
example : (unbondFund {} sFr 21 7 0 5 500).toOption.map (·.height) = some 1031 := by decide
example : errOf (moveFund {} sFr 22 7 9 0 5 10) = some 403 := by decide
example : errOf (lockFund sFr 22 10 5 9 10) = some 123 := by decide

end Minter
