import MinterModel.Rules
import Mathlib.Tactic.Linarith
import Mathlib.Data.List.Nodup
import Mathlib.Data.List.Pairwise
/-
  C20 — governance threshold.
  "A commission-price change, a network-version update or a halt takes effect at the voted height if and only if the
   validators that voted for the same proposal hold strictly more than 2/3 of the voting power of the validators present in
   that block.  When several proposals compete, the one with the largest support wins.  Votes for past heights, and duplicate
   votes from the same candidate for the same height, are rejected."

  The theorems are about `Minter.Rules.{passesCode, calcPowers, tallyHalt, tallyVersion, tallyCommission, voteCheck}`
  (MinterModel/Rules.lean), the definitions that the harness mode `rules` evaluates next to the real
  `isMoreThanTwoThirds`, `calculatePowers`, `isApplicationHalted`, `isUpdateCommissionsBlockV2`, `isUpdateNetworkBlockV2`
  and the real vote transactions.
-/
namespace Minter
namespace Rules

/-! ### Threshold -/

/-- The comparison the code makes is exactly "strictly more than two thirds". -/
theorem passesCode_iff (voted total : Int) : passesCode voted total = true ↔ 3 * voted > 2 * total := by
  unfold passesCode cmpInt
  split
  · constructor
    · intro h; simp at h
    · intro h; omega
  · split
    · constructor
      · intro h; simp at h
      · intro h; omega
    · constructor
      · intro _; omega
      · intro _; rfl

/-- The code's comparison coincides with the specification predicate `passes` used by the node monitors. -/
theorem passesCode_eq_passes (voted total : Int) : passesCode voted total = passes voted total := by
  have h := passesCode_iff voted total
  unfold passes
  by_cases hp : 3 * voted > 2 * total
  · rw [h.mpr hp]; simp [hp]
  · have : passesCode voted total = false := by
      cases hc : passesCode voted total
      · rfl
      · exact absurd (h.mp hc) hp
    rw [this]; simp [hp]

example : passesCode 2 3 = false ∧ passesCode 3 4 = true ∧ passesCode 200000000000000000001 300000000000000000000 = true := by decide

/-! ### Sums over voters -/

theorem votedPower_nil (ps : Powers) : votedPower ps [] = 0 := rfl

theorem votedPower_cons (ps : Powers) (k : PubKey) (l : List PubKey) :
    votedPower ps (k :: l) = (ps.lookup k).getD 0 + votedPower ps l := rfl

theorem votedPower_append (ps : Powers) (l1 l2 : List PubKey) :
    votedPower ps (l1 ++ l2) = votedPower ps l1 + votedPower ps l2 := by
  induction l1 with
  | nil => simp [votedPower_nil]
  | cons a t ih => simp only [List.cons_append, votedPower_cons, ih]; omega

theorem votedPower_nonneg (ps : Powers) (hp : ∀ x ∈ ps, 0 ≤ x.2) (l : List PubKey) : 0 ≤ votedPower ps l := by
  induction l with
  | nil => simp [votedPower_nil]
  | cons a t ih =>
    rw [votedPower_cons]
    have : 0 ≤ (ps.lookup a).getD 0 := by
      cases h : ps.lookup a with
      | none => simp
      | some v =>
        have hm : (a, v) ∈ ps := by
          have := List.lookup_eq_some_iff (l := ps) (k := a) (b := v) |>.mp h
          obtain ⟨l1, l2, rfl, _⟩ := this
          simp
        simpa using hp _ hm
    omega

/-- Splitting the sum at the first entry of the power table. -/
theorem votedPower_cons_table (k0 : PubKey) (w0 : Int) (rest : Powers) (l : List PubKey) (hl : l.Nodup) :
    votedPower ((k0, w0) :: rest) l = (if k0 ∈ l then w0 else 0) + votedPower rest (l.filter (fun k => !(k == k0))) := by
  induction l with
  | nil => simp [votedPower_nil]
  | cons a t ih =>
    have hnd := List.nodup_cons.mp hl
    have ih' := ih hnd.2
    rw [votedPower_cons, ih']
    by_cases hak : a = k0
    · subst hak
      have hnot : a ∉ t := hnd.1
      simp [List.lookup, hnot]
    · have hne : (a == k0) = false := by simpa using hak
      have hk0 : (k0 ∈ a :: t) ↔ k0 ∈ t := by
        constructor
        · intro h; rcases List.mem_cons.mp h with h | h
          · exact absurd h.symm hak
          · exact h
        · intro h; exact List.mem_cons_of_mem _ h
      simp only [List.lookup, hne, List.filter_cons, Bool.not_false, if_true, votedPower_cons, hk0]
      omega

/-- Distinct voters cannot hold more than the whole table. -/
theorem votedPower_le_sum (ps : Powers) (hp : ∀ x ∈ ps, 0 ≤ x.2) (l : List PubKey) (hl : l.Nodup) :
    votedPower ps l ≤ sumPowers ps := by
  induction ps generalizing l with
  | nil =>
    have : votedPower [] l = 0 := by
      induction l with
      | nil => rfl
      | cons a t ih => rw [votedPower_cons, ih (List.nodup_cons.mp hl).2]; simp
    simp [this, sumPowers, sumBy]
  | cons e rest ih =>
    obtain ⟨k0, w0⟩ := e
    rw [votedPower_cons_table k0 w0 rest l hl]
    have hw : 0 ≤ w0 := by simpa using hp (k0, w0) (by simp)
    have hrest := ih (fun x hx => hp x (List.mem_cons_of_mem _ hx)) (l.filter (fun k => !(k == k0))) (hl.filter _)
    have hs : sumPowers ((k0, w0) :: rest) = w0 + sumPowers rest := rfl
    rw [hs]
    split <;> omega

/-! ### `calculatePowers` -/

theorem sumPowers_nonneg (ps : Powers) (hp : ∀ x ∈ ps, 0 ≤ x.2) : 0 ≤ sumPowers ps := by
  induction ps with
  | nil => simp [sumPowers, sumBy]
  | cons e rest ih =>
    have h1 : 0 ≤ e.2 := hp e (by simp)
    have h2 := ih (fun x hx => hp x (List.mem_cons_of_mem _ hx))
    have : sumPowers (e :: rest) = e.2 + sumPowers rest := rfl
    omega

/-- Only present validators that are not being dropped have power; the total is their sum (1 when that is zero), hence positive. -/
theorem calcPowers_spec (vals : List ValInfo) (hs : ∀ v ∈ vals, 0 ≤ v.stake) :
    (∀ x ∈ (calcPowers vals).1, ∃ v ∈ vals, v.toDrop = false ∧ v.present = true ∧ x = (v.pubkey, v.stake)) ∧
    (∀ x ∈ (calcPowers vals).1, 0 ≤ x.2) ∧
    0 < (calcPowers vals).2 ∧ sumPowers (calcPowers vals).1 ≤ (calcPowers vals).2 := by
  have hmem : ∀ x ∈ (calcPowers vals).1, ∃ v ∈ vals, v.toDrop = false ∧ v.present = true ∧ x = (v.pubkey, v.stake) := by
    intro x hx
    simp only [calcPowers, List.mem_map, List.mem_filter] at hx
    obtain ⟨v, ⟨hv, hc⟩, rfl⟩ := hx
    refine ⟨v, hv, ?_, ?_, rfl⟩
    · cases h : v.toDrop <;> simp [h] at hc ⊢
    · cases h : v.present <;> simp [h] at hc ⊢
  have hnn : ∀ x ∈ (calcPowers vals).1, 0 ≤ x.2 := by
    intro x hx
    obtain ⟨v, hv, _, _, rfl⟩ := hmem x hx
    exact hs v hv
  refine ⟨hmem, hnn, ?_, ?_⟩
  · have := sumPowers_nonneg _ hnn
    simp only [calcPowers] at this ⊢
    split <;> omega
  · simp only [calcPowers]
    split <;> omega

example : calcPowers [⟨1, 5, false, true⟩, ⟨2, 7, true, true⟩, ⟨3, 9, false, false⟩, ⟨4, 1, false, true⟩] = ([(1, 5), (4, 1)], 6) := by decide
example : calcPowers [⟨2, 7, true, true⟩] = ([], 1) := by decide

/-! ### The winner of a tally -/

theorem tallyStep_lt (ps : Powers) (acc : Int × String) (p : Proposal) (h : acc.1 < votedPower ps p.2) :
    tallyStep ps acc p = (votedPower ps p.2, p.1) := by
  unfold tallyStep; simp [h]

theorem tallyStep_ge (ps : Powers) (acc : Int × String) (p : Proposal) (h : votedPower ps p.2 ≤ acc.1) :
    tallyStep ps acc p = acc := by
  unfold tallyStep
  have : ¬ acc.1 < votedPower ps p.2 := by omega
  simp [this]

theorem foldl_tally_keep (ps : Powers) (l : List Proposal) (acc : Int × String)
    (h : ∀ q ∈ l, votedPower ps q.2 ≤ acc.1) : l.foldl (tallyStep ps) acc = acc := by
  induction l generalizing acc with
  | nil => rfl
  | cons a t ih =>
    have ha : votedPower ps a.2 ≤ acc.1 := h a (by simp)
    have hstep : tallyStep ps acc a = acc := by
      unfold tallyStep
      simp only
      split
      · omega
      · rfl
    rw [List.foldl_cons, hstep]
    exact ih acc (fun q hq => h q (List.mem_cons_of_mem _ hq))

theorem foldl_tally_lt (ps : Powers) (l : List Proposal) (acc : Int × String) (b : Int)
    (hacc : acc.1 < b) (h : ∀ q ∈ l, votedPower ps q.2 < b) : (l.foldl (tallyStep ps) acc).1 < b := by
  induction l generalizing acc with
  | nil => simpa using hacc
  | cons a t ih =>
    rw [List.foldl_cons]
    apply ih
    · unfold tallyStep
      simp only
      split
      · exact h a (by simp)
      · exact hacc
    · intro q hq; exact h q (List.mem_cons_of_mem _ hq)

/-- Accumulator invariant of the tally loop. -/
theorem foldl_tally_inv (ps : Powers) (l : List Proposal) (acc : Int × String) :
    acc.1 ≤ (l.foldl (tallyStep ps) acc).1 ∧
    (∀ q ∈ l, votedPower ps q.2 ≤ (l.foldl (tallyStep ps) acc).1) ∧
    (l.foldl (tallyStep ps) acc = acc ∨ ∃ p ∈ l, l.foldl (tallyStep ps) acc = (votedPower ps p.2, p.1)) := by
  induction l generalizing acc with
  | nil => simp
  | cons a t ih =>
    rw [List.foldl_cons]
    obtain ⟨h1, h2, h3⟩ := ih (tallyStep ps acc a)
    have hstep : acc.1 ≤ (tallyStep ps acc a).1 ∧ votedPower ps a.2 ≤ (tallyStep ps acc a).1 ∧
        (tallyStep ps acc a = acc ∨ tallyStep ps acc a = (votedPower ps a.2, a.1)) := by
      unfold tallyStep
      simp only
      split
      · refine ⟨by simp; omega, by simp, Or.inr rfl⟩
      · refine ⟨by omega, by omega, Or.inl rfl⟩
    refine ⟨by omega, ?_, ?_⟩
    · intro q hq
      rcases List.mem_cons.mp hq with rfl | hq
      · omega
      · exact h2 q hq
    · rcases h3 with h3 | ⟨p, hp, h3⟩
      · rcases hstep.2.2 with h4 | h4
        · left; rw [h3, h4]
        · right; exact ⟨a, by simp, by rw [h3, h4]⟩
      · right; exact ⟨p, List.mem_cons_of_mem _ hp, h3⟩

/-- **The proposal with the largest support wins**: the winner's power bounds every proposal's power, and the winner is
    either nobody (no proposal has positive support: power 0, empty text) or one of the proposals with exactly that power. -/
theorem tally_largest_wins (ps : Powers) (props : List Proposal) :
    (∀ q ∈ props, votedPower ps q.2 ≤ (tallyWinner ps props).1) ∧
    (tallyWinner ps props = (0, "") ∨ ∃ p ∈ props, tallyWinner ps props = (votedPower ps p.2, p.1)) := by
  obtain ⟨_, h2, h3⟩ := foldl_tally_inv ps props (0, "")
  exact ⟨h2, h3⟩

/-- A strict maximum is found wherever it stands in the list. -/
theorem tally_strict_max (ps : Powers) (props : List Proposal) (p : Proposal) (hp : p ∈ props)
    (hpos : 0 < votedPower ps p.2) (hmax : ∀ q ∈ props, q ≠ p → votedPower ps q.2 < votedPower ps p.2) :
    tallyWinner ps props = (votedPower ps p.2, p.1) := by
  obtain ⟨l1, l2, hsplit, hnot⟩ := List.eq_append_cons_of_mem hp
  subst hsplit
  unfold tallyWinner
  rw [List.foldl_append, List.foldl_cons]
  have h1 : (l1.foldl (tallyStep ps) (0, "")).1 < votedPower ps p.2 := by
    apply foldl_tally_lt
    · simpa using hpos
    · intro q hq
      apply hmax q (by simp [hq])
      intro h; subst h; exact hnot hq
  rw [tallyStep_lt ps _ p h1]
  apply foldl_tally_keep
  intro q hq
  by_cases hqp : q = p
  · subst hqp; simp
  · have := hmax q (by simp [hq]) hqp
    simp only
    omega

/-! ### Decision ⇔ a proposal with more than two thirds -/

/-- Well-formedness of the stored proposals for one height (what the vote transactions guarantee): different proposals have
    different texts and disjoint voters (one vote per candidate and height), no voter is listed twice. -/
structure VotesWF (props : List Proposal) : Prop where
  pairwise : props.Pairwise (fun p q => p.1 ≠ q.1 ∧ ∀ k, k ∈ p.2 → k ∉ q.2)
  nodup : ∀ p ∈ props, p.2.Nodup

/-- Two different proposals together cannot hold more than the total power. -/
theorem two_proposals_le_total (ps : Powers) (total : Int) (props : List Proposal) (hwf : VotesWF props)
    (hp : ∀ x ∈ ps, 0 ≤ x.2) (htot : sumPowers ps ≤ total)
    (p q : Proposal) (hpm : p ∈ props) (hqm : q ∈ props) (hne : p ≠ q) :
    votedPower ps p.2 + votedPower ps q.2 ≤ total := by
  have hsym : Std.Symm (fun p q : Proposal => p.1 ≠ q.1 ∧ ∀ k, k ∈ p.2 → k ∉ q.2) :=
    ⟨fun a b ⟨h1, h2⟩ => ⟨fun h => h1 h.symm, fun k hk hk' => h2 k hk' hk⟩⟩
  have hdis := hwf.pairwise.forall hpm hqm hne
  have hnd : (p.2 ++ q.2).Nodup := by
    rw [List.nodup_append]
    refine ⟨hwf.nodup p hpm, hwf.nodup q hqm, ?_⟩
    intro a ha b hb hab
    subst hab
    exact hdis.2 a ha hb
  have := votedPower_le_sum ps hp (p.2 ++ q.2) hnd
  rw [votedPower_append] at this
  omega

/-- **Uniqueness**: two different proposals cannot both exceed two thirds of the power. -/
theorem at_most_one_passes (ps : Powers) (total : Int) (props : List Proposal) (hwf : VotesWF props)
    (hp : ∀ x ∈ ps, 0 ≤ x.2) (htot : sumPowers ps ≤ total)
    (p q : Proposal) (hpm : p ∈ props) (hqm : q ∈ props)
    (h1 : 3 * votedPower ps p.2 > 2 * total) (h2 : 3 * votedPower ps q.2 > 2 * total) : p = q := by
  by_contra hne
  have := two_proposals_le_total ps total props hwf hp htot p q hpm hqm hne
  have hpn := votedPower_nonneg ps hp p.2
  have hqn := votedPower_nonneg ps hp q.2
  omega

/-- **C20, version votes.** With the votes stored for a height well-formed and the power table that of `calculatePowers`
    (non-negative powers, `total` at least their sum), the version update decided by the code is `name` if and only if some
    stored proposal with that text holds strictly more than two thirds of the total power. -/
theorem effective_iff (ps : Powers) (total : Int) (props : List Proposal) (hwf : VotesWF props)
    (hp : ∀ x ∈ ps, 0 ≤ x.2) (htot : sumPowers ps ≤ total) (name : String) :
    tallyVersion ps total props = some name ↔
      ∃ p ∈ props, p.1 = name ∧ 3 * votedPower ps p.2 > 2 * total := by
  have htot0 : 0 ≤ total := le_trans (sumPowers_nonneg ps hp) htot
  constructor
  · intro h
    unfold tallyVersion at h
    split at h
    · cases h
    · simp only at h
      split at h
      · next hpass =>
        cases h
        have hgt := (passesCode_iff _ _).mp hpass
        rcases (tally_largest_wins ps props).2 with h0 | ⟨p, hpm, hw⟩
        · rw [h0] at hgt; simp at hgt; omega
        · refine ⟨p, hpm, ?_, ?_⟩
          · rw [hw]
          · rw [hw] at hgt; simpa using hgt
      · cases h
  · rintro ⟨p, hpm, rfl, hgt⟩
    have hpos : 0 < votedPower ps p.2 := by omega
    have hmax : ∀ q ∈ props, q ≠ p → votedPower ps q.2 < votedPower ps p.2 := by
      intro q hqm hne
      have := two_proposals_le_total ps total props hwf hp htot q p hqm hpm hne
      have hqn := votedPower_nonneg ps hp q.2
      omega
    have hw := tally_strict_max ps props p hpm hpos hmax
    unfold tallyVersion
    have hne : props.isEmpty = false := by
      cases props with
      | nil => cases hpm
      | cons _ _ => rfl
    simp only [hne, Bool.false_eq_true, if_false, hw]
    rw [(passesCode_iff _ _).mpr hgt]
    simp

/-- **C20, commission votes**: the same, for non-empty proposal texts (an encoded price table is never empty). -/
theorem effective_iff_commission (ps : Powers) (total : Int) (props : List Proposal) (hwf : VotesWF props)
    (hp : ∀ x ∈ ps, 0 ≤ x.2) (htot : sumPowers ps ≤ total) (name : String) (hname : name.isEmpty = false) :
    tallyCommission ps total props = some name ↔
      ∃ p ∈ props, p.1 = name ∧ 3 * votedPower ps p.2 > 2 * total := by
  rw [← effective_iff ps total props hwf hp htot name]
  unfold tallyCommission
  constructor
  · intro h
    split at h
    · next p hp' =>
      split at h
      · cases h
      · cases h; exact hp'
    · cases h
  · intro h
    rw [h]
    simp [hname]

/-- **C20, halt votes**: the node halts at a height iff the distinct validators that voted to halt there hold strictly more
    than two thirds of the power. -/
theorem halt_iff (ps : Powers) (total : Int) (votes : List PubKey) :
    tallyHalt ps total votes = true ↔ 3 * votedPower ps votes > 2 * total := by
  unfold tallyHalt
  exact passesCode_iff _ _

/-- The decision of the code coincides with the node-monitor specification `passes` applied to the winner. -/
theorem tallyVersion_none_iff (ps : Powers) (total : Int) (props : List Proposal) (hwf : VotesWF props)
    (hp : ∀ x ∈ ps, 0 ≤ x.2) (htot : sumPowers ps ≤ total) :
    tallyVersion ps total props = none ↔ ∀ p ∈ props, 3 * votedPower ps p.2 ≤ 2 * total := by
  constructor
  · intro h p hpm
    by_contra hgt
    have : tallyVersion ps total props = some p.1 :=
      (effective_iff ps total props hwf hp htot p.1).mpr ⟨p, hpm, rfl, by omega⟩
    rw [h] at this; cases this
  · intro h
    cases hv : tallyVersion ps total props with
    | none => rfl
    | some name =>
      obtain ⟨p, hpm, _, hgt⟩ := (effective_iff ps total props hwf hp htot name).mp hv
      have := h p hpm
      omega

-- non-vacuity: three validators with powers 5, 3, 2 (total 10); proposal "a" has 5+2 = 7 > 20/3, proposal "b" has 3.
example : tallyVersion [(1, 5), (2, 3), (3, 2)] 10 [("b", [2]), ("a", [1, 3])] = some "a" := by decide
example : tallyVersion [(1, 5), (2, 3), (3, 2)] 10 [("b", [2, 3]), ("a", [1])] = none := by decide
-- exactly two thirds does not pass
example : tallyVersion [(1, 2), (2, 2), (3, 2)] 6 [("a", [1, 2])] = none := by decide
example : tallyHalt [(1, 2), (2, 2), (3, 2)] 6 [1, 2] = false ∧ tallyHalt [(1, 2), (2, 2), (3, 3)] 7 [1, 3] = true := by decide
example : VotesWF [("b", [2]), ("a", [1, 3])] :=
  ⟨by simp, by intro p hp; simp at hp; rcases hp with rfl | rfl <;> simp⟩

/-! ### Vote validity -/

/-- A vote for a height below the current block is rejected (code 120). -/
theorem vote_past_rejected (typ voteHeight block : Nat) (ex : Bool) (h : voteHeight < block) :
    voteCheck typ voteHeight block ex = some codeVoteExpired := by
  unfold voteCheck; simp [h]

/-- A second vote of the same candidate for the same height is rejected (118 for halts, 121 otherwise). -/
theorem vote_duplicate_rejected (typ voteHeight block : Nat) (stored : List (Height × PubKey)) (k : PubKey)
    (hdup : (voteHeight, k) ∈ stored) :
    voteCheck typ voteHeight block (voteExists stored voteHeight k) ≠ none := by
  have hex : voteExists stored voteHeight k = true := by
    unfold voteExists
    rw [List.any_eq_true]
    exact ⟨(voteHeight, k), hdup, by simp⟩
  unfold voteCheck
  rw [hex]
  split
  · simp
  · simp

/-- Exactly the votes for the current or a future height that are not yet stored pass the check. -/
theorem vote_accepted_iff (typ voteHeight block : Nat) (stored : List (Height × PubKey)) (k : PubKey) :
    voteCheck typ voteHeight block (voteExists stored voteHeight k) = none ↔
      block ≤ voteHeight ∧ (voteHeight, k) ∉ stored := by
  unfold voteCheck
  have hex : voteExists stored voteHeight k = true ↔ (voteHeight, k) ∈ stored := by
    unfold voteExists
    rw [List.any_eq_true]
    constructor
    · rintro ⟨⟨h', k'⟩, hm, hc⟩
      simp at hc
      obtain ⟨rfl, rfl⟩ := hc
      exact hm
    · intro hm; exact ⟨(voteHeight, k), hm, by simp⟩
  by_cases hlt : voteHeight < block
  · have : ¬ block ≤ voteHeight := by omega
    simp [hlt, this]
  · simp only [hlt, if_false]
    by_cases hm : (voteHeight, k) ∈ stored
    · rw [hex.mpr hm]; simp [hm]
    · have : voteExists stored voteHeight k = false := by
        cases hv : voteExists stored voteHeight k
        · rfl
        · exact absurd (hex.mp hv) hm
      rw [this]; simp [hm]; omega

/-- Accepting a vote keeps the stored votes duplicate free (the well-formedness `effective_iff` relies on). -/
theorem vote_store_nodup (stored : List (Height × PubKey)) (hnd : stored.Nodup) (typ voteHeight block : Nat) (k : PubKey)
    (hacc : voteCheck typ voteHeight block (voteExists stored voteHeight k) = none) :
    ((voteHeight, k) :: stored).Nodup := by
  have := (vote_accepted_iff typ voteHeight block stored k).mp hacc
  exact List.nodup_cons.mpr ⟨this.2, hnd⟩

example : voteCheck 15 9 10 false = some 120 ∧ voteCheck 15 10 10 true = some 118 ∧ voteCheck 33 10 10 true = some 121 ∧
    voteCheck 32 10 10 false = none := by decide

end Rules
end Minter
