import MinterProofs.OrdersLemmas
/-
  C13 with limit orders: every pool trade, with or without limit-order fills, leaves the product of the two reserves no
  smaller than before and never pays out more than the pool holds — for ANY order book (positive volumes) and ANY
  answers of the float oracle `calculateAddAmountsForPrice`.

  Shape of the argument.  `SellWithOrders` / `BuyWithOrders` apply to the reserves, without any further check, the
  aggregate of the walk (`CalcDiffPool`).  We show that this aggregate is the closed form
      r0' = r0 + (input spent) − Σ fills.buy          r1' = r1 − (output obtained) + Σ fills.sell
  and that it dominates the reserves of the virtual pair at the end of the walk, whose product only grows:
  curve steps are validated by `checkSwap` (`checkSwap_sound`), a fully consumed order adds both commissions
  (`orderStep_K`), a partial fill adds its commissions and the rounding slack.
-/
namespace Minter.Lob
open Minter

/-- Consuming an order at its own price adds both commissions to the reserves: the product does not decrease. -/
theorem orderStep_K (r0 r1 : Int) (o : Order) (h0 : 0 < r0) (h1 : 0 < r1) (hb : 0 ≤ o.wantBuy) (hs : 0 ≤ o.wantSell) :
    0 < r0 + com1000 o.wantBuy ∧ 0 < r1 + com1000 o.wantSell ∧
    r0 * r1 ≤ (r0 + com1000 o.wantBuy) * (r1 + com1000 o.wantSell) := by
  have hcb := com1000_nonneg _ hb
  have hcs := com1000_nonneg _ hs
  refine ⟨by omega, by omega, ?_⟩
  nlinarith [mul_nonneg hcb hcs, mul_nonneg hcb (le_of_lt h1), mul_nonneg (le_of_lt h0) hcs]

/-- A curve step accepted by the node's own `checkSwap` keeps both reserves positive and the plain product no smaller. -/
theorem curveStep_K (r0 r1 a0 a1 : Int) (h0 : 0 < r0) (h1 : 0 < r1) (ha : 0 ≤ a0)
    (h : checkSwap r0 r1 a0 a1 = none) :
    0 < a1 ∧ 0 < r1 - a1 ∧ r0 * r1 ≤ (r0 + a0) * (r1 - a1) := by
  obtain ⟨hpos, hle, hk⟩ := checkSwap_sound r0 r1 a0 a1 h0 h1 h
  have hk0 : 0 < r0 * r1 * 1000000 := by positivity
  have hne : r1 - a1 ≠ 0 := by
    intro he
    rw [he] at hk
    simp at hk
    omega
  have hp : 0 < r1 - a1 := by omega
  refine ⟨hpos, hp, ?_⟩
  nlinarith [mul_nonneg ha (le_of_lt hp)]

/-! ### the step in front of an order -/

theorem walkToPrice_move (O : Oracle) (r0 r1 : Int) (o : Order) (a0 a1 : Int)
    (h : walkToPrice O r0 r1 o = .move a0 a1) : 0 < a0 ∧ buyForSell r0 r1 a0 = some a1 := by
  unfold walkToPrice at h
  split at h
  · split at h
    · cases h
    · split at h
      · cases h
      · next a hO =>
        split at h
        · cases h
        · next hpos =>
          split at h
          · cases h
          · next a1' hb =>
            cases h
            exact ⟨by omega, hb⟩
  · cases h

theorem preSell_go (O : Oracle) (r0 r1 rest : Int) (o : Order) (r0' r1' rest' add : Int)
    (h0 : 0 < r0) (h1 : 0 < r1) (hr : 0 ≤ rest)
    (h : preSell O r0 r1 rest o = .go r0' r1' rest' add) :
    0 < r0' ∧ 0 < r1' ∧ 0 ≤ rest' ∧ 0 ≤ add ∧ r0' + rest' = r0 + rest ∧ r1' + add = r1 ∧ r0 * r1 ≤ r0' * r1' := by
  unfold preSell at h
  split at h
  · cases h
  · cases h
    exact ⟨h0, h1, hr, le_refl _, rfl, by omega, le_refl _⟩
  · next a0 a1 hw =>
    obtain ⟨ha0, _⟩ := walkToPrice_move O r0 r1 o a0 a1 hw
    split at h
    · cases h
    · next hlt =>
      split at h
      · cases h
      · next hc =>
        obtain ⟨hp, hq, hk⟩ := curveStep_K r0 r1 a0 a1 h0 h1 (le_of_lt ha0) hc
        injection h with e1 e2 e3 e4
        subst e1 e2 e3 e4
        exact ⟨by omega, hq, by omega, by omega, by omega, by omega, hk⟩

theorem preBuy_go (O : Oracle) (r0 r1 rest : Int) (o : Order) (r0' r1' rest' add : Int)
    (h0 : 0 < r0) (h1 : 0 < r1) (hr : 0 ≤ rest)
    (h : preBuy O r0 r1 rest o = .go r0' r1' rest' add) :
    0 < r0' ∧ 0 < r1' ∧ 0 ≤ rest' ∧ 0 ≤ add ∧ r0' = r0 + add ∧ r1' - rest' = r1 - rest ∧ r0 * r1 ≤ r0' * r1' := by
  unfold preBuy at h
  split at h
  · cases h
  · cases h
    exact ⟨h0, h1, hr, le_refl _, by omega, rfl, le_refl _⟩
  · next a0 a1 hw =>
    obtain ⟨ha0, _⟩ := walkToPrice_move O r0 r1 o a0 a1 hw
    split at h
    · cases h
    · next hlt =>
      split at h
      · cases h
      · next hc =>
        obtain ⟨hp, hq, hk⟩ := curveStep_K r0 r1 a0 a1 h0 h1 (le_of_lt ha0) hc
        injection h with e1 e2 e3 e4
        subst e1 e2 e3 e4
        exact ⟨by omega, hq, by omega, by omega, rfl, by omega, hk⟩

/-! ### the last step through the curve -/

theorem finalSell_spec (r0 r1 rest out : Int) (fs : List Fill) (h0 : 0 < r0) (h1 : 0 < r1) (hr : 0 ≤ rest)
    (h : finalSell r0 r1 rest = .ok out fs) :
    fs = [] ∧ 0 ≤ out ∧ 0 < r1 - out ∧ r0 * r1 ≤ (r0 + rest) * (r1 - out) := by
  unfold finalSell at h
  split at h
  · cases h
    refine ⟨rfl, le_refl _, by omega, ?_⟩
    nlinarith [mul_nonneg hr (le_of_lt h1)]
  · next d hd =>
    split at h
    · next hc =>
      obtain ⟨hp, hq, hk⟩ := curveStep_K r0 r1 rest d h0 h1 hr hc
      injection h with e1 e2
      subst e1 e2
      exact ⟨rfl, by omega, hq, hk⟩
    · cases h

theorem finalBuy_spec (r0 r1 rest inp : Int) (fs : List Fill) (h0 : 0 < r0) (h1 : 0 < r1) (hr : 0 < rest)
    (h : finalBuy r0 r1 rest = .ok inp fs) :
    fs = [] ∧ 0 ≤ inp ∧ 0 < r1 - rest ∧ r0 * r1 ≤ (r0 + inp) * (r1 - rest) := by
  unfold finalBuy at h
  split at h
  · next hn =>
    -- `CalculateSellForBuy` answers nil only when the whole reserve (or more) is asked for: the node returns nil, nil
    have : rest ≥ r1 := by
      unfold sellForBuy at hn
      split at hn
      · assumption
      · cases hn
    split at h
    · cases h
    · next hc => omega
  · next d hd =>
    split at h
    · next hc =>
      obtain ⟨_, hdpos, _, _⟩ := sellForBuy_K r0 r1 rest d h0 h1 hr hd
      obtain ⟨hp, hq, hk⟩ := curveStep_K r0 r1 d rest h0 h1 (le_of_lt hdpos) hc
      injection h with e1 e2
      subst e1 e2
      exact ⟨rfl, le_of_lt hdpos, hq, hk⟩
    · cases h

/-! ### partial fills give non-negative amounts -/

theorem ratInt_nonneg (n d : Int) (hn : 0 ≤ n) (hd : 0 < d) : 0 ≤ ratInt n d := by
  unfold ratInt
  have h1 : 0 ≤ n.sign := Int.sign_nonneg_iff.mpr hn
  have h2 : d.sign = 1 := Int.sign_eq_one_of_pos hd
  rw [h2]
  have h3 : (0 : Int) ≤ (ratIntNat n.natAbs d.natAbs : Int) := Int.natCast_nonneg _
  nlinarith [mul_nonneg h1 h3]

theorem partialSellAmount_nonneg (o : Order) (a0 a1 : Int) (hb : 0 < o.wantBuy) (hs : 0 < o.wantSell) (ha : 0 ≤ a0)
    (h : partialSellAmount o a0 = .ok a1) : 0 ≤ a1 := by
  have hr : 0 ≤ ratInt (o.wantSell * a0) o.wantBuy := ratInt_nonneg _ _ (mul_nonneg (le_of_lt hs) ha) hb
  unfold partialSellAmount at h
  simp only at h
  split at h
  · cases h
  · cases h
    split <;> split <;> (try split) <;> omega

theorem partialBuyAmounts_spec (o : Order) (amount1 a0 a1 : Int) (hb : 0 < o.wantBuy) (hs : 0 < o.wantSell)
    (ha : 0 ≤ amount1) (h : partialBuyAmounts o amount1 = .ok (a0, a1)) : 0 ≤ a0 ∧ amount1 ≤ a1 := by
  have hr : 0 ≤ ratInt (amount1 * o.wantBuy) o.wantSell := ratInt_nonneg _ _ (mul_nonneg ha (le_of_lt hb)) hs
  unfold partialBuyAmounts at h
  simp only at h
  split at h
  · split at h
    · cases h; exact ⟨by omega, le_refl _⟩
    · cases h
  · split at h
    · cases h; exact ⟨hr, by omega⟩
    · cases h; exact ⟨hr, le_refl _⟩

/-! ### the walks -/

/-- **Sell walk.**  For any book with positive volumes and any oracle, a successful `calculateBuyForSellWithOrders`
    yields a non-negative output, and the reserves that `SellWithOrders` will write (closed form) are positive with a
    product at least the one before. -/
theorem sellLoop_K (O : Oracle) : ∀ (book : List Order) (r0 r1 rest out : Int) (fs : List Fill),
    (∀ o ∈ book, 0 < o.wantBuy ∧ 0 < o.wantSell) → 0 < r0 → 0 < r1 → 0 ≤ rest →
    sellLoop O book r0 r1 rest = .ok out fs →
    0 ≤ out ∧ 0 < r0 + rest - sumBuy fs ∧ 0 < r1 - out + sumSell fs ∧
    r0 * r1 ≤ (r0 + rest - sumBuy fs) * (r1 - out + sumSell fs) := by
  intro book
  induction book with
  | nil =>
    intro r0 r1 rest out fs _ h0 h1 hr h
    unfold sellLoop at h
    split at h
    · next hz => cases h; subst hz; simp; exact ⟨h0, h1⟩
    · obtain ⟨hfs, ho, hq, hk⟩ := finalSell_spec r0 r1 rest out fs h0 h1 hr h
      subst hfs
      simp only [sumBuy_nil, sumSell_nil, sub_zero, add_zero]
      exact ⟨ho, by omega, hq, hk⟩
  | cons o bk ih =>
    intro r0 r1 rest out fs hbook h0 h1 hr h
    have ho := hbook o (List.mem_cons_self ..)
    have hbk : ∀ x ∈ bk, 0 < x.wantBuy ∧ 0 < x.wantSell := fun x hx => hbook x (List.mem_cons_of_mem _ hx)
    unfold sellLoop at h
    split at h
    · next hz => cases h; subst hz; simp; exact ⟨h0, h1⟩
    · split at h
      · cases h
      · -- break: the rest goes through the curve
        obtain ⟨hfs, hout, hq, hk⟩ := finalSell_spec r0 r1 rest out fs h0 h1 hr h
        subst hfs
        simp only [sumBuy_nil, sumSell_nil, sub_zero, add_zero]
        exact ⟨hout, by omega, hq, hk⟩
      · next r0' r1' rest' add hpre =>
        obtain ⟨g0, g1, gr, ga, e0, e1, gk⟩ := preSell_go O r0 r1 rest o r0' r1' rest' add h0 h1 hr hpre
        simp only at h
        split at h
        · -- partial fill: the walk ends here
          next hle =>
          split at h
          · cases h
          · next amount1 hp =>
            cases h
            have hc1 := com1001_nonneg rest' gr
            have hc1' := com1001_le rest' gr
            have ha0 : 0 ≤ rest' - com1001 rest' := by omega
            have ha1 := partialSellAmount_nonneg o _ amount1 ho.1 ho.2 ha0 hp
            have hcs := com1000_nonneg amount1 ha1
            have hcl := com1000_le amount1 ha1
            simp only [sumBuy_cons, sumSell_cons, sumBuy_nil, sumSell_nil, add_zero]
            have e0' : r0 + rest - (rest' - com1001 rest') = r0' + com1001 rest' := by omega
            have e1' : r1 - (add + (amount1 - com1000 amount1)) + amount1 = r1' + com1000 amount1 := by omega
            rw [e0', e1']
            refine ⟨by omega, by omega, by omega, ?_⟩
            nlinarith [mul_nonneg hc1 hcs, mul_nonneg hc1 (le_of_lt g1), mul_nonneg (le_of_lt g0) hcs]
        · -- the order is consumed completely, the walk goes on
          next hgt =>
          have hrest := full_rest_nonneg rest' o.wantBuy gr (le_of_lt ho.1) hgt
          obtain ⟨s0, s1, sk⟩ := orderStep_K r0' r1' o g0 g1 (le_of_lt ho.1) (le_of_lt ho.2)
          generalize hrec : sellLoop O bk (r0' + com1000 o.wantBuy) (r1' + com1000 o.wantSell)
            (rest' - (o.wantBuy + com1000 o.wantBuy)) = rec at h
          cases rec with
          | nil => simp [Calc.add] at h
          | fault f => simp [Calc.add] at h
          | ok x fs' =>
            simp only [Calc.add] at h
            cases h
            obtain ⟨i0, i1, i2, i3⟩ := ih _ _ _ x fs' hbk s0 s1 hrest hrec
            have hcs := com1000_le o.wantSell (le_of_lt ho.2)
            simp only [sumBuy_cons, sumSell_cons, Order.fullFill]
            have e0' : r0 + rest - (o.wantBuy + sumBuy fs') =
                r0' + com1000 o.wantBuy + (rest' - (o.wantBuy + com1000 o.wantBuy)) - sumBuy fs' := by omega
            have e1' : r1 - (add + (o.wantSell - com1000 o.wantSell) + x) + (o.wantSell + sumSell fs') =
                r1' + com1000 o.wantSell - x + sumSell fs' := by omega
            rw [e0', e1']
            refine ⟨by omega, i1, i2, ?_⟩
            linarith

/-- **Buy walk.**  Same statement for `calculateSellForBuyWithOrders` (`rest` = output wanted, result = input needed). -/
theorem buyLoop_K (O : Oracle) : ∀ (book : List Order) (r0 r1 rest inp : Int) (fs : List Fill),
    (∀ o ∈ book, 0 < o.wantBuy ∧ 0 < o.wantSell) → 0 < r0 → 0 < r1 → 0 ≤ rest →
    buyLoop O book r0 r1 rest = .ok inp fs →
    0 ≤ inp ∧ 0 < r0 + inp - sumBuy fs ∧ 0 < r1 - rest + sumSell fs ∧
    r0 * r1 ≤ (r0 + inp - sumBuy fs) * (r1 - rest + sumSell fs) := by
  intro book
  induction book with
  | nil =>
    intro r0 r1 rest inp fs _ h0 h1 hr h
    unfold buyLoop at h
    split at h
    · next hz => cases h; subst hz; simp; exact ⟨h0, h1⟩
    · next hnz =>
      have hr' : 0 < rest := by omega
      obtain ⟨hfs, hi, hq, hk⟩ := finalBuy_spec r0 r1 rest inp fs h0 h1 hr' h
      subst hfs
      simp only [sumBuy_nil, sumSell_nil, sub_zero, add_zero]
      exact ⟨hi, by omega, hq, hk⟩
  | cons o bk ih =>
    intro r0 r1 rest inp fs hbook h0 h1 hr h
    have ho := hbook o (List.mem_cons_self ..)
    have hbk : ∀ x ∈ bk, 0 < x.wantBuy ∧ 0 < x.wantSell := fun x hx => hbook x (List.mem_cons_of_mem _ hx)
    unfold buyLoop at h
    split at h
    · next hz => cases h; subst hz; simp; exact ⟨h0, h1⟩
    · next hnz =>
      have hr' : 0 < rest := by omega
      split at h
      · cases h
      · obtain ⟨hfs, hi, hq, hk⟩ := finalBuy_spec r0 r1 rest inp fs h0 h1 hr' h
        subst hfs
        simp only [sumBuy_nil, sumSell_nil, sub_zero, add_zero]
        exact ⟨hi, by omega, hq, hk⟩
      · next r0' r1' rest' add hpre =>
        obtain ⟨g0, g1, gr, ga, e0, e1, gk⟩ := preBuy_go O r0 r1 rest o r0' r1' rest' add h0 h1 hr hpre
        simp only at h
        split at h
        · next hle =>
          split at h
          · cases h
          · next a0 a1 hp =>
            cases h
            have hc9 := com0999_nonneg rest' gr
            have ham : 0 ≤ rest' + com0999 rest' := by omega
            obtain ⟨ha0, ha1⟩ := partialBuyAmounts_spec o _ a0 a1 ho.1 ho.2 ham hp
            have hcb := com1000_nonneg a0 ha0
            simp only [sumBuy_cons, sumSell_cons, sumBuy_nil, sumSell_nil, add_zero]
            have e0' : r0 + (add + (a0 + com1000 a0)) - a0 = r0' + com1000 a0 := by omega
            have e1' : r1 - rest + a1 = r1' + (a1 - rest') := by omega
            rw [e0', e1']
            have hs : 0 ≤ a1 - rest' := by omega
            refine ⟨by omega, by omega, by omega, ?_⟩
            nlinarith [mul_nonneg hcb hs, mul_nonneg hcb (le_of_lt g1), mul_nonneg (le_of_lt g0) hs]
        · next hgt =>
          have hrest := full_rest_nonneg_buy rest' o.wantSell gr (le_of_lt ho.2) hgt
          obtain ⟨s0, s1, sk⟩ := orderStep_K r0' r1' o g0 g1 (le_of_lt ho.1) (le_of_lt ho.2)
          generalize hrec : buyLoop O bk (r0' + com1000 o.wantBuy) (r1' + com1000 o.wantSell)
            (rest' - (o.wantSell - com1000 o.wantSell)) = rec at h
          cases rec with
          | nil => simp [Calc.add] at h
          | fault f => simp [Calc.add] at h
          | ok x fs' =>
            simp only [Calc.add] at h
            cases h
            obtain ⟨i0, i1, i2, i3⟩ := ih _ _ _ x fs' hbk s0 s1 hrest hrec
            have hcb := com1000_nonneg o.wantBuy (le_of_lt ho.1)
            simp only [sumBuy_cons, sumSell_cons, Order.fullFill]
            have e0' : r0 + (add + (o.wantBuy + com1000 o.wantBuy) + x) - (o.wantBuy + sumBuy fs') =
                r0' + com1000 o.wantBuy + x - sumBuy fs' := by omega
            have e1' : r1 - rest + (o.wantSell + sumSell fs') =
                r1' + com1000 o.wantSell - (rest' - (o.wantSell - com1000 o.wantSell)) + sumSell fs' := by omega
            rw [e0', e1']
            refine ⟨by omega, i1, i2, ?_⟩
            linarith

/-! ### the entry points -/

/-- What `settle` writes is the closed form. -/
theorem settle_ok (r0 r1 : Int) (book : List Order) (a out : Int) (fs : List Fill) (ret : Int) (res : TradeResult)
    (h : settle r0 r1 book a out fs ret = .ok res) :
    res.amount = ret ∧ res.r0 = r0 + a - sumBuy fs ∧ res.r1 = r1 - out + sumSell fs ∧ res.fills = fs ∧
    res.credits = credits fs := by
  unfold settle calcDiffPool at h
  simp only at h
  split at h
  · cases h
  · cases h
    refine ⟨rfl, ?_, ?_, rfl, rfl⟩ <;> simp only <;> ring

/-- **C13, sell with orders.**  Any successful `SellWithOrders` on positive reserves, for any book of orders with
    positive volumes and any oracle answers: both reserves stay positive (the pool never pays out more than it holds,
    counting the commissions it receives in the same trade), their product does not decrease, the taker receives a
    positive amount. -/
theorem sellWithOrders_K (O : Oracle) (sorted : Bool) (r0 r1 : Int) (book : List Order) (amountIn : Int)
    (res : TradeResult) (hbook : ∀ o ∈ book, 0 < o.wantBuy ∧ 0 < o.wantSell) (h0 : 0 < r0) (h1 : 0 < r1)
    (h : sellWithOrders O sorted r0 r1 book amountIn = .ok res) :
    0 < res.r0 ∧ 0 < res.r1 ∧ r0 * r1 ≤ res.r0 * res.r1 ∧ 0 < res.amount := by
  unfold sellWithOrders at h
  split at h
  · cases h
  · simp only at h
    split at h
    · cases h
    · next hin hnet =>
      split at h
      · cases h
      · cases h
      · next out fs hloop =>
        split at h
        · cases h
        · next hout =>
          have hb' : ∀ o ∈ sortBook sorted book, 0 < o.wantBuy ∧ 0 < o.wantSell :=
            fun o ho => hbook o ((mem_sortBook sorted book o).mp ho)
          obtain ⟨_, k0, k1, kk⟩ := sellLoop_K O _ r0 r1 _ out fs hb' h0 h1 (by omega) hloop
          obtain ⟨ea, e0, e1, _, _⟩ := settle_ok _ _ _ _ _ _ _ _ h
          rw [e0, e1, ea]
          exact ⟨k0, k1, kk, by omega⟩

/-- **C13, buy with orders.** -/
theorem buyWithOrders_K (O : Oracle) (sorted : Bool) (r0 r1 : Int) (book : List Order) (amountOut : Int)
    (res : TradeResult) (hbook : ∀ o ∈ book, 0 < o.wantBuy ∧ 0 < o.wantSell) (h0 : 0 < r0) (h1 : 0 < r1)
    (h : buyWithOrders O sorted r0 r1 book amountOut = .ok res) :
    0 < res.r0 ∧ 0 < res.r1 ∧ r0 * r1 ≤ res.r0 * res.r1 ∧ 0 < res.amount := by
  unfold buyWithOrders at h
  split at h
  · cases h
  · next hpos =>
    split at h
    · cases h
    · cases h
    · next inp fs hloop =>
      split at h
      · cases h
      · next hinp =>
        have hb' : ∀ o ∈ sortBook sorted book, 0 < o.wantBuy ∧ 0 < o.wantSell :=
          fun o ho => hbook o ((mem_sortBook sorted book o).mp ho)
        obtain ⟨_, k0, k1, kk⟩ := buyLoop_K O _ r0 r1 _ inp fs hb' h0 h1 (by omega) hloop
        obtain ⟨ea, e0, e1, _, _⟩ := settle_ok _ _ _ _ _ _ _ _ h
        rw [e0, e1, ea]
        have := com0999_nonneg inp (by omega)
        exact ⟨k0, k1, kk, by omega⟩

/-! ### non-vacuity: a trade that walks the curve, consumes one order completely and fills the next one partially -/

def exBook : List Order :=
  [⟨1, 20000000000, 19000000000, 7, 100⟩, ⟨2, 30000000000, 27000000000, 8, 101⟩]

/-- An oracle answer of 10^7 for the first order (any positive number would do: the step is validated by `checkSwap`). -/
def exOracle : Oracle := fun _ _ _ _ => some 10000000

example : sellLoop exOracle exBook 1000000000000 1000000000000 30000000000 =
    .ok 27947049501 [⟨1, 20000000000, 19000000000, 7⟩, ⟨2, 9950049950, 8955044955, 8⟩] := by decide

example : buyLoop exOracle exBook 1000000000000 1000000000000 25000000000 =
    .ok 26718945000 [⟨1, 20000000000, 19000000000, 7⟩, ⟨2, 6672272727, 6005045455, 8⟩] := by decide

example : (∀ o ∈ exBook, 0 < o.wantBuy ∧ 0 < o.wantSell) := by decide

end Minter.Lob
